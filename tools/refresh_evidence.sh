#!/bin/sh
# Re-run every quick check on the unchanged tree so that the committed evidence comes from /verif run
# against /repo itself (never from a run against a seeded change).
cd "$(dirname "$0")/.."
if [ -n "$(git -C /repo status --porcelain --untracked-files=no)" ]; then echo "/repo has uncommitted changes: refusing"; exit 2; fi
rc=0
for p in C01 C02 C03 C04 C05 C06 C07 C08 C09 C10 C11 C12 C13 C14 C15 C16 C17 C18 C19 C20; do
  ./check $p quick 2>&1 | grep -E "VIOLATION|KNOWN|\[check\] C" | cut -c1-220 || true
  python3 - "$p" <<'PY' || rc=1
import json,sys
e=json.load(open('evidence/%s.json'%sys.argv[1]))
assert e.get('violations',0)==0, 'violations in evidence'
PY
done
exit $rc
