#!/bin/sh
# Build an independent copy of the machinery that checks ANOTHER checkout of ructe (e.g. a scratch
# worktree with a seeded change applied), so that /repo is not touched.
#   tools/mkalt.sh <alt-verif-dir> <alt-repo-dir>
# then:  VERIF_REPO=<alt-repo-dir> <alt-verif-dir>/check C05 quick
set -e
SRC="$(cd "$(dirname "$0")/.." && pwd)"
ALT=$1; REPO=$2
mkdir -p "$ALT"
rsync -a --delete --exclude .git --exclude replay --exclude evidence --exclude 'harness/target*' --exclude seeded --exclude findings "$SRC/" "$ALT/"
sed -i "s#ructe = { path = \"/repo\"#ructe = { path = \"$REPO\"#" "$ALT/harness/Cargo.toml"
[ -f "$REPO/Cargo.lock" ] || cp /repo/Cargo.lock "$REPO/Cargo.lock"
echo "alt machinery in $ALT for $REPO"
