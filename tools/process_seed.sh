#!/bin/sh
# confirm a seed in its scratch worktree, then run the given checks against it on an alt copy
# usage: process_seed.sh /tmp/seed7-C12 C12 [C18 ...]   -> log to /var/tmp/seedlog-<name>.txt
W=$1; shift
N=$(basename $W)
L=/var/tmp/seedlog-$N.txt
{
echo "### confirm"; sh /verif/tools/confirm_seed.sh $W
echo "### checks"; 
flock /var/tmp/alt.lock timeout 1800 sh /verif/tools/try_seed_alt.sh $W/_seed/patch.diff "$@"
} > $L 2>&1
