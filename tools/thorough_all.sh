#!/bin/sh
# every thorough check once (for `vp run --with-repo`: works on the snapshot of /repo in $VP_RUN_REPO)
# usage: tools/thorough_all.sh [props...]
cd "$(dirname "$0")/.."
if [ -n "$VP_RUN_REPO" ]; then
  sed -i "s#path = \"/repo\"#path = \"$VP_RUN_REPO\"#" harness/Cargo.toml
  export VERIF_REPO=$VP_RUN_REPO
  [ -f "$VP_RUN_REPO/Cargo.lock" ] || cp /repo/Cargo.lock "$VP_RUN_REPO/Cargo.lock"
fi
./setup.sh > setup.log 2>&1 || { echo "setup failed"; tail -20 setup.log; }
PROPS=${*:-C01 C02 C03 C04 C05 C06 C07 C08 C09 C10 C11 C12 C13 C14 C15 C16 C17 C18 C19 C20}
for p in $PROPS; do
  out=$(./check $p thorough 2>&1); rc=$?
  echo "$out" | grep -E "VIOLATION|KNOWN|\[check\] C|machinery" | cut -c1-300
  if [ $rc -ne 0 ]; then echo "ALARM prop=$p rc=$rc"; echo "$out" | tail -15; cp -r replay "replay-thorough-$p" 2>/dev/null; fi
done
