#!/usr/bin/env python3-vt
"""Validate MANIFEST.json and evidence files against the schemas (tooling venv has jsonschema)."""
import json, sys, glob, jsonschema
ms = json.load(open('/root/.vp/MANIFEST.schema.json'))
es = json.load(open('/root/.vp/EVIDENCE.schema.json'))
rc = 0
try:
    jsonschema.validate(json.load(open('/verif/MANIFEST.json')), ms); print('MANIFEST ok')
except Exception as e:
    print('MANIFEST INVALID', str(e)[:300]); rc = 1
for p in sorted(glob.glob('/verif/evidence/*.json')):
    try:
        jsonschema.validate(json.load(open(p)), es); print(p, 'ok')
    except Exception as e:
        print(p, 'INVALID', str(e)[:300]); rc = 1
sys.exit(rc)
