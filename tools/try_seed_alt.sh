#!/bin/sh
# run checks against a seeded change WITHOUT touching /repo: a scratch worktree + an alt copy of the machinery
#   tools/try_seed_alt.sh <patch> Cxx [Cyy ...]
P=$(readlink -f "$1"); shift
ALTREPO=/var/tmp/alt-repo; ALT=/var/tmp/alt-verif
git -C /repo worktree remove --force $ALTREPO 2>/dev/null; git -C /repo worktree prune
git -C /repo worktree add -q --detach $ALTREPO HEAD || exit 2
(cd $ALTREPO && git apply "$P") || exit 2
"$(dirname "$0")/mkalt.sh" $ALT $ALTREPO >/dev/null
for c in "$@"; do VERIF_REPO=$ALTREPO $ALT/check $c quick 2>&1 | grep -E "VIOLATION|KNOWN|\[check\] C" | cut -c1-300; done
git -C /repo worktree remove --force $ALTREPO; git -C /repo worktree prune
