#!/bin/sh
# confirm a seeded change in its scratch worktree: tests pass with it, demo fails with it and passes without
# usage: confirm_seed.sh /tmp/seed-Cxx
W=$1
cd $W || exit 2
export CARGO_NET_OFFLINE=true
git apply --check -R _seed/patch.diff 2>/dev/null || { git checkout -q -- src; git apply _seed/patch.diff || exit 2; }
echo "== tests with the change"; cargo test --workspace --no-fail-fast --offline 2>&1 | grep -E "^test result|FAILED" 
for f in verif-hooks sass mime03; do cargo check --offline --features $f 2>&1 | grep -E "^error" | head -2; done
echo "== demo with the change (expect non-zero)"; sh _seed/run_demo.sh >/dev/null 2>&1; echo "exit $?"
git apply -R _seed/patch.diff
echo "== demo without the change (expect 0)"; sh _seed/run_demo.sh >/dev/null 2>&1; echo "exit $?"
git apply _seed/patch.diff
