#!/usr/bin/env python3
"""Show where script-suite answers differ (impl vs model)."""
import sys
d=sys.argv[1]; limit=int(sys.argv[2]) if len(sys.argv)>2 else 3
imp=open(d+'/impl.txt').read().split('\n'); mod=open(d+'/model.txt').read().split('\n')
def parts(a):
    out={}
    for f in a.split('|'):
        k,_,v=f.partition('='); out[k]=v
    return out
def uh(h): return b'' if h in('-','') else bytes.fromhex(h)
n=0
for i,(a,b) in enumerate(zip(imp,mod)):
    if a==b: continue
    pa,pb=parts(a),parts(b)
    print('# line',i)
    for k in pa:
        if pa.get(k)!=pb.get(k):
            if k=='stdout':
                la=uh(pa[k]).decode('utf8','replace').split('\n'); lb=uh(pb.get(k,'-')).decode('utf8','replace').split('\n')
                print(' stdout impl :',[x for x in la if x not in lb][:6]); print(' stdout model:',[x for x in lb if x not in la][:6])
                if sorted(la)==sorted(lb): print('  (same lines, different order)', la[:8], lb[:8])
            elif k=='files':
                fa=dict(x.split(':') for x in pa[k].split(',') if x); fb=dict(x.split(':') for x in pb.get(k,'').split(',') if x)
                for p in sorted(set(fa)|set(fb)):
                    if fa.get(p)!=fb.get(p):
                        print(' file',uh(p).decode())
                        ca=uh(fa.get(p,'-')).decode('utf8','replace'); cb=uh(fb.get(p,'-')).decode('utf8','replace')
                        la=ca.split('\n'); lb=cb.split('\n')
                        for x,y in zip(la,lb):
                            if x!=y: print('   impl :',x[:300]); print('   model:',y[:300]); break
                        else: print('   lens',len(la),len(lb), 'impl has' if p in fa else 'impl lacks', 'model has' if p in fb else 'model lacks')
            else:
                print(' ',k,'impl :',[uh(x.split('=')[0]).decode('utf8','replace')+('='+uh(x.split('=')[1]).decode('utf8','replace') if '=' in x else '') for x in pa[k].split(',') if x][:10])
                print(' ',k,'model:',[uh(x.split('=')[0]).decode('utf8','replace')+('='+uh(x.split('=')[1]).decode('utf8','replace') if '=' in x else '') for x in pb.get(k,'').split(',') if x][:10])
    n+=1
    if n>=limit: break
