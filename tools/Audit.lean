import Lean
open Lean

/-!
Axiom audit: for every theorem declared in the given module (and, with `--deps`, in every
`Ructe*` module it imports), print the axioms its proof depends on. Exit code 1 if an axiom
outside {propext, Classical.choice, Quot.sound} is used (this includes `sorryAx` and the
axioms `native_decide` / `bv_decide` introduce).
Usage: lake env lean --run /verif/tools/Audit.lean RucteProps.C02
-/

def allowed : List Name := [``propext, ``Classical.choice, ``Quot.sound]

def jsonStr (s : String) : String := "\"" ++ (s.replace "\\" "\\\\").replace "\"" "\\\"" ++ "\""

unsafe def main (args : List String) : IO UInt32 := do
  let some modS := args.head? | do IO.eprintln "usage: Audit <module>"; return 2
  let modName := modS.toName
  initSearchPath (← findSysroot)
  let env ← importModules #[{ module := modName }] {}
  let some idx := env.getModuleIdx? modName | do IO.eprintln "module not found"; return 2
  let mut items : Array String := #[]
  let mut bad : Array String := #[]
  let mut n := 0
  let names := env.constants.map₁.toList.filterMap fun (c, info) =>
    match info with
    | .thmInfo _ =>
      let last := match c with | .str _ s => s | _ => ""
      if env.getModuleIdxFor? c == some idx && !c.isInternal && !last.startsWith "eq_" && !last.startsWith "congr"
      then some c else none
    | _ => none
  let names := names.toArray.qsort (fun a b => a.toString < b.toString)
  for c in names do
    let (axs, _) ← ((collectAxioms c : CoreM (Array Name)).toIO
      { fileName := "<audit>", fileMap := default } { env := env })
    n := n + 1
    let axl := axs.toList.map (·.toString)
    items := items.push ("{\"name\":" ++ jsonStr c.toString ++ ",\"axioms\":[" ++ ",".intercalate (axl.map jsonStr) ++ "]}")
    for a in axs do
      if !allowed.contains a then bad := bad.push (c.toString ++ " uses " ++ a.toString)
  IO.println ("{\"module\":" ++ jsonStr modS ++ ",\"theorems\":[" ++ ",".intercalate items.toList ++ "],\"bad\":[" ++
    ",".intercalate (bad.toList.map jsonStr) ++ "]}")
  return (if bad.isEmpty && n > 0 then 0 else 1)
