#!/usr/bin/env python3
"""Make a syntax-tree dump readable: replace hex fields by quoted text."""
import re, sys
def fmt(s):
    def rep(m):
        h = m.group(2)
        try:
            t = bytes.fromhex(h).decode('utf-8', 'replace')
        except ValueError:
            return m.group(0)
        return m.group(1) + repr(t)
    return re.sub(r'([XER\(\[,;])((?:[0-9a-f]{2})+)', rep, s)
if __name__ == '__main__':
    for l in sys.stdin:
        print(fmt(l.rstrip('\n')))
