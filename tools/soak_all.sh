#!/bin/sh
# soak for `vp run --with-repo`: every quick check under several seeds on the snapshot of /repo; prints only alarms
# usage: tools/soak_all.sh <first seed> <last seed>
cd "$(dirname "$0")/.."
if [ -n "$VP_RUN_REPO" ]; then
  sed -i "s#path = \"/repo\"#path = \"$VP_RUN_REPO\"#" harness/Cargo.toml
  export VERIF_REPO=$VP_RUN_REPO
  [ -f "$VP_RUN_REPO/Cargo.lock" ] || cp /repo/Cargo.lock "$VP_RUN_REPO/Cargo.lock"
fi
./setup.sh > setup.log 2>&1 || { echo "setup failed"; tail -20 setup.log; }
sh tools/soak.sh "$1" "$2"
