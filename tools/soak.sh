#!/bin/sh
# soak: every quick check under many seeds on the unchanged tree; prints only alarms
# usage: tools/soak.sh <first seed> <last seed> [props...]
cd "$(dirname "$0")/.."
A=$1; B=$2; shift 2
PROPS=${*:-C01 C02 C03 C04 C05 C06 C07 C08 C09 C10 C11 C12 C13 C14 C15 C16 C17 C18 C19 C20}
for s in $(seq $A $B); do
  for p in $PROPS; do
    out=$(VERIF_SEED=$s ./check $p quick 2>&1); rc=$?
    if [ $rc -ne 0 ]; then echo "ALARM seed=$s prop=$p rc=$rc"; echo "$out" | grep -E "VIOLATION|error|Traceback" | head -5; cp -r replay "replay-seed$s-$p" 2>/dev/null; fi
  done
  echo "seed $s done $(date +%H:%M:%S)"
done
