"""Per-property plans: which theorem module, which correspondence suites, which projection of the
answers is the correspondence, which oracle tags belong to the property."""
import json, os, re, subprocess

TRUSTED_BASE = [
    'Lean 4.33.0 kernel; axioms allowed in property theorems: propext, Classical.choice, Quot.sound (audited per theorem by tools/Audit.lean)',
    'the Lean model is hand-written (lean/RucteModel); it is tied to /repo by the differential correspondence harness (harness/, feature verif-hooks) and, for finite tables, by tools/translate.py',
    'a behaviour of the code that no generated case reaches is not covered by the tie; the generator distribution is in coverage.distribution',
]


def unhex(h):
    return b'' if h == '-' else bytes.fromhex(h)


def txt(h):
    return unhex(h).decode('utf-8', 'replace')


# ------------------------------------------------------------------------------ projections
def proj_identity(req, ans):
    return ans


def header_of(code):
    i = code.find('where W: Write {\n')
    return code if i < 0 else code[:i]


def proj_parse(kind):
    """projections of the `parse` suite answers (two lines per case: compile, ast)"""
    def f(req, ans):
        r = req.split(' ', 1)[0]
        a = ans.split(' ')
        if r == 'compile':
            if kind == 'accept':          # C11: accept / reject / panic + diagnostics position and echoed line
                if a[0] == 'err' and len(a) > 1:
                    d = txt(a[1])
                    out = []
                    for l in d.split('\n'):
                        l = l[len('cargo:warning='):] if l.startswith('cargo:warning=') else l
                        if l.startswith('     '):
                            out.append('col' + str(l[5:].find('^')))      # caret column, not the message
                        else:
                            out.append(l)
                    return 'err ' + '|'.join(out)
                return a[0]
            if kind == 'header':          # C13: the signature part of the generated code
                return a[0] + ' ' + (header_of(txt(a[1])) if a[0] == 'ok' and len(a) > 1 else '')
            if kind == 'text':            # C15 / C18: byte identity of the generated code
                return ans if a[0] == 'ok' else a[0]
            if kind == 'body':            # C01/C03/C04: body lines of the generated code
                if a[0] == 'ok' and len(a) > 1:
                    c = txt(a[1])
                    i = c.find('where W: Write {\n')
                    return 'ok ' + c[i:]
                return a[0]
            return a[0]
        if r == 'ast':
            if kind in ('accept', 'header'):
                return a[0]
            return ans if a[0] == 'ok' else a[0]
        return ans
    return f


PROJ = dict(identity=proj_identity, accept=proj_parse('accept'), header=proj_parse('header'),
            text=proj_parse('text'), body=proj_parse('body'))

HTML_ASSUME = ['Display impls hand their text to write_str in pieces and forward fmt::Error',
               'the sink follows a schedule of partial accepts / Interrupted / Ok(0) / permanent failure; an empty schedule accepts everything']

PLANS = {
    'C02': dict(
        module='RucteProps.C02',
        theorems=['Esc.C02.toHtml_any_schedule', 'Esc.C02.toHtml_prefix', 'Esc.C02.unescape_escape',
                  'Esc.C02.escape_no_raw', 'Esc.C02.entity_table_matches_source', 'Esc.C02.toHtml_decodes'],
        needs_tables=True,
        runs=[dict(suite='html', n=dict(quick=20000, thorough=600000), projection='identity', tags=['C02'])],
        correspondence='bytes accepted by the sink and Ok/Err result of ToHtml::to_html (public API) vs Esc.toHtmlDisplay, for the same (pieces, schedule)',
        rule='exhaustive: all strings over {<,>,&,",\',a,é,space} up to length 3 (quick) / 4 (thorough) x all compositions into pieces x all schedules over {accept 1, accept 2, accept all, Interrupted} up to length 3 / 4 (all schedules for the finest and coarsest chunkings, every 7th otherwise); random: long strings, random chunking, schedules with Ok(0) and permanent failure. non-trivial = text contains a special byte; distinct = distinct (mode, text)',
        assumptions=HTML_ASSUME,
        trusted=['std io::Write::write_all / write_fmt are modelled (library/std/src/io/mod.rs) and validated by the tie'],
        level_text='Theorems toHtml_any_schedule / toHtml_prefix / unescape_escape / escape_no_raw hold for every piece list and every sink schedule (no bound); the model is tied to templates/utils.rs by an exhaustive-plus-random differential run through the public ToHtml API and by a kernel-checked theorem over the entity table extracted from the source on every run.',
        level_note='Trusted: Lean kernel; the hand-written model of ToHtmlEscapingWriter and std write_all/write_fmt (validated by the tie); Display impls forward fmt::Error.',
        design_ref='DESIGN.md §6 C02',
    ),
    'C06': dict(
        module='RucteProps.C06',
        theorems=['Esc.C06.html_raw', 'Esc.C06.toBuffer_eq', 'Esc.C06.buffer_verbatim', 'Esc.C06.buffer_roundtrip',
                  'Esc.C06.toBuffer_idempotent', 'Esc.C06.escape_not_idempotent', 'Esc.C06.buffer_eq_iff'],
        runs=[dict(suite='html', n=dict(quick=20000, thorough=600000), projection='identity', tags=['C06'])],
        correspondence='sink bytes and result of Html(..).to_html, to_buffer(), HtmlBuffer::to_html, to_buffer().to_buffer() and the PartialEq impls vs Esc.toHtmlRaw / toBufferDisplay / bufferToHtml / bufferToBuffer / bufferEq',
        rule='same case stream as C02 with modes raw / buf / bufbuf; non-trivial = text contains a special byte; distinct = distinct (mode, text)',
        assumptions=HTML_ASSUME,
        trusted=['std io::Write::write_all / write_fmt are modelled and validated by the tie'],
        level_text='Theorems html_raw, toBuffer_eq, buffer_verbatim, buffer_roundtrip, toBuffer_idempotent, buffer_eq_iff hold for every text, chunking and schedule; escape_not_idempotent shows they are not vacuous. Tie: differential run through Html(..), to_buffer(), HtmlBuffer::to_html, as_ref and == of the public API.',
        level_note='Trusted: Lean kernel; the hand-written model of Html<T>, to_buffer, HtmlBuffer and std write_all (validated by the tie).',
        design_ref='DESIGN.md §6 C06',
    ),
    'C11': dict(
        module='RucteProps.C11',
        theorems=[],
        runs=[dict(suite='parse', mix='examples,mutate,tokens,nesting,exhaustive,structured',
                   n=dict(quick=6000, thorough=1000000), projection='accept', tags=['C11'])],
        correspondence='accept / reject / panic of template(), and for a rejection the line number, echoed line and caret column of every diagnostic, vs Ructe.template + Ructe.showErrors (message wording is not compared)',
        rule='token-alphabet strings (33 tokens) exhaustively to length 3 (quick) / 4 (thorough) behind a valid header, random token strings to length 9, mutations/splices of the example templates, structured templates, nesting 1..100 of every bracket / block kind closed and unclosed; non-trivial = distinct accepted syntax trees + rejected inputs with a diagnostic',
        assumptions=['stack exhaustion of the real recursion is runtime behaviour outside the model; nesting to 100 levels is exercised directly'],
        level_text='no_panic / reject_has_diag / diag_in_range style theorems about the model parser and show_errors for all byte strings; tie: differential run on accept/reject/panic and diagnostic positions; oracle on the implementation: no panic, at least one diagnostic, line/column inside the input, echoed line is the source line.',
        level_note='Trusted: Lean kernel; hand-written model of the nom-8 combinators and of ructe\'s grammar (validated by the tie); fuel adequacy (termination) is argued, see DESIGN.md.',
        design_ref='DESIGN.md §6 C11',
    ),
    'C01': dict(
        module='RucteProps.C01',
        theorems=[],
        runs=[dict(suite='parse', mix='examples,text,structured', n=dict(quick=4000, thorough=200000), projection='body',
                   tags=['C01'], literal_oracle=True)],
        correspondence='syntax tree of the parse and the body of the generated code vs Ructe.template / Ructe.writeRust; every printed text literal is decoded by the Lean model of rustc\'s literal lexer and compared with the text node',
        rule='every ASCII code point except @{} alone / at the start / middle / end of a run, at 7 nesting positions; random text over quotes, backslashes, CR/LF, NUL, controls, multi-byte scalars, escape look-alikes, the three escapes, comments; structured templates with their documented tree; non-trivial = distinct accepted syntax trees',
        assumptions=['rustc lexes literals as the Rust Reference says (modelled by decodeStrLit / decodeByteStrLit; rustc itself is the judge in the e2e runs)'],
        level_text='Literal round-trip theorems (decodeByteStrLit (escapeAscii t) = t, decodeStrLit (strDebug t) = t for every text and every uniEsc) + grammar lemmas; tie: differential run on tree and code, printed literals decoded by the model lexer.',
        level_note='Trusted: Lean kernel; hand-written model of the parser/emitter and of Rust literal syntax.',
        design_ref='DESIGN.md §6 C01',
    ),
    'C05': dict(
        module='RucteProps.C05',
        theorems=[],
        runs=[dict(suite='sub', n=dict(quick=20000, thorough=600000), projection='identity', tags=['C05']),
              dict(suite='parse', mix='structured,examples', n=dict(quick=2000, thorough=60000), projection='body', tags=['C05'])],
        correspondence='consumed length / value / error list of expression, expr_inside_parens, quoted_string, rust_comment and the other named sub-parsers, and the syntax tree + body code of whole templates, vs the Lean transcription',
        rule='expressions from the documented grammar (prefix, atom, postfix chain, nested groups with plain runs / strings with every supported escape and embedded delimiters / block comments with embedded delimiters and quotes / division followed by delimiters and quotes) x 18 follower classes; near-miss token strings through 15 sub-parsers; non-trivial = distinct documented fragments',
        assumptions=['the fragment is opaque Rust: that it reaches rustc unmodified is the correspondence on the printed code; that it is evaluated once is the e2e run'],
        level_text='Soundness theorems for the expression scanners (consumed prefix = value, suffix-respecting) + tie on extent for the documented grammar x follower classes; completeness (maximal munch) is validated by the generator oracle, not yet proved.',
        level_note='Trusted: Lean kernel; hand-written transcription of expression.rs (validated by the tie). K direction partial.',
        design_ref='DESIGN.md §6 C05',
    ),
    'C13': dict(
        module='RucteProps.C13',
        theorems=[],
        runs=[dict(suite='parse', mix='decl,examples,structured', n=dict(quick=4000, thorough=100000), projection='header', tags=['C13'])],
        correspondence='the printed signature (use lines, lifetime list, parameter lines) of every accepted template vs Ructe.fnHeader',
        rule='0..8 parameters over 16 type shapes incl. Content / ContentType / Contents / MyContent / &Content / Vec<Content>, 7 colon layouts, parameter names resembling internals, 0..3 use lines incl. renames/globs/nested braces; non-trivial = distinct accepted syntax trees',
        assumptions=['that calls with values of the declared types type-check is rustc\'s judgement (e2e)'],
        level_text='Theorems about printParam (only a parameter whose type is exactly Content is rewritten) and fnHeader (sink first, parameters in order, use lines verbatim); tie on the printed signature; independent oracle recomputes the expected parameter lines from the source.',
        level_note='Trusted: Lean kernel; hand-written model of write_rust.',
        design_ref='DESIGN.md §6 C13',
    ),
    'C15': dict(
        module='RucteProps.C15',
        theorems=[],
        runs=[dict(suite='parse', mix='structured', n=dict(quick=5000, thorough=150000), projection='text', tags=['C15'])],
        correspondence='generated code, byte for byte, of canonical and perturbed prints of the same source tree vs the model\'s single answer',
        rule='every structured template printed canonically and twice with random admissible layouts (white space, LF, CRLF, tabs, 8 comment shapes incl. `**@` endings) at every slot kind; non-trivial = distinct accepted syntax trees',
        assumptions=[],
        level_text='Metamorphic oracle on the implementation (canonical vs perturbed print give byte-identical code and the documented tree) + tie on the full text; spacelike soundness lemmas; the K theorem layout_irrelevant is not yet proved.',
        level_note='Trusted: Lean kernel; hand-written model; generator\'s notion of admissible layout.',
        design_ref='DESIGN.md §6 C15',
    ),
}


NOT_YET = {}


# ------------------------------------------------------------------------------ literal oracle (C01)
def ast_texts(dump):
    """text nodes of a syntax-tree dump, in source (= emission) order"""
    i = dump.find('],[')   # skip preamble list … robustly: take the body = last top-level list
    body = dump[dump.rfind(',[', 0, len(dump)) if False else 0:]
    return [unhex(m.group(1)) for m in re.finditer(r'(?<![0-9a-f])X((?:[0-9a-f]{2})+)', body_of(dump))]


def body_of(dump):
    """the body list of `ok T([uses],ta,[args],[body])`"""
    # the third top-level '[' after 'T(' opens the body
    depth = 0
    starts = []
    for i, c in enumerate(dump):
        if c == '[':
            if depth == 0:
                starts.append(i)
            depth += 1
        elif c == ']':
            depth -= 1
    return dump[starts[2]:] if len(starts) >= 3 else ''


LIT_RE = re.compile(r'_ructe_out_\.write_all\((.*?)\)\?;\n')


def literal_oracle(res, ctx, tags=('C01',)):
    """Decode every literal the implementation printed for a text node with the Lean model of
    Rust's literal lexer and compare it with the text node of the implementation's own syntax tree."""
    reqs, items = [], []
    for i in range(0, len(res['req']) - 1, 2):
        a = res['impl'][i].split(' ')
        d = res['impl'][i + 1]
        if a[0] != 'ok' or len(a) < 2 or not d.startswith('ok '):
            continue
        code = txt(a[1])
        texts = ast_texts(d)
        lits = []
        lits = LIT_RE.findall(code)
        src_hex = res['req'][i].split(' ')[2]
        if len(lits) != len(texts):
            items.append((i, src_hex, None, None, f'{len(texts)} text nodes but {len(lits)} write_all statements'))
            continue
        for l, t in zip(lits, texts):
            if l.startswith('b"'):
                kind, lit = 'b', l
            elif l.endswith('.as_bytes()') and l.startswith('"'):
                kind, lit = 's', l[:-len('.as_bytes()')]
            else:
                items.append((i, src_hex, l, t, 'unrecognised literal form'))
                continue
            reqs.append(f'declit {kind} ' + (lit.encode().hex() or '-'))
            items.append((i, src_hex, l, t, None))
    wd = res['wdir']
    with open(wd + '/lit_req.txt', 'w') as f:
        f.write('\n'.join(reqs) + ('\n' if reqs else ''))
    with open(wd + '/lit_req.txt', 'rb') as fin:
        out = subprocess.run([ctx['driver']], stdin=fin, capture_output=True, timeout=3600).stdout.decode().split('\n')
    fails = []
    k = 0
    n_checked = 0
    for (i, src_hex, l, t, problem) in items:
        if problem is None:
            ans = out[k] if k < len(out) else ''
            k += 1
            n_checked += 1
            want = 'some ' + (t.hex() or '-')
            if ans == want:
                continue
            if ans == 'none':
                problem = f'the printed literal {l!r} does not lex as one Rust literal (rustc rejects the generated file)'
            else:
                got = unhex(ans.split(' ')[1]) if ans.startswith('some ') else ans
                problem = f'the printed literal {l!r} denotes {got!r}, the template text is {t!r}'
        fails.append(dict(tags=list(tags), kind='literal-not-text', case=i // 2, src_hex=src_hex,
                          src=unhex(src_hex).decode('utf-8', 'replace'), detail=problem))
    return fails, n_checked


# ------------------------------------------------------------------------------ execution
def compare(res, projection):
    p = PROJ[projection]
    out = []
    for i, (r, a, b) in enumerate(zip(res['req'], res['impl'], res['model'])):
        if a == b:
            continue
        pa, pb = p(r, a), p(r, b)
        if pa != pb:
            out.append(dict(index=i, request=r[:4000], implementation=pa[:4000], model=pb[:4000]))
    return out


def sample_reqs(res, k=6):
    n = len(res['req'])
    if n == 0:
        return []
    step = max(1, n // k)
    return [dict(request=res['req'][i][:600], implementation=res['impl'][i][:600]) for i in range(0, n, step)][:k]


def execute(prop, plan, ctx):
    if 'custom' in plan:
        return plan['custom'](prop, plan, ctx)
    disagreements, oracle, samples = [], [], []
    cov = dict(evaluations=0, distinct_nontrivial=0, distribution={})
    for k, r in enumerate(plan['runs']):
        res = ctx['run_suite'](ctx['binary'], ctx['driver'], r, ctx['tier'], ctx['seed'], f"{ctx['work']}/run{k}")
        if 'error' in res:
            return dict(error=res['error'])
        d = compare(res, r.get('projection', 'identity'))
        for x in d:
            x['suite'] = r['suite']
        disagreements += d
        oracle += [o for o in res['oracle'] if set(o.get('tags', [])) & set(r['tags'])]
        st = res['stats']
        if r.get('literal_oracle'):
            lf, nlit = literal_oracle(res, ctx, tags=r['tags'])
            oracle += lf
            st['literals.decoded'] = nlit
        cov['evaluations'] += st.get('cases', len(res['req']))
        cov['distinct_nontrivial'] += sum(v for kk, v in st.items() if kk.startswith('distinct.'))
        cov['distribution'][f"{r['suite']}:{r.get('mix', 'all')}"] = st
        samples += sample_reqs(res)
    return dict(disagreements=disagreements, oracle=oracle, coverage=cov, samples=samples)


def search(prop, plan, ctx, disagreements, pr):
    """Extra budget looking for an input on which the property itself fails on the implementation."""
    if 'custom_search' in plan:
        return plan['custom_search'](prop, plan, ctx, disagreements, pr)
    oracle = []
    evals = 0
    for extra_seed in range(1, 4):
        for k, r in enumerate(plan.get('runs', [])):
            r2 = dict(r)
            n = r['n'][ctx['tier']] if isinstance(r['n'], dict) else r['n']
            r2['n'] = n * 3
            res = ctx['run_suite'](ctx['binary'], ctx['driver'], r2, ctx['tier'], ctx['seed'] * 1000 + extra_seed,
                                   f"{ctx['work']}/search{k}")
            if 'error' in res:
                continue
            evals += len(res['req'])
            oracle += [o for o in res['oracle'] if set(o.get('tags', [])) & set(r['tags'])]
            if r.get('literal_oracle'):
                oracle += literal_oracle(res, ctx, tags=r['tags'])[0]
        if oracle:
            break
    return dict(oracle=oracle, coverage=dict(evaluations=evals))


def do_replay(prop, plan, path, chk):
    payload = json.load(open(path))
    print(json.dumps(payload, indent=1, ensure_ascii=False)[:6000])
    case = payload.get('case') or {}
    if 'src_hex' in case:
        binary, err = chk.build_harness(plan.get('features', []))
        if binary is None:
            print(err)
            return 2
        wd = f'{chk.WORK}/replay-{prop}'
        os.makedirs(wd, exist_ok=True)
        with open(wd + '/cases.txt', 'w') as f:
            f.write(case['src_hex'] + '\n')
        h = subprocess.run([binary, 'parse', '--mix', 'file:' + wd + '/cases.txt', '--out', wd], capture_output=True, text=True)
        print(h.stdout, h.stderr)
        for fn in ('impl.txt', 'oracle.jsonl'):
            if os.path.exists(f'{wd}/{fn}'):
                print(f'--- {fn}')
                print(open(f'{wd}/{fn}').read()[:4000])
        return 1 if os.path.getsize(wd + '/oracle.jsonl') > 0 else 0
    return 0
