"""Per-property plans: which theorem module, which correspondence suites, which projection of the
answers is the correspondence, which oracle tags belong to the property."""
import json, os, re, subprocess

TRUSTED_BASE = [
    'Lean 4.33.0 kernel; axioms allowed in property theorems: propext, Classical.choice, Quot.sound (audited per theorem by tools/Audit.lean)',
    'the Lean model is hand-written (lean/RucteModel); it is tied to /repo by the differential correspondence harness (harness/, feature verif-hooks) and, for finite tables, by tools/translate.py',
    'a behaviour of the code that no generated case reaches is not covered by the tie; the generator distribution is in coverage.distribution',
]


def unhex(h):
    if h == '-':
        return b''
    try:
        return bytes.fromhex(h)
    except ValueError:
        # a field cut for display (compare() keeps the first 4000 characters of an answer)
        import re as _re
        m = _re.match(r'(?:[0-9a-fA-F]{2})*', h)
        return bytes.fromhex(m.group(0)) + b'...'


def txt(h):
    return unhex(h).decode('utf-8', 'replace')


# ------------------------------------------------------------------------------ projections
def proj_identity(req, ans):
    return ans


def header_of(code):
    i = code.find('where W: Write {\n')
    return code if i < 0 else code[:i]


def proj_parse(kind):
    """projections of the `parse` suite answers (two lines per case: compile, ast)"""
    def f(req, ans):
        r = req.split(' ', 1)[0]
        a = ans.split(' ')
        if r == 'compile':
            if kind == 'accept':          # C11: accept / reject / panic + diagnostics position and echoed line
                if a[0] == 'err' and len(a) > 1:
                    d = txt(a[1])
                    out = []
                    for l in d.split('\n'):
                        l = l[len('cargo:warning='):] if l.startswith('cargo:warning=') else l
                        if l.startswith('     '):
                            out.append('col' + str(l[5:].find('^')))      # caret column, not the message
                        else:
                            out.append(l)
                    return 'err ' + '|'.join(out)
                return a[0]
            if kind == 'header':          # C13: the signature part of the generated code
                return a[0] + ' ' + (header_of(txt(a[1])) if a[0] == 'ok' and len(a) > 1 else '')
            if kind == 'text':            # C15 / C18: byte identity of the generated code
                return ans if a[0] == 'ok' else a[0]
            if kind == 'body':            # C01/C03/C04: body lines of the generated code
                if a[0] == 'ok' and len(a) > 1:
                    c = txt(a[1])
                    i = c.find('where W: Write {\n')
                    return 'ok ' + c[i:]
                return a[0]
            return a[0]
        if r == 'ast':
            if kind in ('accept', 'header'):
                return a[0]
            return ans if a[0] == 'ok' else a[0]
        return ans
    return f


PROJ = dict(script_all=None, identity=proj_identity, accept=proj_parse('accept'), header=proj_parse('header'),
            text=proj_parse('text'), body=proj_parse('body'))

HTML_ASSUME = ['Display impls hand their text to write_str in pieces and forward fmt::Error',
               'the sink follows a schedule of partial accepts / Interrupted / Ok(0) / permanent failure; an empty schedule accepts everything']

PLANS = {
    'C02': dict(
        module='RucteProps.C02',
        theorems=['Esc.C02.toHtml_any_schedule', 'Esc.C02.toHtml_prefix', 'Esc.C02.unescape_escape',
                  'Esc.C02.escape_no_raw', 'Esc.C02.entity_table_matches_source', 'Esc.C02.toHtml_decodes'],
        needs_tables=['entities'],
        runs=[dict(suite='html', n=dict(quick=20000, thorough=600000), projection='identity', tags=['C02']),
              # the same through generated code: every `@expression` of compiled templates (variables, literals incl.
              # escapes that denote a special character, values displayed in pieces) against the specification rendering
              dict(suite='e2e', n=dict(quick=400, thorough=6000), projection='identity', tags=['C02'])],
        correspondence='bytes accepted by the sink and Ok/Err result of ToHtml::to_html (public API) vs Esc.toHtmlDisplay, for the same (pieces, schedule)',
        rule='exhaustive: all strings over {<,>,&,",\',a,é,space} up to length 3 (quick) / 4 (thorough) x all compositions into pieces x all schedules over {accept 1, accept 2, accept all, Interrupted} up to length 3 / 4 (all schedules for the finest and coarsest chunkings, every 7th otherwise); random: long strings, random chunking, schedules with Ok(0) and permanent failure. non-trivial = text contains a special byte; distinct = distinct (mode, text); neighbour bytes of every special (off by one, one bit away) before and after it at every offset of a 24-byte run; the Display replayer uses write_str, write_char, write! and write_fmt; e2e: every @expression of compiled templates incl. literal expressions whose escapes denote a special',
        assumptions=HTML_ASSUME,
        trusted=['std io::Write::write_all / write_fmt are modelled (library/std/src/io/mod.rs) and validated by the tie'],
        level_text='Theorems toHtml_any_schedule / toHtml_prefix / unescape_escape / escape_no_raw hold for every piece list and every sink schedule (no bound); the model is tied to templates/utils.rs by an exhaustive-plus-random differential run through the public ToHtml API and by a kernel-checked theorem over the entity table extracted from the source on every run.',
        level_note='Trusted: Lean kernel; the hand-written model of ToHtmlEscapingWriter and std write_all/write_fmt (validated by the tie); Display impls forward fmt::Error.',
        design_ref='DESIGN.md §6 C02',
    ),
    'C06': dict(
        module='RucteProps.C06',
        theorems=['Esc.C06.html_raw', 'Esc.C06.toBuffer_eq', 'Esc.C06.buffer_verbatim', 'Esc.C06.buffer_roundtrip',
                  'Esc.C06.toBuffer_idempotent', 'Esc.C06.escape_not_idempotent', 'Esc.C06.buffer_eq_iff'],
        runs=[dict(suite='html', n=dict(quick=20000, thorough=600000), projection='identity', tags=['C06'])],
        correspondence='sink bytes and result of Html(..).to_html, to_buffer(), HtmlBuffer::to_html, to_buffer().to_buffer() and the PartialEq impls vs Esc.toHtmlRaw / toBufferDisplay / bufferToHtml / bufferToBuffer / bufferEq',
        rule='same case stream as C02 with modes raw / buf / bufbuf; non-trivial = text contains a special byte; distinct = distinct (mode, text); a user ToHtml impl that writes and then fails is rendered between the cases on the same thread',
        assumptions=HTML_ASSUME,
        trusted=['std io::Write::write_all / write_fmt are modelled and validated by the tie'],
        level_text='Theorems html_raw, toBuffer_eq, buffer_verbatim, buffer_roundtrip, toBuffer_idempotent, buffer_eq_iff hold for every text, chunking and schedule; escape_not_idempotent shows they are not vacuous. Tie: differential run through Html(..), to_buffer(), HtmlBuffer::to_html, as_ref and == of the public API.',
        level_note='Trusted: Lean kernel; the hand-written model of Html<T>, to_buffer, HtmlBuffer and std write_all (validated by the tie).',
        design_ref='DESIGN.md §6 C06',
    ),
    'C11': dict(
        module='RucteProps.C11',
        extra_modules=['RucteProps.C11Total'],
        theorems=['Ructe.C11.template_no_panic', 'Ructe.C11.template_err_in_range', 'Ructe.C11.template_accepts_whole', 'Ructe.C11.diag_in_range', 'Ructe.C11.noneOf_panics_witness', 'Ructe.C11.showErrors_pinned_panics_witness', 'Ructe.C11.reject_has_diag', 'Ructe.C11.template_fuel_mono', 'Ructe.C11.template_no_oom', 'Ructe.C11.template_total'],
        runs=[dict(suite='parse', mix='examples,mutate,tokens,nesting,exhaustive,structured,badutf8',
                   n=dict(quick=6000, thorough=120000), projection='accept', tags=['C11']),
              # the same through the build-script entry point: every template FILE of a tree (regular, symbolic link, not
              # valid UTF-8) is accepted as a whole (its code is that of its whole content) or rejected with a diagnostic
              dict(suite='script', mix='tree', n=dict(quick=80, thorough=800), projection='script+files+stdout', tags=['C11'])],
        correspondence='accept / reject / panic of template(), and for a rejection the line number, echoed line and caret column of every diagnostic, vs Ructe.template + Ructe.showErrors (message wording is not compared)',
        rule='token-alphabet strings (33 tokens) exhaustively to length 3 (quick) / 4 (thorough) behind a valid header, random token strings to length 9, mutations/splices of the example templates, structured templates, nesting 1..100 of every bracket / block kind closed and unclosed; non-trivial = distinct accepted syntax trees + rejected inputs with a diagnostic',
        assumptions=['stack exhaustion of the real recursion is runtime behaviour outside the model; nesting to 100 levels is exercised directly'],
        level_text='Proved for every byte string: template_no_panic, template_no_oom (fuel adequacy: termination with recursion depth linear in the input), template_fuel_mono, template_total (accepted whole or rejected with at least one diagnostic), reject_has_diag, template_err_in_range, template_accepts_whole, diag_in_range (line / column / echoed line well-formed). Tie: differential run on accept/reject/panic and diagnostic positions; oracle on the implementation: no panic, at least one diagnostic, positions inside the input, echoed line is the source line.',
        level_note='Trusted: Lean kernel; hand-written model of the nom-8 combinators and of ructe\'s grammar (validated by the tie). Termination (fuel adequacy, template_no_oom) and totality (template_total) are proved; stack depth of the real recursion is runtime behaviour.',
        design_ref='DESIGN.md §6 C11',
    ),
    'C01': dict(
        module='RucteProps.C01',
        extra_modules=['RucteProps.C01Nodes', 'RucteProps.C01Body', 'RucteProps.C01Blocks', 'RucteProps.C15Tree', 'RucteProps.C13Header'],
        theorems=['Ructe.C01.textLit_ascii', 'Ructe.C01.textLit_nonascii', 'Ructe.C01.lower_text', 'Ructe.C01.render_text', 'Ructe.C01.text_node_sound', 'Ructe.C01.comment_node_sound', 'Ructe.C01.node_consumes', 'Ructe.C01.text_complete', 'Ructe.C01.escapes_complete', 'Ructe.C15Tree.body_complete', 'Ructe.C13Header.template_complete',
                  'Ructe.C01.body_accounting', 'Ructe.C01.literal_bytes_accounted', 'Ructe.C01.block_accounting', 'Ructe.C01.part_kinds', 'Ructe.C01.node_head', 'Ructe.C01.manyTillGo_chain',
                  'Ructe.C01.node_blocks', 'Ructe.C01.if2_blocks', 'Ructe.C01.argument_accounting', 'Ructe.C01.blockBody_accounting', 'Ructe.C01.templateArgument_body'],
        runs=[dict(suite='parse', mix='examples,text,structured', n=dict(quick=4000, thorough=80000), projection='body',
                   tags=['C01'], literal_oracle=True),
              dict(suite='parse', srcgen=dict(quick=600, thorough=6000), mix='srcgen', n=1, projection='body', tags=['C01'], literal_oracle=True),
              dict(suite='e2e', n=dict(quick=300, thorough=6000), projection='identity', tags=['C01']),
              # the generated function is that of the template as it is now, whatever OUT_DIR held before
              dict(suite='script', mix='history', n=dict(quick=50, thorough=500), projection='script+files', tags=['C01']),
              # whole directories through compile_templates: every output file is the code for that template alone
              # (a template must not inherit bytes from a sibling that was read before it)
              dict(suite='script', mix='tree', n=dict(quick=60, thorough=600), projection='script+files', tags=['C01'])],
        correspondence='syntax tree of the parse and the body of the generated code vs Ructe.template / Ructe.writeRust; every printed text literal is decoded by the Lean model of rustc\'s literal lexer and compared with the text node',
        rule='every ASCII code point except @{} alone / at the start / middle / end of a run, at 7 nesting positions; random text over quotes, backslashes, CR/LF, NUL, controls, multi-byte scalars, escape look-alikes, the three escapes, comments; structured templates with their documented tree; non-trivial = distinct accepted syntax trees; long literal runs (130 .. 8200 bytes); histories (restored / renamed templates, residue in OUT_DIR): the generated function is that of the template as it is now',
        assumptions=['rustc lexes literals as the Rust Reference says (modelled by decodeStrLit / decodeByteStrLit; rustc itself is the judge in the e2e runs)'],
        level_text='Proved for all inputs: textLit_ascii / textLit_nonascii (the printed literal lexes to exactly the text: every byte string resp. every valid UTF-8 text, every uniEsc), text_node_sound / comment_node_sound / node_consumes (what a text or comment node accounts for in the source), text_complete / escapes_complete, lower_text, render_text; with C11.template_accepts_whole every byte is accounted for: C01Body proves this for EVERY accepted template, with no well-formedness hypothesis: body_accounting (the input is the header followed by the spans of the body nodes, in order, without gaps or overlaps), literal_bytes_accounted (every part is literal text whose node carries exactly the bytes of the span, one of the three escapes, or an @-construct whose span starts with @ - nothing dropped, duplicated or reordered), block_accounting (the same inside every block body and match arm); C01Blocks closes the recursion: node_blocks (every list of nodes directly inside any node - the body of an @if and of its else, of an @for, every @match arm, every {..} block argument of a call - was produced by template_block resp. many0(template_expression) on a piece of the source; an else-if is again an @if node), so blockBody_accounting / argument_accounting apply at every nesting position. In the other direction C13Header.template_complete / C15Tree.body_complete: every well-formed source (header + body tree, any nesting) parses to exactly its intended tree, text nodes and escapes at every nesting position byte for byte, comments as comment nodes, and the only dropped body text is the layout after the declaration (hypothesis StopsLayout on the body, with the counterexample that forces it). Tie: differential run on tree and code, printed literals decoded by the model lexer, rustc end-to-end rendering.',
        level_note='Trusted: Lean kernel; hand-written model of the parser/emitter and of Rust literal syntax.',
        design_ref='DESIGN.md §6 C01',
    ),
    'C05': dict(
        module='RucteProps.C05',
        extra_modules=['RucteProps.C05Complete', 'RucteProps.C05Chain'],
        theorems=['Ructe.C05.expression_sound', 'Ructe.C05.exprInsideParens_sound', 'Ructe.C05.quotedString_sound', 'Ructe.C05.expression_nonempty', 'Ructe.C05.expression_no_panic', 'Ructe.C05.emit_verbatim', 'Ructe.C05.slash_pinned_witness', 'Ructe.C05.rustName_complete', 'Ructe.C05.rustComment_complete', 'Ructe.C05.quotedString_complete', 'Ructe.C05.exprInsideParens_complete', 'Ructe.C05.exprInParens_complete', 'Ructe.C05.stops_simple', 'Ructe.C05.stops_dot_nonident', 'Ructe.C05.expression_name_complete', 'Ructe.C05.expression_call_complete', 'Ructe.C05.expression_complete', 'Ructe.C05.expression_complete_follower', 'Ructe.C05.expression_complete_eof', 'Ructe.C05.expression_complete_flat', 'Ructe.C05.expression_complete_tree', 'Ructe.C05.stops_classes', 'Ructe.C05.doc_a_dot_at_a', 'Ructe.C05.doc_a_dot_eof', 'Ructe.C05.ex_paren_len', 'Ructe.C05.DExpr.wf_iff'],
        runs=[dict(suite='sub', n=dict(quick=20000, thorough=600000), projection='identity', tags=['C05']),
              dict(suite='parse', mix='structured,examples', n=dict(quick=2000, thorough=30000), projection='body', tags=['C05']),
              dict(suite='parse', srcgen=dict(quick=800, thorough=8000), mix='srcgen', n=1, projection='body', tags=['C05'])],
        correspondence='consumed length / value / error list of expression, expr_inside_parens, quoted_string, rust_comment and the other named sub-parsers, and the syntax tree + body code of whole templates, vs the Lean transcription',
        rule='expressions from the documented grammar (prefix, atom, postfix chain, nested groups with plain runs / strings with every supported escape and embedded delimiters / block comments with embedded delimiters and quotes / division followed by delimiters and quotes) x 18 follower classes; near-miss token strings through 15 sub-parsers; non-trivial = distinct documented fragments',
        assumptions=['the fragment is opaque Rust: that it reaches rustc unmodified is the correspondence on the printed code; that it is evaluated once is the e2e run'],
        level_text='Proved: expression_sound / exprInsideParens_sound / exprInParens_sound / quotedString_sound (the fragment is exactly the consumed prefix, valid UTF-8), expression_nonempty, expression_no_panic, emit_verbatim (printed once, unmodified). Completeness (maximal munch) is proved for the WHOLE documented grammar: expression_complete — for every documented expression e (optional & or * prefix; atom = name | digits | string literal | (..) | [..]; any chain of .member, ::path, (..), [..], {..}, !(..), ![..] with the documented group content: nested groups, string literals and /* */ comments hiding delimiters, division), every follower on which the chain cannot continue (Stops rest; decidable sufficient condition stopsB with stops_classes: end of input, white space, < > @ , ) ] } ; = quotes, `.` / `::` before a non-expression start, `!` not before ( or [) and every fuel >= e.fuel, expression (print e ++ rest) = ok rest (print e); the right-nested, flat and tree views of the chain are proved equivalent (expression_complete_flat, expression_complete_tree, nest_flat, flat_nest); each hypothesis is shown necessary by a kernel-checked counterexample; the documentation examples `@a.@a`, `@a.`, `(a).len()` are corollaries (doc_a_dot_at_a, doc_a_dot_eof, ex_paren_len); `@( .. )` ends at its matching parenthesis (exprInsideParens_complete). Tie: sub-parser and whole-template differential runs; generator oracle documented extent x 18 follower classes.',
        level_note='Trusted: Lean kernel; hand-written transcription of expression.rs (validated by the tie). Both directions proved for the documented grammar (DExpr); inputs outside it (e.g. unbalanced braces inside brackets, which the real scanner treats as plain bytes) are covered by soundness only.',
        design_ref='DESIGN.md §6 C05',
    ),
    'C13': dict(
        module='RucteProps.C13',
        extra_modules=['RucteProps.C13Args', 'RucteProps.C13Header'],
        theorems=['Ructe.C13.signature_shape', 'Ructe.C13.content_exact', 'Ructe.C13.content_suffix_only', 'Ructe.C13.printParam_other', 'Ructe.C13.pinned_counterexamples','Ructe.C13.formalArgument_sound','Ructe.C13.formalArgument_has_colon','Ructe.C13.preamble_item_verbatim', 'Ructe.C13Header.typeExpression_complete', 'Ructe.C13Header.formalArgument_complete', 'Ructe.C13Header.template_complete', 'Ructe.C13Header.header_layout_irrelevant', 'Ructe.C13Header.args_verbatim', 'Ructe.C13Header.use_verbatim', 'Ructe.C13Header.typeArgs_verbatim', 'Ructe.C13Header.signature_of_source'],
        runs=[dict(suite='parse', mix='decl,examples,structured', n=dict(quick=4000, thorough=60000), projection='header', tags=['C13']),
              dict(suite='parse', srcgen=dict(quick=800, thorough=8000), mix='srcgen', n=1, projection='header', tags=['C13']),
              # the signature in OUT_DIR is the one of the template as it is now (histories: renamed / restored templates)
              dict(suite='script', mix='history', n=dict(quick=50, thorough=500), projection='script+files', tags=['C13'])],
        correspondence='the printed signature (use lines, lifetime list, parameter lines) of every accepted template vs Ructe.fnHeader',
        rule='0..8 parameters over 16 type shapes incl. Content / ContentType / Contents / MyContent / &Content / Vec<Content>, 7 colon layouts, parameter names resembling internals, 0..3 use lines incl. renames/globs/nested braces; non-trivial = distinct accepted syntax trees; exact generic parameter list (declared lifetimes verbatim, then the sink type); histories',
        assumptions=['that calls with values of the declared types type-check is rustc\'s judgement (e2e)'],
        level_text='Theorems about printParam (only a parameter whose type is exactly Content is rewritten) and fnHeader (sink first, parameters in order, use lines verbatim). Completeness of the declaration parser is proved for the whole supported type grammar (C13Header: typeExpression_complete over references, lifetimes, impl / dyn, names, slices, tuples with trailing commas and lifetime elements, generic argument lists, nested to any depth; formalArgument_complete: the recognised value is exactly the source span name-layout-colon-layout-type), and for whole templates: template_complete — for every well-formed header (use lines, lifetime list, parameter list, with layout / white-space slots) and every well-formed body source tree, template (print header ++ print body) is the intended Template with args and use lines verbatim (args_verbatim, use_verbatim, typeArgs_verbatim); signature_of_source states the generated signature in terms of the source spans end to end. Tie on the printed signature; independent oracle recomputes the expected parameter lines from the source.',
        level_note='Trusted: Lean kernel; hand-written model of write_rust.',
        design_ref='DESIGN.md §6 C13',
    ),
    'C15': dict(
        module='RucteProps.C15',
        extra_modules=['RucteProps.C15Directives', 'RucteProps.C15Calls', 'RucteProps.C15Tree', 'RucteProps.C13Header', 'RucteProofs.SrcCheck'],
        theorems=['Ructe.C15.spacelike_complete', 'Ructe.C15.layout_irrelevant_at_slot', 'Ructe.C15.comment_complete', 'Ructe.C15.multispace0_complete', 'Ructe.C15.spacelike_total', 'Ructe.C15.pinned_comment_counterexample', 'Ructe.C15.if_layout_irrelevant', 'Ructe.C15.if_else_layout_irrelevant', 'Ructe.C15.for_layout_irrelevant', 'Ructe.C15.if_name_layout_irrelevant', 'Ructe.C15.match_layout_irrelevant', 'Ructe.C15.call_layout_irrelevant', 'Ructe.C15Tree.nodes_complete', 'Ructe.C15Tree.block_complete', 'Ructe.C15Tree.body_complete', 'Ructe.C15Tree.node_complete', 'Ructe.C15Tree.layout_irrelevant_tree', 'Ructe.C15Tree.layout_irrelevant_block', 'Ructe.C15Tree.no_swallow_after_block', 'Ructe.C15Tree.cond_inner_layout', 'Ructe.C15Tree.if_inner_layout', 'Ructe.C15Tree.for_pattern_complete', 'Ructe.C15Tree.loop_expression_complete', 'Ructe.C15Tree.cond_expression_complete', 'Ructe.C15Tree.dispatch_exact', 'Ructe.C13Header.template_complete', 'Ructe.C13Header.header_layout_irrelevant', 'Ructe.C13Header.typeExpression_lead_irrelevant', 'Ructe.Src.wfB_sound', 'Ructe.Src.templateOkB_sound'],
        runs=[dict(suite='parse', mix='structured', n=dict(quick=5000, thorough=50000), projection='text', tags=['C15']),
              dict(suite='parse', srcgen=dict(quick=1200, thorough=12000), mix='srcgen', n=1, projection='text', tags=['C15'])],
        correspondence='generated code, byte for byte, of canonical and perturbed prints of the same source tree vs the model\'s single answer',
        rule='every structured template printed canonically and twice with random admissible layouts (white space, LF, CRLF, tabs, 8 comment shapes incl. `**@` endings) at every slot kind; non-trivial = distinct accepted syntax trees',
        assumptions=[],
        level_text='Proved: at every layout slot of the grammar any admissible layout is consumed completely and is indistinguishable from any other (spacelike_complete, layout_irrelevant_at_slot, comment_complete, multispace0_complete, spacelike_total, spacelike_sound). Compositional completeness lemmas for the directives are proved (if_layout_irrelevant, if_else_layout_irrelevant, for_layout_irrelevant, if_name_layout_irrelevant, match_layout_irrelevant, call_layout_irrelevant): any admissible layout at the slots of the directive yields the same node. The induction over a whole source tree IS proved (RucteProps/C15Tree.lean over RucteProofs/SrcTree*.lean): for every source tree of the documented body syntax (text, @@ @{ @}, comments, @name, @name(group), @(group), @if with else / else-if chains, @for, @match, @:call with Rust and block arguments, nested to any depth, with a layout slot at every place the syntax allows insignificant material) that meets the explicit well-formedness predicate WF, the parser returns exactly the intended tree (nodes_complete, block_complete, body_complete, node_complete, fuel bound explicit), hence two trees that differ only in their layout slots parse to the same tree and give byte-identical code (layout_irrelevant_tree, layout_irrelevant_block), and nothing after a closing brace is swallowed (no_swallow_after_block). Every Rust fragment in the tree is a documented expression (C05.DExpr): @expr nodes, call arguments, match scrutinee and arm patterns, @for patterns (name with optional {..}, or optional & + tuple, stored normalised) and iterables (expression with optional .. / ..= range), @if conditions (let bindings, stored normalised; logic expressions with !, the eight relational operators and inner layout, stored verbatim). Layout inside a logic condition is part of the stored fragment, so it is not erased by sameShape; cond_inner_layout / if_inner_layout state that two conditions differing only there are stored as the same token list woven with their own gaps (behavioural equality is then up to rustc, validated by e2e). dispatch_exact: which text after @ reaches the expression arm. The header is covered too (C13Header.template_complete, header_layout_irrelevant): two whole templates that differ only in the layout around use lines, after the declaration, in the white-space slots after `(`, after commas and before `)`, and in the layout slots of the body parse to the same Template, hence give byte-identical code; white space inside a parameter (around the colon, inside the type) is part of the verbatim span and is kept (behavioural equality up to rustc, e2e). What remains outside the theorems (inputs outside the documented source grammar) is covered by the metamorphic oracle (canonical vs perturbed prints give byte-identical code and the documented tree) + tie on the full text.',
        level_note='Trusted: Lean kernel; hand-written model; generator\'s notion of admissible layout.',
        design_ref='DESIGN.md §6 C15',
    ),
    'C17': dict(
        module='RucteProps.C17',
        extra_modules=['RucteProps.C17Rerun', 'RucteProps.C17Abort'],
        theorems=['Ructe.C17.announced', 'Ructe.C17Abort.announcedA', 'Ructe.C17Abort.dead_entry_announced', 'Ructe.C17Abort.rerun_soundA', 'Ructe.C17Abort.no_rerun_nothing_staleA', 'Ructe.C17Abort.change_triggers_rerunA', 'Ructe.C17.pinned_add_files_as_counterexample',
                  'Ructe.C17Rerun.rerun_sound', 'Ructe.C17Rerun.no_rerun_nothing_stale', 'Ructe.C17Rerun.change_triggers_rerun',
                  'Ructe.C17Rerun.step_announces_root', 'Ructe.C17Rerun.resolve_congr'],
        runs=[dict(suite='script', mix='statics,tree', n=dict(quick=150, thorough=1500), projection='script+stdout', tags=['C17']),
              # stylesheets with partials / imports in other directories (rsass is opaque to the model: oracle only)
              dict(suite='script', features=['sass'], mix='sassimports', n=dict(quick=40, thorough=400), projection='script+', tags=['C17']),
              # single edits of the input tree: whenever a new run would give another result, the edited path must be
              # covered by a line of the previous run (C17Rerun.change_triggers_rerun evaluated on the implementation),
              # and a real `cargo build` of a scratch package must decide to run the script again
              dict(suite='rerun', mix='statics,tree', n=dict(quick=40, thorough=400), projection='script+stdout+files+names', tags=['C17'],
                   args=dict(quick=['--cargo', '8'], thorough=['--cargo', '80'])),
              dict(suite='rerun', features=['sass'], mix='sassimports', n=dict(quick=20, thorough=200), projection='script+', tags=['C17'],
                   args=dict(quick=['--cargo', '4'], thorough=['--cargo', '40']))],
        correspondence='the lines printed to stdout by a whole build-script run (public API, child process) vs Ructe.build, given the same input tree and read_dir order',
        rule='random build scripts over compile_templates / add_file / add_files / add_file_as / add_files_as (nested sub-directories) / add_file_data on random trees (tmpfs and ext4, relative and absolute paths); oracle: every directory listed and every file read or embedded is covered by a cargo:rerun-if-changed line for itself or an ancestor. Suite rerun: after each run 2..3 single edits (modify / delete / add a file in an input directory, a sub-directory, a new sub-directory, an unrelated place; delete a directory; break a template; edit a Sass partial), each followed by a run into an empty OUT_DIR: if the result differs the edited path must be covered by a line of the last run cargo executed; for the first scenarios the tree is also a real cargo package and `cargo build --offline` itself decides whether to run the build script again; non-trivial = distinct run outputs',
        assumptions=['cargo re-runs a build script when a listed path, or anything under a listed directory, changes (cargo\'s documented rule, modelled as the `covered` predicate)', 'add_sass_file reads through rsass\' CargoContext, which prints its own lines: opaque to the model; the oracle on the implementation covers it (stylesheets importing partials from the same, a sub-, a sibling and a distant directory must have every loaded file announced)'],
        level_text='C17Abort: the same two statements for the run as the code does it, walks that are cut short by an entry that cannot be opened included (announcedA, dead_entry_announced, rerun_soundA, no_rerun_nothing_staleA, change_triggers_rerunA). Theorem announced (every path the model reads is covered by a printed line) over Ructe.build. The second half of the statement ("so that adding, editing or deleting an input makes cargo run the build script again") is proved over an explicit input tree (RucteModel/InFS.lean: what the operating system shows at a path; calls as written in build.rs): rerun_sound / no_rerun_nothing_stale - if the trees before and after ANY edit agree at every path the first run announced (cargo sees no reason to run the script again) then the script resolves to exactly the same calls, so nothing is stale; change_triggers_rerun - if a run on the edited tree would produce anything else (other bytes, other lines, a failure) then some announced path changed. cargo\'s rule itself (re-run iff the file at an announced path, or anything under an announced directory, changed) is the trusted part. Tie on the printed lines; oracle on the implementation with the harness\' own knowledge of the inputs.',
        level_note='Trusted: Lean kernel; hand-written model of lib.rs / staticfiles.rs on an abstract file system; cargo\'s rerun rule.',
        design_ref='DESIGN.md §6 C17',
    ),
    'C10': dict(
        module='RucteProps.C10',
        extra_modules=['RucteProps.C10Tree', 'RucteProps.C18Order', 'RucteProps.C10Failed', 'RucteProps.C10Abort', 'RucteProps.C10FrameA'],
        needs_tables=['suffixes'],
        theorems=['Ructe.C10FrameA.stepA_frame', 'Ructe.C10FrameA.failed_templates_call_disturbs_nothingA', 'Ructe.C10Abort.walkA_spec', 'Ructe.C10Abort.walkA_complete', 'Ructe.C10Abort.walkA_cut_prefix', 'Ructe.C10Abort.buildLogA_readable', 'Ructe.C10Abort.runScriptA_noDead', 'Ructe.C10Abort.namesAfterA_readable', 'Ructe.C10Abort.templates_leave_statics', 'Ructe.C10Abort.dead_with_suffix_cuts', 'Ructe.C10Abort.dead_without_suffix_ignored', 'Ructe.C10Failed.failed_templates_call_disturbs_nothing', 'Ructe.C10Failed.failed_templates_call_same_outdir', 'Ructe.C10Failed.failed_static_call_disturbs_nothing', 'Ructe.C10Failed.failed_call_same_names', 'Ructe.C10Failed.step_frame', 'Ructe.C10.others_silent', 'Ructe.C10.valid_template_declared', 'Ructe.C10.broken_template_reported', 'Ructe.C10.subdir_declared', 'Ructe.C10.handleEntries_append', 'Ructe.C10.suffix_table', 'Ructe.C10.tree_mirror_file', 'Ructe.C10.subdir_mod_declared', 'Ructe.C10.template_fn_declared', 'Ructe.C10.decl_only_with_file', 'Ructe.C18.broken_isolated'],
        runs=[dict(suite='script', mix='tree', n=dict(quick=200, thorough=1500), projection='script+files+stdout', tags=['C10']),
              # the same promises when OUT_DIR is not empty: earlier builds, restored / renamed templates, residue
              dict(suite='script', mix='history', n=dict(quick=50, thorough=500), projection='script+files', tags=['C10'])],
        correspondence='the whole OUT_DIR (paths and bytes) and stdout of compile_templates on a directory tree vs Ructe.build given the observed read_dir order',
        rule='random trees to depth 4 with identifier stems / directory names, mixed suffixes, same stem under different suffixes, non-template files, empty directories, broken templates among valid ones; oracle: exactly the expected files, each the code generated for that template alone, declaration chains present, broken templates warned and undeclared; non-trivial = distinct run outputs; template files that are not valid UTF-8, empty stems, tail-pair names, symlinked templates; histories (the module tree of the incremental OUT_DIR is that of a clean build)',
        assumptions=['file and directory names are UTF-8', 'that the declared functions are callable at every depth is rustc\'s name resolution (e2e)'],
        level_text='C10Abort: the walk as the code does it, including the entry that cannot be opened (a symbolic link to nothing under a template name: the error leaves handle_entries through `?`). walkA_spec: the walk either completes, and is then exactly the walk over the readable part of the tree, or is cut short, and then what it asked to be written is a prefix of what that walk writes and what it declared is a prefix of its declarations; runScriptA_noDead / buildLogA_readable: on trees where everything can be read the run as the code does it is the run all the other theorems are about. C10Failed: a call that fails (a template directory that is not there, ignored by the script) disturbs nothing: the run asks for exactly the files, bytes and order of the run without that call, from any prior OUT_DIR state (failed_templates_call_disturbs_nothing / _same_outdir, by a frame lemma step_frame: what a call writes never depends on what was printed or listed before). Proved by induction on the tree (no depth bound): tree_mirror_file, subdir_mod_declared, template_fn_declared, decl_only_with_file, broken_isolated, others_silent, valid_template_declared, broken_template_reported, subdir_declared, handleEntries_append; suffix_table over the list extracted from lib.rs on every run. Tie on the whole OUT_DIR + independent oracle on file set, contents, declarations and warnings.',
        level_note='Trusted: Lean kernel; hand-written model of lib.rs on an abstract file system.',
        design_ref='DESIGN.md §6 C10',
    ),
    'C12': dict(
        module='RucteProps.C12',
        extra_modules=['RucteProps.C12Conflicts', 'RucteProps.C12Abort'],
        theorems=['Ructe.C12Abort.incremental_eq_cleanA', 'Ructe.C12Abort.untouched_elsewhereA', 'Ructe.C12Abort.second_run_silentA', 'Ructe.C12Abort.repaired_run_eq_clean', 'Ructe.C12.applyWrite_post', 'Ructe.C12.incremental_eq_clean', 'Ructe.C12.second_run_silent', 'Ructe.C12.untouched_elsewhere', 'Ructe.C12.runLog_get',
                  'Ructe.C12.history_then_run_eq_clean', 'Ructe.C12.crashedAt_complete', 'Ructe.C12.rerun_repairs_truncation',
                  'Ructe.C12.second_run_writes_only_conflicts', 'Ructe.C12.foldl_applyWrite_only_conflicts'],
        runs=[dict(suite='script', mix='history', n=dict(quick=120, thorough=1200), projection='script+files+writes', tags=['C12'])],
        correspondence='OUT_DIR contents after a run and the set of physically rewritten files (mtime) vs Ructe.build / writeIfChanged on the observed prior OUT_DIR state',
        rule='edit histories (add / modify / delete / break templates, sub-directories, statics) of 1..4 edits with a run after each, output files replaced by garbage / non-UTF-8 / truncated at 0, mid, len-1 bytes; every run compared with a clean build into an empty directory; a directly repeated run must rewrite nothing; non-trivial = distinct run outputs; residue: outputs with their lines permuted, files next to the outputs (<output>.tmp, <output>~) larger than any output; edits that only exchange lines',
        assumptions=['an output path is a file or absent', 'read_dir yields the same order for an unchanged directory'],
        level_text='Proved for every prior OUT_DIR state (any earlier builds, truncations, garbage): applyWrite_post, runLog_get, incremental_eq_clean, untouched_elsewhere, stdout_independent, second_run_silent, silent_when_up_to_date, writes_subset; the quantifier of the property is also constructed explicitly (crashedAt: a build that died at request k with the file cut at any length; afterHistory: any sequence of earlier builds over other inputs, each possibly dying) with history_then_run_eq_clean and rerun_repairs_truncation as corollaries. second_run_writes_only_conflicts removes the Consistent hypothesis of second_run_silent: a repeated run physically writes ONLY paths for which the run itself contains two requests with different contents (two template directories holding a template of the same name - a configuration whose generated code does not compile anyway); every other path is left untouched, whatever OUT_DIR held before. Tie on contents and physical writes (mtime); oracle: byte-identical to a clean build, repeated run writes nothing.',
        level_note='Trusted: Lean kernel; hand-written model; a crash during the run under test is outside the model (the theorem quantifies over what earlier crashes left).',
        design_ref='DESIGN.md §6 C12',
    ),
    'C18': dict(
        module='RucteProps.C18',
        extra_modules=['RucteProps.C18Order'],
        theorems=['Ructe.C18.template_code_pure', 'Ructe.C18.template_code_location_independent', 'Ructe.C18.build_deterministic', 'Ructe.C18.statics_line_pure', 'Ructe.C18.writes_perm', 'Ructe.C18.decls_concat', 'Ructe.C18.flat_decls_perm', 'Ructe.C18.handleEntries_parametric'],
        runs=[dict(suite='script', mix='tree,statics', n=dict(quick=150, thorough=1500), projection='script+files', tags=['C18']),
              dict(suite='script', mix='history', n=dict(quick=60, thorough=600), projection='script+files', tags=['C18']),
              dict(suite='parse', mix='examples,structured', n=dict(quick=1500, thorough=25000), projection='text', tags=['C18'])],
        correspondence='generated files byte for byte vs the model\'s single answer; the same tree in shuffled creation orders and other locations (tmpfs / ext4) must agree',
        rule='every tree scenario again with shuffled creation order (= read_dir order on tmpfs) at another location; the code for (name, template bytes) recorded across all scenarios; non-trivial = distinct run outputs + distinct accepted syntax trees',
        assumptions=[],
        level_text='Proved: template_code_pure, template_code_location_independent, build_deterministic, statics_line_pure, writes_perm / decls_concat / flat_decls_perm (the listing order only permutes), handleEntries_parametric. Tie on file bytes; oracle: twins (shuffled creation order, other location, tmpfs/ext4) agree, same template gives the same code in every scenario, histories equal clean builds.',
        level_note='Trusted: Lean kernel; hand-written model.',
        design_ref='DESIGN.md §6 C18',
    ),
    'C07': dict(
        module='RucteProps.C07',
        theorems=['Ructe.C07.urlName_shape', 'Ructe.C07.base64_6_injective', 'Ructe.C07.slug_eq_iff', 'Ructe.C07.slug_shape', 'Ructe.C07.publishedName_pure', 'Ructe.C07.addHashed_publishes', 'Ructe.C07.nameAndExt_shape'],
        runs=[dict(suite='script', mix='statics', n=dict(quick=200, thorough=1500), projection='script+names', tags=['C07'], statics_oracle=True)],
        correspondence='get_names() (identifier -> URL name) after a script vs Ructe.namesAfter (Lean MD5 + base64)',
        rule='contents: empty, 1 byte, all 256 byte values, MD5 block edges 55/56/57/63/64/65/119/120/128, random; 58 file names (several dots, trailing dot, leading dot, dashes, every punctuation byte, non-ASCII); add_file / add_files / add_file_data in shuffled orders from different directories; oracle: python hashlib.md5 + base64 recomputation; non-trivial = items checked; paths as handed to the API (absolute, relative, ./x, dir/../x, across a symlink, trailing separator); symbolic links inside listed directories; oracle hash-not-of-content: every printed item with a hashed name carries the hash of the complete bytes at its path',
        assumptions=['changing a byte changes the name unless MD5 collides on its first 48 bits'],
        level_text='Proved: urlName_shape, addHashed_publishes, publishedName_pure (same file name and bytes => same published name from any location / handler state / entry point), nameAndExt_shape, base64_6_injective, slug_shape, slug_eq_iff (names differ iff the first 48 hash bits differ, for every hash function), md5_length. Tie on get_names() + independent hashlib/base64 oracle incl. contents across I/O buffer boundaries.',
        level_note='Trusted: Lean kernel; hand-written model; md5 / base64 crates assumed to implement RFC 1321 / RFC 4648 (cross-checked against the Lean MD5 and hashlib on every run).',
        design_ref='DESIGN.md §6 C07',
    ),
    'C08': dict(
        module='RucteProps.C08',
        extra_modules=['RucteProps.C08Items'],
        theorems=['Ructe.C08.byteString_roundtrip', 'Ructe.C08.strDebug_roundtrip', 'Ructe.C08.name_raw_counterexample',
                  'Ructe.C08.data_item_exact', 'Ructe.C08.file_item_exact', 'Ructe.C08.as_item_exact', 'Ructe.C08.addStatic_src',
                  'Ructe.C08.pathFor_absolute', 'Ructe.C08.pathFor_relative'],
        runs=[dict(suite='script', mix='statics', n=dict(quick=200, thorough=1500), projection='script+files', tags=['C08'], statics_oracle=True),
              dict(suite='script', mix='statics', n=dict(quick=40, thorough=400), projection='script+names', tags=['C08'], args=['--keep'], statics_e2e=dict(quick=24, thorough=200))],
        correspondence='text of statics.rs vs Ructe.Statics.finish; every printed content / path / name literal decoded by the Lean model of rustc\'s lexer',
        rule='as C07, all five add_* entry points; oracle: decoded content literal = data, decoded include_bytes! path = file path, decoded name literal = published URL name; non-trivial = items checked',
        assumptions=['rustc lexes literals as the Rust Reference says (e2e compile is the judge)'],
        level_text='Proved: byteString_roundtrip (every byte string), strDebug_roundtrip (every valid UTF-8 string, every uniEsc) for the content, include_bytes! path and name literals; at item level (C08Items) for each way a file is added: data_item_exact (add_file_data: the content literal denotes exactly the data, the name literal stem-<slug of the data>.ext), file_item_exact (add_file on an input tree: the call opens path_for(base, p), the name carries the hash of exactly the bytes found there, and the include_bytes! literal denotes exactly that same path - never tidied or re-spelled), as_item_exact (add_file_as: name literal = the URL name, content literal = path_for(base, p)); pathFor_absolute / pathFor_relative. Tie on statics.rs text + literal-decoding oracle + the generated module compiled by rustc with contents and names read back.',
        level_note='Trusted: Lean kernel; hand-written model of Rust literal syntax and of add_static.',
        design_ref='DESIGN.md §6 C08',
    ),
    'C09': dict(
        module='RucteProps.C09',
        extra_modules=['RucteProps.C09Hist', 'RucteProps.C09Abort'],
        theorems=['Ructe.C09Abort.namesAfterA_static_part', 'Ructe.C09Abort.step_statics_congr', 'Ructe.C09.btree_insert_sorted', 'Ructe.C09.btree_keys', 'Ructe.C09.btree_perm', 'Ructe.C09.get_exact', 'Ructe.C09.get_sound', 'Ructe.C09.get_complete', 'Ructe.C09.staticsLine_lists', 'Ructe.C09.statics_complete', 'Ructe.C09.statics_sorted_nodup', 'Ructe.C09.statics_order_independent', 'Ructe.C09.get_finds_exactly_added'],
        runs=[dict(suite='script', mix='statics', n=dict(quick=200, thorough=1500), projection='script+files+names', tags=['C09'], statics_oracle=True),
              dict(suite='script', mix='statics', n=dict(quick=40, thorough=400), projection='script+names', tags=['C09'], args=['--keep'], statics_e2e=dict(quick=24, thorough=200)),
              # STATICS after a build that also compiled stylesheets, some of which failed (oracle added-but-not-in-STATICS)
              dict(suite='sass', features=['sass'], n=dict(quick=80, thorough=1500), projection='identity', tags=['C09'])],
        correspondence='the STATICS line and names of statics.rs vs the model',
        rule='as C07 with name sets straddling - . _ digits upper/lower case and common prefixes, shuffled insertion orders (twins); oracle: STATICS lists each published name once in ascending byte order; non-trivial = items checked; sass suite (real rsass): after a build with succeeding and failing stylesheets STATICS lists everything get_names() showed',
        assumptions=['Rust Ord for str and BTreeMap<String,_> are byte-lexicographic; binary_search_by_key finds an element iff present in a sorted slice'],
        level_text='Proved for whole histories of additions: statics_complete, statics_sorted_nodup, statics_order_independent, get_finds_exactly_added, plus btree_insert_sorted / btree_keys / btree_perm / get_sound / get_complete / get_exact / staticsLine_lists. Tie + oracle on STATICS order + rustc-compiled module probed with StaticFile::get on members and near misses.',
        level_note='Trusted: Lean kernel; hand-written model; std BTreeMap / binary_search contracts.',
        design_ref='DESIGN.md §6 C09',
    ),
    'C16': dict(
        module='RucteProps.C16',
        extra_modules=['RucteProps.C09Hist'],
        theorems=['Ructe.C16.mangle_ascii', 'Ructe.C16.mangle_is_ident', 'Ructe.C16.mangle_not_keyword', 'Ructe.C16.getNames_maps', 'Ructe.C16.getNames_keeps', 'Ructe.C09.getNames_maps_all'],
        runs=[dict(suite='script', mix='statics', n=dict(quick=200, thorough=1500), projection='script+names', tags=['C16'], statics_oracle=True),
              dict(suite='script', mix='statics', n=dict(quick=40, thorough=400), projection='script+names', tags=['C16'], args=['--keep'], statics_e2e=dict(quick=24, thorough=200)),
              # get_names() across add_sass_file calls, succeeding and failing ones (oracle names-lost)
              dict(suite='sass', features=['sass'], n=dict(quick=80, thorough=1500), projection='identity', tags=['C16'])],
        correspondence='identifiers (keys of get_names(), item names) vs Ructe.mangle',
        rule='as C07; oracle: identifier = every non-alphanumeric char replaced by _, n before a leading digit, legal Rust identifier; non-trivial = items checked; sass suite: get_names() is monotone across add_sass_file calls, failing ones included',
        assumptions=['char::is_alphanumeric on non-ASCII scalars is a parameter of the model'],
        level_text='Proved: mangle_ascii (the stated rule), mangle_is_ident / mangle_is_ident_url (legal identifier), mangle_not_keyword, getNames_maps / getNames_keeps / getNames_maps_all (whole histories). Tie + python re-derivation oracle + every item named from rustc-compiled code.',
        level_note='Trusted: Lean kernel; hand-written model.',
        design_ref='DESIGN.md §6 C16',
    ),
    'C19': dict(
        module='RucteProps.C19',
        extra_modules=['RucteProps.C19Sass'],
        theorems=['Ructe.C19.mime03_rows_correct', 'Ructe.C19.mime03_default', 'Ructe.C19.httpTypes_rows_correct', 'Ructe.C19.httpTypes_default',
                  'Ructe.C19.lookups_lowercase', 'Ructe.C19.format_prefix', 'Ructe.C19.mime03_never_other', 'Ructe.C19.httpTypes_never_other',
                  'Ructe.C19.mime_case_insensitive', 'Ructe.C19Sass.sass_suffix_is_css', 'Ructe.C19Sass.sass_item', 'Ructe.C19Sass.nameAndExt_of_parts', 'Ructe.C19Sass.baseName_append'],
        needs_tables=['mime'],
        custom='exec_mime', custom_search='search_mime',
        correspondence='mime_arg(suffix) under each MIME feature vs Ructe.mimeArg over the tables translated from the source on this run',
        rule='both MIME features x every suffix of either table and of the specification x 4 case variants, plus unknown, empty, near-miss and non-ASCII suffixes: a finite space, enumerated completely',
        assumptions=['the constant list of http_types::mime is committed (the crate is not in the offline registry)', 'String::to_lowercase is modelled exactly on ASCII'],
        level_text='Kernel-checked (decide) theorems over the tables extracted from staticfiles.rs and from the cached mime crate on every run: every row names an existing constant of the registered type, defaults are the generic binary type behind a single mime:: prefix, lookup is case-insensitive and never yields another format; C19Sass: the stylesheet compiled by add_sass_file has the suffix css whatever the source file is called (sass_suffix_is_css, sass_item; needs the completeness direction of name_and_ext / file_name: nameAndExt_of_parts, baseName_append), so it gets the css row; tie + oracle through the hook under both features, and on whole generated modules (every item carries the registered type of its published suffix) under mime03 and mime03+sass.',
        level_note='Trusted: Lean kernel; tools/translate.py (table extraction); the committed specification table `registered` and the committed http-types constant list.',
        design_ref='DESIGN.md §6 C19',
    ),
    'C20': dict(
        module='RucteProps.C20',
        theorems=['Ructe.C20.static_name_total', 'Ructe.C20.static_name_never_wrong', 'Ructe.C20.static_name_missing', 'Ructe.C20.pinned_counterexample', 'Ructe.C20.sass_css_added',
                  'Ructe.C20.static_name_exact', 'Ructe.C20.static_name_nonmember_error', 'Ructe.C20.hashed_url_determines_name', 'Ructe.C20.publishedAs_hashed', 'Ructe.C20.publishedAs_verbatim', 'Ructe.C20.hashedForm_iff', 'Ructe.C20.pinned_ident_collision'],
        runs=[dict(suite='sass', features=['sass'], n=dict(quick=150, thorough=3000), projection='identity', tags=['C20'])],
        correspondence='what static_name("f") evaluates to inside add_sass_file (recovered from the published name of the compiled CSS) or the build error, vs Ructe.staticName on get_names() before the call',
        rule='sets of 1..6 previously added files from 30 names (dashes, dots, underscores, leading digits, spaces, every punctuation byte rsass accepts in a string, non-ASCII letters), added through add_file and add_file_data; one scss per reference; references to every member, to non-members and to a name never used; non-trivial = distinct queried names; every second case is built twice into the same OUT_DIR with new member contents',
        assumptions=['rsass calls the builtin with the literal argument and fails the build on CallError (opaque)', 'the compiled CSS of `a{b:static_name("f")}` is `a{b:"<url>"}` (optionally behind a BOM / @charset)'],
        level_text='Proved: static_name_total (every file added before is found and resolves to its published name: verbatim names by publishedAs_verbatim, hashed names by publishedAs_hashed + C07.slug_shape), static_name_stable, static_name_never_wrong, static_name_exact (whatever static_name(f) evaluates to is literally a published form of the REQUESTED name: f itself or stem-<8 bytes>.ext with the stem and extension of f), hashed_url_determines_name + static_name_nonmember_error (the hashed URL of a file g passes the test for f only if f and g have the same stem and extension: a name that was not added is a build error even when it shares its identifier with a member), static_name_missing, sass_css_added (the CSS is published as <stem>-<hash of the css>.css for whatever rsass produced). Tie + oracle through add_sass_file with the real rsass (members added through add_file, add_file_data and add_file_as).',
        level_note='Trusted: Lean kernel; hand-written model; rsass is opaque.',
        design_ref='DESIGN.md §6 C20',
    ),
    'C03': dict(
        module='RucteProps.C03',
        extra_modules=['RucteProps.C15Tree', 'RucteProps.C01Body', 'RucteProps.C01Blocks'],
        theorems=['Ructe.C15Tree.no_swallow_after_block', 'Ructe.C15Tree.block_complete', 'Ructe.C01.block_accounting', 'Ructe.C01.node_blocks', 'Ructe.C03.render_if_taken', 'Ructe.C03.render_else_if', 'Ructe.C03.else_if_flattening', 'Ructe.C03.render_for', 'Ructe.C03.render_match', 'Ructe.C03.render_seq', 'Ructe.C03.render_fuel_mono'],
        runs=[dict(suite='e2e', n=dict(quick=800, thorough=12000), projection='identity', tags=['C03']),
              dict(suite='parse', mix='structured,examples', n=dict(quick=1500, thorough=25000), projection='body', tags=['C03']),
              dict(suite='script', mix='history', n=dict(quick=50, thorough=500), projection='script+files', tags=['C03'])],
        correspondence='bytes written by the rustc-compiled generated functions vs Ructe.renderL (specification semantics under the mini-Rust Sem) of the model\'s parse; syntax tree and body code of structured templates vs the model',
        rule='typed template programs: 1..5 templates per program in up to 3 module levels, acyclic calls with 0..3 Content blocks (empty / comment-only / nested directives and calls), if / else-if chains / if-let / for over slices, tuples (& patterns), struct destructuring, ranges, enumerate / match with 2..3 arms, every relational operator, negation, &&, ||; 3 argument sets per program; every rendering re-run under fault sinks (failure at every byte offset for renderings up to 48 bytes, sampled beyond; chunk sizes 1 / 3 / 7 / unlimited; Interrupted every 2nd / 5th call); non-trivial = distinct renderings + distinct accepted syntax trees',
        assumptions=['user fragments are pure and infallible', 'the mini-Rust evaluator (RucteModel/MiniRust.lean) agrees with rustc on the generated fragment language (validated by this run)'],
        level_text='Proved for every Sem (meaning of user fragments), program, fuel, environment and sink: exec_realises (the emitted statements realise the specification rendering), render_if_taken / render_if_not_taken / render_else_block / render_else_if / else_if_flattening / render_for / render_iter_cons / render_match / render_seq / render_fuel_mono. The parser side (which source becomes which tree): for every well-formed source tree of the documented body syntax the parser returns the intended tree with block bodies in full, and after the closing brace of a block the following nodes are parsed as themselves unless an else really follows (C15Tree.block_complete, C15Tree.no_swallow_after_block; fragments are documented expressions, C05.expression_complete); beyond that it is validated by the documented-tree oracle. Tie: rustc-compiled code vs the Lean rendering on generated typed programs.',
        level_note='Trusted: Lean kernel; hand-written model; print : IR -> text is validated by rustc runs, not proved; rustc.',
        design_ref='DESIGN.md §6 C03',
    ),
    'C04': dict(
        module='RucteProps.C04',
        theorems=['Ructe.C04.render_call', 'Ructe.C04.block_captures_caller', 'Ructe.C04.render_content_param', 'Ructe.C04.compose_chain', 'Ructe.C04.lower_block'],
        runs=[dict(suite='e2e', n=dict(quick=800, thorough=12000), projection='identity', tags=['C04'], args=['--layout']),
              dict(suite='parse', mix='structured,examples', n=dict(quick=1500, thorough=25000), projection='body', tags=['C04']),
              dict(suite='script', mix='history', n=dict(quick=50, thorough=500), projection='script+files', tags=['C04'])],
        correspondence='as C03, on programs with calls and Content blocks across modules (templates printed with random layouts)',
        rule='typed template programs: 1..5 templates per program in up to 3 module levels, acyclic calls with 0..3 Content blocks (empty / comment-only / nested directives and calls), if / else-if chains / if-let / for over slices, tuples (& patterns), struct destructuring, ranges, enumerate / match with 2..3 arms, every relational operator, negation, &&, ||; 3 argument sets per program; every rendering re-run under fault sinks (failure at every byte offset for renderings up to 48 bytes, sampled beyond; chunk sizes 1 / 3 / 7 / unlimited; Interrupted every 2nd / 5th call); non-trivial = distinct renderings',
        assumptions=['user fragments are pure and infallible', 'module name resolution is rustc\'s (the generated crate compiles or the check reports it)'],
        level_text='Proved for every Sem: render_call, block_captures_caller (a block is a closure over the caller\'s variables), render_content_param, render_noop_param, lower_block, compose_chain (forwarding through an intermediate template), bindParams_get + exec_realises. Module resolution across sub-directories is rustc\'s (the generated crate is compiled on every run). Tie: rustc-compiled call graphs with Content blocks vs the Lean rendering.',
        level_note='Trusted: Lean kernel; hand-written model; rustc.',
        design_ref='DESIGN.md §6 C04',
    ),
    'C14': dict(
        module='RucteProps.C14',
        extra_modules=['RucteProps.C14Source'],
        theorems=['Ructe.C14.err_only_from_sink', 'Ructe.C14.exec_prefix', 'Ructe.C14.exec_ok_complete', 'Ructe.C14.exec_schedule_irrelevant', 'Ructe.C14.exec_err_stops', 'Ructe.C14.iter_err_stops'],
        runs=[dict(suite='e2e', n=dict(quick=800, thorough=12000), projection='identity', tags=['C14']),
              dict(suite='html', n=dict(quick=5000, thorough=200000), projection='identity', tags=['C14'])],
        correspondence='compiled behaviour under fault-injecting sinks (inside the generated main.rs) and the escaping writer under scheduled sinks vs Esc.toHtmlDisplay / Ructe.execL',
        rule='typed template programs: 1..5 templates per program in up to 3 module levels, acyclic calls with 0..3 Content blocks (empty / comment-only / nested directives and calls), if / else-if chains / if-let / for over slices, tuples (& patterns), struct destructuring, ranges, enumerate / match with 2..3 arms, every relational operator, negation, &&, ||; 3 argument sets per program; every rendering re-run under fault sinks (failure at every byte offset for renderings up to 48 bytes, sampled beyond; chunk sizes 1 / 3 / 7 / unlimited; Interrupted every 2nd / 5th call); non-trivial = distinct renderings',
        assumptions=['Display impls forward fmt::Error', 'user fragments are pure and infallible'],
        level_text='Theorems exec_prefix / exec_err_stops / exec_schedule_irrelevant over Ructe.execL for every schedule; tie + oracle: every generated rendering re-run with a permanent failure at every byte offset under four chunking / Interrupted regimes: accepted bytes are the prefix, the injected error is returned, no write follows the failure.',
        level_note='Trusted: Lean kernel; hand-written model of std write_all / write_fmt; rustc.',
        design_ref='DESIGN.md §6 C14',
    ),
}


NOT_YET = {}


# ------------------------------------------------------------------------------ literal oracle (C01)
def ast_texts(dump):
    """text nodes of a syntax-tree dump, in source (= emission) order"""
    i = dump.find('],[')   # skip preamble list … robustly: take the body = last top-level list
    body = dump[dump.rfind(',[', 0, len(dump)) if False else 0:]
    return [unhex(m.group(1)) for m in re.finditer(r'(?<![0-9a-f])X((?:[0-9a-f]{2})+)', body_of(dump))]


def body_of(dump):
    """the body list of `ok T([uses],ta,[args],[body])`"""
    # the third top-level '[' after 'T(' opens the body
    depth = 0
    starts = []
    for i, c in enumerate(dump):
        if c == '[':
            if depth == 0:
                starts.append(i)
            depth += 1
        elif c == ']':
            depth -= 1
    return dump[starts[2]:] if len(starts) >= 3 else ''


LIT_RE = re.compile(r'_ructe_out_\.write_all\((.*?)\)\?;\n')


def literal_oracle(res, ctx, tags=('C01',)):
    """Decode every literal the implementation printed for a text node with the Lean model of
    Rust's literal lexer and compare it with the text node of the implementation's own syntax tree."""
    reqs, items = [], []
    for i in range(0, len(res['req']) - 1, 2):
        a = res['impl'][i].split(' ')
        d = res['impl'][i + 1]
        if a[0] != 'ok' or len(a) < 2 or not d.startswith('ok '):
            continue
        code = txt(a[1])
        texts = ast_texts(d)
        lits = []
        lits = LIT_RE.findall(code)
        src_hex = res['req'][i].split(' ')[2]
        if len(lits) != len(texts):
            items.append((i, src_hex, None, None, f'{len(texts)} text nodes but {len(lits)} write_all statements'))
            continue
        for l, t in zip(lits, texts):
            if l.startswith('b"'):
                kind, lit = 'b', l
            elif l.endswith('.as_bytes()') and l.startswith('"'):
                kind, lit = 's', l[:-len('.as_bytes()')]
            else:
                items.append((i, src_hex, l, t, 'unrecognised literal form'))
                continue
            reqs.append(f'declit {kind} ' + (lit.encode().hex() or '-'))
            items.append((i, src_hex, l, t, None))
    wd = res['wdir']
    with open(wd + '/lit_req.txt', 'w') as f:
        f.write('\n'.join(reqs) + ('\n' if reqs else ''))
    with open(wd + '/lit_req.txt', 'rb') as fin:
        out = subprocess.run([ctx['driver']], stdin=fin, capture_output=True, timeout=3600).stdout.decode().split('\n')
    fails = []
    k = 0
    n_checked = 0
    for (i, src_hex, l, t, problem) in items:
        if problem is None:
            ans = out[k] if k < len(out) else ''
            k += 1
            n_checked += 1
            want = 'some ' + (t.hex() or '-')
            if ans == want:
                continue
            if ans == 'none':
                problem = f'the printed literal {l!r} does not lex as one Rust literal (rustc rejects the generated file)'
            else:
                got = unhex(ans.split(' ')[1]) if ans.startswith('some ') else ans
                problem = f'the printed literal {l!r} denotes {got!r}, the template text is {t!r}'
        fails.append(dict(tags=list(tags), kind='literal-not-text', case=i // 2, src_hex=src_hex,
                          src=unhex(src_hex).decode('utf-8', 'replace'), detail=problem))
    return fails, n_checked


# ------------------------------------------------------------------------------ script-suite helpers
def parse_answer(a):
    out = {}
    for f in a.split('|'):
        k, _, v = f.partition('=')
        out[k] = v
    return out


def answer_files(a):
    f = parse_answer(a).get('files', '')
    return {unhex(x.split(':')[0]).decode('utf-8', 'replace'): unhex(x.split(':')[1]) for x in f.split(',') if x}


def parse_entries(s, i=0):
    """entries: f<name>:<content> | d<name>(<entries>) ; returns (list, next index)"""
    out = []
    while i < len(s):
        c = s[i]
        if c in 'fl':        # l = symbolic link (kind 'l': skipped by the static calls, a file for compile_templates)
            j = i + 1
            while j < len(s) and (s[j].isalnum() or s[j] == '-'):
                j += 1
            name = unhex(s[i + 1:j])
            k = j + 1
            while k < len(s) and (s[k].isalnum() or s[k] == '-'):
                k += 1
            out.append((c, name, unhex(s[j + 1:k])))
            i = k
        elif c == 'x':       # a symbolic link that cannot be read (to nothing / to a directory): the static calls skip it
            j = i + 1
            while j < len(s) and (s[j].isalnum() or s[j] == '-'):
                j += 1
            out.append(('x', unhex(s[i + 1:j]), b''))
            i = j
        elif c == 'd':
            j = i + 1
            while j < len(s) and (s[j].isalnum() or s[j] == '-'):
                j += 1
            name = unhex(s[i + 1:j])
            sub, k = parse_entries(s, j + 1)
            out.append(('d', name, sub))
            i = k + 1          # skip ')'
        else:
            break
        if i < len(s) and s[i] == ',':
            i += 1
        else:
            break
    return out, i


def name_and_ext(fname):
    """independent re-statement of Path::file_name / extension for a final component"""
    if fname == b'..' or b'.' not in fname:
        return None
    i = fname.rfind(b'.')
    if i == 0:
        return None
    return fname[:i], fname[i + 1:]


def py_slug(data):
    import base64, hashlib
    return base64.urlsafe_b64encode(hashlib.md5(data).digest()[:6]).rstrip(b'=')


def py_mangle(name):
    s = name.decode('utf-8', 'replace')
    m = ''.join(ch if ch.isalnum() else '_' for ch in s)
    if m == '' or (m[0].isascii() and m[0].isdigit()):
        m = 'n' + m
    return m.encode()


def expected_statics(req):
    """the adds a script performs, in order, re-derived from the request by python alone"""
    f = req.split(' ')
    ops = [] if f[6] == '-' else f[6].split(';')
    adds = []
    base = unhex(f[7]) if len(f) > 7 else b''

    def pjoin(b, p):
        # PathBuf::push on Unix
        if p.startswith(b'/'):
            return p
        if b == b'' or b.endswith(b'/'):
            return b + p
        return b + b'/' + p

    def path_for(p):
        return p if p.startswith(b'/') else pjoin(base, p)

    def hashed(path, content, data=None):
        ne = name_and_ext(path.rsplit(b'/', 1)[-1])
        if ne is None:
            return
        n, e = ne
        adds.append(dict(path=path, ident=py_mangle(n + b'_' + e), url=n + b'-' + py_slug(content if data is None else data) + b'.' + e,
                         data=data, content=content, hashed=True, ext=e))

    def walk_as(d, to, entries):
        for kind, name, sub in entries:
            to2 = name if to == b'' else to + b'/' + name
            if kind == 'f':
                ne = name_and_ext(name)
                adds.append(dict(path=pjoin(d, name), ident=py_mangle(to2), url=to2, data=None, content=None, hashed=False,
                                 ext=ne[1] if ne else b''))
            elif kind == 'd':
                walk_as(pjoin(d, name), to2, sub)

    for op in ops:
        t = op.split(':')
        if t[-1] == '!':
            continue        # the call failed (nothing there): it adds nothing
        if t[0] == 'F':
            hashed(path_for(unhex(t[1])), unhex(t[2]))
        elif t[0] == 'B':
            hashed(path_for(unhex(t[1])), None, data=unhex(t[2]))
        elif t[0] == 'A':
            path, url = path_for(unhex(t[1])), unhex(t[2])
            ne = name_and_ext(path.rsplit(b'/', 1)[-1])
            adds.append(dict(path=path, ident=py_mangle(url), url=url, data=None, content=None, hashed=False, ext=ne[1] if ne else b''))
        elif t[0] == 'D':
            d = path_for(unhex(t[1]))
            entries, _ = parse_entries(':'.join(t[2:]))
            for kind, name, sub in entries:
                if kind == 'f':
                    hashed(pjoin(d, name), sub)
        elif t[0] == 'S':
            entries, _ = parse_entries(':'.join(t[3:]))
            walk_as(path_for(unhex(t[1])), unhex(t[2]), entries)
    return adds


def known_contents(req):
    """path -> bytes for every file (and symbolic link: the bytes it resolves to) the request's input tree shows"""
    f = req.split(' ')
    ops = [] if f[6] == '-' else f[6].split(';')
    base = unhex(f[7]) if len(f) > 7 else b''
    known = {}

    def pjoin(b, p):
        if p.startswith(b'/'):
            return p
        return b + p if (b == b'' or b.endswith(b'/')) else b + b'/' + p

    def walk(d, entries):
        for kind, name, sub in entries:
            if kind in ('f', 'l'):
                known[pjoin(d, name)] = sub
            else:
                walk(pjoin(d, name), sub)
    for op in ops:
        t = op.split(':')
        if t[-1] == '!':
            continue
        if t[0] == 'F':
            known[pjoin(base, unhex(t[1]))] = unhex(t[2])
        elif t[0] in ('D', 'T'):
            walk(pjoin(base, unhex(t[1])) if t[0] == 'D' else unhex(t[1]), parse_entries(':'.join(t[2:]))[0])
        elif t[0] == 'S':
            walk(pjoin(base, unhex(t[1])), parse_entries(':'.join(t[3:]))[0])
    return known


ITEM_RE = re.compile(r'\n/// From (.*)\n#\[allow\(non_upper_case_globals\)\]\npub static (\S+): StaticFile = StaticFile \{\n\s*content: (.*),\n\s*name: (.*),\n(?:\s*mime: &(.*),\n)?\};\n')
STATICS_RE = re.compile(r'\npub static STATICS: &\[&StaticFile\] = &\[(.*)\];\n')


def statics_oracle(res, ctx):
    """C07 / C08 / C09 / C16 on the implementation: names, hashes, identifiers, literals and the
    STATICS order, against expectations python derives from the scenario alone (hashlib, base64)
    and the Lean model of rustc's literal lexer."""
    fails = []
    lit_reqs, lit_items = [], []
    n_items = 0
    for i, (req, ans) in enumerate(zip(res['req'], res['impl'])):
        if not req.startswith('script '):
            continue
        adds = expected_statics(req)
        if not adds:
            continue
        pa = parse_answer(ans)
        files = answer_files(ans)
        sp = [p for p in files if p.endswith('/templates/statics.rs')]
        if not sp:
            fails.append(dict(tags=['C08', 'C09'], kind='statics-missing', case=i, detail='statics.rs was not written', request=req[:2000]))
            continue
        text = files[sp[0]].decode('utf-8', 'replace')
        got_names = {unhex(x.split('=')[0]): unhex(x.split('=')[1]) for x in pa.get('names', '').split(',') if x}

        def fail(tags, kind, detail):
            fails.append(dict(tags=tags, kind=kind, case=i, detail=detail, request=req[:3000]))
        # --- C07 / C16: get_names() maps the derived identifier to the hashed URL name
        want_names = {}
        for a in adds:
            want_names[a['ident']] = a['url']
        for a in adds:
            n_items += 1
            g = got_names.get(a['ident'])
            if g is None:
                fail(['C16'], 'identifier', f"file {a['path']!r}: expected identifier {a['ident']!r} is not a key of get_names() {sorted(got_names)!r}")
            elif g != want_names[a['ident']]:
                fail(['C07'] if a['hashed'] else ['C16', 'C09'], 'url-name',
                     f"file {a['path']!r}: get_names()[{a['ident']!r}] = {g!r}, expected {want_names[a['ident']]!r} (md5/base64 recomputed independently)")
            if not re.fullmatch(rb'[A-Za-z_][A-Za-z0-9_]*', a['ident']) and a['ident'].isascii():
                fail(['C16'], 'identifier-illegal', f"{a['ident']!r} is not a legal identifier")
        # --- items as printed
        items = ITEM_RE.findall(text)
        if len(items) != len(adds):
            fail(['C08', 'C09'], 'item-count', f'{len(adds)} files added but {len(items)} items printed')
        for a, (frm, ident, content, namelit, mime) in zip(adds, items):
            if ident.encode() != a['ident']:
                fail(['C16'], 'item-identifier', f"file {a['path']!r}: item is called {ident!r}, expected {a['ident']!r}")
            lit_reqs.append('declit s ' + (namelit.encode().hex() or '-'))
            lit_items.append((i, req, ['C08'], 'name-literal', namelit, a['url'], a))
            if content.startswith('b"'):
                lit_reqs.append('declit b ' + (content.encode().hex() or '-'))
                lit_items.append((i, req, ['C08'], 'content-literal', content, a['data'] if a['data'] is not None else b'<not data>', a))
            elif content.startswith('include_bytes!(') and content.endswith(')'):
                inner = content[len('include_bytes!('):-1]
                lit_reqs.append('declit s ' + (inner.encode().hex() or '-'))
                lit_items.append((i, req, ['C08'], 'content-path', inner, a['path'] if a['data'] is None else b'<data expected>', a))
            else:
                fail(['C08'], 'content-form', f'unrecognised content expression {content[:80]!r}')
        # --- C07, item by item and independent of the expectation above: whatever file an item embeds, a hashed
        # name carries the hash of the COMPLETE bytes at that path (also for files the expectation does not list)
        known = known_contents(req)
        for (frm, ident, content, namelit, mime) in items:
            if not content.startswith('include_bytes!(') or '\\' in frm or '\\' in namelit:
                continue
            path = frm.strip('"').encode()
            name = namelit.strip('"').encode()
            hm = re.fullmatch(rb'(.*)-([A-Za-z0-9_-]{8})\.([^./]*)', name, re.S)
            if path in known and hm and hm.group(1) + b'.' + hm.group(3) == path.rsplit(b'/', 1)[-1]:
                if hm.group(2) != py_slug(known[path]):
                    fail(['C07'], 'hash-not-of-content', f'{path!r} ({len(known[path])} bytes) is published as {name!r}; the hash of its complete content is {py_slug(known[path])!r}')
        # --- C09: STATICS lists each published name exactly once, ascending by name
        m = STATICS_RE.search(text)
        if not m:
            fail(['C09'], 'statics-line', 'no STATICS line')
        else:
            idents = [x.strip().lstrip('&') for x in m.group(1).split(',') if x.strip()]
            by_url = {}
            for a in adds:
                by_url[a['url']] = a['ident']          # a URL name published twice is one entry (last wins)
            want = [by_url[u].decode('utf-8', 'replace') for u in sorted(by_url)]
            if idents != want:
                fail(['C09'], 'statics-order', f'STATICS = {idents}, expected (ascending byte order of name) {want}')
    wd = res['wdir']
    with open(wd + '/slit_req.txt', 'w') as f:
        f.write('\n'.join(lit_reqs) + ('\n' if lit_reqs else ''))
    with open(wd + '/slit_req.txt', 'rb') as fin:
        out = subprocess.run([ctx['driver']], stdin=fin, capture_output=True, timeout=3600).stdout.decode().split('\n')
    for k, (i, req, tags, kind, lit, want, a) in enumerate(lit_items):
        ans = out[k] if k < len(out) else ''
        if ans == 'some ' + (want.hex() or '-'):
            continue
        if ans == 'none':
            detail = f"file {a['path']!r}: the printed literal {lit[:200]!r} does not lex as one Rust literal (the statics module does not compile)"
        else:
            got = unhex(ans.split(' ')[1]) if ans.startswith('some ') else ans
            detail = f"file {a['path']!r}: the printed literal {lit[:200]!r} denotes {got[:200]!r}, expected {want[:200]!r}"
        fails.append(dict(tags=tags, kind=kind, case=i, detail=detail, request=req[:3000]))
    return fails, n_items


def rust_bytes_lit(b):
    return 'b"' + ''.join('\\x%02x' % c for c in b) + '"'


def statics_e2e(res, ctx, tags, feat='off', limit=24):
    """Compile the generated statics module with rustc and read everything back:
    STATICS order and contents, StaticFile::get on members and near misses, every item by its
    identifier (and `mime` under mime03)."""
    import concurrent.futures, glob, shutil
    metas = []
    mp = res['wdir'] + '/scenarios.jsonl'
    if not os.path.exists(mp):
        return [], 0
    by_line = {}
    k = 0
    for i, req in enumerate(res['req']):
        if req.startswith('script '):
            by_line[k] = i
            k += 1
    for k, l in enumerate(open(mp)):
        try:
            metas.append((k, json.loads(l)))
        except Exception:
            pass
    extern = []
    if feat == 'mime03':
        deps = os.path.join(os.path.dirname(ctx['binary_paths'].get('mime03', '')), 'deps')
        rl = sorted(glob.glob(deps + '/libmime-*.rlib'))
        if not rl:
            return [dict(tags=tags, kind='e2e-setup', case=0, detail='libmime rlib not found under ' + deps)], 0
        extern = ['--extern', 'mime=' + rl[0], '-L', 'dependency=' + deps]
    jobs = []
    # a scenario may run several times into one OUT_DIR: what is kept on disk is the state after its LAST run
    last = {}
    for k, m in metas:
        last[m.get('case')] = k
    for k, m in metas:
        if last.get(m.get('case')) != k:
            continue
        i = by_line.get(k)
        if i is None or len(jobs) >= limit:
            continue
        adds = expected_statics(res['req'][i])
        if not adds:
            continue
        idents = [a['ident'] for a in adds]
        urls = [a['url'] for a in adds]
        if len(set(idents)) != len(idents) or len(set(urls)) != len(urls):
            continue          # two files under one identifier / URL name: outside the property's domain
        if not all(x.isascii() for x in idents):
            pass
        jobs.append((k, i, m, adds))
    fails = []

    def one(job):
        k, i, m, adds = job
        out = m['out']
        sp = out + '/templates/statics.rs'
        if not os.path.exists(sp):
            return [dict(tags=tags, kind='e2e-missing', case=i, detail=sp + ' missing (scenario directory not kept?)')]
        wd = res['wdir'] + f'/e2e{k}'
        os.makedirs(wd, exist_ok=True)
        names = sorted(a['url'] for a in adds)
        probes = set(names)
        for n in names:
            probes |= {n[:-1], n + b'x', n.swapcase(), n[1:], n[:len(n) // 2]}
        probes |= {b'', b'zzz', b'-', b'/'}
        probes = sorted(p for p in probes if p.decode('utf-8', 'ignore').encode() == p)
        src = ['#![allow(warnings)]', 'mod statics { include!(%s); }' % json.dumps(sp),
               'fn hex(b: &[u8]) -> String { if b.is_empty() { return "-".into(); } b.iter().map(|x| format!("{:02x}", x)).collect() }',
               'fn main() {',
               '  for s in statics::STATICS { println!("S {} {}", hex(s.name.as_bytes()), hex(s.content)); }']
        for p in probes:
            src.append('  { let p = std::str::from_utf8(%s).unwrap(); println!("G {} {}", hex(p.as_bytes()), match statics::StaticFile::get(p) { Some(s) => hex(s.name.as_bytes()), None => "none".to_string() }); }' % rust_bytes_lit(p))
        for a in adds:
            ident = a['ident'].decode('utf-8', 'replace')
            src.append('  println!("N %s {}", hex(statics::%s.name.as_bytes()));' % (a['ident'].hex(), ident))
            if feat == 'mime03':
                src.append('  println!("M %s {}", statics::%s.mime);' % (a['ident'].hex(), ident))
        src.append('}')
        open(wd + '/main.rs', 'w').write('\n'.join(src) + '\n')
        c = subprocess.run(['rustc', '--edition', '2021', '--error-format=short', '-C', 'debuginfo=0', '-o', wd + '/bin', wd + '/main.rs'] + extern,
                           capture_output=True, text=True)
        scen = describe_script_req(res['req'][i])
        if c.returncode != 0:
            errs = ' | '.join(l for l in c.stderr.split('\n') if 'error' in l)[:1200]
            return [dict(tags=tags, kind='statics-module-does-not-compile', case=i, detail=errs, request=scen)]
        r = subprocess.run([wd + '/bin'], capture_output=True, text=True)
        lines = r.stdout.split('\n')
        out_f = []

        def fail(kind, detail):
            out_f.append(dict(tags=tags, kind=kind, case=i, detail=detail, request=scen))
        got_s = [(unhex(l.split(' ')[1]), unhex(l.split(' ')[2])) for l in lines if l.startswith('S ')]
        if [n for n, _ in got_s] != names:
            fail('STATICS-order', f'compiled STATICS names {[n for n, _ in got_s]!r}, expected ascending {names!r}')
        bycontent = {}
        for a in adds:
            if a['data'] is not None:
                bycontent[a['url']] = a['data']
            else:
                try:
                    bycontent[a['url']] = open(a['path'], 'rb').read()
                except OSError:
                    bycontent[a['url']] = None
        for n, c2 in got_s:
            want = bycontent.get(n)
            if want is not None and c2 != want:
                fail('content', f'StaticFile {n!r}: content has {len(c2)} bytes, the source has {len(want)} (first difference at {next((j for j, (x, y) in enumerate(zip(c2, want)) if x != y), min(len(c2), len(want)))})')
        for l in lines:
            f = l.split(' ')
            if f[0] == 'G':
                p, g = unhex(f[1]), f[2]
                want = p.hex() or '-' if p in names else 'none'
                if (g if g != 'none' else 'none') != (want if want != 'none' else 'none'):
                    fail('get', f'StaticFile::get({p!r}) = {("Some(" + repr(unhex(g)) + ")") if g != "none" else "None"}, expected {"Some" if p in names else "None"}')
            elif f[0] == 'N':
                ident, g = unhex(f[1]), unhex(f[2])
                want = [a['url'] for a in adds if a['ident'] == ident][-1]
                if g != want:
                    fail('named-item', f'statics::{ident.decode()}.name = {g!r}, expected {want!r}')
            elif f[0] == 'M':
                ident, g = unhex(f[1]), ' '.join(f[2:])
                a = [a for a in adds if a['ident'] == ident][-1]
                low = a['ext'].decode('utf-8', 'replace').lower()
                okset = REGISTERED.get(low, ['application/octet-stream'])
                if g not in okset and not (g == 'application/octet-stream' and low not in MUST_KNOW['mime03']):
                    fail('mime-value', f'statics::{ident.decode()}.mime = {g}, expected {" or ".join(okset)} for suffix {low!r}')
        shutil.rmtree(wd, ignore_errors=True)
        return out_f
    with concurrent.futures.ThreadPoolExecutor(max_workers=12) as ex:
        for r in ex.map(one, jobs):
            fails += r
    return fails, len(jobs)


def describe_script_req(req):
    f = req.split(' ')
    try:
        ops = [] if f[6] == '-' else f[6].split(';')
        out = []
        for o in ops:
            t = o.split(':')
            if t[0] in ('F', 'B'):
                out.append(f"{'add_file' if t[0] == 'F' else 'add_file_data'}({txt(t[1])!r}, {len(unhex(t[2]))} bytes)")
            elif t[0] == 'A':
                out.append(f'add_file_as({txt(t[1])!r}, {txt(t[2])!r})')
            elif t[0] == 'D':
                ents, _ = parse_entries(':'.join(t[2:]))
                out.append(f"add_files({txt(t[1])!r}) listing {[e[1].decode('utf-8', 'replace') for e in ents]}")
            elif t[0] == 'S':
                out.append(f'add_files_as({txt(t[1])!r}, {txt(t[2])!r})')
            elif t[0] == 'T':
                out.append(f'compile_templates({txt(t[1])!r})')
        return '; '.join(out)[:3000]
    except Exception:
        return req[:2000]


def proj_script(keys):
    def f(req, ans):
        if not req.startswith('script '):
            return ans
        p = parse_answer(ans)
        return '|'.join(k + '=' + p.get(k, '') for k in keys)
    return f


# ------------------------------------------------------------------------------ MIME oracle (C19)
REGISTERED = {
    'css': ['text/css'], 'js': ['text/javascript', 'application/javascript'], 'jsonp': ['text/javascript', 'application/javascript'],
    'json': ['application/json'], 'png': ['image/png'], 'jpg': ['image/jpeg'], 'jpeg': ['image/jpeg'], 'gif': ['image/gif'],
    'bmp': ['image/bmp'], 'svg': ['image/svg+xml'], 'woff': ['font/woff'], 'woff2': ['font/woff2'],
    'ico': ['image/x-icon', 'image/vnd.microsoft.icon'], 'html': ['text/html'], 'htm': ['text/html'], 'txt': ['text/plain'],
    'wasm': ['application/wasm'], 'xml': ['application/xml', 'text/xml'],
}
HTTP_TYPES_CONSTANTS = {
    'ANY': '*/*', 'BYTE_STREAM': 'application/octet-stream', 'CSS': 'text/css', 'FORM': 'application/x-www-form-urlencoded',
    'HTML': 'text/html', 'ICO': 'image/x-icon', 'JAVASCRIPT': 'text/javascript', 'JPEG': 'image/jpeg', 'JSON': 'application/json',
    'MULTIPART_FORM': 'multipart/form-data', 'PLAIN': 'text/plain', 'PNG': 'image/png', 'SSE': 'text/event-stream',
    'SVG': 'image/svg+xml', 'WASM': 'application/wasm', 'XML': 'application/xml',
}
# suffixes each feature must know (the ones the property names, where the crate has a constant)
# the suffixes each feature lists (the rows of its table on the repaired reference tree)
MUST_KNOW = {'mime03': ['bmp', 'css', 'gif', 'jpg', 'jpeg', 'js', 'jsonp', 'json', 'png', 'svg', 'woff', 'woff2'],
             'http-types': ['css', 'html', 'htm', 'ico', 'jpg', 'jpeg', 'js', 'jsonp', 'json', 'png', 'svg', 'txt', 'wasm', 'xml']}


def mime03_constants():
    import glob
    for p in sorted(glob.glob(os.path.expanduser('~/.cargo/registry/src/*/mime-0.3.*/src/lib.rs'))):
        t = open(p).read()
        m = re.search(r'\nmimes!\s*\{(.*?)\n\}', t, re.S)
        if m:
            return dict(re.findall(r'^\s*([A-Z][A-Z0-9_]*)\s*,\s*"([^"]*)"', m.group(1), re.M))
    return {}


def mime_oracle(res, feat):
    consts = mime03_constants() if feat == 'mime03' else HTTP_TYPES_CONSTANTS
    fails = []
    for i, (req, ans) in enumerate(zip(res['req'], res['impl'])):
        f = req.split(' ')
        if f[0] != 'mimearg':
            continue
        suffix = unhex(f[2]).decode('utf-8', 'replace')
        out = unhex(ans).decode('utf-8', 'replace')

        def fail(kind, detail):
            fails.append(dict(tags=['C19'], kind=kind, case=i, feature=feat, suffix=suffix, printed=out, detail=detail))
        m = re.fullmatch(r'\s*mime: &mime::(.*),\n', out)
        if not m:
            fail('mime-line-shape', f'feature {feat}, suffix {suffix!r}: unexpected mime line {out!r}')
            continue
        c = m.group(1)
        if c not in consts:
            fail('constant-missing', f'feature {feat}, suffix {suffix!r}: the generated code names `mime::{c}`, which does not exist in the crate')
            continue
        t = consts[c]
        low = suffix.lower()
        if low in REGISTERED and t in REGISTERED[low]:
            continue
        if t == 'application/octet-stream' and low not in MUST_KNOW[feat]:
            continue
        want = REGISTERED.get(low, ['application/octet-stream'])
        fail('wrong-type', f'feature {feat}, suffix {suffix!r}: mime::{c} is {t}, expected {" or ".join(want)}' +
             ('' if low in REGISTERED else ' (unknown suffix: generic binary type)'))
    return fails


GENERIC_ITEM_RE = re.compile(r'\n/// From (.*)\n#\[allow\(non_upper_case_globals\)\]\npub static (\S+): StaticFile = StaticFile \{\n(.*?)\n?\};', re.S)


def struct_items(text):
    """every `pub static X: StaticFile = StaticFile { .. }` item of a statics.rs as (from, name, mime constant), read the
    way rustc reads a struct expression: a field that is not written is taken from the base of a struct update
    (`..other_item`), transitively"""
    items = {}
    order = []
    for m in GENERIC_ITEM_RE.finditer(text):
        fields, base = {}, None
        for line in m.group(3).split('\n'):
            line = line.strip()
            fm = re.match(r'^(\w+): (.*?),?$', line)
            bm = re.match(r'^\.\.\s*&?\*?(\w+)\s*,?$', line)
            if bm:
                base = bm.group(1)
            elif fm:
                fields[fm.group(1)] = fm.group(2)
        items[m.group(2)] = (m.group(1), fields, base)
        order.append(m.group(2))

    def field(ident, key, depth=0):
        if ident not in items or depth > 50:
            return None
        _, fields, base = items[ident]
        if key in fields:
            return fields[key]
        return field(base, key, depth + 1) if base else None
    out = []
    for ident in order:
        mime = field(ident, 'mime')
        out.append((items[ident][0], field(ident, 'name'), mime[1:] if mime and mime.startswith('&') else mime))
    return out


def items_mime_oracle(res, feat):
    """C19 on whole generated modules: every item of every statics.rs a run produced carries the registered type
    of the suffix of its *published name* (whatever entry point added it, incl. the CSS compiled by add_sass_file)"""
    consts = mime03_constants() if feat == 'mime03' else HTTP_TYPES_CONSTANTS
    fails, n = [], 0
    for i, (req, ans) in enumerate(zip(res['req'], res['impl'])):
        if not req.startswith('script '):
            continue
        for path, text in answer_files(ans).items():
            if not path.endswith('/statics.rs'):
                continue
            for from_lit, name_lit, c in struct_items(text.decode('utf-8', 'replace')):
                n += 1
                if name_lit is None:
                    continue
                name = name_lit.strip('"')
                # a hashed name (`stem-<8 chars>.ext`) carries the file's suffix; a verbatim URL name (add_file_as)
                # may be anything: there the suffix is that of the source file
                which = name if re.search(r'-[A-Za-z0-9_-]{8}\.[^./]*$', name) else from_lit.strip('"')
                base = which.rsplit('/', 1)[-1]
                suffix = base.rsplit('.', 1)[1] if '.' in base[1:] else ''
                low = suffix.lower()
                if c is None:
                    fails.append(dict(tags=['C19'], kind='item-without-mime', case=i, detail=f'feature {feat}: item {name_lit} has no mime field'))
                    continue
                c = c.replace('mime::', '')
                t = consts.get(c)
                if t is None:
                    fails.append(dict(tags=['C19'], kind='constant-missing', case=i, detail=f'feature {feat}: item {name_lit} names mime::{c}, which does not exist in the crate'))
                elif low in REGISTERED and t in REGISTERED[low]:
                    pass
                elif t == 'application/octet-stream' and low not in MUST_KNOW[feat]:
                    pass
                else:
                    fails.append(dict(tags=['C19'], kind='item-wrong-type', case=i,
                                      detail=f'feature {feat}: the static published as {name_lit} has mime::{c} ({t}), expected {" or ".join(REGISTERED.get(low, ["application/octet-stream"]))}'))
    return fails, n


def exec_mime(prop, plan, ctx):
    disagreements, oracle, samples = [], [], []
    cov = dict(evaluations=0, distinct_nontrivial=0, distribution={}, exhaustive=True)
    for feat in ('mime03', 'http-types'):
        binary, err = ctx['build_harness']([feat])
        if binary is None:
            return dict(error='harness build with feature ' + feat + ' failed: ' + err[-1500:])
        r = dict(suite='mime', n=1, projection='identity', tags=['C19'])
        res = ctx['run_suite'](binary, ctx['driver'], r, ctx['tier'], ctx['seed'], f"{ctx['work']}/mime-{feat}")
        if 'error' in res:
            return dict(error=res['error'])
        d = compare(res, 'identity')
        for x in d:
            x['suite'] = 'mime:' + feat
        disagreements += d
        oracle += mime_oracle(res, feat)
        cov['evaluations'] += len(res['req'])
        cov['distinct_nontrivial'] += len(set(res['req']))
        cov['distribution'][feat] = res['stats']
        samples += sample_reqs(res, 4)
        if feat == 'mime03':
            # the generated module is compiled against the cached mime crate and `mime` is read back
            ctx.setdefault('binary_paths', {})['mime03'] = binary
            r2 = dict(suite='script', mix='statics', n=dict(quick=30, thorough=300), projection='script+files', tags=['C19'], args=['--keep'])
            res2 = ctx['run_suite'](binary, ctx['driver'], r2, ctx['tier'], ctx['seed'], f"{ctx['work']}/mime-e2e")
            if 'error' in res2:
                return dict(error=res2['error'])
            d2 = compare(res2, 'script+files')
            for x in d2:
                x['suite'] = 'script:mime03'
            disagreements += d2
            ef, njobs = statics_e2e(res2, ctx, ['C19'], feat='mime03', limit=dict(quick=16, thorough=120)[ctx['tier']])
            oracle += ef
            f2, n2 = items_mime_oracle(res2, 'mime03')
            oracle += f2
            res2['stats']['items.mime_checked'] = n2
            res2['stats']['statics.e2e_modules_compiled'] = njobs
            cov['distribution']['script:mime03'] = res2['stats']
            cov['evaluations'] += len(res2['req'])
            import shutil as _sh
            for l in open(res2['wdir'] + '/scenarios.jsonl') if os.path.exists(res2['wdir'] + '/scenarios.jsonl') else []:
                try:
                    _sh.rmtree(json.loads(l)['root'], ignore_errors=True)
                except Exception:
                    pass
    # the MIME feature together with `sass`: the stylesheet compiled by add_sass_file is a static like any other
    # and must be served as CSS (rsass is opaque to the model: oracle on the generated module only)
    binary, err = ctx['build_harness'](['mime03', 'sass'])
    if binary is None:
        return dict(error='harness build with features mime03,sass failed: ' + err[-1500:])
    r3 = dict(suite='script', mix='sassimports', n=dict(quick=25, thorough=250), projection='script+', tags=['C19'])
    res3 = ctx['run_suite'](binary, ctx['driver'], r3, ctx['tier'], ctx['seed'], f"{ctx['work']}/mime-sass")
    if 'error' in res3:
        return dict(error=res3['error'])
    f3, n3 = items_mime_oracle(res3, 'mime03')
    oracle += f3
    res3['stats']['items.mime_checked'] = n3
    cov['distribution']['script:mime03+sass'] = res3['stats']
    cov['evaluations'] += len(res3['req'])
    return dict(disagreements=disagreements, oracle=oracle, coverage=cov, samples=samples)


def search_mime(prop, plan, ctx, disagreements, pr):
    # the space is finite and was enumerated completely by exec_mime; nothing more to search
    return dict(oracle=[], coverage=dict(evaluations=0))


# ------------------------------------------------------------------------------ execution
def compare(res, projection):
    p = PROJ.get(projection) or (proj_script(projection.split('+')[1:]) if projection.startswith('script+') else None)
    out = []
    for i, (r, a, b) in enumerate(zip(res['req'], res['impl'], res['model'])):
        if a == b:
            continue
        pa, pb = p(r, a), p(r, b)
        if pa != pb:
            out.append(dict(index=i, request=r[:4000], implementation=pa[:4000], model=pb[:4000]))
    return out


def readable(req, ans):
    """a human-readable form of one request / answer pair for the evidence samples"""
    f = req.split(' ')
    try:
        if f[0] == 'compile':
            a = ans.split(' ')
            return dict(template=txt(f[2])[:500], implementation=(a[0] + ': ' + txt(a[1])[:300]) if len(a) > 1 else ans)
        if f[0] == 'ast':
            return dict(template=txt(f[1])[:500], syntax_tree=ans[:300])
        if f[0] == 'sub':
            a = ans.split(' ')
            return dict(parser=f[1], input=txt(f[2])[:300], implementation=' '.join(a[:2]) + (' ' + repr(txt(a[2])) if len(a) > 2 else ''))
        if f[0] == 'html':
            a = ans.split(' ')
            return dict(mode=f[1], pieces=[('' if p == 'e' else txt(p)) for p in f[2].split(',')] if f[2] != '-' else [], schedule=f[3],
                        result=a[0], sink=txt(a[1])[:200] if len(a) > 1 else '')
        if f[0] == 'render':
            a = ans.split(' ')
            return dict(program=describe_render_req(req)[:1500], compiled_output=(a[0] + ' ' + repr(txt(a[1]))[:300]) if len(a) > 1 else ans)
        if f[0] == 'script':
            ops = [] if f[6] == '-' else [o.split(':')[0] + ' ' + txt(o.split(':')[1]) for o in f[6].split(';')]
            pa = parse_answer(ans)
            return dict(script=ops, prior_out_files=0 if f[5] == '-' else len(f[5].split(',')),
                        stdout=txt(pa.get('stdout', '-')).split('\n')[:8], files_after=len(pa.get('files', '').split(',')),
                        physical_writes=len([x for x in pa.get('writes', '').split(',') if x]))
        if f[0] == 'mimearg':
            return dict(feature=f[1], suffix=txt(f[2]), printed=txt(ans))
        if f[0] == 'sassname':
            return dict(query=txt(f[3]), known_identifiers=0 if f[2] == '-' else len(f[2].split(',')), result=ans[:80])
    except Exception:
        pass
    return dict(request=req[:400], implementation=ans[:300])


def sample_reqs(res, k=6):
    n = len(res['req'])
    if n == 0:
        return []
    step = max(1, n // k)
    return [readable(res['req'][i], res['impl'][i]) for i in range(min(1, n - 1), n, step)][:k]


def describe_render_req(req):
    f = req.split(' ')
    try:
        progs = '\n'.join('--- ' + txt(d.split(':')[0]) + '\n' + txt(d.split(':')[1]) for d in f[1].split(';'))
        env = ', '.join(txt(x.split('=')[0]) + '=' + x.split('=')[1] for x in f[3].split(';'))
        return progs[:6000] + '\nENTRY ' + txt(f[2]) + '\nENV ' + env[:1500]
    except Exception:
        return req[:3000]


def execute(prop, plan, ctx):
    if 'custom' in plan:
        return globals()[plan['custom']](prop, plan, ctx)
    disagreements, oracle, samples = [], [], []
    cov = dict(evaluations=0, distinct_nontrivial=0, distribution={})
    for k, r in enumerate(plan['runs']):
        binary = ctx['binary']
        ctx.setdefault('binary_paths', {})
        if r.get('features'):
            binary, err = ctx['build_harness'](r['features'])
            if binary is None:
                return dict(error='harness build with features ' + ','.join(r['features']) + ' failed: ' + err[-1500:])
            ctx['binary_paths'][r['features'][0]] = binary
        if r.get('srcgen'):
            # cases drawn from the DOMAIN OF THE COMPLETENESS THEOREMS: RucteProofs/SrcGen.lean generates source
            # templates (header + body tree), filters them with the proved-sound checker templateOkB, prints them and
            # their intended tree; the real parser must return exactly that tree
            gen_path = f"{ctx['work']}/srcgen{k}.txt"
            cnt = r['srcgen'][ctx['tier']]
            lean_dir = os.path.join(os.environ.get('VERIF_ROOT', '/verif'), 'lean')
            with open(gen_path, 'w') as gf:
                g = subprocess.run(['lake', 'env', 'lean', '--run', 'tools/SrcGen.lean', str(ctx['seed']), str(cnt), str(r.get('srcgen_size', 30))],
                                   cwd=lean_dir, stdout=gf, stderr=subprocess.PIPE, text=True, timeout=3600)
            tail = [l for l in open(gen_path) if l.startswith('#') or l.startswith('!')]
            if g.returncode != 0 or not tail or any(l.startswith('!') for l in tail) or 'mismatches=0' not in tail[-1]:
                return dict(error='source-tree generator failed or disagrees with the model: ' + (g.stderr or '')[-800:] + ' '.join(tail)[-800:])
            r = dict(r, mix='srcgen:' + gen_path, n=1)
            cov.setdefault('extra', {})['srcgen'] = tail[-1].strip()[:3000]
        res = ctx['run_suite'](binary, ctx['driver'], r, ctx['tier'], ctx['seed'], f"{ctx['work']}/run{k}")
        if 'error' in res:
            return dict(error=res['error'])
        d = compare(res, r.get('projection', 'identity'))
        for x in d:
            x['suite'] = r['suite']
        if r['suite'] == 'e2e':
            # the Lean `render` of the same program is the specification: a compiled template that
            # writes something else is a failure of the property itself, with the program as replay
            for x in d:
                oracle.append(dict(tags=r['tags'], kind='rendering-differs-from-spec', case=x['index'],
                                   detail='compiled template wrote ' + repr(txt(x['implementation'].split(' ')[1]) if x['implementation'].startswith(('ok ', 'err ')) else x['implementation']) +
                                   ', the specification rendering is ' + repr(txt(x['model'].split(' ')[1]) if x['model'].startswith('ok ') else x['model']),
                                   program=describe_render_req(x['request'])))
            d = []
        disagreements += d
        oracle += [o for o in res['oracle'] if set(o.get('tags', [])) & set(r['tags'])]
        st = res['stats']
        if r.get('literal_oracle'):
            lf, nlit = literal_oracle(res, ctx, tags=r['tags'])
            oracle += lf
            st['literals.decoded'] = nlit
        if r.get('statics_oracle'):
            sf, nitems = statics_oracle(res, ctx)
            oracle += [o for o in sf if set(o['tags']) & set(r['tags'])]
            st['statics.items_checked'] = nitems
        if r.get('statics_e2e'):
            ef, njobs = statics_e2e(res, ctx, r['tags'], feat=(r.get('features') or ['off'])[0], limit=r['statics_e2e'][ctx['tier']])
            oracle += ef
            st['statics.e2e_modules_compiled'] = njobs
        if '--keep' in r.get('args', []):
            import glob as _g, shutil as _sh
            for l in open(res['wdir'] + '/scenarios.jsonl') if os.path.exists(res['wdir'] + '/scenarios.jsonl') else []:
                try:
                    _sh.rmtree(json.loads(l)['root'], ignore_errors=True)
                except Exception:
                    pass
        cov['evaluations'] += st.get('cases', len(res['req']))
        cov['distinct_nontrivial'] += sum(v for kk, v in st.items() if kk.startswith('distinct.'))
        cov['distribution'][f"{r['suite']}:{r.get('mix', 'all')}"] = st
        samples += sample_reqs(res)
    return dict(disagreements=disagreements, oracle=oracle, coverage=cov, samples=samples)


def search(prop, plan, ctx, disagreements, pr):
    """Extra budget looking for an input on which the property itself fails on the implementation."""
    if 'custom_search' in plan:
        return globals()[plan['custom_search']](prop, plan, ctx, disagreements, pr)
    oracle = []
    evals = 0
    for extra_seed in range(1, 4):
        for k, r in enumerate(plan.get('runs', [])):
            r2 = dict(r)
            n = r['n'][ctx['tier']] if isinstance(r['n'], dict) else r['n']
            r2['n'] = n * 3
            binary = ctx['binary']
            if r.get('features'):
                binary, err = ctx['build_harness'](r['features'])
                if binary is None:
                    continue
            res = ctx['run_suite'](binary, ctx['driver'], r2, ctx['tier'], ctx['seed'] * 1000 + extra_seed,
                                   f"{ctx['work']}/search{k}")
            if 'error' in res:
                continue
            evals += len(res['req'])
            oracle += [o for o in res['oracle'] if set(o.get('tags', [])) & set(r['tags'])]
            if r.get('literal_oracle'):
                oracle += literal_oracle(res, ctx, tags=r['tags'])[0]
            if r.get('statics_oracle'):
                oracle += [o for o in statics_oracle(res, ctx)[0] if set(o['tags']) & set(r['tags'])]
        if oracle:
            break
    return dict(oracle=oracle, coverage=dict(evaluations=evals))


def do_replay(prop, plan, path, chk):
    payload = json.load(open(path))
    case = payload.get('case') or {}
    if 'src_hex' in case:
        binary, err = chk.build_harness(plan.get('features', []))
        if binary is None:
            print(err)
            return 2
        wd = f'{chk.WORK}/replay-{prop}'
        os.makedirs(wd, exist_ok=True)
        with open(wd + '/cases.txt', 'w') as f:
            f.write(case['src_hex'] + '\n')
        h = subprocess.run([binary, 'parse', '--mix', 'file:' + wd + '/cases.txt', '--out', wd], capture_output=True, text=True)
        print(h.stdout, h.stderr)
        for fn in ('impl.txt', 'oracle.jsonl'):
            if os.path.exists(f'{wd}/{fn}'):
                print(f'--- {fn}')
                print(open(f'{wd}/{fn}').read()[:4000])
        return 1 if os.path.getsize(wd + '/oracle.jsonl') > 0 else 0
    return 0
