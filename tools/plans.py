"""Per-property plans: which theorem module, which correspondence suites, which projection of the
answers is the correspondence, which oracle tags belong to the property."""
import json, os, re, subprocess

TRUSTED_BASE = [
    'Lean 4.33.0 kernel; axioms allowed in property theorems: propext, Classical.choice, Quot.sound (audited per theorem by tools/Audit.lean)',
    'the Lean model is hand-written (lean/RucteModel); it is tied to /repo by the differential correspondence harness (harness/, feature verif-hooks) and, for finite tables, by tools/translate.py',
    'a behaviour of the code that no generated case reaches is not covered by the tie; the generator distribution is in coverage.distribution',
]


def unhex(h):
    return b'' if h == '-' else bytes.fromhex(h)


def txt(h):
    return unhex(h).decode('utf-8', 'replace')


# ------------------------------------------------------------------------------ projections
def proj_identity(req, ans):
    return ans


def header_of(code):
    i = code.find('where W: Write {\n')
    return code if i < 0 else code[:i]


def proj_parse(kind):
    """projections of the `parse` suite answers (two lines per case: compile, ast)"""
    def f(req, ans):
        r = req.split(' ', 1)[0]
        a = ans.split(' ')
        if r == 'compile':
            if kind == 'accept':          # C11: accept / reject / panic + diagnostics position and echoed line
                if a[0] == 'err' and len(a) > 1:
                    d = txt(a[1])
                    out = []
                    for l in d.split('\n'):
                        l = l[len('cargo:warning='):] if l.startswith('cargo:warning=') else l
                        if l.startswith('     '):
                            out.append('col' + str(l[5:].find('^')))      # caret column, not the message
                        else:
                            out.append(l)
                    return 'err ' + '|'.join(out)
                return a[0]
            if kind == 'header':          # C13: the signature part of the generated code
                return a[0] + ' ' + (header_of(txt(a[1])) if a[0] == 'ok' and len(a) > 1 else '')
            if kind == 'text':            # C15 / C18: byte identity of the generated code
                return ans if a[0] == 'ok' else a[0]
            if kind == 'body':            # C01/C03/C04: body lines of the generated code
                if a[0] == 'ok' and len(a) > 1:
                    c = txt(a[1])
                    i = c.find('where W: Write {\n')
                    return 'ok ' + c[i:]
                return a[0]
            return a[0]
        if r == 'ast':
            if kind in ('accept', 'header'):
                return a[0]
            return ans if a[0] == 'ok' else a[0]
        return ans
    return f


PROJ = dict(identity=proj_identity, accept=proj_parse('accept'), header=proj_parse('header'),
            text=proj_parse('text'), body=proj_parse('body'))

HTML_ASSUME = ['Display impls hand their text to write_str in pieces and forward fmt::Error',
               'the sink follows a schedule of partial accepts / Interrupted / Ok(0) / permanent failure; an empty schedule accepts everything']

PLANS = {
    'C02': dict(
        module='RucteProps.C02',
        theorems=['Esc.C02.toHtml_any_schedule', 'Esc.C02.toHtml_prefix', 'Esc.C02.unescape_escape',
                  'Esc.C02.escape_no_raw', 'Esc.C02.entity_table_matches_source', 'Esc.C02.toHtml_decodes'],
        needs_tables=True,
        runs=[dict(suite='html', n=dict(quick=20000, thorough=600000), projection='identity', tags=['C02'])],
        correspondence='bytes accepted by the sink and Ok/Err result of ToHtml::to_html (public API) vs Esc.toHtmlDisplay, for the same (pieces, schedule)',
        rule='exhaustive: all strings over {<,>,&,",\',a,é,space} up to length 3 (quick) / 4 (thorough) x all compositions into pieces x all schedules over {accept 1, accept 2, accept all, Interrupted} up to length 3 / 4 (all schedules for the finest and coarsest chunkings, every 7th otherwise); random: long strings, random chunking, schedules with Ok(0) and permanent failure. non-trivial = text contains a special byte; distinct = distinct (mode, text)',
        assumptions=HTML_ASSUME,
        trusted=['std io::Write::write_all / write_fmt are modelled (library/std/src/io/mod.rs) and validated by the tie'],
        level_text='Theorems toHtml_any_schedule / toHtml_prefix / unescape_escape / escape_no_raw hold for every piece list and every sink schedule (no bound); the model is tied to templates/utils.rs by an exhaustive-plus-random differential run through the public ToHtml API and by a kernel-checked theorem over the entity table extracted from the source on every run.',
        level_note='Trusted: Lean kernel; the hand-written model of ToHtmlEscapingWriter and std write_all/write_fmt (validated by the tie); Display impls forward fmt::Error.',
        design_ref='DESIGN.md §6 C02',
    ),
    'C06': dict(
        module='RucteProps.C06',
        theorems=['Esc.C06.html_raw', 'Esc.C06.toBuffer_eq', 'Esc.C06.buffer_verbatim', 'Esc.C06.buffer_roundtrip',
                  'Esc.C06.toBuffer_idempotent', 'Esc.C06.escape_not_idempotent', 'Esc.C06.buffer_eq_iff'],
        runs=[dict(suite='html', n=dict(quick=20000, thorough=600000), projection='identity', tags=['C06'])],
        correspondence='sink bytes and result of Html(..).to_html, to_buffer(), HtmlBuffer::to_html, to_buffer().to_buffer() and the PartialEq impls vs Esc.toHtmlRaw / toBufferDisplay / bufferToHtml / bufferToBuffer / bufferEq',
        rule='same case stream as C02 with modes raw / buf / bufbuf; non-trivial = text contains a special byte; distinct = distinct (mode, text)',
        assumptions=HTML_ASSUME,
        trusted=['std io::Write::write_all / write_fmt are modelled and validated by the tie'],
        level_text='Theorems html_raw, toBuffer_eq, buffer_verbatim, buffer_roundtrip, toBuffer_idempotent, buffer_eq_iff hold for every text, chunking and schedule; escape_not_idempotent shows they are not vacuous. Tie: differential run through Html(..), to_buffer(), HtmlBuffer::to_html, as_ref and == of the public API.',
        level_note='Trusted: Lean kernel; the hand-written model of Html<T>, to_buffer, HtmlBuffer and std write_all (validated by the tie).',
        design_ref='DESIGN.md §6 C06',
    ),
}


NOT_YET = {}

# ------------------------------------------------------------------------------ execution
def compare(res, projection):
    p = PROJ[projection]
    out = []
    for i, (r, a, b) in enumerate(zip(res['req'], res['impl'], res['model'])):
        if a == b:
            continue
        pa, pb = p(r, a), p(r, b)
        if pa != pb:
            out.append(dict(index=i, request=r[:4000], implementation=pa[:4000], model=pb[:4000]))
    return out


def sample_reqs(res, k=6):
    n = len(res['req'])
    if n == 0:
        return []
    step = max(1, n // k)
    return [dict(request=res['req'][i][:600], implementation=res['impl'][i][:600]) for i in range(0, n, step)][:k]


def execute(prop, plan, ctx):
    if 'custom' in plan:
        return plan['custom'](prop, plan, ctx)
    disagreements, oracle, samples = [], [], []
    cov = dict(evaluations=0, distinct_nontrivial=0, distribution={})
    for k, r in enumerate(plan['runs']):
        res = ctx['run_suite'](ctx['binary'], ctx['driver'], r, ctx['tier'], ctx['seed'], f"{ctx['work']}/run{k}")
        if 'error' in res:
            return dict(error=res['error'])
        d = compare(res, r.get('projection', 'identity'))
        for x in d:
            x['suite'] = r['suite']
        disagreements += d
        oracle += [o for o in res['oracle'] if set(o.get('tags', [])) & set(r['tags'])]
        st = res['stats']
        cov['evaluations'] += st.get('cases', len(res['req']))
        cov['distinct_nontrivial'] += sum(v for kk, v in st.items() if kk.startswith('distinct.'))
        cov['distribution'][f"{r['suite']}:{r.get('mix', 'all')}"] = st
        samples += sample_reqs(res)
    return dict(disagreements=disagreements, oracle=oracle, coverage=cov, samples=samples)


def search(prop, plan, ctx, disagreements, pr):
    """Extra budget looking for an input on which the property itself fails on the implementation."""
    if 'custom_search' in plan:
        return plan['custom_search'](prop, plan, ctx, disagreements, pr)
    oracle = []
    evals = 0
    for extra_seed in range(1, 4):
        for k, r in enumerate(plan.get('runs', [])):
            r2 = dict(r)
            n = r['n'][ctx['tier']] if isinstance(r['n'], dict) else r['n']
            r2['n'] = n * 3
            res = ctx['run_suite'](ctx['binary'], ctx['driver'], r2, ctx['tier'], ctx['seed'] * 1000 + extra_seed,
                                   f"{ctx['work']}/search{k}")
            if 'error' in res:
                continue
            evals += len(res['req'])
            oracle += [o for o in res['oracle'] if set(o.get('tags', [])) & set(r['tags'])]
        if oracle:
            break
    return dict(oracle=oracle, coverage=dict(evaluations=evals))


def do_replay(prop, plan, path, chk):
    payload = json.load(open(path))
    print(json.dumps(payload, indent=1, ensure_ascii=False)[:6000])
    case = payload.get('case') or {}
    if 'src_hex' in case:
        binary, err = chk.build_harness(plan.get('features', []))
        if binary is None:
            print(err)
            return 2
        wd = f'{chk.WORK}/replay-{prop}'
        os.makedirs(wd, exist_ok=True)
        with open(wd + '/cases.txt', 'w') as f:
            f.write(case['src_hex'] + '\n')
        h = subprocess.run([binary, 'parse', '--mix', 'file:' + wd + '/cases.txt', '--out', wd], capture_output=True, text=True)
        print(h.stdout, h.stderr)
        for fn in ('impl.txt', 'oracle.jsonl'):
            if os.path.exists(f'{wd}/{fn}'):
                print(f'--- {fn}')
                print(open(f'{wd}/{fn}').read()[:4000])
        return 1 if os.path.getsize(wd + '/oracle.jsonl') > 0 else 0
    return 0
