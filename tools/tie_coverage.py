#!/usr/bin/env python3
"""Which lines of /repo/src do the correspondence suites actually execute?

Builds the harness with `-C instrument-coverage` (nightly toolchain, llvm-tools), runs every suite
of every plan once at its quick size, merges the profiles and writes /verif/coverage/tie-coverage.json
(+ .txt): per source file the executed / executable line counts and the executable lines that no
generated case reached.  This measures the *tie* (generator reach), it is not a verdict: a line no case
reaches is a behaviour the differential check cannot see.
"""
import glob, json, os, shutil, subprocess, sys
V = os.path.dirname(os.path.dirname(os.path.abspath(__file__)))
REPO = os.environ.get('VERIF_REPO', '/repo')
sys.path.insert(0, V + '/tools')
import plans
H = V + '/harness'
W = '/dev/shm/ructe-tie-cov'
ENV = dict(os.environ, CARGO_NET_OFFLINE='true', VERIF_ROOT=V, VERIF_REPO=REPO)
tc = subprocess.run(['rustc', '+nightly', '--print', 'sysroot'], capture_output=True, text=True).stdout.strip()
BIN = glob.glob(tc + '/lib/rustlib/*/bin')[0]

def sh(cmd, **kw):
    return subprocess.run(cmd, env=kw.pop('env', ENV), capture_output=True, text=True, **kw)

def main():
    tier = sys.argv[1] if len(sys.argv) > 1 else 'quick'
    shutil.rmtree(W, ignore_errors=True)
    os.makedirs(W + '/prof')
    bins = {}
    for feats in (['mime03', 'sass'], ['http-types']):
        tdir = 'target-cov-' + '-'.join(feats)
        b = sh(['cargo', '+nightly', 'build', '--release', '--offline', '--target-dir', tdir, '--features', ','.join(feats)],
               cwd=H, env=dict(ENV, RUSTFLAGS='-C instrument-coverage'))
        if b.returncode != 0:
            print(b.stderr[-3000:]); return 2
        bins[tuple(feats)] = f'{H}/{tdir}/release/harness'
    runs = set()
    for k, p in plans.PLANS.items():
        for r in p.get('runs', []):
            mix = r.get('mix', 'all'); mix = mix if isinstance(mix, str) else mix[tier]
            n = r['n'][tier] if isinstance(r['n'], dict) else r['n']
            runs.add((r['suite'], mix, n, tuple(r.get('args', []))))
    runs.add(('mime', 'all', 1000, ()))
    done = []
    for i, (suite, mix, n, args) in enumerate(sorted(runs)):
        for feats, binary in bins.items():
            if feats == ('http-types',) and suite != 'mime':
                continue
            out = f'{W}/run{i}'
            os.makedirs(out, exist_ok=True)
            env = dict(ENV, LLVM_PROFILE_FILE=f'{W}/prof/{suite}-{i}-%p-%m.profraw')
            r = sh([binary, suite, '--mix', mix, '--n', str(n), '--seed', '1', '--tier', tier, '--out', out] + list(args), cwd=out, env=env)
            done.append(dict(suite=suite, mix=mix, n=n, args=list(args), features=list(feats), rc=r.returncode))
            shutil.rmtree(out, ignore_errors=True)
    report = {}
    for feats, binary in bins.items():
        prof = f'{W}/{"-".join(feats)}.profdata'
        raws = glob.glob(W + '/prof/*.profraw')
        m = sh([BIN + '/llvm-profdata', 'merge', '-sparse', '-o', prof] + raws)
        if m.returncode != 0:
            # profiles of the other binary do not match: merge only what loads
            ok = [x for x in raws if sh([BIN + '/llvm-profdata', 'show', x]).returncode == 0]
            sh([BIN + '/llvm-profdata', 'merge', '-sparse', '-failure-mode=warn', '-o', prof] + ok)
        e = sh([BIN + '/llvm-cov', 'export', '-format=lcov', '-instr-profile', prof, binary, '--ignore-filename-regex', r'(\.cargo|rustc|/verif/)'])
        cur = None
        for line in e.stdout.split('\n'):
            if line.startswith('SF:'):
                cur = line[3:]
                if not cur.startswith(REPO + '/src'):
                    cur = None
                else:
                    report.setdefault(cur, {})
            elif line.startswith('DA:') and cur:
                ln, cnt = line[3:].split(',')[:2]
                report[cur][int(ln)] = max(report[cur].get(int(ln), 0), int(cnt))
    files = {}
    tot_e = tot_x = 0
    for f, lines in sorted(report.items()):
        rel = os.path.relpath(f, REPO)
        if rel.endswith('verif_hooks.rs'):
            continue
        src = open(f).read().split('\n')
        # the crate's own unit tests are not part of the shipped behaviour
        cut = next((i + 1 for i, l in enumerate(src) if l.strip().startswith('#[cfg(test)]')), 10 ** 9)
        ex = {l: c for l, c in lines.items() if l < cut}
        missed = sorted(l for l, c in ex.items() if c == 0)
        files[rel] = dict(executable=len(ex), executed=len(ex) - len(missed), missed_lines=missed,
                          missed_text=[f'{l}: {src[l-1].strip()}' for l in missed][:200])
        tot_e += len(ex) - len(missed); tot_x += len(ex)
    os.makedirs(V + '/coverage', exist_ok=True)
    out = dict(tier=tier, runs=done, total=dict(executable=tot_x, executed=tot_e, percent=round(100.0 * tot_e / max(tot_x, 1), 2)), files=files)
    json.dump(out, open(V + '/coverage/tie-coverage.json', 'w'), indent=1)
    with open(V + '/coverage/tie-coverage.txt', 'w') as t:
        t.write(f'lines of {REPO}/src executed by the correspondence suites ({tier} sizes): {tot_e}/{tot_x} = {out["total"]["percent"]}%\n')
        for rel, d in files.items():
            t.write(f'\n{rel}: {d["executed"]}/{d["executable"]}\n')
            for m in d['missed_text']:
                t.write('    not reached  ' + m + '\n')
    print(open(V + '/coverage/tie-coverage.txt').read())
    shutil.rmtree(W, ignore_errors=True)
    return 0

if __name__ == '__main__':
    sys.exit(main())
