#!/bin/sh
# apply a seeded patch to /repo, run the given checks, revert. usage: try_seed.sh <patch> Cxx [Cyy ...]
P=$1; shift
cd /repo && git apply "$P" || exit 2
cd /verif
for c in "$@"; do ./check $c quick 2>&1 | grep -E "VIOLATION|KNOWN|\[check\] C" | cut -c1-300; done
git -C /repo checkout -- .
git -C /repo status --short | head -3
