#!/usr/bin/env python3
"""Orchestrator: decides one property per invocation.

  ./check <Cxx> [quick|thorough] [--replay FILE]

Stages (DESIGN.md §2): proof (lake build + axiom audit), tie (harness vs Lean driver under the
property's projection), oracle (property evaluated on the implementation), search (only when
proof or tie broke), verdict.  Exit 0 = held, 1 = VIOLATION line printed, 2 = machinery broken.
"""
import fcntl, hashlib, json, os, re, shutil, subprocess, sys, time

V = os.path.dirname(os.path.dirname(os.path.abspath(__file__)))
REPO = os.environ.get('VERIF_REPO', '/repo')
LEAN = V + '/lean'
HARNESS = V + '/harness'
WORK = '/dev/shm/ructe-verif-work' if os.path.isdir('/dev/shm') else V + '/work'
sys.path.insert(0, V + '/tools')
import plans  # noqa: E402

ALLOWED_AXIOMS = {'propext', 'Classical.choice', 'Quot.sound'}
ENV = dict(os.environ, CARGO_NET_OFFLINE='true', VERIF_ROOT=V, VERIF_REPO=REPO)


def log(*a):
    print('[check]', *a, file=sys.stderr, flush=True)


class Lock:
    def __init__(self, name):
        self.path = f'{V}/.{name}.lock'

    def __enter__(self):
        self.f = open(self.path, 'w')
        fcntl.flock(self.f, fcntl.LOCK_EX)

    def __exit__(self, *a):
        fcntl.flock(self.f, fcntl.LOCK_UN)
        self.f.close()


def run(cmd, cwd=None, timeout=3600, stdin=None, stdout=None):
    return subprocess.run(cmd, cwd=cwd, env=ENV, timeout=timeout, stdin=stdin,
                          stdout=stdout if stdout is not None else subprocess.PIPE,
                          stderr=subprocess.STDOUT if stdout is None else subprocess.PIPE, text=(stdout is None))


# ----------------------------------------------------------------------------- proof stage
def proof_stage(plan, ev):
    """Regenerate tables, build the property's theorem module and the driver, audit axioms."""
    res = dict(ok=False, obligations=0, discharged=0, detail='', theorems=[])
    with Lock('lean'):
        t = run([sys.executable, V + '/tools/translate.py'], cwd=V)
        res['translate'] = t.stdout.strip()[-2000:]
        res['translate_ok'] = t.returncode == 0
        d = run(['lake', 'build', 'driver'], cwd=LEAN)
        if d.returncode == 0:
            # keep a private copy of the driver so that a concurrent rebuild cannot replace it mid-run
            os.makedirs(ev['work'], exist_ok=True)
            shutil.copy(LEAN + '/.lake/build/bin/driver', ev['work'] + '/driver')
        modules = [plan['module']] + plan.get('extra_modules', [])
        build_targets = list(modules)
        if any(r.get('srcgen') for r in plan.get('runs', [])):
            build_targets.append('RucteProofs.SrcGen')      # generator of cases from the theorems' own domain
        b = run(['lake', 'build'] + build_targets, cwd=LEAN)
        if b.returncode != 0 or d.returncode != 0:
            errs = [l for l in (d.stdout + b.stdout).split('\n') if l.startswith('error:')]
            res['detail'] = 'lake build failed: theorem(s) no longer check:\n' + '\n'.join(errs[:12]) + '\n' + b.stdout[-1500:]
            res['obligations'] = max(len(plan['theorems']), 1)
            return res
        audits = [run(['lake', 'env', 'lean', '--run', V + '/tools/Audit.lean', m], cwd=LEAN) for m in modules]
    names = {}
    for a in audits:
        try:
            audit = json.loads(a.stdout.strip().split('\n')[-1])
        except Exception:
            res['detail'] = 'audit produced no JSON:\n' + a.stdout[-2000:]
            res['obligations'] = len(plan['theorems'])
            return res
        names.update({t['name']: t['axioms'] for t in audit['theorems']})
    res['theorems'] = sorted(names)
    res['obligations'] = len(names)
    bad = []
    for n, ax in names.items():
        if not set(ax) <= ALLOWED_AXIOMS:
            bad.append(f'{n} depends on {sorted(set(ax) - ALLOWED_AXIOMS)}')
    missing = [t for t in plan['theorems'] if t not in names]
    for m in missing:
        bad.append(f'required theorem {m} is missing from {plan["module"]}')
    res['obligations'] += len(missing)
    res['discharged'] = len(names) - len([n for n, ax in names.items() if not set(ax) <= ALLOWED_AXIOMS])
    # source-level hygiene of the whole Lean tree
    g = run(['grep', '-rnE', r'\bsorry\b|\badmit\b|^axiom |native_decide|bv_decide|implemented_by|unsafe |maxHeartbeats 0',
             'RucteModel', 'RucteProofs', 'RucteProps', 'RucteTables'], cwd=LEAN)
    hits = [l for l in g.stdout.split('\n') if l and not re.search(r':\s*(--|/-)', l)]
    if hits:
        bad.append('forbidden construct in Lean sources: ' + '; '.join(hits[:5]))
    if not res['translate_ok'] and plan.get('needs_tables'):
        # only the tables this property's theorems are about
        try:
            st = json.load(open(LEAN + '/RucteTables/status.json'))
        except Exception:
            st = dict(tables={}, problems=[res['translate'][-500:]])
        need = plan['needs_tables'] if isinstance(plan['needs_tables'], (list, tuple)) else ['entities', 'suffixes', 'mime']
        broken = [t for t in need if not st.get('tables', {}).get(t, False)]
        if broken:
            bad.append('table(s) ' + ', '.join(broken) + ' could not be extracted from the current source (the theorems are about the table extracted earlier): ' + '; '.join(st.get('problems', []))[-500:])
    res['ok'] = not bad
    res['detail'] = '\n'.join(bad)
    return res


# ----------------------------------------------------------------------------- harness
def build_harness(features):
    tdir = 'target' + ('-' + '-'.join(features) if features else '')
    with Lock('cargo'):
        shutil.copy(REPO + '/Cargo.lock', HARNESS + '/Cargo.lock') if os.path.exists(REPO + '/Cargo.lock') else None
        cmd = ['cargo', 'build', '--release', '--offline', '--target-dir', tdir]
        if features:
            cmd += ['--features', ','.join(features)]
        b = run(cmd, cwd=HARNESS)
        if b.returncode != 0:
            return None, b.stdout[-6000:]
        return f'{HARNESS}/{tdir}/release/harness', ''


def run_suite(binary, driver, r, tier, seed, wdir):
    """Run one harness suite and the Lean driver on the same requests."""
    os.makedirs(wdir, exist_ok=True)
    for f in os.listdir(wdir):
        p = os.path.join(wdir, f)
        if os.path.isfile(p):
            os.remove(p)
    n = r['n'][tier] if isinstance(r['n'], dict) else r['n']
    cmd = [binary, r['suite'], '--mix', r.get('mix', 'all') if isinstance(r.get('mix', 'all'), str) else r['mix'][tier],
           '--n', str(n), '--seed', str(seed), '--tier', tier, '--out', wdir] + (r.get('args', [])[tier] if isinstance(r.get('args', []), dict) else r.get('args', []))
    h = run(cmd, cwd=wdir, timeout=7200)
    if h.returncode != 0:
        return dict(error='harness failed: ' + h.stdout[-3000:])
    with open(wdir + '/req.txt', 'rb') as fin, open(wdir + '/model.txt', 'wb') as fout:
        d = subprocess.run([driver], stdin=fin, stdout=fout, stderr=subprocess.PIPE, timeout=7200)
    if d.returncode != 0:
        return dict(error='driver failed: ' + d.stderr.decode()[-2000:])
    if os.path.exists(wdir + '/infra.txt'):
        return dict(error='infrastructure failure in the ' + r['suite'] + ' suite: ' + open(wdir + '/infra.txt').read()[:1500])
    req = open(wdir + '/req.txt').read().split('\n')
    imp = open(wdir + '/impl.txt').read().split('\n')
    mod = open(wdir + '/model.txt').read().split('\n')
    if req and req[-1] == '':
        req.pop()
    imp = imp[:len(req)] + [''] * max(0, len(req) - len(imp))
    mod = mod[:len(req)] + [''] * max(0, len(req) - len(mod))
    oracle = []
    if os.path.exists(wdir + '/oracle.jsonl'):
        for l in open(wdir + '/oracle.jsonl'):
            l = l.strip()
            if l:
                oracle.append(json.loads(l))
    stats = json.load(open(wdir + '/stats.json')) if os.path.exists(wdir + '/stats.json') else {}
    return dict(req=req, impl=imp, model=mod, oracle=oracle, stats=stats, wdir=wdir)


# ----------------------------------------------------------------------------- verdict
def load_known():
    try:
        return json.load(open(V + '/known-findings.json'))
    except Exception:
        return {'known': [], 'fixed': []}


def is_known(prop, o, known):
    for k in known.get('known', []):
        if k.get('property') != prop:
            continue
        m = k.get('match', {})
        if all(str(o.get(f)) == str(v) for f, v in m.items()):
            return k
    return None


def write_replay(prop, seed, idx, payload):
    payload.setdefault('seed', seed)
    payload.setdefault('tier', os.environ.get('VERIF_TIER_EFFECTIVE', 'quick'))
    os.makedirs(V + '/replay', exist_ok=True)
    path = f'{V}/replay/{prop}-{seed}-{idx}.json'
    with open(path, 'w') as f:
        json.dump(payload, f, indent=1, ensure_ascii=False)
    return path


def main():
    args = [a for a in sys.argv[1:]]
    if not args:
        print(__doc__)
        return 2
    prop = args[0]
    tier = os.environ.get('VERIF_TIER', 'quick')
    replay = None
    i = 1
    while i < len(args):
        if args[i] in ('quick', 'thorough'):
            tier = args[i]
        elif args[i] == '--replay':
            replay = args[i + 1]
            i += 1
        i += 1
    seed = int(os.environ.get('VERIF_SEED', '1'))
    os.environ['VERIF_TIER_EFFECTIVE'] = tier
    if prop not in plans.PLANS:
        log('no plan for', prop)
        return 2
    plan = plans.PLANS[prop]
    t0 = time.time()
    ev = dict(work=f'{WORK}/{prop}-{tier}-{os.getpid()}')
    os.makedirs(ev['work'], exist_ok=True)
    evidence_path = f'{V}/evidence/{prop}.json'
    os.makedirs(V + '/evidence', exist_ok=True)
    if os.path.exists(evidence_path) and not replay:
        os.remove(evidence_path)
    if not replay and os.path.isdir(V + '/replay'):
        # replay files of earlier runs of this property would only mislead
        for f in os.listdir(V + '/replay'):
            if f.startswith(prop + '-'):
                os.remove(os.path.join(V, 'replay', f))

    if replay:
        try:
            payload = json.load(open(replay))
        except Exception as e:
            log('cannot read replay file:', e)
            return 2
        print(json.dumps(payload, indent=1, ensure_ascii=False)[:4000])
        rc_single = plans.do_replay(prop, plan, replay, sys.modules[__name__])
        seed = int(payload.get('seed', seed))
        tier = payload.get('tier', tier)
        log(f'replaying the whole {tier} run of {prop} with seed {seed} (generators are deterministic in the seed)')
        os.environ['VERIF_SEED'] = str(seed)
        ev = dict(work=f'{WORK}/{prop}-{tier}-{os.getpid()}')
        os.makedirs(ev['work'], exist_ok=True)

    # ---- stage 1: proof
    pr = proof_stage(plan, ev)
    log(f'proof stage: ok={pr["ok"]} obligations={pr["obligations"]} discharged={pr["discharged"]}')
    if not pr['ok']:
        log(pr['detail'])
    driver = ev['work'] + '/driver'
    if not os.path.exists(driver):
        # the driver is needed for the tie; without a build there is nothing to run
        log('no driver binary; cannot run the tie stage')
        return finish(prop, plan, tier, seed, t0, pr, [], [], [], {}, broken='lean build failed: ' + pr['detail'][:500])

    # ---- stage 2/3: tie + oracle
    binary, err = build_harness(plan.get('features', []))
    if binary is None:
        # does ructe itself still build? if so only the hook module no longer fits the code: the tie
        # to the source is broken and the property is no longer shown to hold
        plain = run(['cargo', 'build', '--offline', '--manifest-path', REPO + '/Cargo.toml', '--target-dir', HARNESS + '/target-plain'], cwd=REPO)
        if plain.returncode != 0:
            log('/repo does not build:\n' + plain.stdout[-3000:])
            return 2
        log('the harness (feature verif-hooks) no longer builds against /repo although ructe itself does:\n' + err[-3000:])
        return finish(prop, plan, tier, seed, t0, pr, [], [], [], {},
                      broken='the correspondence harness no longer compiles against the current source (hooks do not fit the code any more): ' + err[-1500:])
    private = ev['work'] + '/harness-bin'
    shutil.copy(binary, private)
    results = []
    ctx = dict(binary=private, driver=driver, tier=tier, seed=seed, work=ev['work'], plan=plan, prop=prop,
               run_suite=run_suite, log=log, build_harness=build_harness)
    outcome = plans.execute(prop, plan, ctx)
    if outcome.get('error'):
        if outcome['error'].startswith('harness failed'):
            # the harness process itself died: the code under test panicked or aborted outside every case boundary
            # (every known in-process call is wrapped; on the unchanged tree this does not happen). The tie is broken.
            log('the harness died while driving the implementation:', outcome['error'][-1500:])
            return finish(prop, plan, tier, seed, t0, pr, [], [], [], {},
                          broken='the correspondence harness died while driving the implementation (a panic or abort inside the code under test): ' + outcome['error'][-1500:])
        log('machinery error:', outcome['error'])
        return 2
    disagreements = outcome['disagreements']
    oracle_fail = outcome['oracle']
    coverage = outcome['coverage']

    # ---- stage 4: search (only if a proof obligation or the correspondence broke)
    if (not pr['ok'] or disagreements) and not oracle_fail:
        log(f'proof/correspondence broke ({len(disagreements)} disagreements); searching for a failing input')
        extra = plans.search(prop, plan, ctx, disagreements, pr)
        oracle_fail = extra.get('oracle', [])
        coverage['search'] = extra.get('coverage', {})

    return finish(prop, plan, tier, seed, t0, pr, disagreements, oracle_fail, outcome.get('samples', []), coverage)


def finish(prop, plan, tier, seed, t0, pr, disagreements, oracle_fail, samples, coverage, broken=None):
    known = load_known()
    new_viol = []
    lines = []
    for o in oracle_fail:
        k = is_known(prop, o, known)
        if k:
            lines.append(f'KNOWN-FINDING: property={prop} {k.get("what", "")}')
        else:
            new_viol.append(o)
    for l in sorted(set(lines)):
        print(l)
    rc = 0
    n_viol = 0
    if new_viol:
        # one replay per distinct kind (first = smallest) keeps the output readable
        seen = {}
        for o in new_viol:
            key = o.get('kind', '?')
            size = len(json.dumps(o))
            if key not in seen or size < seen[key][0]:
                seen[key] = (size, o)
        for j, (key, (_, o)) in enumerate(sorted(seen.items())):
            path = write_replay(prop, seed, j, dict(property=prop, kind='oracle-failure-on-implementation', oracle=key,
                                                   case=o, replay_cmd=f'./check {prop} --replay <this file>'))
            print(f'VIOLATION property={prop} replay={path}')
            n_viol += 1
        rc = 1
    elif (not pr['ok']) or disagreements or broken:
        payload = dict(property=prop, kind='proof-or-correspondence-broken',
                       proof_ok=pr['ok'], proof_detail=pr['detail'],
                       broken=broken,
                       correspondence=plan.get('correspondence', ''),
                       disagreements=disagreements[:20], n_disagreements=len(disagreements),
                       note='no input was found on which the property itself fails on the implementation; '
                            'the property is no longer shown to hold')
        path = write_replay(prop, seed, 'nofail', payload)
        print(f'VIOLATION property={prop} replay={path} no-failing-input-found')
        n_viol = 1
        rc = 1
    wall = time.time() - t0
    cov = dict(
        obligations=max(pr['obligations'], 1), discharged=pr['discharged'],
        checker_cmd='cd /verif/lean && ' + ' && '.join(f'lake build {m} && lake env lean --run /verif/tools/Audit.lean {m}' for m in [plan['module']] + plan.get('extra_modules', [])),
        trusted_base=plans.TRUSTED_BASE + plan.get('trusted', []),
        theorems=pr['theorems'],
        programs=coverage.get('evaluations', 0),
        disagreements_checked=len(disagreements),
        evaluations=coverage.get('evaluations', 0),
        distinct_nontrivial=coverage.get('distinct_nontrivial', 0),
        rule=plan.get('rule', ''),
        samples=samples[:8] if samples else coverage.get('samples', [])[:8],
        exhaustive=coverage.get('exhaustive', False),
        explanation=plan.get('explanation', ''),
        correspondence=plan.get('correspondence', ''),
        distribution=coverage.get('distribution', {}),
        oracle_failures_on_implementation=len(oracle_fail),
        model_disagreements=len(disagreements),
    )
    for k in ('search', 'e2e', 'extra'):
        if k in coverage:
            cov[k] = coverage[k]
    evd = dict(property_id=prop, tier=tier, seed=seed, level='proof', coverage=cov,
               assumptions=plan.get('assumptions', []), wall_s=round(wall, 2), violations=n_viol)
    with open(f'{V}/evidence/{prop}.json', 'w') as f:
        json.dump(evd, f, indent=1, ensure_ascii=False)
    log(f'{prop} {tier}: rc={rc} proof_ok={pr["ok"]} disagreements={len(disagreements)} '
        f'oracle_failures={len(oracle_fail)} evaluations={cov["evaluations"]} wall={wall:.1f}s')
    return rc


if __name__ == '__main__':
    rc = 2
    try:
        rc = main()
    finally:
        # scratch data of this invocation (request / answer files, private binaries)
        if not os.environ.get('VERIF_KEEP_WORK'):
            for d in os.listdir(WORK) if os.path.isdir(WORK) else []:
                if d.endswith('-' + str(os.getpid())):
                    shutil.rmtree(os.path.join(WORK, d), ignore_errors=True)
    sys.exit(rc)
