#!/usr/bin/env python3
"""Show the first differing cases between impl.txt and model.txt of a work dir."""
import sys
sys.path.insert(0,'/verif/tools')
from dumpfmt import fmt
d=sys.argv[1]; limit=int(sys.argv[2]) if len(sys.argv)>2 else 5
req=open(d+'/req.txt').read().split('\n'); imp=open(d+'/impl.txt').read().split('\n'); mod=open(d+'/model.txt').read().split('\n')
def dec(x):
    p=x.split(' ')
    if p[0] in('ok','err') and len(p)==2 and not p[1].startswith('T('):
        try: return p[0]+' '+repr(bytes.fromhex(p[1] if p[1]!='-' else '').decode('utf-8','replace'))
        except ValueError: pass
    return fmt(x)
n=0
for i,(r,a,b) in enumerate(zip(req,imp,mod)):
    if a!=b:
        f=r.split(' ')
        src=f[2] if f[0]=='compile' else f[-1]
        try: s=bytes.fromhex(src if src!='-' else '')
        except ValueError: s=src.encode()
        print('#',i,f[0],repr(s)); print('  impl :',dec(a)[:1500]); print('  model:',dec(b)[:1500]); n+=1
        if n>=limit: break
