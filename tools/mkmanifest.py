#!/usr/bin/env python3
"""Regenerate /verif/MANIFEST.json from tools/plans.py (keeps the two in step)."""
import json, subprocess, sys
sys.path.insert(0, '/verif/tools')
import plans

ALL = [json.loads(l)['id'] for l in open('/verif/properties.jsonl')]
hooks_commits = subprocess.run(['git', '-C', '/repo', 'log', '--format=%H', '--grep=verif-hooks', '--grep=verification hook', '-i'],
                               capture_output=True, text=True).stdout.split()
checks = []
for pid in ALL:
    if pid not in plans.PLANS:
        continue
    p = plans.PLANS[pid]
    checks.append(dict(
        property_id=pid,
        quick_cmd=f'./check {pid} quick',
        thorough_cmd=f'./check {pid} thorough',
        evidence_file=f'/verif/evidence/{pid}.json',
        replay_cmd_template=f'./check {pid} --replay {{path}}',
        engine='lean-model+correspondence',
        level_claimed=dict(category='proof', text=p.get('level_text', ''), design_ref=p.get('design_ref', 'DESIGN.md §6')),
        level_note=p.get('level_note', ''),
        technique=p.get('technique', 'Lean 4 theorems about a hand-written executable model + differential correspondence check against the real code'),
    ))
na = [dict(property_id=pid, reason=plans.NOT_YET.get(pid, 'not claimed yet: its check is still under construction in this round (see DESIGN.md §10 order of work)'))
      for pid in ALL if pid not in plans.PLANS]
m = dict(
    version=1,
    setup_cmd='./setup.sh',
    hooks=dict(guard='verif-hooks (cargo feature of ructe)',
               enable='the harness crate depends on ructe = { path = "/repo", features = ["verif-hooks"] } and is rebuilt by every check',
               baseline_off_cmd='cd /repo && cargo test --workspace --no-fail-fast --offline',
               source_commits=hooks_commits, add_only=True),
    engines=[dict(name='lean-model+correspondence', path='/verif/lean, /verif/harness, /verif/tools/check.py',
                  serves_properties=[c['property_id'] for c in checks],
                  kind_free_text='Lean 4 model + theorems (lake), axiom audit, Rust harness calling the real ructe in-process, compiled Lean driver, rustc end-to-end runs of generated code')],
    checks=checks,
    not_applicable=na,
    notes='Every check: (1) regenerates RucteTables from /repo/src, lake-builds the property\'s theorem module, audits axioms; (2) rebuilds the harness against /repo\'s working tree and compares implementation and model under the property\'s projection; (3) evaluates the property\'s oracle on the implementation; (4) searches for a failing input if (1) or (2) broke. See DESIGN.md.',
)
json.dump(m, open('/verif/MANIFEST.json', 'w'), indent=1, ensure_ascii=False)
print('claimed:', [c['property_id'] for c in checks])
