#!/bin/sh
# like try_seed_alt.sh but with its own scratch worktree / machinery copy, so several can run side by side
#   tools/try_alt_tag.sh <tag> <patch> Cxx [Cyy ...]
TAG=$1; P=$(readlink -f "$2"); shift 2
ALTREPO=/var/tmp/alt-repo-$TAG; ALT=/var/tmp/alt-verif-$TAG
git -C /repo worktree remove --force $ALTREPO 2>/dev/null; git -C /repo worktree prune
git -C /repo worktree add -q --detach $ALTREPO HEAD || exit 2
(cd $ALTREPO && git apply --3way "$P") || { echo "patch does not apply"; exit 2; }
"$(dirname "$0")/mkalt.sh" $ALT $ALTREPO >/dev/null
for c in "$@"; do VERIF_REPO=$ALTREPO $ALT/check $c quick 2>&1 | grep -E "VIOLATION|KNOWN|\[check\] C|machinery" | cut -c1-300; done
git -C /repo worktree remove --force $ALTREPO; git -C /repo worktree prune
