#!/bin/sh
# Build the framework from files on disk only (offline).
set -e
export CARGO_NET_OFFLINE=true
cd "$(dirname "$0")"
REPO=${VERIF_REPO:-/repo}
python3 tools/translate.py || true
(cd lean && lake build driver RucteModel RucteTables RucteProofs; lake build RucteProps RucteProofs.SrcGen || true)
cp $REPO/Cargo.lock harness/Cargo.lock 2>/dev/null || true
cd harness
cargo build --release --offline --target-dir target
cargo build --release --offline --target-dir target-mime03 --features mime03
cargo build --release --offline --target-dir target-http-types --features http-types
cargo build --release --offline --target-dir target-sass --features sass
cargo build --release --offline --target-dir target-mime03-sass --features mime03,sass
