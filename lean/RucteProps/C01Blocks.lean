import RucteProps.C01Body

/-!
# C01 / C03 — every nesting position (soundness direction, every accepted template)

`C01Body` accounts for the top level of an accepted template and for the body of any block.  This file
closes the recursion: whatever node `template_expression` returns, **every list of nodes inside it** — the
body of an `@if` and of its `else`, the body of an `@for`, every `@match` arm, every `{…}` block argument of
a call — was produced by `template_block` (or, for block arguments, by `many0(template_expression)`) on a
piece of the source, so `block_accounting` / `argument_accounting` apply to it; an `else if` is again an
`@if` node.  Applying the theorems repeatedly reaches every nesting position: at each one, literal text is
carried by text nodes byte for byte, in order, and everything else is an `@`-construct.
-/
namespace Ructe.C01
open Nom Ructe.Nodes

/-- a node list that is the body of a block somewhere in the source (at fuel `n`) -/
def IsBlockBody (n : Nat) (body : List TExpr) : Prop := ∃ x y, templateBlock n x = .ok y body

/-- a node list that is a `{…}` block argument somewhere in the source -/
def IsArgBody (n : Nat) (body : List TExpr) : Prop := ∃ x y, many0 (templateExpression n) x = .ok y body

/-! ## loops -/

theorem many0Go_chain {α : Type} {f : Parser α} (hf : Sfx f) :
    ∀ n inp acc r vs, many0Go f n inp acc = .ok r vs →
      ∃ ps, vs = acc.reverse ++ ps.map (·.2) ∧ Chain f inp ps r := by
  intro n
  induction n with
  | zero => intro inp acc r vs h; simp [many0Go] at h
  | succ n ih =>
    intro inp acc r vs h
    simp only [many0Go] at h
    split at h
    · simp only [Res.ok.injEq] at h
      obtain ⟨rfl, rfl⟩ := h
      exact ⟨[], by simp, .nil _⟩
    · cases h
    · cases h
    · next r1 v hfv =>
      split at h
      · cases h
      · next hlen =>
        obtain ⟨ps, hvs, hch⟩ := ih r1 (v :: acc) r vs h
        obtain ⟨span, hspan⟩ := hf _ _ _ hfv
        subst hspan
        have hne : span ≠ [] := by intro he; subst he; exact hlen (by simp)
        exact ⟨(span, v) :: ps, by simp [hvs, List.append_assoc], .cons hfv hne hch⟩

/-- every element of a separated list was produced by the element parser -/
theorem sepLoop_all {α β : Type} {sep : Parser β} {p : Parser α} (Q : α → Prop)
    (hp : ∀ i r v, p i = .ok r v → Q v) :
    ∀ n inp acc r vs, sepLoop sep p n inp acc = .ok r vs → (∀ a ∈ acc, Q a) → ∀ v ∈ vs, Q v := by
  intro n
  induction n with
  | zero => intro inp acc r vs h; simp [sepLoop] at h
  | succ n ih =>
    intro inp acc r vs h hacc
    simp only [sepLoop] at h
    split at h
    · simp only [Res.ok.injEq] at h; obtain ⟨_, rfl⟩ := h; simpa using hacc
    · cases h
    · cases h
    · split at h
      · simp only [Res.ok.injEq] at h; obtain ⟨_, rfl⟩ := h; simpa using hacc
      · cases h
      · cases h
      · next r2 v hpv =>
        split at h
        · cases h
        · exact ih _ _ _ _ h (by
            intro a ha
            rcases List.mem_cons.mp ha with rfl | ha'
            · exact hp _ _ _ hpv
            · exact hacc a ha')

theorem sepList0_all {α β : Type} {sep : Parser β} {p : Parser α} (Q : α → Prop)
    (hp : ∀ i r v, p i = .ok r v → Q v) {inp r : Bytes} {vs : List α}
    (h : sepList0 sep p inp = .ok r vs) : ∀ v ∈ vs, Q v := by
  unfold sepList0 at h
  split at h
  · simp only [Res.ok.injEq] at h; obtain ⟨_, rfl⟩ := h; intro v hv; cases hv
  · cases h
  · cases h
  · next r1 v hpv =>
    exact sepLoop_all Q hp _ _ _ _ _ h (by
      intro a ha
      simp only [List.mem_singleton] at ha
      subst ha
      exact hp _ _ _ hpv)

theorem alt2_ok {α : Type} {p q : Parser α} {i r v} (h : alt [p, q] i = .ok r v) : p i = .ok r v ∨ q i = .ok r v := by
  simp only [alt] at h
  exact orElse_ok h

/-! ## one level of each construct -/

/-- `@if`: the body is a block; the `else` part is a block, or exactly one `@if` node (`else if`) -/
theorem if2_blocks (n : Nat) {i rest : Bytes} {c : Bytes} {body : List TExpr} {els : Option (List TExpr)}
    (h : if2 (n + 1) i = .ok rest (.ifBlock c body els)) :
    IsBlockBody n body ∧
    (els = none ∨ (∃ l, els = some l ∧ IsBlockBody n l) ∨
      (∃ e x y, els = some [e] ∧ if2 n x = .ok y e)) := by
  rw [if2] at h
  obtain ⟨w, hw, he⟩ := pmap_ok (context_ok h)
  obtain ⟨a, b, o⟩ := w
  simp only [TExpr.ifBlock.injEq] at he
  obtain ⟨rfl, rfl, rfl⟩ := he
  obtain ⟨r1, _, h2⟩ := seq_ok hw
  obtain ⟨r2, hb, ho⟩ := seq_ok h2
  refine ⟨⟨_, _, hb⟩, ?_⟩
  rcases opt_ok ho with ⟨l, rfl, hl⟩ | ⟨rfl, _⟩
  · obtain ⟨r3, _, _, ha⟩ := preceded_ok hl
    rcases alt2_ok ha with h1 | h1
    · obtain ⟨r4, _, _, h5⟩ := preceded_ok h1
      obtain ⟨e, he, rfl⟩ := pmap_ok h5
      exact .inr (.inr ⟨e, _, _, rfl, he⟩)
    · exact .inr (.inl ⟨_, rfl, _, _, h1⟩)
  · exact .inl rfl

/-- a block argument `{…}` of a call is a run of nodes parsed one after the other -/
theorem templateArgument_body (n : Nat) {i rest : Bytes} {l : List TExpr}
    (h : templateArgument (n + 1) i = .ok rest (.body l)) : IsArgBody n l := by
  rw [templateArgument] at h
  rcases alt2_ok h with h1 | h1
  · obtain ⟨w, hw, he⟩ := pmap_ok h1
    simp only [TArg.body.injEq] at he
    subst he
    unfold delimited at hw
    obtain ⟨r1, _, _, h2⟩ := preceded_ok hw
    obtain ⟨r2, _, h3, _⟩ := terminated_ok h2
    exact ⟨_, _, h3⟩
  · obtain ⟨w, _, he⟩ := pmap_ok h1
    cases he

/-- **every list of nodes directly inside a node is a block body or a block argument** -/
theorem node_blocks (n : Nat) {inp rest : Bytes} {e : TExpr} (h : templateExpression (n + 1) inp = .ok rest e) :
    (∀ v x body, e = .forLoop v x body → IsBlockBody n body) ∧
    (∀ c body els, e = .ifBlock c body els → ∃ m, m + 1 ≤ n ∧ IsBlockBody m body ∧
        (els = none ∨ (∃ l, els = some l ∧ IsBlockBody m l) ∨ (∃ e' x y, els = some [e'] ∧ if2 m x = .ok y e'))) ∧
    (∀ x arms, e = .matchBlock x arms → ∀ arm ∈ arms, IsBlockBody n arm.2) ∧
    (∀ f args, e = .call f args → ∀ a ∈ args, ∀ l, a = .body l → ∃ m, m + 1 ≤ n ∧ IsArgBody m l) := by
  rw [templateExpression_eq, headAlt_eq] at h
  obtain ⟨i, o, ho, hf⟩ := pbind_ok h
  rcases opt_ok ho with ⟨k, rfl, hk⟩ | ⟨rfl, rfl⟩
  · obtain ⟨x, c, hc, hh⟩ := preceded_ok hk
    simp only [str_colon, str_at, str_lb, str_rb, str_star, str_if, str_for, str_match, str_lp] at hf
    clear h hk ho hc
    rcases headAlt_ok hh with ⟨rfl, rfl⟩ | ⟨rfl, rfl⟩ | ⟨rfl, rfl⟩ | ⟨rfl, rfl⟩ | ⟨rfl, rfl⟩ |
      ⟨rfl, rfl⟩ | ⟨rfl, rfl⟩ | ⟨rfl, rfl⟩ | ⟨rfl, rfl⟩ | ⟨rfl, rfl⟩
    · -- `@*`
      simp at hf
      obtain ⟨w, _, rfl⟩ := pmap_ok hf
      exact ⟨fun _ _ _ he => (by cases he), fun _ _ _ he => (by cases he), fun _ _ he => (by cases he), fun _ _ he => (by cases he)⟩
    · -- `@:` call
      simp at hf
      obtain ⟨w, hw, rfl⟩ := pmap_ok hf
      obtain ⟨name, args⟩ := w
      refine ⟨?_, ?_, ?_, ?_⟩
      · exact fun _ _ _ he => by cases he
      · exact fun _ _ _ he => by cases he
      · exact fun _ _ he => by cases he
      · intro f args' he a ha l hl
        simp only [TExpr.call.injEq] at he
        obtain ⟨_, rfl⟩ := he
        obtain ⟨r1, _, h2⟩ := seq_ok hw
        unfold delimited at h2
        obtain ⟨r2, _, _, h3⟩ := preceded_ok h2
        obtain ⟨r3, _, h4, _⟩ := terminated_ok h3
        cases n with
        | zero =>
          exfalso
          have := sepList0_all (fun (_ : TArg) => False) (by intro i r v hv; simp [templateArgument] at hv) h4 a ha
          exact this
        | succ m =>
          have := sepList0_all (fun (a : TArg) => ∀ l, a = .body l → IsArgBody m l)
            (by intro i r v hv l hl; subst hl; exact templateArgument_body m hv) h4 a ha l hl
          exact ⟨m, Nat.le_refl _, this⟩
    · -- `@@`
      simp at hf
      obtain ⟨_, rfl⟩ := hf
      exact ⟨fun _ _ _ he => (by cases he), fun _ _ _ he => (by cases he), fun _ _ he => (by cases he), fun _ _ he => (by cases he)⟩
    · simp at hf
      obtain ⟨_, rfl⟩ := hf
      exact ⟨fun _ _ _ he => (by cases he), fun _ _ _ he => (by cases he), fun _ _ he => (by cases he), fun _ _ he => (by cases he)⟩
    · simp at hf
      obtain ⟨_, rfl⟩ := hf
      exact ⟨fun _ _ _ he => (by cases he), fun _ _ _ he => (by cases he), fun _ _ he => (by cases he), fun _ _ he => (by cases he)⟩
    · -- `@(`
      simp at hf
      obtain ⟨w, _, rfl⟩ := pmap_ok hf
      exact ⟨fun _ _ _ he => (by cases he), fun _ _ _ he => (by cases he), fun _ _ he => (by cases he), fun _ _ he => (by cases he)⟩
    · -- `@if `
      simp at hf
      refine ⟨?_, ?_, ?_, ?_⟩
      · intro v x body he; subst he; obtain ⟨a, b, c, hk⟩ := if2_kind n hf; cases hk
      · intro c body els he
        subst he
        cases n with
        | zero => simp [if2] at hf
        | succ m => exact ⟨m, Nat.le_refl _, if2_blocks m hf⟩
      · intro x arms he; subst he; obtain ⟨a, b, c, hk⟩ := if2_kind n hf; cases hk
      · intro f args he; subst he; obtain ⟨a, b, c, hk⟩ := if2_kind n hf; cases hk
    · -- `@for `
      simp at hf
      obtain ⟨w, hw, rfl⟩ := pmap_ok hf
      obtain ⟨a, b, c⟩ := w
      refine ⟨?_, ?_, ?_, ?_⟩
      · intro v x body he
        simp only [TExpr.forLoop.injEq] at he
        obtain ⟨_, _, rfl⟩ := he
        obtain ⟨r1, _, h2⟩ := seq_ok hw
        obtain ⟨r2, _, h3⟩ := seq_ok h2
        exact ⟨_, _, context_ok h3⟩
      · exact fun _ _ _ he => by cases he
      · exact fun _ _ he => by cases he
      · exact fun _ _ he => by cases he
    · -- `@match `
      simp at hf
      obtain ⟨w, hw, rfl⟩ := pmap_ok (context_ok hf)
      obtain ⟨a, b⟩ := w
      refine ⟨?_, ?_, ?_, ?_⟩
      · exact fun _ _ _ he => by cases he
      · exact fun _ _ _ he => by cases he
      · intro x arms he arm harm
        simp only [TExpr.matchBlock.injEq] at he
        obtain ⟨_, rfl⟩ := he
        obtain ⟨r1, _, h2⟩ := seq_ok hw
        obtain ⟨r2, _, _, h3⟩ := preceded_ok h2
        obtain ⟨w2, hw2, rfl⟩ := pmap_ok h3
        obtain ⟨vs, w3⟩ := w2
        unfold manyTill at hw2
        have key : ∀ k inp acc r vs' w', manyTillGo (context "Error in match arm starting here:"
              (seq (delimited spacelike (expression n) spacelike)
                   (preceded (terminated (tagS "=>") spacelike) (templateBlock n))))
              (preceded spacelike (char 125)) k inp acc = .ok r (vs', w') →
            (∀ a ∈ acc, IsBlockBody n a.2) → ∀ a ∈ vs', IsBlockBody n a.2 := by
          intro k
          induction k with
          | zero => intro inp acc r vs' w' hh; simp [manyTillGo] at hh
          | succ k ih =>
            intro inp acc r vs' w' hh hacc
            simp only [manyTillGo] at hh
            split at hh
            · simp only [Res.ok.injEq, Prod.mk.injEq] at hh
              obtain ⟨_, rfl, _⟩ := hh
              simpa using hacc
            · cases hh
            · cases hh
            · split at hh
              · cases hh
              · cases hh
              · cases hh
              · next r1' v hfv =>
                split at hh
                · cases hh
                · apply ih _ _ _ _ _ hh
                  intro a ha
                  rcases List.mem_cons.mp ha with rfl | ha'
                  · obtain ⟨r5, _, h6⟩ := seq_ok (context_ok hfv)
                    obtain ⟨r6, _, _, h7⟩ := preceded_ok h6
                    exact ⟨_, _, h7⟩
                  · exact hacc a ha'
        exact key _ _ _ _ _ _ hw2 (by intro a ha; cases ha) arm harm
      · exact fun _ _ he => by cases he
    · -- `@` expression
      simp at hf
      obtain ⟨w, _, rfl⟩ := pmap_ok hf
      exact ⟨fun _ _ _ he => (by cases he), fun _ _ _ he => (by cases he), fun _ _ he => (by cases he), fun _ _ he => (by cases he)⟩
  · -- plain text
    simp only [str_set] at hf
    obtain ⟨t, _, rfl⟩ := pmap_ok hf
    exact ⟨fun _ _ _ he => (by cases he), fun _ _ _ he => (by cases he), fun _ _ he => (by cases he), fun _ _ he => (by cases he)⟩

/-- a `{…}` block argument: its nodes in order, every one literal text carrying exactly its span, an escape,
or an `@`-construct -/
theorem argument_accounting (n : Nat) (body : List TExpr) (h : IsArgBody n body) :
    ∃ (src fin : Bytes) (parts : List (Bytes × TExpr)), src = (parts.map (·.1)).flatten ++ fin ∧
      parts.map (·.2) = body ∧ ∀ p ∈ parts, PartOk p := by
  obtain ⟨x, y, hxy⟩ := h
  unfold many0 at hxy
  obtain ⟨ps, hvs, hch⟩ := many0Go_chain (good_templateExpression n).sfx _ _ _ _ _ hxy
  exact ⟨x, y, ps, hch.input_eq, by simpa using hvs.symm, hch.parts_ok n⟩

/-- a block body anywhere (`IsBlockBody`): `block_accounting` applies -/
theorem blockBody_accounting (n : Nat) (body : List TExpr) (h : IsBlockBody (n + 1) body) :
    ∃ (inp rest : Bytes) (parts : List (Bytes × TExpr)),
      inp = [123] ++ (parts.map (·.1)).flatten ++ [125] ++ rest ∧ parts.map (·.2) = body ∧ ∀ p ∈ parts, PartOk p := by
  obtain ⟨x, y, hxy⟩ := h
  obtain ⟨parts, h1, h2, h3⟩ := block_accounting n x y body hxy
  exact ⟨x, y, parts, h1, h2, h3⟩

end Ructe.C01
