import RucteModel

/-! # C03 — placeholder: theorems are added as they are proved. -/
namespace Ructe.C03
theorem placeholder : True := trivial
end Ructe.C03
