import RucteProofs.ExecSpec

/-!
# C03 — conditionals, loops and matches render what the Rust construct would

`renderS` *is* the meaning of the Rust construct with the evaluation of user fragments abstracted
in `Sem` (`cond` = is the `if` / `if let` taken and with which bindings, `iter` = the environments
of the iterations, `arm` = which arm fires).  The unfolding lemmas below make that visible; the
emitted code realises it against every sink (`exec_realises`, C14).
-/
namespace Ructe.C03
open Nom
open Esc (Sink IoRes)

/-- `if` taken: exactly the body, with the bindings of an `if let` -/
theorem render_if_taken (sem : Sem) (prog : Prog) (n : Nat) (c : Bytes) (thn : List RS) (els : RElse) (env env' : Env)
    (h : sem.cond c env = some env') :
    renderS sem prog (n + 1) (.ifElse c thn els) env = renderL sem prog n thn env' := by
  simp [renderS, h]

/-- `if` not taken, no `else`: nothing — in particular nothing after the closing brace is swallowed -/
theorem render_if_not_taken (sem : Sem) (prog : Prog) (n : Nat) (c : Bytes) (thn : List RS) (env : Env)
    (h : sem.cond c env = none) :
    renderS sem prog (n + 1) (.ifElse c thn .none) env = some [] := by
  simp [renderS, h]

/-- `else { … }` -/
theorem render_else_block (sem : Sem) (prog : Prog) (n : Nat) (c : Bytes) (thn b : List RS) (env : Env)
    (h : sem.cond c env = none) :
    renderS sem prog (n + 1) (.ifElse c thn (.elseBlock b)) env = renderL sem prog n b env := by
  simp [renderS, h]

/-- `else if …` (flattened by the emitter) is the nested `if` in the `else` branch -/
theorem render_else_if (sem : Sem) (prog : Prog) (n : Nat) (c : Bytes) (thn : List RS) (st : RS) (env : Env)
    (h : sem.cond c env = none) :
    renderS sem prog (n + 1) (.ifElse c thn (.elseIf st)) env = renderS sem prog n st env := by
  simp [renderS, h]

/-- the flattening is semantically neutral: `} else if c2 {…}` means `} else { if c2 {…} }` -/
theorem else_if_flattening (sem : Sem) (prog : Prog) (n : Nat) (st : RS) (env : Env) (out : Bytes)
    (h : renderS sem prog n st env = some out) :
    renderL sem prog (n + 1) [st] env = some out := by
  cases n with
  | zero => simp [renderS] at h
  | succ n => simp [renderL, h]

/-- what the emitter does with `else_body = Some([IfBlock …])` -/
theorem lower_else_if (e2 : Bytes) (b2 : List TExpr) (els2 : Option (List TExpr)) :
    lowerElse (some [TExpr.ifBlock e2 b2 els2]) = .elseIf (.ifElse e2 (lowerList b2) (lowerElse els2)) := by
  simp [lowerElse]

/-- `for pat in iterable`: the concatenation of the body's renderings, one per iteration, in order -/
theorem render_for (sem : Sem) (prog : Prog) (n : Nat) (pat it : Bytes) (body : List RS) (env : Env) :
    renderS sem prog (n + 1) (.forIn pat it body) env = renderIter sem prog n body (sem.iter pat it env) := by
  simp [renderS]

theorem render_iter_nil (sem : Sem) (prog : Prog) (n : Nat) (body : List RS) :
    renderIter sem prog (n + 1) body [] = some [] := by
  simp [renderIter]

theorem render_iter_cons (sem : Sem) (prog : Prog) (n : Nat) (body : List RS) (e : Env) (es : List Env) (a b : Bytes)
    (ha : renderL sem prog n body e = some a) (hb : renderIter sem prog n body es = some b) :
    renderIter sem prog (n + 1) body (e :: es) = some (a ++ b) := by
  simp [renderIter, ha, hb]

/-- `match`: exactly the body of the arm that fires, with its bindings -/
theorem render_match (sem : Sem) (prog : Prog) (n : Nat) (e : Bytes) (arms : List (Bytes × List RS)) (env env' : Env) (i : Nat)
    (h : sem.arm e (arms.map (·.1)) env = some (i, env')) :
    renderS sem prog (n + 1) (.matchOn e arms) env = renderL sem prog n (nthArm arms i) env' := by
  simp [renderS, h]

/-- sequencing: text inside block bodies is preserved in full, in order -/
theorem render_seq (sem : Sem) (prog : Prog) (n : Nat) (st : RS) (rest : List RS) (env : Env) (a b : Bytes)
    (ha : renderS sem prog n st env = some a) (hb : renderL sem prog n rest env = some b) :
    renderL sem prog (n + 1) (st :: rest) env = some (a ++ b) := by
  simp [renderL, ha, hb]

/-- more fuel never changes a defined rendering -/
theorem render_fuel_mono (sem : Sem) (prog : Prog) :
    ∀ n, (∀ st env out, renderS sem prog n st env = some out → renderS sem prog (n + 1) st env = some out) ∧
         (∀ b env out, renderL sem prog n b env = some out → renderL sem prog (n + 1) b env = some out) ∧
         (∀ b es out, renderIter sem prog n b es = some out → renderIter sem prog (n + 1) b es = some out) := by
  intro n
  induction n with
  | zero => refine ⟨?_, ?_, ?_⟩ <;> intros <;> simp_all [renderS, renderL, renderIter]
  | succ n ih =>
    obtain ⟨ihS, ihL, ihI⟩ := ih
    refine ⟨?_, ?_, ?_⟩
    · intro st env out
      cases st with
      | writeAll t => simp [renderS]
      | toHtml e => simp [renderS]
      | forIn pat it body => simp only [renderS]; exact ihI _ _ _
      | ifElse c thn els =>
        simp only [renderS]
        cases sem.cond c env with
        | some env' => exact ihL _ _ _
        | none =>
          cases els with
          | none => exact id
          | elseIf st => exact ihS _ _ _
          | elseBlock b => exact ihL _ _ _
      | matchOn e arms =>
        simp only [renderS]
        cases sem.arm e (arms.map (·.1)) env with
        | none => exact id
        | some p => exact ihL _ _ _
      | call f args =>
        simp only [renderS]
        split
        · exact ihL _ _ _
        · exact id
        · cases prog.get f with
          | some fn => exact ihL _ _ _
          | none => exact id
    · intro b env out
      cases b with
      | nil => simp [renderL]
      | cons st rest =>
        simp only [renderL]
        cases h1 : renderS sem prog n st env with
        | none => simp
        | some a =>
          cases h2 : renderL sem prog n rest env with
          | none => simp
          | some b => simp [ihS _ _ _ h1, ihL _ _ _ h2]
    · intro b es out
      cases es with
      | nil => simp [renderIter]
      | cons e es =>
        simp only [renderIter]
        cases h1 : renderL sem prog n b e with
        | none => simp
        | some a =>
          cases h2 : renderIter sem prog n b es with
          | none => simp
          | some b' => simp [ihL _ _ _ h1, ihI _ _ _ h2]

end Ructe.C03
