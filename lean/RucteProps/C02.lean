import RucteProofs.Html
import RucteTables.Entities

/-!
# C02 — every interpolated value is HTML-escaped by default

Model: `Esc.toHtmlDisplay ps sink` = `write!(ToHtmlEscapingWriter(out), "{self}")` where the
`Display` impl hands the pieces `ps` to `write_str` one by one, over std's `write_all` loop and
`ToHtmlEscapingWriter::write`, against a sink that follows an arbitrary schedule of partial
accepts, `Interrupted`, `Ok(0)` and permanent failure (`RucteModel/Html.lean`).
Specification: `Esc.escape` (byte-wise replacement of the five special bytes).
-/
namespace Esc.C02

theorem entity_no_raw (c : UInt8) : ∀ b ∈ entity c, b ≠ 60 ∧ b ≠ 62 ∧ b ≠ 34 ∧ b ≠ 39 := by
  unfold entity
  (repeat' split) <;> decide

/-- No raw `<`, `>`, `"` or `'` occurs in escaped output (and `&` only starts a reference, which
is what `unescape_escape` shows). -/
theorem escape_no_raw (s : Bytes) : ∀ b ∈ escape s, b ≠ 60 ∧ b ≠ 62 ∧ b ≠ 34 ∧ b ≠ 39 := by
  induction s with
  | nil => simp [escape]
  | cons c r ih =>
    intro b hb
    simp only [escape] at hb
    split at hb
    · rw [List.mem_append] at hb
      cases hb with
      | inl h => exact entity_no_raw c b h
      | inr h => exact ih b h
    · next hc =>
      rw [List.mem_cons] at hb
      cases hb with
      | inl h =>
        subst h
        simp only [isSpecial, Bool.or_eq_true, decide_eq_true_eq, not_or] at hc
        exact ⟨hc.1.2, hc.2, hc.1.1.1.1, hc.1.1.2⟩
      | inr h => exact ih b h

theorem isSpecial_cases {c : UInt8} (h : isSpecial c = true) : c = 34 ∨ c = 38 ∨ c = 39 ∨ c = 60 ∨ c = 62 := by
  simpa [isSpecial, or_assoc] using h

/-- HTML-decoding the escaped text gives back exactly the original text. -/
theorem unescape_escape (s : Bytes) : ∀ n, (escape s).length < n → unescape n (escape s) = some s := by
  induction s with
  | nil => intro n h; cases n <;> simp_all [escape, unescape]
  | cons c r ih =>
    intro n h
    cases n with
    | zero => omega
    | succ n =>
      by_cases hc : isSpecial c = true
      · have hlen : (escape r).length < n := by
          simp only [escape, hc, if_true, List.length_append] at h
          have : (entity c).length ≥ 1 := by unfold entity; (repeat' split) <;> simp
          omega
        rcases isSpecial_cases hc with h1 | h1 | h1 | h1 | h1 <;> subst h1 <;>
          simp [escape, isSpecial, entity, unescape, ih n hlen]
      · have hlen : (escape r).length < n := by
          simp only [escape, hc] at h; simp at h; omega
        simp only [escape, hc]
        have h38 : c ≠ 38 := by intro h'; subst h'; exact hc (by decide)
        unfold unescape
        split <;> simp_all

/-- **C02, main statement.** For every way `Display` chops the text into pieces and every sink
schedule made of partial accepts (any sizes ≥ 1) and finitely many `Interrupted`s, the sink ends
up with exactly the escaped text and the call returns `Ok`. -/
theorem toHtml_any_schedule (ps : List Bytes) (s : Sink) (hb : Benign s.sched) :
    (toHtmlDisplay ps s).2 = .ok ∧ (toHtmlDisplay ps s).1.got = s.got ++ escape ps.flatten := by
  have h := toHtmlDisplay_spec ps s
  exact ⟨h.ben hb, h.all (h.ben hb)⟩

/-- … and therefore HTML-decoding what a fresh sink received gives back the `Display` text. -/
theorem toHtml_decodes (ps : List Bytes) (sched : List Resp) (hb : Benign sched) :
    unescape ((toHtmlDisplay ps ⟨sched, []⟩).1.got.length + 1) (toHtmlDisplay ps ⟨sched, []⟩).1.got
      = some ps.flatten := by
  have h := (toHtml_any_schedule ps ⟨sched, []⟩ hb).2
  simp only [List.nil_append] at h
  rw [h]
  exact unescape_escape _ _ (by omega)

/-- **Prefix form (used by C14).** For *every* schedule whatsoever, what the sink accepted is a
prefix of the escaped text, and the result is `Ok` only if all of it arrived. -/
theorem toHtml_prefix (ps : List Bytes) (s : Sink) :
    (∃ k, (toHtmlDisplay ps s).1.got = s.got ++ (escape ps.flatten).take k) ∧
    ((toHtmlDisplay ps s).2 = .ok → (toHtmlDisplay ps s).1.got = s.got ++ escape ps.flatten) :=
  ⟨(toHtmlDisplay_spec ps s).pre, (toHtmlDisplay_spec ps s).all⟩

/-- The chunking is irrelevant: any two piece lists with the same concatenation give the same output. -/
theorem toHtml_chunking_irrelevant (ps qs : List Bytes) (s t : Sink) (h : ps.flatten = qs.flatten)
    (hs : Benign s.sched) (ht : Benign t.sched) (hg : s.got = t.got) :
    (toHtmlDisplay ps s).1.got = (toHtmlDisplay qs t).1.got := by
  rw [(toHtml_any_schedule ps s hs).2, (toHtml_any_schedule qs t ht).2, h, hg]

/-! ### The table in the source (regenerated from `/repo/src/templates/utils.rs` on every run) -/

/-- what the `match` in `write_one_byte_escaped` yields, read from the extracted arms -/
def tableEntity (c : UInt8) : List UInt8 :=
  match RucteTables.entityArms.lookup c with
  | some e => e
  | none => RucteTables.entityDefault

/-- The scan predicate extracted from the source stops at exactly the five special bytes, and for
each of them the extracted arm is the entity of the specification. (`decide` over all 256 bytes.) -/
theorem entity_table_matches_source :
    ∀ n < 256, isSpecial n.toUInt8 = RucteTables.scanStops.contains n.toUInt8 ∧
      (isSpecial n.toUInt8 = true → entity n.toUInt8 = tableEntity n.toUInt8) := by
  decide +kernel

/-! Non-vacuity: a concrete non-trivial instance meets the hypotheses, and the functions compute. -/
example : Benign [.accept 0, .interrupted, .accept 2, .interrupted, .accept 0] := by
  intro r hr; simp at hr; rcases hr with h | h | h | h | h <;> subst h <;> simp
-- a test (evaluated, not proved): the model computes the expected bytes on one concrete case
#guard (toHtmlDisplay [[97, 60], [], [98, 62, 38, 39, 34]] ⟨[.accept 0, .interrupted, .accept 2], [120]⟩).1.got
    == [120] ++ escape [97, 60, 98, 62, 38, 39, 34]
example : escape [60, 38] = [38, 108, 116, 59, 38, 97, 109, 112, 59] := by decide

end Esc.C02
