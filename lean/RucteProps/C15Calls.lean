import RucteModel.Tpl
import RucteProofs.Complete
import RucteProofs.Layout
import RucteProps.C15
import RucteProps.C05Complete
import RucteProofs.CallLemmas

/-!
# C15 (continued) — layout in `@match` arms and in the argument list of a call

Compositional completeness lemmas: whatever admissible layout (`C15.Item`) is put between match
arms, around `=>`, after the commas and after the block arguments of a call, the parse result is
the same node.  Fragments and bodies are abstracted by hypotheses ("this text is parsed in full
when followed by …"), so the lemmas compose with `C05Complete` and with each other.
-/
namespace Ructe.C15
open Nom

/-- one match arm as written: layout before the pattern, the pattern, layout before `=>`, layout
after `=>`, the body between braces -/
structure ArmSrc where
  l₁ : List Item
  pat : Bytes
  l₂ : List Item
  l₃ : List Item
  body : Bytes

def ArmSrc.print (a : ArmSrc) : Bytes :=
  printLayout a.l₁ ++ a.pat ++ printLayout a.l₂ ++ [61, 62] ++ printLayout a.l₃ ++ [123] ++ a.body ++ [125]

def printArms (as : List ArmSrc) : Bytes := (as.map ArmSrc.print).flatten

/-- what an arm must satisfy: admissible layouts; the pattern does not start with layout nor with
`}`; the pattern is parsed in full when followed by layout or by `=>`; the body block parses -/
structure ArmOk (n : Nat) (a : ArmSrc) (patv : Bytes) (nodes : List TExpr) : Prop where
  h₁ : ∀ i ∈ a.l₁, i.ok = true
  h₂ : ∀ i ∈ a.l₂, i.ok = true
  h₃ : ∀ i ∈ a.l₃, i.ok = true
  stops : StopsLayout a.pat
  notClose : ∀ r, a.pat ≠ 125 :: r
  nonempty : a.pat ≠ []
  pat : ∀ tail, ((∃ b r, tail = b :: r ∧ isSpace b = true) ∨ (∃ r, tail = 64 :: 42 :: r) ∨ (∃ r, tail = 61 :: 62 :: r)) →
          expression n (a.pat ++ tail) = .ok tail patv
  body : ∀ r, templateBlock n ([123] ++ a.body ++ [125] ++ r) = .ok r nodes

/-! ### glue: admissible layout is a layout slot in the sense of `CallL` -/

theorem printLayout_cons (i : Item) (l : List Item) : printLayout (i :: l) = i.print ++ printLayout l := by
  simp [printLayout]

theorem lay_of (l : List Item) (h : ∀ i ∈ l, i.ok = true) : CallL.Lay (printLayout l) := by
  refine ⟨fun rest hr => spacelike_complete l h rest hr, ?_⟩
  cases l with
  | nil => exact .inl rfl
  | cons i l =>
    have hi := h i List.mem_cons_self
    rw [printLayout_cons]
    cases i with
    | ws b =>
      simp only [Item.ok, Bool.and_eq_true, Bool.not_eq_true', List.isEmpty_eq_false_iff] at hi
      cases b with
      | nil => exact absurd rfl hi.1
      | cons c b =>
        simp only [List.all_cons, Bool.and_eq_true] at hi
        exact .inr (.inl ⟨c, b ++ printLayout l, rfl, hi.2.1⟩)
    | comment b => exact .inr (.inr ⟨b ++ [42, 64] ++ printLayout l, by simp [Item.print]⟩)

theorem printLayout_ne_nil (l : List Item) (h : ∀ i ∈ l, i.ok = true) (hne : l ≠ []) : printLayout l ≠ [] := by
  cases l with
  | nil => exact absurd rfl hne
  | cons i l =>
    have hi := h i List.mem_cons_self
    rw [printLayout_cons]
    cases i with
    | ws b =>
      simp only [Item.ok, Bool.and_eq_true, Bool.not_eq_true', List.isEmpty_eq_false_iff] at hi
      simp [Item.print, hi.1]
    | comment b => simp [Item.print]

/-- one arm is one round of the `manyTill` loop: the terminator fails on it, the arm parser takes
exactly it -/
theorem arm_chunk (n : Nat) (a : ArmSrc) (patv : Bytes) (nodes : List TExpr) (ok : ArmOk n a patv nodes) :
    a.print ≠ [] ∧ ∀ R, (∃ e, CallL.armEnd (a.print ++ R) = .err e) ∧
      CallL.armP n (a.print ++ R) = .ok R (patv, nodes) := by
  have e : ∀ R, a.print ++ R = printLayout a.l₁ ++ (a.pat ++ (printLayout a.l₂ ++ 61 :: 62 ::
      (printLayout a.l₃ ++ 123 :: (a.body ++ 125 :: R)))) := by
    intro R; simp [ArmSrc.print]
  refine ⟨by simp [ArmSrc.print], fun R => ?_⟩
  rw [e]
  exact CallL.arm_step n _ _ _ _ _ patv nodes (lay_of _ ok.h₁) (lay_of _ ok.h₂) (lay_of _ ok.h₃)
    ok.stops ok.notClose ok.nonempty (fun tail ht => ok.pat tail ht)
    (fun r => by simpa using ok.body r) R

/-- **`@match e { arms }`**: layout after the keyword's space, before the opening brace, before
each pattern, around `=>` and before the closing brace does not matter -/
theorem match_layout_irrelevant (n : Nat) (l₀ l₁ lEnd : List Item)
    (h₀ : ∀ i ∈ l₀, i.ok = true) (h₁ : ∀ i ∈ l₁, i.ok = true) (hEnd : ∀ i ∈ lEnd, i.ok = true) (hne : l₁ ≠ [])
    (e ev rest : Bytes) (arms : List ArmSrc) (vals : List (Bytes × List TExpr))
    (hes : StopsLayout e)
    (he : ∀ tail, ((∃ b r, tail = b :: r ∧ isSpace b = true) ∨ (∃ r, tail = 64 :: 42 :: r)) → expression n (e ++ tail) = .ok tail ev)
    (hlen : arms.length = vals.length)
    (harms : ∀ i (hi : i < arms.length), ArmOk n arms[i] (vals[i]'(hlen ▸ hi)).1 (vals[i]'(hlen ▸ hi)).2) :
    templateExpression (n + 1)
      ([64, 109, 97, 116, 99, 104, 32] ++ printLayout l₀ ++ e ++ printLayout l₁ ++ [123] ++ printArms arms ++
        printLayout lEnd ++ [125] ++ rest)
      = .ok rest (.matchBlock ev vals) := by
  have hA : CallL.All2 (fun c v => c ≠ [] ∧ ∀ R, (∃ e, CallL.armEnd (c ++ R) = .err e) ∧
      CallL.armP n (c ++ R) = .ok R v) (arms.map ArmSrc.print) vals :=
    CallL.all2_of_index ArmSrc.print arms vals hlen (fun i hi _ => arm_chunk n _ _ _ (harms i hi))
  have hloop := CallL.manyTill_chunks (CallL.armP n) CallL.armEnd (printLayout lEnd ++ 125 :: rest) rest 125
    (CallL.armEnd_ok _ _ (lay_of lEnd hEnd)) hA
  have hhead := CallL.match_head n (printLayout l₀) e (printLayout l₁) ev
    ((arms.map ArmSrc.print).flatten ++ (printLayout lEnd ++ 125 :: rest))
    (lay_of l₀ h₀) (lay_of l₁ h₁) (printLayout_ne_nil l₁ h₁ hne) hes he
  have e : [64, 109, 97, 116, 99, 104, 32] ++ printLayout l₀ ++ e ++ printLayout l₁ ++ [123] ++ printArms arms ++
        printLayout lEnd ++ [125] ++ rest =
      64 :: 109 :: 97 :: 116 :: 99 :: 104 :: 32 :: (printLayout l₀ ++ (e ++ (printLayout l₁ ++ 123 ::
        ((arms.map ArmSrc.print).flatten ++ (printLayout lEnd ++ 125 :: rest))))) := by
    simp [printArms]
  rw [e]
  exact CallL.templateExpression_match n _ _ ev vals hhead _ 125 hloop

/-- one call argument as written -/
inductive ArgSrc where
  | rust (text : Bytes)
  | block (body : Bytes) (after : List Item)        -- `{body}` followed by layout

/-- arguments separated by `,` + layout -/
def printArgs : List (ArgSrc × List Item) → Bytes
  | [] => []
  | [(a, _)] => printArg a
  | (a, sep) :: r => printArg a ++ [44] ++ printLayout sep ++ printArgs r
where
  printArg : ArgSrc → Bytes
    | .rust t => t
    | .block b after => [123] ++ b ++ [125] ++ printLayout after

/-- what an argument must satisfy -/
def ArgOk (n : Nat) : ArgSrc → TArg → Prop
  | .rust t, v => t ≠ [] ∧ (∀ r, t ≠ 123 :: r) ∧ StopsLayout t ∧
      ∃ tv, v = .rust tv ∧ ∀ tail, ((∃ r, tail = 44 :: r) ∨ (∃ r, tail = 41 :: r)) → expression n (t ++ tail) = .ok tail tv
  | .block b after, v => (∀ i ∈ after, i.ok = true) ∧
      ∃ nodes, v = .body nodes ∧ ∀ r, many0 (templateExpression n) (b ++ [125] ++ r) = .ok ([125] ++ r) nodes

/-! ### glue for the argument list -/

/-- the rounds of the `sepList0` loop after the first argument: `,` layout argument -/
def argChunks : List Item → List (ArgSrc × List Item) → List Bytes
  | _, [] => []
  | s, (a, s') :: r => (44 :: (printLayout s ++ printArgs.printArg a)) :: argChunks s' r

theorem printArgs_cons (a : ArgSrc) (s : List Item) (r : List (ArgSrc × List Item)) :
    printArgs ((a, s) :: r) = printArgs.printArg a ++ (argChunks s r).flatten := by
  induction r generalizing a s with
  | nil => simp [printArgs, argChunks]
  | cons p r ih =>
    obtain ⟨a', s'⟩ := p
    rw [printArgs, argChunks, List.flatten_cons, ih a' s']
    · simp
    · intro h; cases h

theorem arg_parses (n : Nat) (a : ArgSrc) (v : TArg) (h : ArgOk n a v) :
    CallL.ArgParses n (printArgs.printArg a) v := by
  cases a with
  | rust t =>
    obtain ⟨hne, hnb, hst, tv, rfl, ht⟩ := h
    exact CallL.arg_rust n t tv hne hnb hst ht
  | block b after =>
    obtain ⟨hafter, nodes, rfl, hb⟩ := h
    have e : printArgs.printArg (.block b after) = 123 :: (b ++ 125 :: printLayout after) := by
      simp [printArgs.printArg]
    rw [e]
    exact CallL.arg_block n b _ nodes (lay_of after hafter) (fun r => by simpa using hb r)

theorem chunks_all2 (n : Nat) {r : List (ArgSrc × List Item)} {vs : List TArg}
    (h : CallL.All2 (fun p v => ArgOk n p.1 v ∧ ∀ i ∈ p.2, i.ok = true) r vs) :
    ∀ s : List Item, (∀ i ∈ s, i.ok = true) →
      CallL.All2 (fun c v => ∃ L A, c = 44 :: (L ++ A) ∧ CallL.Lay L ∧ CallL.ArgParses n A v)
        (argChunks s r) vs := by
  induction h with
  | nil => intro s _; exact .nil
  | @cons p v r vs hp _ ih =>
    intro s hs
    obtain ⟨a, s'⟩ := p
    exact .cons ⟨_, _, rfl, lay_of s hs, arg_parses n a v hp.1⟩ (ih s' hp.2)

/-- **`@:name(args)`**: layout after the commas and after block arguments does not matter -/
/- ORIGINAL STATEMENT (false for `args = []` and `n < 2`: `@:foo()X` at fuel `n + 2 = 2` is `.oom`,
because rejecting `)` as an argument needs `expression n` to get as far as failing, i.e. `2 ≤ n`):
theorem call_layout_irrelevant (n : Nat) (name : Bytes) (args : List (ArgSrc × List Item)) (vals : List TArg) (rest : Bytes)
    (hname : ∀ r, rustName (name ++ [40] ++ r) = .ok ([40] ++ r) name)
    (hsep : ∀ p ∈ args, ∀ i ∈ p.2, i.ok = true)
    (hlen : args.length = vals.length)
    (hargs : ∀ i (hi : i < args.length), ArgOk n args[i].1 (vals[i]'(hlen ▸ hi))) :
    templateExpression (n + 2) ([64, 58] ++ name ++ [40] ++ printArgs args ++ [41] ++ rest)
      = .ok rest (.call name vals)
CORRECTION: the hypothesis `hfuel` (only constrains the empty argument list). -/
theorem call_layout_irrelevant (n : Nat) (name : Bytes) (args : List (ArgSrc × List Item)) (vals : List TArg) (rest : Bytes)
    (hname : ∀ r, rustName (name ++ [40] ++ r) = .ok ([40] ++ r) name)
    (hsep : ∀ p ∈ args, ∀ i ∈ p.2, i.ok = true)
    (hlen : args.length = vals.length)
    (hargs : ∀ i (hi : i < args.length), ArgOk n args[i].1 (vals[i]'(hlen ▸ hi)))
    (hfuel : args = [] → 2 ≤ n) :
    templateExpression (n + 2) ([64, 58] ++ name ++ [40] ++ printArgs args ++ [41] ++ rest)
      = .ok rest (.call name vals) := by
  have hname' : ∀ Y, rustName (name ++ 40 :: Y) = .ok (40 :: Y) name := fun Y => by simpa using hname Y
  have hA : CallL.All2 (fun p v => ArgOk n p.1 v ∧ ∀ i ∈ p.2, i.ok = true) args vals := by
    have := CallL.all2_of_index (R := fun p v => ArgOk n p.1 v ∧ ∀ i ∈ p.2, i.ok = true) id args vals hlen
      (fun i hi _ => ⟨hargs i hi, hsep _ (List.getElem_mem hi)⟩)
    simpa using this
  cases hA with
  | nil =>
    obtain ⟨m, rfl⟩ : ∃ m, n = m + 2 := ⟨n - 2, by have := hfuel rfl; omega⟩
    obtain ⟨e, he⟩ := CallL.arg_close m rest
    have e1 : [64, 58] ++ name ++ [40] ++ printArgs [] ++ [41] ++ rest = 64 :: 58 :: (name ++ 40 :: 41 :: rest) := by
      simp [printArgs]
    rw [e1]
    exact CallL.templateExpression_call (m + 2 + 1) name _ _ rest [] (hname' _)
      (CallL.sepList0_none _ _ _ he)
  | @cons p v0 r vs hp hr =>
    obtain ⟨a0, s0⟩ := p
    have hch := chunks_all2 n hr s0 hp.2
    have e1 : [64, 58] ++ name ++ [40] ++ printArgs ((a0, s0) :: r) ++ [41] ++ rest =
        64 :: 58 :: (name ++ 40 :: (printArgs.printArg a0 ++ ((argChunks s0 r).flatten ++ 41 :: rest))) := by
      rw [printArgs_cons]; simp
    rw [e1]
    exact CallL.templateExpression_call (n + 1) name _ _ rest (v0 :: vs) (hname' _)
      (CallL.call_args n _ v0 (arg_parses n a0 v0 hp.1) rest hch)

end Ructe.C15
