import RucteProps.C08
import RucteProps.C07
import RucteModel.InFS

/-!
# C08, item level — what `content` and `name` of a generated `StaticFile` denote

`C08.byteString_roundtrip` / `strDebug_roundtrip` are about literals.  Here they are put together
with the rest of the chain, for each way a static file is added: which path is handed to the
operating system (`path_for`), which bytes are hashed into the name, which literal is printed, and what
that literal denotes once rustc has lexed it.

For a file-sourced item the content is `include_bytes!(<literal>)`: ructe never copies the bytes, rustc
reads them.  What can be proved is that the literal denotes **exactly the path ructe itself opened and
hashed** (`path_for(base, p)`, unmodified: no tidying, no re-spelling) — so `content` is whatever the
operating system shows at that path when rustc compiles the module.  That the file is unchanged between the
build-script run and the compilation is cargo's sequencing, not ructe's.
-/
namespace Ructe.C08
open Nom

/-- the item `add_static` appends to `statics.rs` -/
def itemText (ue ua : Nat → Bool) (feat : MimeFeature) (path rustName urlName : Bytes) (content : Content) (suffix : Bytes) : Bytes :=
  str "\n/// From " ++ strDebug ue path ++
  str "\n#[allow(non_upper_case_globals)]\npub static " ++ mangle ua rustName ++ str ": StaticFile = StaticFile {\n  content: " ++
  printContent ue content ++ str ",\n  name: " ++ strDebug ue urlName ++ str ",\n" ++ mimeArg feat suffix ++ str "};\n"

theorem addStatic_src (ue ua : Nat → Bool) (s : Statics) (path rustName urlName : Bytes) (content : Content) (suffix : Bytes) :
    (s.addStatic ue ua path rustName urlName content suffix).src =
      s.src ++ itemText ue ua s.feat path rustName urlName content suffix := by
  simp [Statics.addStatic, itemText, List.append_assoc]

/-- **`add_file_data(path, data)`**: the item's content literal denotes exactly `data` (every byte
string), and its name literal denotes `stem-<slug of data>.ext` -/
theorem data_item_exact (ue ua : Nat → Bool) (s : Statics) (path data stem ext : Bytes)
    (hn : nameAndExt (baseName path) = some (stem, ext))
    (hu : validUtf8 (stem ++ [45] ++ checksumSlug data ++ [46] ++ ext) = true) :
    (s.addHashed ue ua path data (.data data)).src =
      s.src ++ itemText ue ua s.feat path (stem ++ [95] ++ ext) (stem ++ [45] ++ checksumSlug data ++ [46] ++ ext) (.data data) ext ∧
    decodeByteStrLit ([98, 34] ++ escapeAscii data ++ [34]) = some data ∧
    decodeStrLit (strDebug ue (stem ++ [45] ++ checksumSlug data ++ [46] ++ ext)) =
      some (stem ++ [45] ++ checksumSlug data ++ [46] ++ ext) := by
  refine ⟨?_, byteString_roundtrip data, strDebug_roundtrip ue _ hu⟩
  simp only [Statics.addHashed, hn]
  exact addStatic_src ue ua s _ _ _ _ _

/-- **`add_file(p)`** on an input tree `t`: the call opens `path_for(base, p)`, the name carries the hash
of exactly the bytes found there, and the `include_bytes!` literal denotes exactly that same path -/
theorem file_item_exact (ue ua : Nat → Bool) (base : Bytes) (t : InFS) (s : Statics) (p c stem ext : Bytes)
    (hn : nameAndExt (baseName (pathFor base p)) = some (stem, ext))
    (ht : t (pathFor base p) = some (.file c))
    (hp : validUtf8 (pathFor base p) = true) :
    (SOp.addFile p).resolve base t = .addFile (pathFor base p) c ∧
    (s.addHashed ue ua (pathFor base p) c (.file (pathFor base p))).src =
      s.src ++ itemText ue ua s.feat (pathFor base p) (stem ++ [95] ++ ext)
        (stem ++ [45] ++ checksumSlug c ++ [46] ++ ext) (.file (pathFor base p)) ext ∧
    printContent ue (.file (pathFor base p)) = str "include_bytes!(" ++ strDebug ue (pathFor base p) ++ str ")" ∧
    decodeStrLit (strDebug ue (pathFor base p)) = some (pathFor base p) := by
  refine ⟨?_, ?_, rfl, strDebug_roundtrip ue _ hp⟩
  · simp only [SOp.resolve, hn, ht]
  · simp only [Statics.addHashed, hn]
    exact addStatic_src ue ua s _ _ _ _ _

/-- **`add_file_as(p, url)`**: the name literal denotes exactly `url` (any valid UTF-8, quotes and
backslashes included) and the content literal exactly `path_for(base, p)` -/
theorem as_item_exact (ue ua : Nat → Bool) (base : Bytes) (t : InFS) (s : Statics) (p url : Bytes)
    (hu : validUtf8 url = true) (hp : validUtf8 (pathFor base p) = true) :
    (SOp.addFileAs p url).resolve base t = .addFileAs (pathFor base p) url ∧
    (∃ ext, (s.addAs ue ua (pathFor base p) url).src =
      s.src ++ itemText ue ua s.feat (pathFor base p) url url (.file (pathFor base p)) ext) ∧
    decodeStrLit (strDebug ue url) = some url ∧
    decodeStrLit (strDebug ue (pathFor base p)) = some (pathFor base p) := by
  refine ⟨rfl, ⟨(match nameAndExt (baseName (pathFor base p)) with | some (_, e) => e | none => []), ?_⟩,
    strDebug_roundtrip ue _ hu, strDebug_roundtrip ue _ hp⟩
  simp only [Statics.addAs]
  exact addStatic_src ue ua s _ _ _ _ _

/-- `path_for`: an absolute path is used as it is, a relative one is appended to the crate directory
with exactly one separator — never tidied -/
theorem pathFor_absolute (base p : Bytes) (h : p.head? = some 47) : pathFor base p = p := by
  simp [pathFor, h]

theorem pathFor_relative (base p : Bytes) (h : p.head? ≠ some 47) (hb : base ≠ []) (hl : base.getLast? ≠ some 47) :
    pathFor base p = base ++ [47] ++ p := by
  simp [pathFor, joinPath, h, hb, hl]

-- `crate` + `lnk/../odd.css`: the `..` stays (the operating system resolves it, across symbolic links)
#guard pathFor (str "/c") (str "lnk/../odd.css") == str "/c/lnk/../odd.css"
#guard pathFor (str "/c/") (str "./x.css") == str "/c/./x.css"
#guard pathFor (str "/c") (str "/abs/x.css") == str "/abs/x.css"
#guard pathFor (str "/c") (str "") == str "/c/"

end Ructe.C08
