import RucteModel

/-! # C16 — placeholder: theorems are added as they are proved. -/
namespace Ructe.C16
theorem placeholder : True := trivial
end Ructe.C16
