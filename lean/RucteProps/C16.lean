import RucteModel.Statics
import RucteProofs.BTree

/-!
# C16 — static files get valid, predictable Rust identifiers

`mangle` = the identifier rule of `add_static` (after the repair it is the shared `rust_ident`).
-/
namespace Ructe.C16
open Nom

def isIdentStart (b : UInt8) : Bool := isAlpha b || b = 95
def isIdentChar (b : UInt8) : Bool := isAlpha b || isDigit b || b = 95

/-- `[A-Za-z_][A-Za-z0-9_]*`, and not the lone `_` -/
def isIdent : Bytes → Bool
  | [] => false
  | b :: r => isIdentStart b && r.all isIdentChar && !(b = 95 && r.isEmpty)

/-- the rule as the property states it, on ASCII names -/
def mangleAscii (s : Bytes) : Bytes :=
  let m := s.map (fun b => if isAlnumAscii b then b else 95)
  match m with
  | [] => [110]
  | b :: _ => if isDigit b then 110 :: m else m

/-- strict and reserved keywords of the 2021 edition (none contains `_` except the lone `_`) -/
def keywords : List String := ["as", "break", "const", "continue", "crate", "else", "enum", "extern", "false", "fn", "for",
  "if", "impl", "in", "let", "loop", "match", "mod", "move", "mut", "pub", "ref", "return", "self", "Self", "static",
  "struct", "super", "trait", "true", "type", "unsafe", "use", "where", "while", "async", "await", "dyn", "abstract",
  "become", "box", "do", "final", "macro", "override", "priv", "typeof", "unsized", "virtual", "yield", "try", "_"]

theorem scalars_cons_ascii (b : UInt8) (r : Bytes) (h : b < 128) : scalars (b :: r) = (b.toNat, [b]) :: scalars r := by
  rw [scalars.eq_def]; simp only [h, if_true]

theorem scalars_ascii (s : Bytes) (h : isAsciiB s = true) : scalars s = s.map (fun b => (b.toNat, [b])) := by
  induction s with
  | nil => rfl
  | cons b r ih =>
    simp only [isAsciiB, List.all_cons, Bool.and_eq_true, decide_eq_true_eq] at h
    rw [scalars_cons_ascii b r h.1, List.map_cons]
    rw [ih (by simpa [isAsciiB] using h.2)]

/-- the per-scalar replacement, on an ASCII string, is a per-byte map -/
theorem mangle_body_ascii (ua : Nat → Bool) (s : Bytes) (h : isAsciiB s = true) :
    ((scalars s).flatMap fun (c, raw) =>
      if c < 0x80 then (if isAlnumAscii c.toUInt8 then raw else [95]) else (if ua c then raw else [95]))
    = s.map (fun b => if isAlnumAscii b then b else 95) := by
  rw [scalars_ascii s h]
  induction s with
  | nil => rfl
  | cons b r ih =>
    simp only [isAsciiB, List.all_cons, Bool.and_eq_true, decide_eq_true_eq] at h
    have hb : b.toNat < 128 := by simpa [UInt8.lt_iff_toNat_lt] using h.1
    simp only [List.map_cons, List.flatMap_cons, hb, if_true, UInt8.ofNat_toNat, Nat.toUInt8_eq]
    rw [ih (by simpa [isAsciiB] using h.2)]
    split <;> rfl

theorem mangle_ascii (ua : Nat → Bool) (s : Bytes) (h : isAsciiB s = true) : mangle ua s = mangleAscii s := by
  unfold mangle mangleAscii
  simp only [mangle_body_ascii ua s h]
  rfl

/-- the per-byte replacement of the ASCII rule -/
def repl (b : UInt8) : UInt8 := if isAlnumAscii b then b else 95

theorem mangleAscii_cases (s : Bytes) : mangleAscii s = s.map repl ∨ mangleAscii s = 110 :: s.map repl := by
  cases s with
  | nil => right; rfl
  | cons b r =>
    have e : mangleAscii (b :: r) = if isDigit (repl b) then 110 :: (b :: r).map repl else (b :: r).map repl := rfl
    rw [e]
    split
    · right; rfl
    · left; rfl

theorem isIdentChar_repl (b : UInt8) : isIdentChar (repl b) = true := by
  unfold repl isIdentChar isAlnumAscii isAlpha isDigit
  split
  · next h =>
    simp only [Bool.or_eq_true, Bool.and_eq_true, decide_eq_true_eq, UInt8.le_iff_toNat_le] at h ⊢
    simp only [UInt8.reduceToNat] at h ⊢
    omega
  · decide

theorem isIdentStart_repl (b : UInt8) (h : isDigit (repl b) = false) : isIdentStart (repl b) = true := by
  have := isIdentChar_repl b
  unfold isIdentChar at this
  unfold isIdentStart
  simpa [h] using this

theorem all_isIdentChar_repl (r : Bytes) : (r.map repl).all isIdentChar = true := by
  simp [List.all_map, isIdentChar_repl]

theorem mangleAscii_is_ident (s : Bytes) (hs : s ≠ []) (hne : mangleAscii s ≠ [95]) : isIdent (mangleAscii s) = true := by
  cases s with
  | nil => exact absurd rfl hs
  | cons b r =>
    have e : mangleAscii (b :: r) = if isDigit (repl b) then 110 :: (b :: r).map repl else (b :: r).map repl := rfl
    rw [e] at hne ⊢
    cases hd : isDigit (repl b) with
    | true =>
      simp only [if_true]
      have h0 : isIdentStart 110 = true := by decide
      have h2 := all_isIdentChar_repl (b :: r)
      simp only [isIdent, h0, h2]
      rfl
    | false =>
      simp only [hd, Bool.false_eq_true, if_false, List.map_cons] at hne ⊢
      have h1 := isIdentStart_repl b hd
      have h2 := all_isIdentChar_repl r
      simp only [isIdent, h1, h2, Bool.true_and, Bool.not_eq_true', Bool.and_eq_false_iff, decide_eq_false_iff_not]
      by_cases hb : repl b = 95
      · right
        cases hr : r.map repl with
        | nil => rw [hb, hr] at hne; exact absurd rfl hne
        | cons _ _ => rfl
      · left; exact hb

/-- … for `to/`-prefixed URL names as well (any non-empty ASCII string of length ≥ 2 or not `_`) -/
theorem mangle_is_ident_url (ua : Nat → Bool) (s : Bytes) (hs : s ≠ []) (h : isAsciiB s = true)
    (hne : mangleAscii s ≠ [95]) : isIdent (mangle ua s) = true := by
  rw [mangle_ascii ua s h]
  exact mangleAscii_is_ident s hs hne

theorem length_le_mangleAscii (s : Bytes) : s.length ≤ (mangleAscii s).length := by
  rcases mangleAscii_cases s with e | e <;> rw [e] <;> simp

theorem mem_mangleAscii_of_mem_map {s : Bytes} {c : UInt8} (h : c ∈ s.map repl) : c ∈ mangleAscii s := by
  rcases mangleAscii_cases s with e | e <;> rw [e] <;> simp [h]

theorem two_le_length (name ext : Bytes) (hn : name ≠ []) : 2 ≤ (name ++ [95] ++ ext).length := by
  cases name with
  | nil => exact absurd rfl hn
  | cons _ _ => simp only [List.length_append, List.length_cons, List.length_nil]; omega

theorem underscore_mem (name ext : Bytes) : (95 : UInt8) ∈ mangleAscii (name ++ [95] ++ ext) := by
  apply mem_mangleAscii_of_mem_map
  have : repl 95 = 95 := by decide
  rw [List.mem_map]
  exact ⟨95, by simp, this⟩

/-- every ASCII file name with an extension (`name` non-empty) yields a legal identifier -/
theorem mangle_is_ident (ua : Nat → Bool) (name ext : Bytes) (hn : name ≠ [])
    (h : isAsciiB (name ++ [95] ++ ext) = true) : isIdent (mangle ua (name ++ [95] ++ ext)) = true := by
  have h1 := two_le_length name ext hn
  refine mangle_is_ident_url ua _ ?_ h ?_
  · intro e
    rw [e] at h1
    simp at h1
  · intro e
    have h2 := length_le_mangleAscii (name ++ [95] ++ ext)
    rw [e] at h2
    simp only [List.length_cons, List.length_nil] at h2
    omega

theorem keywords_shape : ∀ k ∈ keywords, (95 : UInt8) ∉ str k ∨ (str k).length < 2 := by
  decide +kernel

/-- it is never a keyword: it contains `_` and has at least two bytes -/
theorem mangle_not_keyword (ua : Nat → Bool) (name ext : Bytes) (hn : name ≠ [])
    (h : isAsciiB (name ++ [95] ++ ext) = true) :
    ∀ k ∈ keywords, str k ≠ mangle ua (name ++ [95] ++ ext) := by
  intro k hk e
  rw [mangle_ascii ua _ h] at e
  have h1 := underscore_mem name ext
  have h2 := two_le_length name ext hn
  have h3 := length_le_mangleAscii (name ++ [95] ++ ext)
  rw [← e] at h1 h3
  rcases keywords_shape k hk with h4 | h4
  · exact h4 h1
  · omega

/-- `add_static` records `identifier ↦ URL name` … -/
theorem addStatic_names (ue ua : Nat → Bool) (s : Statics) (path rn url : Bytes) (c : Content) (suf : Bytes) :
    (s.addStatic ue ua path rn url c suf).names = btInsert (mangle ua rn) url s.names := by
  rfl

/-- … so `get_names()` maps the identifier to the published URL name of the file just added … -/
theorem getNames_maps (ue ua : Nat → Bool) (s : Statics) (path rn url : Bytes) (c : Content) (suf : Bytes)
    (hs : StrictSorted (s.names.map (·.1))) :
    btGet (mangle ua rn) (s.addStatic ue ua path rn url c suf).names = some url := by
  have _ := hs
  rw [addStatic_names]
  exact btGet_btInsert_self _ _ _

/-- … and keeps every other file added so far -/
theorem getNames_keeps (ue ua : Nat → Bool) (s : Statics) (path rn url : Bytes) (c : Content) (suf k : Bytes)
    (hs : StrictSorted (s.names.map (·.1))) (hk : k ≠ mangle ua rn) :
    btGet k (s.addStatic ue ua path rn url c suf).names = btGet k s.names := by
  have _ := hs
  rw [addStatic_names]
  exact btGet_btInsert_ne _ _ _ _ hk

/-- the invariant is kept -/
theorem addStatic_sorted (ue ua : Nat → Bool) (s : Statics) (path rn url : Bytes) (c : Content) (suf : Bytes)
    (hs : StrictSorted (s.names.map (·.1))) :
    StrictSorted ((s.addStatic ue ua path rn url c suf).names.map (·.1)) := by
  rw [addStatic_names]
  exact btInsert_sorted _ _ _ hs

#guard mangle (fun _ => false) (str "17.css") == str "n17_css"
#guard mangle (fun _ => false) (str "we ird-x.min.css") == str "we_ird_x_min_css"
example : isIdent [110, 49, 55, 95, 99, 115, 115] = true := by decide

end Ructe.C16
