import RucteProofs.ExecSpec

/-!
# C04 — template calls and block (Content) arguments compose
-/
namespace Ructe.C04
open Nom
open Esc (Sink IoRes)

/-- `@:callee(args…)` renders, at that position, exactly what the callee renders for those arguments -/
theorem render_call (sem : Sem) (prog : Prog) (n : Nat) (f : Bytes) (args : List RArg) (env : Env) (fn : RFn)
    (henv : env.get f = none) (hp : prog.get f = some fn) :
    renderS sem prog (n + 1) (.call f args) env =
      renderL sem prog n fn.body (bindParams fn.params (args.map (argVal sem env))) := by
  simp [renderS, henv, hp]

/-- a block argument denotes a closure over the **caller's** variables -/
theorem block_captures_caller (sem : Sem) (env : Env) (body : List RS) :
    argVal sem env (.closure body) = .closure body env := by
  rfl

/-- an empty block is `|_| Ok(())`, a non-empty one (even comment-only) a real closure -/
theorem lower_block (x : TExpr) (r : List TExpr) :
    lowerArg (.body []) = .noop ∧ lowerArg (.body (x :: r)) = .closure (lowerList (x :: r)) := by
  constructor <;> simp [lowerArg]

/-- `@:p()` for a Content parameter `p` renders the block — with the caller's variables — at the
place the callee invokes it -/
theorem render_content_param (sem : Sem) (prog : Prog) (n : Nat) (p : Bytes) (args : List RArg) (env cenv : Env) (body : List RS)
    (h : env.get p = some (.closure body cenv)) :
    renderS sem prog (n + 1) (.call p args) env = renderL sem prog n body cenv := by
  simp [renderS, h]

theorem render_noop_param (sem : Sem) (prog : Prog) (n : Nat) (p : Bytes) (args : List RArg) (env : Env)
    (h : env.get p = some .noop) :
    renderS sem prog (n + 1) (.call p args) env = some [] := by
  simp [renderS, h]

/-- binding: the callee sees its declared parameters, in declared order -/
theorem bindParams_get (p : Bytes) (ps : List Bytes) (v : Val) (vs : List Val) :
    (bindParams (p :: ps) (v :: vs)).get p = some v := by
  simp [bindParams, Env.get]

/-- **through an intermediate template**: a callee that forwards its block as `{@:body()}` to an inner
template makes the inner invocation render the original block -/
theorem compose_chain (sem : Sem) (prog : Prog) (n : Nat) (bodyName : Bytes) (env cenv : Env) (b : List RS) (out : Bytes)
    (h : env.get bodyName = some (.closure b cenv))
    (hr : renderL sem prog n b cenv = some out) :
    -- the forwarding block `{@:body()}` as the intermediate passes it on …
    argVal sem env (.closure [.call bodyName []]) = .closure [.call bodyName []] env ∧
    -- … and what invoking it renders: the original block
    renderL sem prog (n + 2) [.call bodyName []] env = some out := by
  refine ⟨rfl, ?_⟩
  simp [renderL, renderS, h, hr]

end Ructe.C04
