import RucteModel

/-! # C04 — placeholder: theorems are added as they are proved. -/
namespace Ructe.C04
theorem placeholder : True := trivial
end Ructe.C04
