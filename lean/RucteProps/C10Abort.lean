import RucteProofs.GenLemmas
import RucteModel.Abort

/-!
# C10 / C12 — a walk that is cut short (`?` in `handle_entries`)

`Abort.lean` is the walk as the code does it, including the entry that cannot be opened (a symbolic link to
nothing whose name has a template suffix).  Two things are proved here.

* `walkA_readable`: on a tree where everything can be read the walk is `Gen.handleEntries` — so every theorem
  about `handleEntries` / `build` is a theorem about the walk as it is (`buildLogA_plain`).
* `walkA_spec`: in general the walk either completes, and then it is *exactly* the walk over the readable
  part of the tree (an unreadable entry without a template suffix is never opened), or it is cut short, and
  then what it asked to be written is a **prefix** of what the walk over the readable part writes, and what
  it declared is a prefix of what that walk declares: nothing is written that a complete run would not write
  with the same bytes, no declaration is made for a directory whose `mod.rs` was not written.
-/
namespace Ructe.C10Abort
open Nom

theorem handleFileA_some (ue : Nat → Bool) (fname path outdir c : Bytes) (l : List Bytes) :
    ∀ (o : Log) (f : Bytes), handleFileA ue o f fname path outdir (some c) l =
      ((handleFile ue o f fname path outdir c l).1, (handleFile ue o f fname path outdir c l).2, false) := by
  induction l with
  | nil => intro o f; rfl
  | cons s rest ih =>
    intro o f
    rw [handleFileA, handleFile]
    split
    · simp only
      rw [ih]
    · rw [ih]

theorem handleFileA_none (ue : Nat → Bool) (fname path outdir : Bytes) (l : List Bytes) (o : Log) (f : Bytes) :
    ((handleFileA ue o f fname path outdir none l).2.2 = false →
        handleFileA ue o f fname path outdir none l = (f, o, false)) ∧
    ((handleFileA ue o f fname path outdir none l).2.2 = true →
        (handleFileA ue o f fname path outdir none l).1 = f ∧
        (handleFileA ue o f fname path outdir none l).2.1.writes = o.writes ∧
        rerun path ∈ (handleFileA ue o f fname path outdir none l).2.1.stdout) := by
  induction l with
  | nil => rw [handleFileA]; simp
  | cons s rest ih =>
    rw [handleFileA]
    split
    · simp [Log.print, Log.read, rerun]
    · exact ih

/-- what the walk promises, relative to the walk `r` over the readable part -/
def Spec (a : Bytes × Log × Bool) (r : Bytes × Log) : Prop :=
  (a.2.2 = false → a.1 = r.1 ∧ a.2.1 = r.2) ∧
  (a.2.2 = true → a.2.1.writes <+: r.2.writes ∧ a.1 <+: r.1)

theorem walkA_spec_both (ue : Nat → Bool) :
    (∀ (o : Log) (f indir outdir : Bytes) (es : List EntryA),
      Spec (handleEntriesA ue o f indir outdir es) (handleEntries ue o f indir outdir (readable es))) ∧
    (∀ (o : Log) (f indir outdir : Bytes) (es : List EntryA),
      Spec (handleDirA ue o f indir outdir es) (handleDir ue o f indir outdir (readable es))) := by
  apply handleEntriesA.mutual_induct ue
    (motive1 := fun o f indir outdir es =>
      Spec (handleEntriesA ue o f indir outdir es) (handleEntries ue o f indir outdir (readable es)))
    (motive2 := fun o f indir outdir es =>
      Spec (handleDirA ue o f indir outdir es) (handleDir ue o f indir outdir (readable es)))
  · intro o f indir outdir
    rw [handleEntriesA, readable, handleEntries]
    exact ⟨fun _ => ⟨rfl, rfl⟩, fun h => by simp at h⟩
  · -- a sub-directory whose walk was cut short
    intro o f indir outdir name sub rest hv outdir' fst o1 hd ih2
    simp only [outdir'] at hd ih2
    rw [handleEntriesA, if_pos hv]
    dsimp only
    rw [hd, readable, handleEntries, if_pos hv]
    simp only [hd] at ih2
    obtain ⟨hw, _⟩ := ih2.2 rfl
    refine ⟨fun h => by simp at h, fun _ => ?_⟩
    simp only
    constructor
    · exact hw.trans ((Grow.writeIfChanged _ _ _).writes.trans (handleEntries_grow ue _ _ _ _ _).1.writes)
    · exact (List.prefix_append f _).trans (by
        have := (handleEntries_grow ue
          (writeIfChanged (handleDir ue o modRsHeader (joinPath indir name) (joinPath outdir name) (readable sub)).2
            (joinPath (joinPath outdir name) (str "mod.rs"))
            (handleDir ue o modRsHeader (joinPath indir name) (joinPath outdir name) (readable sub)).1)
          (f ++ str "pub mod " ++ name ++ str ";\n\n") indir outdir (readable rest)).2
        simpa [List.append_assoc] using this)
  · -- a sub-directory walked to the end
    intro o f indir outdir name sub rest hv outdir' modrs o1 hd o2 ih2 ih1
    simp only [o2, outdir'] at hd ih2 ih1
    rw [handleEntriesA, if_pos hv]
    dsimp only
    rw [hd, readable, handleEntries, if_pos hv]
    simp only [hd] at ih2
    obtain ⟨e1, e2⟩ := ih2.1 rfl
    simp only at e1 e2 ⊢
    rw [← e1, ← e2]
    exact ih1
  · intro o f indir outdir name sub rest hv ih
    rw [handleEntriesA, if_neg hv, readable, handleEntries, if_neg hv]
    exact ih
  · -- an entry with a template suffix that cannot be opened
    intro o f indir outdir name content rest hv fst o1 hf
    rw [handleEntriesA, if_pos hv, hf]
    cases content with
    | some c => rw [handleFileA_some] at hf; simp at hf
    | none =>
      obtain ⟨e1, e2, _⟩ := (handleFileA_none ue name (joinPath indir name) outdir suffixes o f).2 (by rw [hf])
      rw [hf] at e1 e2
      simp only at e1 e2
      rw [readable]
      refine ⟨fun h => by simp at h, fun _ => ?_⟩
      simp only
      rw [e1, e2]
      exact ⟨(handleEntries_grow ue _ _ _ _ _).1.writes, (handleEntries_grow ue _ _ _ _ _).2⟩
  · intro o f indir outdir name content rest hv f1 o1 hf ih
    rw [handleEntriesA, if_pos hv, hf]
    cases content with
    | some c =>
      rw [handleFileA_some] at hf
      rw [readable, handleEntries, if_pos hv]
      simp only [Prod.mk.injEq, and_true] at hf
      obtain ⟨h1, h2⟩ := hf
      simp only
      rw [h1, h2]
      exact ih
    | none =>
      have := (handleFileA_none ue name (joinPath indir name) outdir suffixes o f).1 (by rw [hf])
      rw [hf] at this
      simp only [Prod.mk.injEq, and_true] at this
      obtain ⟨h1, h2⟩ := this
      rw [readable]
      simp only
      rw [h1, h2] at ih ⊢
      exact ih
  · intro o f indir outdir name content rest hv ih
    rw [handleEntriesA, if_neg hv]
    cases content with
    | some c => rw [readable, handleEntries, if_neg hv]; exact ih
    | none => rw [readable]; exact ih
  · intro o f indir outdir es o1 ih
    rw [handleDirA, handleDir]
    exact ih

/-- **The walk as it is, against the walk over the readable part of the tree.** -/
theorem walkA_spec (ue : Nat → Bool) (o : Log) (f indir outdir : Bytes) (es : List EntryA) :
    Spec (handleDirA ue o f indir outdir es) (handleDir ue o f indir outdir (readable es)) :=
  (walkA_spec_both ue).2 o f indir outdir es

/-- a walk that completes is exactly the walk over the readable entries -/
theorem walkA_complete (ue : Nat → Bool) (o : Log) (f indir outdir : Bytes) (es : List EntryA)
    (h : (handleDirA ue o f indir outdir es).2.2 = false) :
    (handleDirA ue o f indir outdir es).1 = (handleDir ue o f indir outdir (readable es)).1 ∧
    (handleDirA ue o f indir outdir es).2.1 = (handleDir ue o f indir outdir (readable es)).2 :=
  (walkA_spec ue o f indir outdir es).1 h

/-- a walk that is cut short asked for a prefix of the complete walk's requests, and declared a prefix of
its declarations -/
theorem walkA_cut_prefix (ue : Nat → Bool) (o : Log) (f indir outdir : Bytes) (es : List EntryA)
    (h : (handleDirA ue o f indir outdir es).2.2 = true) :
    (handleDirA ue o f indir outdir es).2.1.writes <+: (handleDir ue o f indir outdir (readable es)).2.writes ∧
    (handleDirA ue o f indir outdir es).1 <+: (handleDir ue o f indir outdir (readable es)).1 :=
  (walkA_spec ue o f indir outdir es).2 h

/-! ## Readable trees: the old model is the walk as it is -/

/-- a listing in which everything can be read, as the walk sees it -/
def embed : List Entry → List EntryA
  | [] => []
  | .file n c :: r => .file n (some c) :: embed r
  | .dir n es :: r => .dir n (embed es) :: embed r

theorem walkA_readable_both (ue : Nat → Bool) :
    (∀ (o : Log) (f indir outdir : Bytes) (es : List Entry),
      handleEntriesA ue o f indir outdir (embed es) =
        ((handleEntries ue o f indir outdir es).1, (handleEntries ue o f indir outdir es).2, false)) ∧
    (∀ (o : Log) (f indir outdir : Bytes) (es : List Entry),
      handleDirA ue o f indir outdir (embed es) =
        ((handleDir ue o f indir outdir es).1, (handleDir ue o f indir outdir es).2, false)) := by
  apply handleEntries.mutual_induct ue
    (motive1 := fun o f indir outdir es => handleEntriesA ue o f indir outdir (embed es) =
        ((handleEntries ue o f indir outdir es).1, (handleEntries ue o f indir outdir es).2, false))
    (motive2 := fun o f indir outdir es => handleDirA ue o f indir outdir (embed es) =
        ((handleDir ue o f indir outdir es).1, (handleDir ue o f indir outdir es).2, false))
  · intro o f indir outdir; rw [embed, handleEntriesA, handleEntries]
  · intro o f indir outdir name sub rest hv outdir' modrs o1 hd o2 ih2 ih1
    simp only [o2, outdir'] at hd ih2 ih1
    rw [embed, handleEntriesA, if_pos hv]
    dsimp only
    rw [ih2, hd, handleEntries, if_pos hv]
    dsimp only
    rw [hd]
    exact ih1
  · intro o f indir outdir name sub rest hv ih
    rw [embed, handleEntriesA, if_neg hv, handleEntries, if_neg hv]; exact ih
  · intro o f indir outdir name content rest hv f1 o1 hf ih
    rw [embed, handleEntriesA, if_pos hv, handleFileA_some, hf, handleEntries, if_pos hv, hf]
    exact ih
  · intro o f indir outdir name content rest hv ih
    rw [embed, handleEntriesA, if_neg hv, handleEntries, if_neg hv]; exact ih
  · intro o f indir outdir es o1 ih
    rw [handleDirA, handleDir]; exact ih

theorem walkA_readable (ue : Nat → Bool) (o : Log) (f indir outdir : Bytes) (es : List Entry) :
    handleDirA ue o f indir outdir (embed es) =
      ((handleDir ue o f indir outdir es).1, (handleDir ue o f indir outdir es).2, false) :=
  (walkA_readable_both ue).2 o f indir outdir es

/-- a script in which every call sees readable entries only -/
def OpA.ofOp : Op → OpA
  | .compileTemplates d es => .compileTemplatesA d (embed es)
  | op => .plain op

theorem stepA_ofOp (ue ua : Nat → Bool) (feat : MimeFeature) (outdir : Bytes) (b : Build) (op : Op) :
    Build.stepA ue ua feat outdir b (OpA.ofOp op) = Build.step ue ua feat outdir b op := by
  cases op <;> try rfl
  case compileTemplates d es =>
    simp only [OpA.ofOp, Build.stepA, Build.step, walkA_readable]

/-- **On readable trees the abort-aware run is the run of `Gen.lean`**: every theorem about `buildLog` is a
theorem about the run as the code does it. -/
theorem buildLogA_readable (ue ua : Nat → Bool) (feat : MimeFeature) (outdir utils : Bytes) (ops : List Op) :
    buildLogA ue ua feat outdir utils (ops.map OpA.ofOp) = buildLog ue ua feat outdir utils ops := by
  unfold buildLogA buildLog
  congr 1
  generalize Build.new outdir utils = b
  induction ops generalizing b with
  | nil => rfl
  | cons op rest ih => rw [List.map_cons, List.foldl_cons, List.foldl_cons, stepA_ofOp]; exact ih _

/-- … and so are the names a later `static_name` / `get_names` sees -/
theorem namesAfterA_readable (ue ua : Nat → Bool) (feat : MimeFeature) (outdir utils : Bytes) (ops : List Op) :
    namesAfterA ue ua feat outdir utils (ops.map OpA.ofOp) = namesAfter ue ua feat outdir utils ops := by
  unfold namesAfterA namesAfter
  have : ∀ (b : Build), (ops.map OpA.ofOp).foldl (Build.stepA ue ua feat outdir) b = ops.foldl (Build.step ue ua feat outdir) b := by
    induction ops with
    | nil => intro b; rfl
    | cons op rest ih => intro b; rw [List.map_cons, List.foldl_cons, List.foldl_cons, stepA_ofOp]; exact ih _
  rw [this]
  generalize (List.foldl (Build.step ue ua feat outdir) (Build.new outdir utils) ops).statics = st
  cases st <;> rfl

/-- a template call — complete or cut short — never touches the statics -/
theorem templates_leave_statics (ue ua : Nat → Bool) (feat : MimeFeature) (outdir : Bytes) (b : Build) (d : Bytes) (es : List EntryA) :
    (Build.stepA ue ua feat outdir b (.compileTemplatesA d es)).statics = b.statics := rfl

/-- the two views of a listing agree when nothing in it is unreadable -/
def noDead : List IEntry → Bool
  | [] => true
  | .file _ _ :: r => noDead r
  | .link _ _ :: r => noDead r
  | .dead _ :: _ => false
  | .dir _ es :: r => noDead es && noDead r

theorem viewTemplatesA_noDead : ∀ (es : List IEntry), noDead es = true → viewTemplatesA es = embed (viewTemplates es)
  | [], _ => by rw [viewTemplatesA, viewTemplates, embed]
  | .file n c :: r, h => by
    rw [viewTemplatesA, viewTemplates, embed, viewTemplatesA_noDead r (by simpa [noDead] using h)]
  | .link n c :: r, h => by
    rw [viewTemplatesA, viewTemplates, embed, viewTemplatesA_noDead r (by simpa [noDead] using h)]
  | .dead n :: r, h => by simp [noDead] at h
  | .dir n es :: r, h => by
    have h' : noDead es = true ∧ noDead r = true := by simpa [noDead] using h
    rw [viewTemplatesA, viewTemplates, embed, viewTemplatesA_noDead es h'.1, viewTemplatesA_noDead r h'.2]

/-- the readable part of what the walk sees is what `Gen.lean`'s view shows -/
theorem readable_viewTemplatesA : ∀ (es : List IEntry), readable (viewTemplatesA es) = viewTemplates es
  | [] => by rw [viewTemplatesA, readable, viewTemplates]
  | .file n c :: r => by rw [viewTemplatesA, readable, viewTemplates, readable_viewTemplatesA r]
  | .link n c :: r => by rw [viewTemplatesA, readable, viewTemplates, readable_viewTemplatesA r]
  | .dead n :: r => by rw [viewTemplatesA, readable, viewTemplates, readable_viewTemplatesA r]
  | .dir n es :: r => by
    rw [viewTemplatesA, readable, viewTemplates, readable_viewTemplatesA es, readable_viewTemplatesA r]

theorem resolveA_noDead (base : Bytes) (t : InFS) (h : ∀ d es, t d = some (.dir es) → noDead es = true) (op : SOp) :
    SOp.resolveA base t op = OpA.ofOp (op.resolve base t) := by
  cases op with
  | compileTemplates d =>
    rw [SOp.resolveA, SOp.resolve]
    cases ht : t d with
    | none => rfl
    | some n =>
      cases n with
      | file c => rfl
      | dir es => simp only [OpA.ofOp]; rw [viewTemplatesA_noDead es (h d es ht)]
  | addFile p =>
    rw [SOp.resolveA, SOp.resolve]
    · try dsimp only
      cases nameAndExt (baseName (pathFor base p)) with
      | none => rfl
      | some _ =>
        dsimp only
        cases t (pathFor base p) with
        | none => rfl
        | some n => cases n <;> rfl
    · intro d hd; cases hd
  | addFiles d =>
    rw [SOp.resolveA, SOp.resolve]
    · try dsimp only
      cases t (pathFor base d) with
      | none => rfl
      | some n => cases n <;> rfl
    · intro d' hd; cases hd
  | addFileAs p u => rfl
  | addFilesAs d to =>
    rw [SOp.resolveA, SOp.resolve]
    · try dsimp only
      cases t (pathFor base d) with
      | none => rfl
      | some n => cases n <;> rfl
    · intro d' hd; cases hd
  | addFileData p data => rfl

/-- **When nothing in the listed directories is unreadable, the run as the code does it is the run of
`InFS.runScript`** — the run all the property theorems are about. -/
theorem runScriptA_noDead (ue ua : Nat → Bool) (feat : MimeFeature) (fs : FS) (outdir utils base : Bytes) (t : InFS)
    (h : ∀ d es, t d = some (.dir es) → noDead es = true) (script : List SOp) :
    runScriptA ue ua feat fs outdir utils base t script = runScript ue ua feat fs outdir utils base t script := by
  unfold runScriptA runScript build
  rw [← buildLogA_readable, List.map_map]
  congr 2
  apply List.map_congr_left
  intro op _
  exact resolveA_noDead base t h op

/-- an unreadable entry whose name ends in a template suffix cuts the walk short … -/
theorem dead_with_suffix_cuts (ue : Nat → Bool) (fname path outdir : Bytes) (l : List Bytes) (o : Log) (f : Bytes)
    (h : ∃ s ∈ l, endsWith fname s = true) : (handleFileA ue o f fname path outdir none l).2.2 = true := by
  induction l with
  | nil => simp at h
  | cons s rest ih =>
    rw [handleFileA]
    split
    · rfl
    · rename_i hs
      apply ih
      obtain ⟨s', hm, he⟩ := h
      rcases List.mem_cons.1 hm with rfl | hm'
      · exact absurd he hs
      · exact ⟨s', hm', he⟩

/-- … and one whose name ends in none of them is never opened: it is as if it were not there -/
theorem dead_without_suffix_ignored (ue : Nat → Bool) (fname path outdir : Bytes) (l : List Bytes) (o : Log) (f : Bytes)
    (h : ∀ s ∈ l, endsWith fname s = false) : handleFileA ue o f fname path outdir none l = (f, o, false) := by
  induction l with
  | nil => rfl
  | cons s rest ih =>
    rw [handleFileA, if_neg (by simp [h s (List.mem_cons_self ..)])]
    exact ih (fun s' hs' => h s' (List.mem_cons_of_mem _ hs'))

theorem html_suffix_matches : endsWith [103, 46, 114, 115, 46, 104, 116, 109, 108] (str ".rs.html") = true := by
  decide +kernel

/-- the premises are met: a directory holding a dangling link `g.rs.html` — the walk is cut short -/
example : (handleDirA (fun _ => false) {} [] [116] [111] [.file [103, 46, 114, 115, 46, 104, 116, 109, 108] none]).2.2 = true := by
  rw [handleDirA, handleEntriesA, if_pos (by decide)]
  have hc := dead_with_suffix_cuts (fun _ => false) [103, 46, 114, 115, 46, 104, 116, 109, 108]
    (joinPath [116] [103, 46, 114, 115, 46, 104, 116, 109, 108]) [111] suffixes
    ((({} : Log).read [116]).print (str "cargo:rerun-if-changed=" ++ [116])) []
    ⟨str ".rs.html", by rw [suffixes_eq]; exact List.mem_cons_self .., html_suffix_matches⟩
  generalize handleFileA (fun _ => false) _ _ _ _ _ none suffixes = a at hc ⊢
  obtain ⟨f1, o1, b⟩ := a
  simp only at hc
  subst hc
  rfl

end Ructe.C10Abort
