import RucteModel.Emit
import RucteModel.Exec
import RucteProofs.Literals
import RucteProps.C08

/-!
# C01 — literal template text is reproduced byte for byte (the literal part)

`textLit ue t` is the literal `write_code` prints for a text node (after the repair: `b"…"` with
`escape_ascii` for ASCII text, `"…".as_bytes()` with `{:?}` otherwise).
-/
namespace Ructe.C01
open Nom

/-- ASCII text: the printed byte-string literal denotes exactly the text — every ASCII code point,
including quotes, backslashes, CR, LF, NUL and every other control character -/
theorem textLit_ascii (ue : Nat → Bool) (t : Bytes) (h : isAsciiB t = true) :
    textLit ue t = [98, 34] ++ escapeAscii t ++ [34] ∧
    decodeByteStrLit ([98, 34] ++ escapeAscii t ++ [34]) = some t := by
  have e1 : str "b\"" = [98, 34] := by decide +kernel
  have e2 : str "\"" = [34] := by decide +kernel
  exact ⟨by simp [textLit, h, e1, e2], C08.byteString_roundtrip t⟩

/-- non-ASCII text (valid UTF-8, as the parser guarantees): `"…".as_bytes()` denotes exactly the text -/
theorem textLit_nonascii (ue : Nat → Bool) (t : Bytes) (h : isAsciiB t = false) (hv : validUtf8 t = true) :
    textLit ue t = strDebug ue t ++ str ".as_bytes()" ∧ decodeStrLit (strDebug ue t) = some t := by
  exact ⟨by simp [textLit, h], C08.strDebug_roundtrip ue t hv⟩

/-- the pinned emission `b{text:?}` of ASCII text with a control character does not lex as a byte
string: `b"X\u{8}"` (finding #1, machine-checked) -/
theorem emitTextPinned_counterexample :
    decodeByteStrLit ([98] ++ strDebug (fun _ => false) [88, 8]) = none ∧
    decodeByteStrLit ([98, 34] ++ escapeAscii [88, 8] ++ [34]) = some [88, 8] := by
  decide +kernel

/-- the three escapes and comments: what the parser's text nodes for `@@`, `@{`, `@}` lower to -/
theorem lower_text (t : Bytes) : lower (.text t) = [.writeAll t] := by
  simp [lower]

theorem lower_comment : lower .comment = [] := by
  simp [lower]

/-- a text node renders as itself, a comment as nothing (specification semantics, every `Sem`) -/
theorem render_text (sem : Sem) (prog : Prog) (n : Nat) (t : Bytes) (env : Env) :
    renderS sem prog (n + 1) (.writeAll t) env = some t := by
  simp [renderS]

end Ructe.C01
