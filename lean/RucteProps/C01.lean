import RucteModel

/-! # C01 — placeholder: theorems are added as they are proved. -/
namespace Ructe.C01
theorem placeholder : True := trivial
end Ructe.C01
