import RucteModel

/-! # C12 — placeholder: theorems are added as they are proved. -/
namespace Ructe.C12
theorem placeholder : True := trivial
end Ructe.C12
