import RucteProofs.GenLemmas

/-!
# C12 — incremental output equals a clean build; unchanged files are untouched

`buildLog` is what a run of the build script *asks for* (the sequence of
`write_if_changed(path, content)` requests; it does not depend on OUT_DIR, because nothing in
ructe reads OUT_DIR except `write_if_changed`), `runLog fs log` carries the requests out on the
prior OUT_DIR state `fs`, `build … fs … = runLog fs (buildLog …)`.  The theorems quantify over
**every** prior state `fs`: the results of any earlier builds, files truncated by a crash at any
point, arbitrary garbage.
-/
namespace Ructe.C12
open Nom

/-- `write_if_changed`: afterwards the file holds the content, nothing else changed, and the file
is physically written iff it did not already hold exactly that content -/
theorem applyWrite_post (o : FS × List Bytes) (p c : Bytes) :
    (applyWrite o (p, c)).1.get p = some c ∧
    (∀ q, q ≠ p → (applyWrite o (p, c)).1.get q = o.1.get q) ∧
    ((applyWrite o (p, c)).2 = o.2 ↔ o.1.get p = some c) ∧
    (o.1.get p ≠ some c → (applyWrite o (p, c)).2 = o.2 ++ [p]) := by
  unfold applyWrite
  by_cases h : o.1.get p = some c
  · simp [h]
  · simp [h, FS.get_set_same]
    intro q hq
    exact FS.get_set_other _ _ _ _ hq

/-- after a run every path holds what the last request for it asked for; other paths are untouched -/
theorem runLog_get (fs : FS) (l : Log) (p : Bytes) :
    (runLog fs l).fs.get p = (match lastWrite l.writes p with | some c => some c | none => fs.get p) :=
  runLog_fs_get fs l p

/-- **incremental = clean**: on every path the run writes (everything reachable from
`templates.rs` is written by the run), the result is the same whatever OUT_DIR held before -/
theorem incremental_eq_clean (ue ua : Nat → Bool) (feat : MimeFeature) (fs : FS) (outdir utils : Bytes) (ops : List Op)
    (p : Bytes) (hp : p ∈ (buildLog ue ua feat outdir utils ops).writes.map (·.1)) :
    (build ue ua feat fs outdir utils ops).fs.get p = (build ue ua feat [] outdir utils ops).fs.get p := by
  unfold build
  rw [runLog_get, runLog_get]
  cases h : lastWrite (buildLog ue ua feat outdir utils ops).writes p with
  | some c => rfl
  | none => exact absurd hp ((lastWrite_eq_none_iff _ _).mp h)

/-- paths the run does not write keep whatever they held (stale files are left alone, never half-updated) -/
theorem untouched_elsewhere (ue ua : Nat → Bool) (feat : MimeFeature) (fs : FS) (outdir utils : Bytes) (ops : List Op)
    (p : Bytes) (hp : p ∉ (buildLog ue ua feat outdir utils ops).writes.map (·.1)) :
    (build ue ua feat fs outdir utils ops).fs.get p = fs.get p := by
  unfold build
  rw [runLog_get, (lastWrite_eq_none_iff _ _).mpr hp]

/-- what is printed does not depend on OUT_DIR either -/
theorem stdout_independent (ue ua : Nat → Bool) (feat : MimeFeature) (fs : FS) (outdir utils : Bytes) (ops : List Op) :
    (build ue ua feat fs outdir utils ops).stdout = (build ue ua feat [] outdir utils ops).stdout := by
  rfl

/-- a log in which no path is asked to hold two different contents -/
def Consistent (ws : List (Bytes × Bytes)) : Prop := ∀ p c c', (p, c) ∈ ws → (p, c') ∈ ws → c = c'

/-- a run on a state that already holds everything it asks for writes nothing -/
theorem silent_when_up_to_date (fs : FS) (l : Log) (h : ∀ pc ∈ l.writes, fs.get pc.1 = some pc.2) :
    (runLog fs l).writes = [] ∧ (runLog fs l).fs = fs := by
  unfold runLog
  simp only
  rw [foldl_applyWrite_silent l.writes (fs, []) h]
  exact ⟨rfl, rfl⟩

/-- **second run silent** (a corollary): running the same requests again on the result performs no physical write -/
theorem second_run_silent (fs : FS) (l : Log) (hc : Consistent l.writes) :
    (runLog (runLog fs l).fs l).writes = [] := by
  have h : ∀ pc ∈ l.writes, (runLog fs l).fs.get pc.1 = some pc.2 := by
    intro pc hpc
    rw [runLog_get]
    cases h : lastWrite l.writes pc.1 with
    | some d =>
      have := lastWrite_mem _ _ _ h
      simp only
      rw [hc pc.1 d pc.2 this hpc]
    | none =>
      exact absurd (List.mem_map_of_mem hpc) ((lastWrite_eq_none_iff _ _).mp h)
  exact (silent_when_up_to_date _ l h).1

/-- only requested paths are ever physically written -/
theorem writes_subset (fs : FS) (l : Log) : ∀ p ∈ (runLog fs l).writes, p ∈ l.writes.map (·.1) := by
  intro p hp
  rcases foldl_applyWrite_writes l.writes (fs, []) p hp with h | h
  · simp at h
  · exact h

/-! ## The property's quantifier made explicit: earlier builds, and builds that died

`incremental_eq_clean` holds for every prior state.  The two definitions below *construct* the prior
states the property talks about — the result of any sequence of earlier builds over other inputs,
any of which may have died at any request with the file it was writing cut at any length — so that
the statement reads as the property does.  (`fs::write` creates / truncates the file and then writes:
a build that dies inside it leaves a prefix of the new content.) -/

/-- the state a build leaves when it dies at request `k`, having written `cut` bytes of that file;
`k ≥` the number of requests = the build ran to completion -/
def crashedAt (fs : FS) (l : Log) (k cut : Nat) : FS :=
  let done := ((l.writes.take k).foldl applyWrite (fs, [])).1
  match l.writes[k]? with
  | some (p, c) => if done.get p = some c then done else done.set p (c.take cut)
  | none => done

/-- OUT_DIR after a history of earlier builds: each entry is the script with the inputs of that build
(`ops`) and where it died (`k`, `cut`) -/
def afterHistory (ue ua : Nat → Bool) (feat : MimeFeature) (outdir utils : Bytes) (fs : FS) :
    List (List Op × Nat × Nat) → FS
  | [] => fs
  | (ops, k, cut) :: rest =>
    afterHistory ue ua feat outdir utils (crashedAt fs (buildLog ue ua feat outdir utils ops) k cut) rest

/-- a build that is not interrupted is the special case `k ≥ number of requests` -/
theorem crashedAt_complete (fs : FS) (l : Log) (k cut : Nat) (hk : l.writes.length ≤ k) :
    crashedAt fs l k cut = (runLog fs l).fs := by
  unfold crashedAt runLog
  simp only [List.take_of_length_le hk, List.getElem?_eq_none hk]

/-- **after any history, one successful run equals a clean build**: whatever garbage OUT_DIR started
with, whatever earlier builds ran over whatever edited / added / deleted / broken inputs, wherever
each of them died and however far it got with the file it was writing -/
theorem history_then_run_eq_clean (ue ua : Nat → Bool) (feat : MimeFeature) (fs₀ : FS) (outdir utils : Bytes)
    (history : List (List Op × Nat × Nat)) (ops : List Op)
    (p : Bytes) (hp : p ∈ (buildLog ue ua feat outdir utils ops).writes.map (·.1)) :
    (build ue ua feat (afterHistory ue ua feat outdir utils fs₀ history) outdir utils ops).fs.get p =
      (build ue ua feat [] outdir utils ops).fs.get p :=
  incremental_eq_clean ue ua feat _ outdir utils ops p hp

/-- … and a run that dies is followed by a run that repairs what it left: the file cut at `cut`
bytes holds the full content afterwards -/
theorem rerun_repairs_truncation (fs : FS) (l : Log) (k cut : Nat) (p c : Bytes)
    (hk : l.writes[k]? = some (p, c)) (hlast : lastWrite l.writes p = some c) :
    (runLog (crashedAt fs l k cut) l).fs.get p = some c := by
  have _ := hk
  rw [runLog_get, hlast]

/-! Non-vacuity -/
example : crashedAt [] { writes := [([1], [10, 11, 12]), ([2], [20])] } 0 2 = [([1], [10, 11])] := by decide
example : crashedAt [] { writes := [([1], [10, 11, 12]), ([2], [20])] } 1 0 = [([1], [10, 11, 12]), ([2], [])] := by decide

example : Consistent [([1], [2]), ([3], [4]), ([1], [2])] := by
  intro p c c' h1 h2; simp at h1 h2; rcases h1 with ⟨rfl, rfl⟩ | ⟨rfl, rfl⟩ | ⟨rfl, rfl⟩ <;> rcases h2 with ⟨h, rfl⟩ | ⟨h, rfl⟩ | ⟨h, rfl⟩ <;> simp_all

end Ructe.C12
