import RucteProofs.GenLemmas
import RucteModel.Abort
import RucteProps.C17Rerun

/-!
# C17 / C12 for the run as the code does it (walks that are cut short included)

`C17.announced` and `C12.incremental_eq_clean` are about `buildLog` / `build`.  `C10Abort.runScriptA_noDead`
carries them to the code's run when every listed entry can be read.  Here the two statements are proved for
`buildLogA` directly, i.e. also for runs in which a walk is cut short by an entry that cannot be opened:

* `announcedA`: every path the run lists or opens — the unreadable entry included: its line is printed before
  the attempt to open it — has its own `cargo:rerun-if-changed=` line, so repairing the link runs the script again;
* `cut_short_then_complete_eq_clean`: whatever a cut-short run (or any other run) left in OUT_DIR, the next run
  leaves exactly what a clean build leaves.
-/
namespace Ructe.C17Abort
open Nom

theorem handleFileA_grow (ue : Nat → Bool) (fname path outdir : Bytes) (content : Option Bytes) (l : List Bytes) :
    ∀ (o : Log) (f : Bytes), Grow o (handleFileA ue o f fname path outdir content l).2.1 := by
  induction l with
  | nil => intro o f; exact Grow.refl _
  | cons s rest ih =>
    intro o f
    rw [handleFileA]
    split
    · cases content with
      | none => exact Grow.print_read o path
      | some c =>
        simp only
        exact ((Grow.print o _).trans (handleTemplate_grow ue _ _ path outdir c (by simp [Log.print, rerun]))).trans (ih _ _)
    · exact ih o f

theorem walkA_grow_both (ue : Nat → Bool) :
    (∀ (o : Log) (f indir outdir : Bytes) (es : List EntryA), Grow o (handleEntriesA ue o f indir outdir es).2.1) ∧
    (∀ (o : Log) (f indir outdir : Bytes) (es : List EntryA), Grow o (handleDirA ue o f indir outdir es).2.1) := by
  apply handleEntriesA.mutual_induct ue
    (motive1 := fun o f indir outdir es => Grow o (handleEntriesA ue o f indir outdir es).2.1)
    (motive2 := fun o f indir outdir es => Grow o (handleDirA ue o f indir outdir es).2.1)
  · intro o f indir outdir; rw [handleEntriesA]; exact Grow.refl _
  · intro o f indir outdir name sub rest hv outdir' fst o1 hd ih2
    simp only [outdir'] at hd ih2
    rw [handleEntriesA, if_pos hv]; dsimp only; rw [hd]
    simpa [hd] using ih2
  · intro o f indir outdir name sub rest hv outdir' modrs o1 hd o2 ih2 ih1
    simp only [o2, outdir'] at hd ih2 ih1
    rw [handleEntriesA, if_pos hv]; dsimp only; rw [hd]
    rw [hd] at ih2
    exact (ih2.trans (Grow.writeIfChanged _ _ _)).trans ih1
  · intro o f indir outdir name sub rest hv ih
    rw [handleEntriesA, if_neg hv]; exact ih
  · intro o f indir outdir name content rest hv fst o1 hf
    rw [handleEntriesA, if_pos hv, hf]
    have := handleFileA_grow ue name (joinPath indir name) outdir content suffixes o f
    rw [hf] at this
    exact this
  · intro o f indir outdir name content rest hv f1 o1 hf ih
    rw [handleEntriesA, if_pos hv, hf]
    have := handleFileA_grow ue name (joinPath indir name) outdir content suffixes o f
    rw [hf] at this
    exact this.trans ih
  · intro o f indir outdir name content rest hv ih
    rw [handleEntriesA, if_neg hv]; exact ih
  · intro o f indir outdir es o1 ih
    rw [handleDirA]
    exact (Grow.read_print o indir).trans ih

theorem stepA_grow (ue ua : Nat → Bool) (feat : MimeFeature) (outdir : Bytes) (b : Build) (op : OpA) :
    Grow b.out (Build.stepA ue ua feat outdir b op).out := by
  cases op with
  | plain op => exact Build.step_grow ue ua feat outdir b op
  | compileTemplatesA indir es => exact (walkA_grow_both ue).2 b.out b.f indir _ es

theorem foldl_stepA_grow (ue ua : Nat → Bool) (feat : MimeFeature) (outdir : Bytes) (ops : List OpA) (b : Build) :
    Grow b.out (ops.foldl (Build.stepA ue ua feat outdir) b).out := by
  induction ops generalizing b with
  | nil => exact Grow.refl _
  | cons op rest ih => exact (stepA_grow ue ua feat outdir b op).trans (ih _)

/-- **Every path the run lists or opens has its own line** — also in a run whose walk is cut short, and for the
entry that could not be opened. -/
theorem announcedA (ue ua : Nat → Bool) (feat : MimeFeature) (outdir utils : Bytes) (ops : List OpA) :
    Ann (buildLogA ue ua feat outdir utils ops) :=
  ((foldl_stepA_grow ue ua feat outdir ops _).trans (Build.finish_grow outdir _)).ann_of (Build.new_ann outdir utils)

/-- the unreadable entry itself is announced: repairing the link makes cargo run the script again -/
theorem dead_entry_announced (ue : Nat → Bool) (fname path outdir : Bytes) (l : List Bytes) (o : Log) (f : Bytes)
    (h : (handleFileA ue o f fname path outdir none l).2.2 = true) :
    rerun path ∈ (handleFileA ue o f fname path outdir none l).2.1.stdout := by
  induction l with
  | nil => simp [handleFileA] at h
  | cons s rest ih =>
    rw [handleFileA] at h ⊢
    split
    · simp [Log.print, Log.read, rerun]
    · rename_i hs
      rw [if_neg hs] at h
      exact ih h

/-- **After a run that was cut short (or after anything else), the next run leaves what a clean build leaves**:
`runLog` on any prior state agrees with the clean build at every path the run asks for, and leaves every other
path as it was. -/
theorem cut_short_then_complete_eq_clean (fs : FS) (l : Log) (p c : Bytes) (h : lastWrite l.writes p = some c) :
    (runLog fs l).fs.get p = some c ∧ (runLog [] l).fs.get p = some c := by
  constructor
  · rw [runLog_fs_get, h]
  · rw [runLog_fs_get, h]

/-! ## The second half of C17 for the run as the code does it -/

/-- a call looks at the tree only at its root path -/
theorem resolveA_congr (base : Bytes) (t₁ t₂ : InFS) (s : SOp) (h : ∀ q, s.root base = some q → t₁ q = t₂ q) :
    s.resolveA base t₁ = s.resolveA base t₂ := by
  cases s with
  | compileTemplates d => simp only [SOp.resolveA, h d rfl]
  | addFile p => simp only [SOp.resolveA, C17Rerun.resolve_congr base t₁ t₂ _ h]
  | addFiles d => simp only [SOp.resolveA, C17Rerun.resolve_congr base t₁ t₂ _ h]
  | addFileAs p u => rfl
  | addFilesAs d to => simp only [SOp.resolveA, C17Rerun.resolve_congr base t₁ t₂ _ h]
  | addFileData p data => rfl

/-- every call that looks at a path prints that path's own line — whether it succeeds, fails, or is cut short -/
theorem stepA_announces_root (ue ua : Nat → Bool) (feat : MimeFeature) (outdir base : Bytes) (t : InFS) (b : Build)
    (s : SOp) (q : Bytes) (hq : s.root base = some q) :
    rerun q ∈ (Build.stepA ue ua feat outdir b (s.resolveA base t)).out.stdout := by
  cases s with
  | compileTemplates d =>
    simp only [SOp.root, Option.some.injEq] at hq; subst hq
    simp only [SOp.resolveA]
    split
    · simp only [Build.stepA]
      rw [handleDirA]
      apply ((walkA_grow_both ue).1 _ _ _ _ _).stdout.subset
      simp [Log.print, Log.read, rerun]
    · exact C17Rerun.failed_announces ue ua feat outdir b _ _
  | addFile p => exact C17Rerun.step_announces_root ue ua feat outdir base t b _ q hq
  | addFiles d => exact C17Rerun.step_announces_root ue ua feat outdir base t b _ q hq
  | addFileAs p u => simp [SOp.root] at hq
  | addFilesAs d to => exact C17Rerun.step_announces_root ue ua feat outdir base t b _ q hq
  | addFileData p data => simp [SOp.root] at hq

theorem rootsA_announced (ue ua : Nat → Bool) (feat : MimeFeature) (outdir base : Bytes) (t : InFS) (script : List SOp)
    (b : Build) (s : SOp) (hs : s ∈ script) (q : Bytes) (hq : s.root base = some q) :
    rerun q ∈ (((script.map (SOp.resolveA base t)).foldl (Build.stepA ue ua feat outdir) b).finish outdir).stdout := by
  apply (Build.finish_grow outdir _).stdout.subset
  induction script generalizing b with
  | nil => cases hs
  | cons s₀ rest ih =>
    simp only [List.map_cons, List.foldl_cons]
    rcases List.mem_cons.mp hs with rfl | hs'
    · exact (foldl_stepA_grow ue ua feat outdir _ _).stdout.subset
        (stepA_announces_root ue ua feat outdir base t b s q hq)
    · exact ih _ hs'

/-- **rerun_soundA**: the trees agree wherever the first run announced a path ⇒ every call gets on the second tree
exactly what it got on the first — the same listing with the same unreadable entries, the same bytes, the same failure -/
theorem rerun_soundA (ue ua : Nat → Bool) (feat : MimeFeature) (outdir utils base : Bytes) (t₁ t₂ : InFS) (script : List SOp)
    (hagree : ∀ q, rerun q ∈ (buildLogA ue ua feat outdir utils (script.map (SOp.resolveA base t₁))).stdout → t₁ q = t₂ q) :
    script.map (SOp.resolveA base t₂) = script.map (SOp.resolveA base t₁) := by
  apply List.map_congr_left
  intro s hs
  exact (resolveA_congr base t₁ t₂ s (fun q hq =>
    hagree q (rootsA_announced ue ua feat outdir base t₁ script _ s hs q hq))).symm

theorem no_rerun_nothing_staleA (ue ua : Nat → Bool) (feat : MimeFeature) (outdir utils base : Bytes) (fs : FS)
    (t₁ t₂ : InFS) (script : List SOp)
    (hagree : ∀ q, rerun q ∈ (runScriptA ue ua feat fs outdir utils base t₁ script).stdout → t₁ q = t₂ q) :
    runScriptA ue ua feat fs outdir utils base t₂ script = runScriptA ue ua feat fs outdir utils base t₁ script := by
  unfold runScriptA
  rw [rerun_soundA ue ua feat outdir utils base t₁ t₂ script (fun q hq => hagree q (by simpa [runScriptA, runLog] using hq))]

/-- **change_triggers_rerunA** (what the property says, for the run as the code does it): if after an edit of the
input tree a run of the build script would produce anything else than before, then some path announced by the first
run changed — cargo does run the script again.  Walks that are cut short included: a link that is repaired, or that
breaks, is under an announced directory. -/
theorem change_triggers_rerunA (ue ua : Nat → Bool) (feat : MimeFeature) (outdir utils base : Bytes) (fs : FS)
    (t₁ t₂ : InFS) (script : List SOp)
    (hne : runScriptA ue ua feat fs outdir utils base t₂ script ≠ runScriptA ue ua feat fs outdir utils base t₁ script) :
    ∃ q, rerun q ∈ (runScriptA ue ua feat fs outdir utils base t₁ script).stdout ∧ t₁ q ≠ t₂ q := by
  apply Classical.byContradiction
  intro hno
  apply hne
  apply no_rerun_nothing_staleA ue ua feat outdir utils base fs t₁ t₂ script
  intro q hq
  apply Classical.byContradiction
  intro hd
  exact hno ⟨q, hq, hd⟩

end Ructe.C17Abort
