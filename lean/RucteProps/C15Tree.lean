import RucteModel.Tpl
import RucteProofs.SrcTree
import RucteProofs.SrcTreeInduction

/-!
# C15 (whole tree) — the model parser is complete for the documented body syntax, and layout is irrelevant

`Src.Node` (in `RucteProofs/SrcTree.lean`) is a source tree of the documented template body syntax with an
explicit layout slot at every place where the grammar allows insignificant material.  Proved here, by
the induction over the tree in `RucteProofs/SrcTreeInduction.lean`:

* `nodes_complete`  — the `many_till` loop of the model parses the print of every well-formed list of
  nodes to exactly the intended tree (`block_complete` for `{ … }`, `body_complete` for a template body);
* `layout_irrelevant_tree` — two well-formed trees that differ only in their layout slots are parsed to
  the same tree;
* `no_swallow_after_block` — a node stops exactly at its last byte (e.g. the closing brace of its
  block) and what follows is parsed as itself (C03).
-/
namespace Ructe.C15Tree
open Nom Ructe.Src

/-- **completeness of the node loop**: for any terminator `fin` that accepts what follows the nodes and
fails (`.err`) in front of every well-formed node, the `many_till` loop of the model takes the printed
nodes — all of them, and nothing else — and returns the intended tree -/
theorem nodes_complete {β : Type} (fin : Parser β) (ns : List Node) (follow rest : Bytes) (o : β) (n : Nat)
    (hwf : WF ns follow) (hfuel : fuelNodes ns ≤ n)
    (hfin : fin follow = .ok rest o)
    (hfail : ∀ (x : Node) (f r : Bytes), WFNode x f → ∃ e, fin (printNode x ++ r) = .err e) :
    manyTill (context "Error in expression starting here:" (templateExpression n)) fin (printNodes ns ++ follow)
      = .ok rest (astNodes ns, o) :=
  manyTill_nodes n _ fin follow rest o hfin hfail ns hwf (nodes_ok ns follow n hwf hfuel)

/-- every printed well-formed node starts with a byte other than `{`, `}`: it is enough that `fin` fails
on every input that starts with such a byte (`char '}'` and `end_of_file` do) -/
theorem nodes_complete_of_head {β : Type} (fin : Parser β) (ns : List Node) (follow rest : Bytes) (o : β) (n : Nat)
    (hwf : WF ns follow) (hfuel : fuelNodes ns ≤ n)
    (hfin : fin follow = .ok rest o)
    (hfail : ∀ b r, b ≠ 123 → b ≠ 125 → ∃ e, fin (b :: r) = .err e) :
    manyTill (context "Error in expression starting here:" (templateExpression n)) fin (printNodes ns ++ follow)
      = .ok rest (astNodes ns, o) :=
  nodes_complete fin ns follow rest o n hwf hfuel hfin (fails_of_head hfail)

/-- **blocks**: `{` nodes `}` -/
theorem block_complete (ns : List Node) (rest : Bytes) (n : Nat) (hwf : WF ns (125 :: rest)) (hfuel : fuelNodes ns < n) :
    templateBlock n ([123] ++ printNodes ns ++ [125] ++ rest) = .ok rest (astNodes ns) := by
  obtain ⟨k, rfl⟩ : ∃ k, n = k + 1 := ⟨n - 1, by omega⟩
  have := block_of_parses k ns rest hwf (nodes_ok ns _ k hwf (by omega))
  simpa using this

/-- **template bodies**: nodes up to the end of the input -/
theorem body_complete (ns : List Node) (n : Nat) (hwf : WF ns []) (hfuel : fuelNodes ns ≤ n) :
    manyTill (context "Error in expression starting here:" (templateExpression n)) endOfFile (printNodes ns)
      = .ok [] (astNodes ns, ()) := by
  have := nodes_complete_of_head endOfFile ns [] [] () n hwf hfuel rfl (fun b r _ _ => ⟨_, rfl⟩)
  simpa using this

/-- **a single node** is taken by `template_expression` as itself, and leaves exactly what follows it -/
theorem node_complete (x : Node) (follow : Bytes) (n : Nat) (hwf : WFNode x follow) (hfuel : fuelNode x ≤ n) :
    templateExpression n (printNode x ++ follow) = .ok follow (astNode x) :=
  node_ok x follow n hwf hfuel

/-- **layout is irrelevant**: two source trees that differ only in their layout slots have the same
intended tree and need the same fuel; if both are well-formed, the model parser returns that same tree
for both prints -/
theorem layout_irrelevant_tree (ns₁ ns₂ : List Node) (hs : sameShape ns₁ ns₂) :
    astNodes ns₁ = astNodes ns₂ ∧ fuelNodes ns₁ = fuelNodes ns₂ ∧
    ∀ n, WF ns₁ [] → WF ns₂ [] → fuelNodes ns₁ ≤ n →
      manyTill (context "Error in expression starting here:" (templateExpression n)) endOfFile (printNodes ns₁)
        = .ok [] (astNodes ns₁, ()) ∧
      manyTill (context "Error in expression starting here:" (templateExpression n)) endOfFile (printNodes ns₂)
        = manyTill (context "Error in expression starting here:" (templateExpression n)) endOfFile (printNodes ns₁) := by
  refine ⟨sameShape_ast hs, sameShape_fuel hs, fun n h₁ h₂ hn => ?_⟩
  have e₁ := body_complete ns₁ n h₁ hn
  have e₂ := body_complete ns₂ n h₂ (by rw [← sameShape_fuel hs]; exact hn)
  exact ⟨e₁, by rw [e₁, e₂, sameShape_ast hs]⟩

/-- the same inside a block -/
theorem layout_irrelevant_block (ns₁ ns₂ : List Node) (hs : sameShape ns₁ ns₂) (rest : Bytes) (n : Nat)
    (h₁ : WF ns₁ (125 :: rest)) (h₂ : WF ns₂ (125 :: rest)) (hn : fuelNodes ns₁ < n) :
    templateBlock n ([123] ++ printNodes ns₂ ++ [125] ++ rest) = templateBlock n ([123] ++ printNodes ns₁ ++ [125] ++ rest) := by
  rw [block_complete ns₁ rest n h₁ hn, block_complete ns₂ rest n h₂ (by rw [← sameShape_fuel hs]; exact hn),
    sameShape_ast hs]

/-- **nothing is swallowed after a block** (C03): the node `x` — in particular an `@if` / `@for` / `@match`
with its block(s) — stops exactly behind its last byte (its closing brace): the rest is byte for byte
what was printed after it; and the nodes that follow are parsed as themselves -/
theorem no_swallow_after_block (x : Node) (r : List Node) (follow : Bytes) (n : Nat)
    (hwf : WF (x :: r) follow) (hfuel : fuelNodes (x :: r) ≤ n) :
    templateExpression n (printNode x ++ (printNodes r ++ follow)) = .ok (printNodes r ++ follow) (astNode x) ∧
    ∀ {β : Type} (fin : Parser β) (rest : Bytes) (o : β), fin follow = .ok rest o →
      (∀ (x : Node) (f r : Bytes), WFNode x f → ∃ e, fin (printNode x ++ r) = .err e) →
      manyTill (context "Error in expression starting here:" (templateExpression n)) fin (printNodes r ++ follow)
        = .ok rest (astNodes r, o) := by
  have hp := nodes_ok (x :: r) follow n hwf hfuel
  simp only [WF] at hwf
  simp only [fuelNodes] at hfuel
  exact ⟨hp.1, fun fin rest o hfin hfail => nodes_complete fin r follow rest o n hwf.2 (by omega) hfin hfail⟩

/-! ## a concrete tree: the hypotheses are satisfiable, and the parser evaluates to the intended tree -/

section Examples
open Ructe.C15

-- Boolean equality of parse trees (for `#guard`)
mutual
def beqE : TExpr → TExpr → Bool
  | .comment, .comment => true
  | .text a, .text b => a == b
  | .expr a, .expr b => a == b
  | .forLoop a b c, .forLoop a' b' c' => a == a' && b == b' && beqL c c'
  | .ifBlock a b none, .ifBlock a' b' none => a == a' && beqL b b'
  | .ifBlock a b (some c), .ifBlock a' b' (some c') => a == a' && beqL b b' && beqL c c'
  | .matchBlock a b, .matchBlock a' b' => a == a' && beqArms b b'
  | .call a b, .call a' b' => a == a' && beqArgs b b'
  | _, _ => false
def beqL : List TExpr → List TExpr → Bool
  | [], [] => true
  | x :: r, y :: s => beqE x y && beqL r s
  | _, _ => false
def beqArms : List (Bytes × List TExpr) → List (Bytes × List TExpr) → Bool
  | [], [] => true
  | (p, b) :: r, (p', b') :: s => p == p' && beqL b b' && beqArms r s
  | _, _ => false
def beqArg : TArg → TArg → Bool
  | .rust a, .rust b => a == b
  | .body a, .body b => beqL a b
  | _, _ => false
def beqArgs : List TArg → List TArg → Bool
  | [], [] => true
  | x :: r, y :: s => beqArg x y && beqArgs r s
  | _, _ => false
end

/-- the model's body loop at fuel `n` -/
def parseBody (n : Nat) (inp : Bytes) : Res (List TExpr × Unit) :=
  manyTill (context "Error in expression starting here:" (templateExpression n)) endOfFile inp

/-- the model parses the print of `ns` (at fuel `fuelNodes ns`) to the intended tree -/
def agrees (ns : List Node) : Bool :=
  match parseBody (fuelNodes ns) (printNodes ns) with
  | .ok [] (v, _) => beqL v (astNodes ns)
  | _ => false

def sp : Layout := [.ws [32]]
def nl : Layout := [.ws [10, 32, 32]]
def cm : Layout := [.comment (str " note ")]

/-- `<p>@* hi *@@for x in xs @*c*@{⏎  @if a {@x } else {@@}⏎}@:fo(a, {b@y},c)@match m { A => {1}⏎B=>{}⏎}</p>⏎` -/
def ex1 : List Node :=
  [ .text (str "<p>"),
    .comment (str " hi "),
    .forIn [] 120 [] sp sp 120 [115] [.ws [32], .comment (str "c")]
      [ .text (str "\n  "),
        .ifNode (.els [] 97 [] sp [.name 120 [], .text (str " ")] sp sp [.escAt]),
        .text (str "\n") ],
    .call 102 [111] [.rust [] 97 [], .block sp [.text (str "b"), .name 121 []] [], .rust [] 99 []],
    .matchOn [] 109 [] sp [.mk sp 65 [] sp sp [.text (str "1")], .mk [.ws [10]] 66 [] [] [] []] [.ws [10]],
    .text (str "</p>\n") ]

/-- the same tree with other layout at every slot -/
def ex1' : List Node :=
  [ .text (str "<p>"),
    .comment (str " hi "),
    .forIn cm 120 [] nl (cm ++ sp) 120 [115] nl
      [ .text (str "\n  "),
        .ifNode (.els sp 97 [] cm [.name 120 [], .text (str " ")] [] nl [.escAt]),
        .text (str "\n") ],
    .call 102 [111] [.rust [] 97 [], .block [] [.text (str "b"), .name 121 []] nl, .rust (nl ++ cm) 99 []],
    .matchOn sp 109 [] cm [.mk [] 65 [] [] cm [.text (str "1")], .mk sp 66 [] nl sp []] [],
    .text (str "</p>\n") ]

/-- `@if a {1} else if b {2}@*c*@else {3}@foo(x, "s{")@(1 + 2): @y.` -/
def ex2 : List Node :=
  [ .ifNode (.elif [] 97 [] sp [.text (str "1")] sp sp
      (.els sp 98 [] sp [.text (str "2")] cm sp [.text (str "3")])),
    .nameCall 102 [111, 111] [.plain 120, .plain 44, .plain 32, .str [.plain 115, .plain 123]],
    .paren [.plain 49, .plain 32, .plain 43, .plain 32, .plain 50],
    .text (str ": "),
    .name 121 [],
    .text (str ".") ]

example : WF ex1 [] := by unfold ex1; src_wf
example : WF ex1' [] := by unfold ex1'; src_wf
example : WF ex2 [] := by unfold ex2; src_wf
example : sameShape ex1 ex1' := rfl

/-- the theorem applied to the concrete tree … -/
example : parseBody (fuelNodes ex1) (printNodes ex1) = .ok [] (astNodes ex1, ()) :=
  body_complete ex1 _ (by unfold ex1; src_wf) (Nat.le_refl _)

-- … and the parser evaluated on the prints
#guard agrees ex1
#guard agrees ex1'
#guard agrees ex2
#guard printNodes ex1 ==
  str "<p>@* hi *@@for x in xs @*c*@{\n  @if a {@x } else {@@}\n}@:fo(a, {b@y},c)@match m { A => {1}\nB=>{}\n}</p>\n"
#guard printNodes ex2 == str "@if a {1} else if b {2}@* note *@else {3}@foo(x, \"s{\")@(1 + 2): @y."
#guard fuelNodes ex1 == 10 && fuelNodes ex1' == 10

/-- C03 on a concrete input: the white space and text after the closing brace of `@if a {1}` stay a text
node of their own (`@if a {1} ⏎ x@@`) -/
def ex3 : List Node := [.ifNode (.last [] 97 [] sp [.text [49]]), .text [32, 10, 32, 120], .escAt]
example : WF ex3 [] := by unfold ex3; src_wf
example : templateExpression 5 (printNodes ex3) = .ok [32, 10, 32, 120, 64, 64] (.ifBlock [97] [.text [49]] none) :=
  (no_swallow_after_block (.ifNode (.last [] 97 [] sp [.text [49]])) [.text [32, 10, 32, 120], .escAt] [] 5
    (by src_wf) (by decide)).1
#guard agrees ex3

/-! ### every side condition of `WF` is needed: the model on prints that violate exactly one of them -/

-- adjacent text nodes are merged into one
#guard !agrees [.text (str "a"), .text (str "b")]
-- text must be free of `@{}`, non-empty
#guard !agrees [.text (str "a}b")]
#guard !agrees [.text [], .escAt]
-- a comment body must not contain `*@`
#guard !agrees [.comment (str "a*@b")]
-- `@x` followed by `y`: the name continues
#guard !agrees [.name 120 [], .text (str "y")]
-- `@x` followed by `.y`: the expression chain continues (`C05.Stops` violated)
#guard !agrees [.name 120 [], .text (str ".y")]
-- `@if` followed by a space is the directive, not the name `if`
#guard !agrees [.name 105 [102], .text (str " x {}")]
-- `@if a{1}`: without layout before `{` the brace is taken into the condition (`l₂ ≠ []`)
#guard !agrees [.ifNode (.last [] 97 [] [] [.text (str "1")])]
-- a condition that starts with `let`
#guard !agrees [.ifNode (.last [] 108 [101, 116, 120] sp [])]
-- `@if a {1}` followed by the bytes ` else {2}`: taken as the `else` branch (`noElseB`); no well-formed
-- list of nodes prints a bare `{`, so this needs an explicit `follow`
#guard (match templateExpression 5 (printNodes [.ifNode (.last [] 97 [] sp [.text (str "1")])] ++ str " else {2}") with
  | .ok [] (.ifBlock _ _ (some _)) => true | _ => false)
-- … whereas an `else` that is followed by neither `{` nor `if` is left alone
#guard agrees [.ifNode (.last [] 97 [] sp [.text (str "1")]), .text (str " else "), .escOpen]
-- `@for x in y{1}` (`l₄ = []`), `@for xin y {1}` (`l₂ = []`)
#guard !agrees [.forIn [] 120 [] sp sp 121 [] [] [.text (str "1")]]
#guard !agrees [.forIn [] 120 [] [] sp 121 [] sp [.text (str "1")]]
-- `@match m{}` (`l₁ = []`)
#guard !agrees [.matchOn [] 109 [] [] [] []]
-- `@:f( a)`: layout directly after `(`
#guard !agrees [.call 102 [] [.rust sp 97 []]]
-- an inadmissible layout item (an empty white-space run is fine, a non-space byte is not)
#guard !agrees [.ifNode (.last [.ws [120]] 97 [] sp [])]
-- the fuel bound: one unit less is not enough for `@x.`
#guard fuelNodes [.name 120 [], .text (str ".")] == 4 && agrees [.name 120 [], .text (str ".")]
#guard (match parseBody 3 (str "@x.") with | .oom => true | _ => false)

end Examples

end Ructe.C15Tree

#print axioms Ructe.C15Tree.nodes_complete
#print axioms Ructe.C15Tree.block_complete
#print axioms Ructe.C15Tree.body_complete
#print axioms Ructe.C15Tree.layout_irrelevant_tree
#print axioms Ructe.C15Tree.no_swallow_after_block
