import RucteModel.Tpl
import RucteProofs.SrcTree
import RucteProofs.SrcTreeInduction

/-!
# C15 (whole tree) — the model parser is complete for the documented body syntax, and layout is irrelevant

`Src.Node` (in `RucteProofs/SrcTree.lean`) is a source tree of the documented template body syntax with an
explicit layout slot at every place where the grammar allows insignificant material.  Every Rust
fragment is a documented expression (`C05.DExpr`, `RucteProps/C05Chain.lean`): `@expression` nodes, Rust
arguments of calls, the `@match` scrutinee and arm patterns; the `@for` loop variable (`Src.ForPat`: name
with optional `{..}`, or `&`? `(` expressions `)`) and iterable (`Src.LoopExpr`: expression or range);
the `@if` condition (`Src.Cond`: `let` binding or logic expression) — `RucteProofs/SrcFrag.lean`,
`RucteProofs/SrcCond.lean`.  Proved here, by the induction over the tree in
`RucteProofs/SrcTreeInduction.lean`:

* `nodes_complete`  — the `many_till` loop of the model parses the print of every well-formed list of
  nodes to exactly the intended tree (`block_complete` for `{ … }`, `body_complete` for a template body);
* `layout_irrelevant_tree` — two well-formed trees that differ only in their layout slots (those that are
  not inside a logic condition of `@if`, whose text the parser stores verbatim) are parsed to the same tree;
* `cond_inner_layout` — two conditions that differ only in their inner layout are stored as the same
  token sequence, each woven with its own layout;
* `no_swallow_after_block` — a node stops exactly at its last byte (e.g. the closing brace of its
  block) and what follows is parsed as itself (C03).
-/
namespace Ructe.C15Tree
open Nom Ructe.Src

/-- **completeness of the node loop**: for any terminator `fin` that accepts what follows the nodes and
fails (`.err`) in front of every well-formed node, the `many_till` loop of the model takes the printed
nodes — all of them, and nothing else — and returns the intended tree -/
theorem nodes_complete {β : Type} (fin : Parser β) (ns : List Node) (follow rest : Bytes) (o : β) (n : Nat)
    (hwf : WF ns follow) (hfuel : fuelNodes ns ≤ n)
    (hfin : fin follow = .ok rest o)
    (hfail : ∀ (x : Node) (f r : Bytes), WFNode x f → ∃ e, fin (printNode x ++ r) = .err e) :
    manyTill (context "Error in expression starting here:" (templateExpression n)) fin (printNodes ns ++ follow)
      = .ok rest (astNodes ns, o) :=
  manyTill_nodes n _ fin follow rest o hfin hfail ns hwf (nodes_ok ns follow n hwf hfuel)

/-- every printed well-formed node starts with a byte other than `{`, `}`: it is enough that `fin` fails
on every input that starts with such a byte (`char '}'` and `end_of_file` do) -/
theorem nodes_complete_of_head {β : Type} (fin : Parser β) (ns : List Node) (follow rest : Bytes) (o : β) (n : Nat)
    (hwf : WF ns follow) (hfuel : fuelNodes ns ≤ n)
    (hfin : fin follow = .ok rest o)
    (hfail : ∀ b r, b ≠ 123 → b ≠ 125 → ∃ e, fin (b :: r) = .err e) :
    manyTill (context "Error in expression starting here:" (templateExpression n)) fin (printNodes ns ++ follow)
      = .ok rest (astNodes ns, o) :=
  nodes_complete fin ns follow rest o n hwf hfuel hfin (fails_of_head hfail)

/-- **blocks**: `{` nodes `}` -/
theorem block_complete (ns : List Node) (rest : Bytes) (n : Nat) (hwf : WF ns (125 :: rest)) (hfuel : fuelNodes ns < n) :
    templateBlock n ([123] ++ printNodes ns ++ [125] ++ rest) = .ok rest (astNodes ns) := by
  obtain ⟨k, rfl⟩ : ∃ k, n = k + 1 := ⟨n - 1, by omega⟩
  have := block_of_parses k ns rest hwf (nodes_ok ns _ k hwf (by omega))
  simpa using this

/-- **template bodies**: nodes up to the end of the input -/
theorem body_complete (ns : List Node) (n : Nat) (hwf : WF ns []) (hfuel : fuelNodes ns ≤ n) :
    manyTill (context "Error in expression starting here:" (templateExpression n)) endOfFile (printNodes ns)
      = .ok [] (astNodes ns, ()) := by
  have := nodes_complete_of_head endOfFile ns [] [] () n hwf hfuel rfl (fun b r _ _ => ⟨_, rfl⟩)
  simpa using this

/-- **a single node** is taken by `template_expression` as itself, and leaves exactly what follows it -/
theorem node_complete (x : Node) (follow : Bytes) (n : Nat) (hwf : WFNode x follow) (hfuel : fuelNode x ≤ n) :
    templateExpression n (printNode x ++ follow) = .ok follow (astNode x) :=
  node_ok x follow n hwf hfuel

/-- **layout is irrelevant**: two source trees that differ only in their layout slots have the same
intended tree and need the same fuel; if both are well-formed, the model parser returns that same tree
for both prints -/
theorem layout_irrelevant_tree (ns₁ ns₂ : List Node) (hs : sameShape ns₁ ns₂) :
    astNodes ns₁ = astNodes ns₂ ∧ fuelNodes ns₁ = fuelNodes ns₂ ∧
    ∀ n, WF ns₁ [] → WF ns₂ [] → fuelNodes ns₁ ≤ n →
      manyTill (context "Error in expression starting here:" (templateExpression n)) endOfFile (printNodes ns₁)
        = .ok [] (astNodes ns₁, ()) ∧
      manyTill (context "Error in expression starting here:" (templateExpression n)) endOfFile (printNodes ns₂)
        = manyTill (context "Error in expression starting here:" (templateExpression n)) endOfFile (printNodes ns₁) := by
  refine ⟨sameShape_ast hs, sameShape_fuel hs, fun n h₁ h₂ hn => ?_⟩
  have e₁ := body_complete ns₁ n h₁ hn
  have e₂ := body_complete ns₂ n h₂ (by rw [← sameShape_fuel hs]; exact hn)
  exact ⟨e₁, by rw [e₁, e₂, sameShape_ast hs]⟩

/-- the same inside a block -/
theorem layout_irrelevant_block (ns₁ ns₂ : List Node) (hs : sameShape ns₁ ns₂) (rest : Bytes) (n : Nat)
    (h₁ : WF ns₁ (125 :: rest)) (h₂ : WF ns₂ (125 :: rest)) (hn : fuelNodes ns₁ < n) :
    templateBlock n ([123] ++ printNodes ns₂ ++ [125] ++ rest) = templateBlock n ([123] ++ printNodes ns₁ ++ [125] ++ rest) := by
  rw [block_complete ns₁ rest n h₁ hn, block_complete ns₂ rest n h₂ (by rw [← sameShape_fuel hs]; exact hn),
    sameShape_ast hs]

/-- **nothing is swallowed after a block** (C03): the node `x` — in particular an `@if` / `@for` / `@match`
with its block(s) — stops exactly behind its last byte (its closing brace): the rest is byte for byte
what was printed after it; and the nodes that follow are parsed as themselves -/
theorem no_swallow_after_block (x : Node) (r : List Node) (follow : Bytes) (n : Nat)
    (hwf : WF (x :: r) follow) (hfuel : fuelNodes (x :: r) ≤ n) :
    templateExpression n (printNode x ++ (printNodes r ++ follow)) = .ok (printNodes r ++ follow) (astNode x) ∧
    ∀ {β : Type} (fin : Parser β) (rest : Bytes) (o : β), fin follow = .ok rest o →
      (∀ (x : Node) (f r : Bytes), WFNode x f → ∃ e, fin (printNode x ++ r) = .err e) →
      manyTill (context "Error in expression starting here:" (templateExpression n)) fin (printNodes r ++ follow)
        = .ok rest (astNodes r, o) := by
  have hp := nodes_ok (x :: r) follow n hwf hfuel
  simp only [WF] at hwf
  simp only [fuelNodes] at hfuel
  exact ⟨hp.1, fun fin rest o hfin hfail => nodes_complete fin r follow rest o n hwf.2 (by omega) hfin hfail⟩

/-! ## the Rust fragments of the directives (proved in `RucteProofs/SrcFrag.lean`, `RucteProofs/SrcCond.lean`) -/

/-- **`@for` loop variable**: a name with optional `{..}`, or `&`? `(` expressions separated by `,` and
spaces `)`, is taken in full — after a bare name the next byte must end the name and must not be `{` — and
the stored value is the name verbatim / the tuple with its items re-joined by `", "` -/
theorem for_pattern_complete (p : ForPat) (hw : p.wf = true) (n : Nat) (hn : p.fuel ≤ n) (tail : Bytes)
    (ht : p.bare = true → ∀ c r, tail = c :: r → C05.isNameChar c = false ∧ c ≠ 123) :
    forPatP n (p.print ++ tail) = .ok tail p.value :=
  ForPat.complete p hw n hn tail ht

/-- **`@for` iterable**: an expression, or `lo..hi` / `lo..=hi`, in front of layout; stored verbatim -/
theorem loop_expression_complete (it : LoopExpr) (hw : it.wf = true) (n : Nat) (hn : it.fuel ≤ n) (tail : Bytes)
    (ht : C15.StartsLayout tail) : loopExpression n (it.print ++ tail) = .ok tail it.print :=
  LoopExpr.complete it hw n hn tail ht

/-- **`@if` condition**: `let` La lhs Lb `=` Lc rhs (stored as `let lhs = rhs`), or a logic expression
`!`? expression (layout operator layout logic-expression)? (stored verbatim, inner layout included), in
front of a non-empty layout and `{` -/
theorem cond_expression_complete (c : Cond) (hw : c.wf = true) (n : Nat) (hn : c.fuel ≤ n) (l : Layout) (r : Bytes)
    (hl : LayoutOk l) (hne : l ≠ []) :
    condExpression n (c.print ++ (C15.printLayout l ++ 123 :: r)) = .ok (C15.printLayout l ++ 123 :: r) c.value :=
  Cond.complete c hw n hn l r hl hne

/-- the dispatcher after `@` hands the text to `expression` exactly when `dispatchB` holds -/
theorem dispatch_exact (n : Nat) (b : UInt8) (X : Bytes) (h : dispatchB (b :: X) = true) :
    templateExpression (n + 1) (64 :: b :: X) = pmap (expression n) TExpr.expr (b :: X) :=
  templateExpression_expr n b X h

/-- **layout inside a condition** is part of the stored text (a logic expression is recognised as a span):
two conditions that differ only in their inner layout (`Cond.strip` empties it) are both taken in full,
and the stored texts are *the same tokens* (`c₁.tokens`), woven with the layout of each (`Cond.gaps`);
for a `let` binding the stored text is normalised, so the two are equal -/
theorem cond_inner_layout (c₁ c₂ : Cond) (hs : c₁.strip = c₂.strip) (hw₁ : c₁.wf = true) (hw₂ : c₂.wf = true)
    (n : Nat) (hn : c₁.fuel ≤ n) (l : Layout) (r : Bytes) (hl : LayoutOk l) (hne : l ≠ []) :
    condExpression n (c₁.print ++ (C15.printLayout l ++ 123 :: r))
      = .ok (C15.printLayout l ++ 123 :: r) (weave c₁.tokens c₁.gaps) ∧
    condExpression n (c₂.print ++ (C15.printLayout l ++ 123 :: r))
      = .ok (C15.printLayout l ++ 123 :: r) (weave c₁.tokens c₂.gaps) := by
  refine ⟨?_, ?_⟩
  · rw [← c₁.value_weave]
    exact Cond.complete c₁ hw₁ n hn l r hl hne
  · rw [Cond.tokens_of_strip hs, ← c₂.value_weave]
    exact Cond.complete c₂ hw₂ n (by rw [← Cond.fuel_of_strip hs]; exact hn) l r hl hne

/-- the same for a whole `@if` node: the two parse trees differ only in the stored condition, which is the
same token sequence woven with the inner layout of each -/
theorem if_inner_layout (l₁ l₂ : Layout) (c₁ c₂ : Cond) (body : List Node) (follow : Bytes) (n : Nat)
    (hs : c₁.strip = c₂.strip)
    (h₁ : WFNode (.ifNode (.last l₁ c₁ l₂ body)) follow) (h₂ : WFNode (.ifNode (.last l₁ c₂ l₂ body)) follow)
    (hn : fuelNode (.ifNode (.last l₁ c₁ l₂ body)) ≤ n) :
    templateExpression n (printNode (.ifNode (.last l₁ c₁ l₂ body)) ++ follow)
      = .ok follow (.ifBlock (weave c₁.tokens c₁.gaps) (astNodes body) none) ∧
    templateExpression n (printNode (.ifNode (.last l₁ c₂ l₂ body)) ++ follow)
      = .ok follow (.ifBlock (weave c₁.tokens c₂.gaps) (astNodes body) none) := by
  have hf : fuelNode (.ifNode (.last l₁ c₂ l₂ body)) = fuelNode (.ifNode (.last l₁ c₁ l₂ body)) := by
    simp [fuelNode, fuelChain, Cond.fuel_of_strip hs]
  refine ⟨?_, ?_⟩
  · have := node_ok _ follow n h₁ hn
    simpa [astNode, astChain, c₁.value_weave] using this
  · have := node_ok _ follow n h₂ (by rw [hf]; exact hn)
    simpa [astNode, astChain, c₂.value_weave, Cond.tokens_of_strip hs] using this

/-! ## concrete trees: the hypotheses are satisfiable, and the parser evaluates to the intended tree -/

section Examples
open Ructe.C15
open Ructe.C05 (nm num pl sl)

-- Boolean equality of parse trees (for `#guard`)
mutual
def beqE : TExpr → TExpr → Bool
  | .comment, .comment => true
  | .text a, .text b => a == b
  | .expr a, .expr b => a == b
  | .forLoop a b c, .forLoop a' b' c' => a == a' && b == b' && beqL c c'
  | .ifBlock a b none, .ifBlock a' b' none => a == a' && beqL b b'
  | .ifBlock a b (some c), .ifBlock a' b' (some c') => a == a' && beqL b b' && beqL c c'
  | .matchBlock a b, .matchBlock a' b' => a == a' && beqArms b b'
  | .call a b, .call a' b' => a == a' && beqArgs b b'
  | _, _ => false
def beqL : List TExpr → List TExpr → Bool
  | [], [] => true
  | x :: r, y :: s => beqE x y && beqL r s
  | _, _ => false
def beqArms : List (Bytes × List TExpr) → List (Bytes × List TExpr) → Bool
  | [], [] => true
  | (p, b) :: r, (p', b') :: s => p == p' && beqL b b' && beqArms r s
  | _, _ => false
def beqArg : TArg → TArg → Bool
  | .rust a, .rust b => a == b
  | .body a, .body b => beqL a b
  | _, _ => false
def beqArgs : List TArg → List TArg → Bool
  | [], [] => true
  | x :: r, y :: s => beqArg x y && beqArgs r s
  | _, _ => false
end

/-- the model's body loop at fuel `n` -/
def parseBody (n : Nat) (inp : Bytes) : Res (List TExpr × Unit) :=
  manyTill (context "Error in expression starting here:" (templateExpression n)) endOfFile inp

/-- the model parses the print of `ns` (at fuel `fuelNodes ns`) to the intended tree -/
def agrees (ns : List Node) : Bool :=
  match parseBody (fuelNodes ns) (printNodes ns) with
  | .ok [] (v, _) => beqL v (astNodes ns)
  | _ => false

def sp : Layout := [.ws [32]]
def nl : Layout := [.ws [10, 32, 32]]
def cm : Layout := [.comment (str " note ")]

/-- a name as an expression -/
def nmE (s : String) : C05.DExpr := .last .none (nm s) []
/-- a number as an expression -/
def numE (s : String) : C05.DExpr := .last .none (num s) []
/-- `name(group)` -/
def callE (s g : String) : C05.DExpr := .last .none (nm s) [.call (pl g)]
/-- a name as a condition -/
def cnd (s : String) : Cond := .logic (.last none (nmE s))
/-- a name as a loop variable -/
def pv (s : String) : ForPat := match str s with | b :: cs => .name b cs none | [] => .name 95 [] none
/-- a name as an iterable -/
def it (s : String) : LoopExpr := .single (nmE s)

/-- `<p>@* hi *@@for x in xs @*c*@{⏎  @if a {@x } else {@@}⏎}@:fo(a, {b@y},c)@match m { A => {1}⏎B=>{}⏎}</p>⏎` -/
def ex1 : List Node :=
  [ .text (str "<p>"),
    .comment (str " hi "),
    .forIn [] (pv "x") sp sp (it "xs") [.ws [32], .comment (str "c")]
      [ .text (str "\n  "),
        .ifNode (.els [] (cnd "a") sp [.name 120 [], .text (str " ")] sp sp [.escAt]),
        .text (str "\n") ],
    .call 102 [111] [.rust [] (nmE "a"), .block sp [.text (str "b"), .name 121 []] [], .rust [] (nmE "c")],
    .matchOn [] (nmE "m") sp [.mk sp (nmE "A") sp sp [.text (str "1")], .mk [.ws [10]] (nmE "B") [] [] []] [.ws [10]],
    .text (str "</p>\n") ]

/-- the same tree with other layout at every slot -/
def ex1' : List Node :=
  [ .text (str "<p>"),
    .comment (str " hi "),
    .forIn cm (pv "x") nl (cm ++ sp) (it "xs") nl
      [ .text (str "\n  "),
        .ifNode (.els sp (cnd "a") cm [.name 120 [], .text (str " ")] [] nl [.escAt]),
        .text (str "\n") ],
    .call 102 [111] [.rust [] (nmE "a"), .block [] [.text (str "b"), .name 121 []] nl, .rust (nl ++ cm) (nmE "c")],
    .matchOn sp (nmE "m") cm [.mk [] (nmE "A") [] cm [.text (str "1")], .mk sp (nmE "B") nl sp []] [],
    .text (str "</p>\n") ]

/-- `@if a {1} else if b {2}@*c*@else {3}@foo(x, "s{")@(1 + 2): @y.` -/
def ex2 : List Node :=
  [ .ifNode (.elif [] (cnd "a") sp [.text (str "1")] sp sp
      (.els sp (cnd "b") sp [.text (str "2")] cm sp [.text (str "3")])),
    .nameCall 102 [111, 111] [.plain 120, .plain 44, .plain 32, .str [.plain 115, .plain 123]],
    .paren [.plain 49, .plain 32, .plain 43, .plain 32, .plain 50],
    .text (str ": "),
    .name 121 [],
    .text (str ".") ]

example : WF ex1 [] := by unfold ex1; src_wf
example : WF ex1' [] := by unfold ex1'; src_wf
example : WF ex2 [] := by unfold ex2; src_wf
example : sameShape ex1 ex1' := rfl

/-- the theorem applied to the concrete tree … -/
example : parseBody (fuelNodes ex1) (printNodes ex1) = .ok [] (astNodes ex1, ()) :=
  body_complete ex1 _ (by unfold ex1; src_wf) (Nat.le_refl _)

-- … and the parser evaluated on the prints
#guard agrees ex1
#guard agrees ex1'
#guard agrees ex2
#guard printNodes ex1 ==
  str "<p>@* hi *@@for x in xs @*c*@{\n  @if a {@x } else {@@}\n}@:fo(a, {b@y},c)@match m { A => {1}\nB=>{}\n}</p>\n"
#guard printNodes ex2 == str "@if a {1} else if b {2}@* note *@else {3}@foo(x, \"s{\")@(1 + 2): @y."
#guard fuelNodes ex1 == 9 && fuelNodes ex1' == 9

/-! ### general Rust fragments -/

/-- `a.is_empty()` -/
def eIsEmpty : C05.DExpr := .link .none (nm "a") [] .dot (.last .none (nm "is_empty") [.call []])
/-- `xs.iter().enumerate()` -/
def eEnum : C05.DExpr :=
  .link .none (nm "xs") [] .dot (.link .none (nm "iter") [.call []] .dot (.last .none (nm "enumerate") [.call []]))
/-- `items.len()` -/
def eLen : C05.DExpr := .link .none (nm "items") [] .dot (.last .none (nm "len") [.call []])
/-- `!a.is_empty() && n >= 2` -/
def cLogic : Cond :=
  .logic (.op (some []) eIsEmpty sp .and sp (.op none (nmE "n") sp .ge sp (.last none (numE "2"))))
/-- `let Some(x) = opt` -/
def cLet : Cond := .letBind sp (callE "Some" "x") sp sp (nmE "opt")
def blank : List Node := [.text (str " ")]

/-- `@a.b(c)[0]@if !a.is_empty() && n >= 2 { }@if let Some(x) = opt { }@for (i, x) in xs.iter().enumerate() { }`
`@for i in 0..n { }@match r { Ok(v) => { } Err(e) => { } }@:page(&title, items.len(), { body })` -/
def exRust : List Node :=
  [ .expr C05.exChain,
    .ifNode (.last [] cLogic sp blank),
    .ifNode (.last [] cLet sp blank),
    .forIn [] (.tuple false [(0, nmE "i"), (1, nmE "x")]) sp sp (.single eEnum) sp blank,
    .forIn [] (pv "i") sp sp (.range (numE "0") false (nmE "n")) sp blank,
    .matchOn [] (nmE "r") sp [.mk sp (callE "Ok" "v") sp sp blank, .mk sp (callE "Err" "e") sp sp blank] sp,
    .call 112 (str "age") [.rust [] (.last .amp (nm "title") []), .rust sp eLen, .block sp [.text (str " body ")] []] ]

example : WF exRust [] := by unfold exRust; src_wf
#guard agrees exRust
#guard printNodes exRust == str ("@a.b(c)[0]@if !a.is_empty() && n >= 2 { }@if let Some(x) = opt { }" ++
  "@for (i, x) in xs.iter().enumerate() { }@for i in 0..n { }@match r { Ok(v) => { } Err(e) => { } }" ++
  "@:page(&title, items.len(), { body })")
example : parseBody (fuelNodes exRust) (printNodes exRust) = .ok [] (astNodes exRust, ()) :=
  body_complete exRust _ (by unfold exRust; src_wf) (Nat.le_refl _)

/-- the stored values: a tuple loop variable is normalised (`", "` between the items), a range and a logic
condition are stored verbatim, a `let` binding is normalised -/
def exNorm : List Node :=
  [ .forIn [] (.tuple true [(0, nmE "i"), (3, nmE "x"), (0, nmE "y")]) [] sp (.range (nmE "a") true (callE "f" "b")) sp [],
    .ifNode (.last [] (.letBind cm (callE "Some" "x") [] nl (nmE "opt")) sp []),
    .ifNode (.last [] (.logic (.op none (nmE "a") [] .lt cm (.last (some sp) (nmE "b")))) sp []) ]
example : WF exNorm [] := by unfold exNorm; src_wf
#guard agrees exNorm
#guard printNodes exNorm == str "@for &(i,   x,y)in a..=f(b) {}@if let@* note *@Some(x)=\n  opt {}@if a<@* note *@! b {}"
#guard beqL (astNodes exNorm)
  [ .forLoop (str "&(i, x, y)") (str "a..=f(b)") [],
    .ifBlock (str "let Some(x) = opt") [] none,
    .ifBlock (str "a<@* note *@! b") [] none ]
-- erasing the layout keeps the inner layout of the logic condition, and nothing else
#guard printNodes (eraseNodes exNorm) == str "@for &(i,x,y)ina..=f(b){}@if letSome(x)=opt{}@if a<@* note *@! b{}"
#guard beqL (astNodes (eraseNodes exNorm)) (astNodes exNorm)

/-- inner layout of a condition: `a  ==@*c*@b` and `a==b` are stored as the same tokens `a`, `==`, `b`, woven
with different layout -/
def cA : Cond := .logic (.op none (nmE "a") [.ws [32, 32]] .eq [.comment (str "c")] (.last none (nmE "b")))
def cB : Cond := .logic (.op none (nmE "a") [] .eq [] (.last none (nmE "b")))
example : cA.strip = cB.strip := rfl
example : cA.tokens = [str "a", str "==", str "b"] := by decide +kernel
#guard cA.value == str "a  ==@*c*@b" && cB.value == str "a==b"
#guard agrees [.ifNode (.last [] cA sp [])] && agrees [.ifNode (.last [] cB sp [])]
#guard !beqL (astNodes [.ifNode (.last [] cA sp [])]) (astNodes [.ifNode (.last [] cB sp [])])

/-- C03 on a concrete input: the white space and text after the closing brace of `@if a {1}` stay a text
node of their own (`@if a {1} ⏎ x@@`) -/
def cndA : Cond := .logic (.last none (.last .none (.name 97 []) []))
def ex3 : List Node := [.ifNode (.last [] cndA sp [.text [49]]), .text [32, 10, 32, 120], .escAt]
example : WF ex3 [] := by unfold ex3; src_wf
example : templateExpression 5 (printNodes ex3) = .ok [32, 10, 32, 120, 64, 64] (.ifBlock [97] [.text [49]] none) :=
  (no_swallow_after_block (.ifNode (.last [] cndA sp [.text [49]])) [.text [32, 10, 32, 120], .escAt] [] 5
    (by src_wf) (by decide +kernel)).1
#guard agrees ex3

/-! ### every side condition of `WF` is needed: the model on prints that violate exactly one of them -/

-- adjacent text nodes are merged into one
#guard !agrees [.text (str "a"), .text (str "b")]
-- text must be free of `@{}`, non-empty
#guard !agrees [.text (str "a}b")]
#guard !agrees [.text [], .escAt]
-- a comment body must not contain `*@`
#guard !agrees [.comment (str "a*@b")]
-- `@x` followed by `y`: the name continues (`follows`); `@1` followed by `2`: the number continues
#guard !agrees [.name 120 [], .text (str "y")]
#guard !agrees [.expr (numE "1"), .text (str "2")]
-- … but after a closing delimiter nothing continues the token: `@f(x)` followed by `y`
#guard agrees [.expr (callE "f" "x"), .text (str "y")]
-- `@x` followed by `.y`, `::y`, `(y)`, `[y]`, `{y}` (as escaped text), `!(y)`: the chain continues (`C05.Stops`)
#guard !agrees [.name 120 [], .text (str ".y")]
#guard !agrees [.name 120 [], .text (str "::y")]
#guard !agrees [.name 120 [], .text (str "(y)")]
#guard !agrees [.name 120 [], .text (str "[y]")]
#guard !agrees [.name 120 [], .text (str "!(y)")]
-- … whereas `.` + space, a single `:`, `!` + space, `::<` do stop it
#guard agrees [.name 120 [], .text (str ". ")] && agrees [.name 120 [], .text (str ": ")] &&
  agrees [.name 120 [], .text (str "! ")] && agrees [.name 120 [], .text (str "::<T>")]
-- `dispatchB`: `@if` followed by a space is the directive, not the name `if` (but `@iffy`, `@if(x)` are expressions);
-- `@*x` opens a comment (so a `*` prefix is impossible directly after `@`); `@(a).b` is the `@(` arm: `.b` is text
#guard !agrees [.name 105 [102], .text (str " x {}")]
#guard agrees [.expr (nmE "iffy")] && agrees [.expr (callE "if" "x")] && agrees [.expr (nmE "matchx"), .text (str " y")]
#guard !agrees [.expr (.last .star (nm "x") [])]
#guard !agrees [.expr (.link .none (.parens (pl "a")) [] .dot (nmE "b"))]
#guard agrees [.expr (.link .amp (.parens (pl "a")) [] .dot (nmE "b"))]      -- `@&(a).b` is fine
-- `e.wf`: `@a-b` is not one name
#guard !agrees [.expr (.last .none (.name 97 [45, 98]) [])]
-- `@if a{1}`: without layout before `{` the brace is taken into the condition (`l₂ ≠ []`)
#guard !agrees [.ifNode (.last [] (cnd "a") [] [.text (str "1")])]
-- a logic condition that starts with `let` (`noLetB`)
#guard !agrees [.ifNode (.last [] (cnd "letx") sp [])]
-- a layout slot inside a logic condition must be valid UTF-8 (`innerB`): the span is stored as a string …
#guard !agrees [.ifNode (.last [] (.logic (.op none (nmE "a") [.comment [255]] .eq [] (.last none (nmE "b")))) sp [])]
#guard !agrees [.ifNode (.last [] (.logic (.op none (nmE "a") [] .eq [.comment [255]] (.last none (nmE "b")))) sp [])]
#guard !agrees [.ifNode (.last [] (.logic (.last (some [.comment [255]]) (nmE "b"))) sp [])]
-- the operators: each is found by the ordered choice (`<` before `<=` would be wrong, `<=` is tried first)
#guard agrees [.ifNode (.last [] (.logic (.op none (nmE "a") [] .le [] (.op none (nmE "b") [] .lt []
  (.op none (nmE "c") [] .ne [] (.op (some []) (nmE "d") [] .or [] (.op none (nmE "e") sp .gt sp (.last none (nmE "f"))))))))
  sp [])]
-- a `let` binding: an inadmissible layout item (`letxa=b` is the binding of `xa`); `letx = y` *is* `let x = y`
#guard !agrees [.ifNode (.last [] (.letBind [.ws [120]] (nmE "a") [] [] (nmE "b")) sp [])]
#guard agrees [.ifNode (.last [] (.letBind [] (nmE "x") sp sp (nmE "y")) sp [])]
-- … whereas the slots of a `let` binding (not stored) and the slots around the condition may hold any bytes
#guard agrees [.ifNode (.last [.comment [255]] (.letBind [.comment [255]] (nmE "a") [.comment [255]] [] (nmE "b"))
  [.comment [255]] [])]
-- `@if a {1}` followed by the bytes ` else {2}`: taken as the `else` branch (`noElseB`); no well-formed
-- list of nodes prints a bare `{`, so this needs an explicit `follow`
#guard (match templateExpression 5 (printNodes [.ifNode (.last [] (cnd "a") sp [.text (str "1")])] ++ str " else {2}") with
  | .ok [] (.ifBlock _ _ (some _)) => true | _ => false)
-- … whereas an `else` that is followed by neither `{` nor `if` is left alone
#guard agrees [.ifNode (.last [] (cnd "a") sp [.text (str "1")]), .text (str " else "), .escOpen]
-- `@for x in y{1}` (`l₄ = []`), `@for xin y {1}` (`l₂ = []` after a bare name)
#guard !agrees [.forIn [] (pv "x") sp sp (it "y") [] [.text (str "1")]]
#guard !agrees [.forIn [] (pv "x") [] sp (it "y") sp [.text (str "1")]]
-- … but after `)` or `}` no layout is needed: `@for (a,b)in y {}`, `@for P{a}in y {}`
#guard agrees [.forIn [] (.tuple false [(0, nmE "a"), (0, nmE "b")]) [] sp (it "y") sp []]
#guard agrees [.forIn [] (.name 80 [] (some (pl "a"))) [] sp (it "y") sp []]
-- `@for ( a, b) in y {}`: no space directly after `(` (`firstTight`)
#guard !agrees [.forIn [] (.tuple false [(1, nmE "a"), (1, nmE "b")]) sp sp (it "y") sp []]
-- `wf` of the loop variable and of the iterable: `@for 1x in y {}`, `@for P{}} in y {}`, `@for (a-b) in y {}`,
-- `@for x in a-b {}`
#guard !agrees [.forIn [] (.name 49 [120] none) sp sp (it "y") sp []]
#guard !agrees [.forIn [] (.name 80 [] (some [.plain 125])) sp sp (it "y") sp []]
#guard !agrees [.forIn [] (.tuple false [(0, .last .none (.name 97 [45, 98]) [])]) sp sp (it "y") sp []]
#guard !agrees [.forIn [] (pv "x") sp sp (.single (.last .none (.name 97 [45, 98]) [])) sp []]
-- the empty tuple `()` is a loop variable, and needs fuel 2 for `expression` to refuse `)`
#guard agrees [.forIn [] (.tuple false []) sp sp (it "y") sp []]
-- `@match m{}` (`l₁ = []`); `wf` of the scrutinee and of an arm pattern: `@match a-b {}`, `@match m { a-b => {} }`
#guard !agrees [.matchOn [] (nmE "m") [] [] []]
#guard !agrees [.matchOn [] (.last .none (.name 97 [45, 98]) []) sp [] []]
#guard !agrees [.matchOn [] (nmE "m") sp [.mk sp (.last .none (.name 97 [45, 98]) []) sp sp []] sp]
-- `@:f( a)`: layout directly after `(`; `wf` of a Rust argument: `@:f(a-b)`
#guard !agrees [.call 102 [] [.rust sp (nmE "a")]]
#guard !agrees [.call 102 [] [.rust [] (.last .none (.name 97 [45, 98]) [])]]
-- a Rust argument needs no further side condition: `,` and `)` end every documented expression
#guard agrees [.call 102 [] [.rust [] (numE "1"), .rust [] (.last .star (.str (sl "s")) []), .rust cm C05.exMisc]]
-- an inadmissible layout item (an empty white-space run is fine, a non-space byte is not)
#guard !agrees [.ifNode (.last [.ws [120]] (cnd "a") sp [])]
-- the fuel bound: one unit less is not enough for `@x.`, `@if !a.is_empty() && n >= 2 { }`, `@for i in 0..n { }`
#guard fuelNodes [.name 120 [], .text (str ".")] == 4 && agrees [.name 120 [], .text (str ".")]
#guard (match parseBody 3 (str "@x.") with | .oom => true | _ => false)
#guard fuelNodes [.ifNode (.last [] cLogic sp blank)] == 7 &&
  (match parseBody 6 (printNodes [.ifNode (.last [] cLogic sp blank)]) with | .oom => true | _ => false)
#guard fuelNodes [.forIn [] (pv "i") sp sp (.range (numE "0") false (nmE "n")) sp blank] == 4 &&
  (match parseBody 3 (str "@for i in 0..n { }") with | .oom => true | _ => false)

end Examples

end Ructe.C15Tree

#print axioms Ructe.C15Tree.nodes_complete
#print axioms Ructe.C15Tree.block_complete
#print axioms Ructe.C15Tree.body_complete
#print axioms Ructe.C15Tree.layout_irrelevant_tree
#print axioms Ructe.C15Tree.no_swallow_after_block
#print axioms Ructe.C15Tree.node_complete
#print axioms Ructe.C15Tree.layout_irrelevant_block
#print axioms Ructe.C15Tree.cond_inner_layout
#print axioms Ructe.C15Tree.for_pattern_complete
#print axioms Ructe.C15Tree.loop_expression_complete
#print axioms Ructe.C15Tree.cond_expression_complete
#print axioms Ructe.Src.head_expr_iff
#print axioms Ructe.C15Tree.if_inner_layout
