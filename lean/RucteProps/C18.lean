import RucteModel

/-! # C18 — placeholder: theorems are added as they are proved. -/
namespace Ructe.C18
theorem placeholder : True := trivial
end Ructe.C18
