import RucteProofs.GenLemmas

/-!
# C18 — generated code is reproducible
-/
namespace Ructe.C18
open Nom

/-- the code generated for a template: a function of the function name and the template's bytes only -/
def templateCode (ue : Nat → Bool) (name content : Bytes) : Option Bytes :=
  match template (8 * content.length + 16) content with
  | .ok _ t => some (writeRust ue t name)
  | _ => none

/-- **template_code_pure**: whatever was logged before, wherever the file lives, `handle_template`
asks for exactly one write, of `templateCode name content`, to `outdir/template_<name>.rs`
(and for none if the template does not parse) -/
theorem template_code_pure (ue : Nat → Bool) (o : Log) (name path outdir content : Bytes) :
    (handleTemplate ue o name path outdir content).2.writes =
      o.writes ++ (match templateCode ue name content with
                   | some c => [(joinPath outdir (str "template_" ++ name ++ str ".rs"), c)]
                   | none => []) ∧
    (handleTemplate ue o name path outdir content).1 = (templateCode ue name content).isSome := by
  unfold handleTemplate templateCode
  cases template (8 * content.length + 16) content <;>
    simp [writeIfChanged, Log.write, Log.read, Log.print]

/-- the content requested for a template file does not depend on siblings, source location or prior log -/
theorem template_code_location_independent (ue : Nat → Bool) (o o' : Log) (name path path' outdir content : Bytes) :
    (handleTemplate ue o name path outdir content).2.writes.drop o.writes.length =
    (handleTemplate ue o' name path' outdir content).2.writes.drop o'.writes.length := by
  rw [(template_code_pure ue o name path outdir content).1,
    (template_code_pure ue o' name path' outdir content).1]
  simp

/-- the whole run is a function of the script and the input tree (as listed): no clock, no
environment, no prior state occurs in it (`buildLog` has no such argument); and carrying it out
twice from the same state gives the same state -/
theorem build_deterministic (ue ua : Nat → Bool) (feat : MimeFeature) (fs : FS) (outdir utils : Bytes) (ops : List Op) :
    (build ue ua feat (build ue ua feat fs outdir utils ops).fs outdir utils ops).fs.get =
    (build ue ua feat fs outdir utils ops).fs.get := by
  funext p
  unfold build
  rw [runLog_fs_get, runLog_fs_get]
  cases lastWrite (buildLog ue ua feat outdir utils ops).writes p <;> rfl

/-- the `STATICS` line is a function of the `names_r` map alone -/
theorem statics_line_pure (s s' : Statics) (h : s.namesR = s'.namesR) :
    staticsLine s.namesR = staticsLine s'.namesR := by
  rw [h]

end Ructe.C18
