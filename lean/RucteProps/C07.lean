import RucteModel.Statics
import RucteProofs.Hash

/-!
# C07 — static URL names are a pure function of file name and content hash

`checksumSlugWith hash` = `BASE64_URL_SAFE_NO_PAD.encode(&hash(data)[..6])`; the theorems hold
for every 16-byte hash function (`md5` is one: `md5_length`).  "Changing any byte changes the
name" is exactly "unless the hash collides on its first 48 bits" (`slug_eq_iff`).
-/
namespace Ructe.C07
open Nom

def isUrlSafe (c : UInt8) : Bool := isAlpha c || isDigit c || c = 45 || c = 95

/-- `name_and_ext` splits the file name at its last dot: stem ++ "." ++ ext, no dot in ext, stem non-empty -/
theorem nameAndExt_shape (f name ext : Bytes) (h : nameAndExt f = some (name, ext)) :
    f = name ++ [46] ++ ext ∧ (46 : UInt8) ∉ ext ∧ name ≠ [] := by
  unfold nameAndExt at h
  split at h
  · cases h
  · split at h
    · cases h
    · cases h
    · rename_i i hne hi
      obtain ⟨hlt, hsplit, hno⟩ := Hash.lastDot_spec f i hi
      simp only [Option.some.injEq, Prod.mk.injEq] at h
      obtain ⟨rfl, rfl⟩ := h
      refine ⟨hsplit, hno, ?_⟩
      intro hnil
      have hlen := congrArg List.length hnil
      simp only [List.length_take, List.length_nil] at hlen
      have : i ≠ 0 := hne
      omega

theorem b64_val_char : ∀ n < 64, b64Val? (b64Char n) = some n := by
  exact Hash.b64_val_char

theorem b64Char_urlsafe : ∀ n < 64, isUrlSafe (b64Char n) = true := by
  decide

/-- base64url without padding is invertible on 6-byte inputs -/
theorem base64_decode_encode6 (a b c d e f : UInt8) :
    base64UrlDecode (base64Url [a, b, c, d, e, f]) = some [a, b, c, d, e, f] := by
  exact Hash.decode6 a b c d e f

theorem base64_6_injective (x y : Bytes) (hx : x.length = 6) (hy : y.length = 6)
    (h : base64Url x = base64Url y) : x = y := by
  obtain ⟨a, b, c, d, e, f, rfl⟩ := Hash.length_six hx
  obtain ⟨a', b', c', d', e', f', rfl⟩ := Hash.length_six hy
  have h' := congrArg base64UrlDecode h
  rw [Hash.decode6, Hash.decode6] at h'
  exact Option.some.inj h'

/-- the slug has 8 characters of `[A-Za-z0-9_-]` -/
theorem slug_shape (hash : Bytes → Bytes) (data : Bytes) (h : 6 ≤ (hash data).length) :
    (checksumSlugWith hash data).length = 8 ∧ ∀ c ∈ checksumSlugWith hash data, isUrlSafe c = true := by
  have hl : ((hash data).take 6).length = 6 := by simp only [List.length_take]; omega
  obtain ⟨a, b, c, d, e, f, hx⟩ := Hash.length_six hl
  have ha := a.toNat_lt
  have hb := b.toNat_lt
  have hc := c.toNat_lt
  have hd := d.toNat_lt
  have he := e.toNat_lt
  have hf := f.toNat_lt
  unfold checksumSlugWith
  rw [hx]
  simp only [base64Url, List.cons_append, List.nil_append, List.length_cons, List.length_nil,
    List.mem_cons, List.not_mem_nil, or_false, true_and]
  intro ch hch
  rcases hch with rfl | rfl | rfl | rfl | rfl | rfl | rfl | rfl <;>
    exact b64Char_urlsafe _ (by omega)

/-- two contents get the same slug iff the first 48 bits of their hashes agree -/
theorem slug_eq_iff (hash : Bytes → Bytes) (d₁ d₂ : Bytes) (h₁ : 6 ≤ (hash d₁).length) (h₂ : 6 ≤ (hash d₂).length) :
    checksumSlugWith hash d₁ = checksumSlugWith hash d₂ ↔ (hash d₁).take 6 = (hash d₂).take 6 := by
  constructor
  · intro h
    exact base64_6_injective _ _ (by simp only [List.length_take]; omega)
      (by simp only [List.length_take]; omega) h
  · intro h
    unfold checksumSlugWith
    rw [h]

theorem md5_length (data : Bytes) : (md5 data).length = 16 := by
  exact Hash.md5_length data

/-- the URL name a hashed entry point publishes: `<stem>-<slug of the complete content>.<ext>`,
whatever the directory, the state of the handler or the way the content is embedded -/
def urlName (fname bytes : Bytes) : Option Bytes :=
  (nameAndExt fname).map fun (n, e) => n ++ [45] ++ checksumSlug bytes ++ [46] ++ e

theorem urlName_shape (ue ua : Nat → Bool) (s : Statics) (path bytes : Bytes) (content : Content)
    (name ext : Bytes) (h : nameAndExt (baseName path) = some (name, ext)) :
    (s.addHashed ue ua path bytes content).namesR =
      btInsert (name ++ [45] ++ checksumSlug bytes ++ [46] ++ ext) (mangle ua (name ++ [95] ++ ext)) s.namesR ∧
    (s.addHashed ue ua path bytes content).names =
      btInsert (mangle ua (name ++ [95] ++ ext)) (name ++ [45] ++ checksumSlug bytes ++ [46] ++ ext) s.names := by
  simp only [Statics.addHashed, h, Statics.addStatic, and_self]

/-- a file name without an extension is skipped (nothing is published) -/
theorem no_ext_skipped (ue ua : Nat → Bool) (s : Statics) (path bytes : Bytes) (content : Content)
    (h : nameAndExt (baseName path) = none) : s.addHashed ue ua path bytes content = s := by
  simp only [Statics.addHashed, h]

/- ORIGINAL STATEMENT (false as written, kept for the record):

/-- pure: same file name and same bytes ⇒ same published name, from any location, in any handler
state, through `add_file` (`.file`) or `add_file_data` (`.data`) -/
theorem urlName_pure (ue ua : Nat → Bool) (s s' : Statics) (path path' bytes : Bytes) (c c' : Content)
    (hb : baseName path = baseName path') (k : Bytes) :
    (∃ v, (s.addHashed ue ua path bytes c).namesR = btInsert k v s.namesR) ↔
    (∃ v, (s'.addHashed ue ua path' bytes c').namesR = btInsert k v s'.namesR)

"`namesR` after = `btInsert k v` of `namesR` before" does not identify the inserted key: `btInsert`
is idempotent, so the equation also holds for every `(k, v)` that is already in the map of that
particular state.  The two sides quantify over different states, hence the iff fails
(`urlName_pure_original_false` below: `path = path' = "a"`, no extension, so nothing is published;
`s.namesR = [("k","v")]` satisfies the left side by accident, `s'.namesR = []` cannot satisfy the
right side).  The same accident happens when an extension is present (take
`s.namesR = [(published, ident), (k, v)]`, `s'.namesR = []`).

Honest formulation: `publishedName path bytes` is a function of the final path component and the
content only (`publishedName_pure`), and it is exactly the key `addHashed` inserts, in any state,
for any way of embedding the content (`addHashed_publishes`; nothing is inserted when it is `none`).
-/

/-- the URL name `add_file`/`add_file_data` publish for `path` with content `bytes` -/
def publishedName (path bytes : Bytes) : Option Bytes := urlName (baseName path) bytes

/-- the Rust identifier that goes with it -/
def publishedIdent (ua : Nat → Bool) (path : Bytes) : Option Bytes :=
  (nameAndExt (baseName path)).map fun (n, e) => mangle ua (n ++ [95] ++ e)

/-- pure: same file name and same bytes ⇒ same published name (and identifier), from any location -/
theorem publishedName_pure (ua : Nat → Bool) (path path' bytes : Bytes) (hb : baseName path = baseName path') :
    publishedName path bytes = publishedName path' bytes ∧ publishedIdent ua path = publishedIdent ua path' := by
  simp only [publishedName, publishedIdent, hb, and_self]

/-- … in any handler state, through `add_file` (`.file`) or `add_file_data` (`.data`): the maps
change by exactly the insertion of `publishedName` ↦ `publishedIdent` (and its converse) -/
theorem addHashed_publishes (ue ua : Nat → Bool) (s : Statics) (path bytes : Bytes) (c : Content) :
    (s.addHashed ue ua path bytes c).namesR =
      (match publishedName path bytes, publishedIdent ua path with
       | some k, some v => btInsert k v s.namesR
       | _, _ => s.namesR) ∧
    (s.addHashed ue ua path bytes c).names =
      (match publishedName path bytes, publishedIdent ua path with
       | some k, some v => btInsert v k s.names
       | _, _ => s.names) := by
  unfold publishedName publishedIdent urlName
  cases h : nameAndExt (baseName path) with
  | none => simp only [no_ext_skipped ue ua s path bytes c h, Option.map_none, and_self]
  | some ne =>
    obtain ⟨n, e⟩ := ne
    obtain ⟨h1, h2⟩ := urlName_shape ue ua s path bytes c n e h
    simp only [h1, h2, Option.map_some, and_self]

/-- the same, as a statement about two runs: equal file names and bytes give equal maps when
started from equal maps, whatever the directories and the embedding -/
theorem urlName_pure (ue ua : Nat → Bool) (s s' : Statics) (path path' bytes : Bytes) (c c' : Content)
    (hb : baseName path = baseName path') (hs : s.namesR = s'.namesR) :
    (s.addHashed ue ua path bytes c).namesR = (s'.addHashed ue ua path' bytes c').namesR := by
  rw [(addHashed_publishes ue ua s path bytes c).1, (addHashed_publishes ue ua s' path' bytes c').1,
    (publishedName_pure ua path path' bytes hb).1, (publishedName_pure ua path path' bytes hb).2, hs]

/-- counterexample to the original statement of `urlName_pure` -/
theorem urlName_pure_original_false :
    ¬ ∀ (ue ua : Nat → Bool) (s s' : Statics) (path path' bytes : Bytes) (c c' : Content)
      (_ : baseName path = baseName path') (k : Bytes),
      (∃ v, (s.addHashed ue ua path bytes c).namesR = btInsert k v s.namesR) ↔
      (∃ v, (s'.addHashed ue ua path' bytes c').namesR = btInsert k v s'.namesR) := by
  intro h
  have h' := h (fun _ => false) (fun _ => false)
    { feat := .off, src := [], names := [], namesR := [([107], [118])] }
    { feat := .off, src := [], names := [], namesR := [] }
    [97] [97] [] (.data []) (.data []) rfl [107]
  have hn : nameAndExt (baseName [97]) = none := by decide
  rw [no_ext_skipped _ _ _ _ _ _ hn, no_ext_skipped _ _ _ _ _ _ hn] at h'
  obtain ⟨v, hv⟩ := h'.mp ⟨[118], by decide⟩
  simp [btInsert] at hv

-- tests (evaluated): RFC 1321 vectors and the documented example `black-r3rltVhW.css`
#guard checksumSlug (str "body{color:black}\n") == str "r3rltVhW"
#guard (md5 []).take 4 == [0xd4, 0x1d, 0x8c, 0xd9]
#guard (md5 (str "abc")).take 4 == [0x90, 0x01, 0x50, 0x98]
#guard (md5 (str "message digest")).take 4 == [0xf9, 0x6b, 0x69, 0x7d]
#guard (md5 (str "12345678901234567890123456789012345678901234567890123456789012345678901234567890")).take 4 == [0x57, 0xed, 0xf4, 0xa2]

end Ructe.C07
