import RucteModel

/-! # C07 — placeholder: theorems are added as they are proved. -/
namespace Ructe.C07
theorem placeholder : True := trivial
end Ructe.C07
