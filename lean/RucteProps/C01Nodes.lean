import RucteModel.Tpl
import RucteProofs.ParserSound
import RucteProofs.Layout
import RucteProofs.ErrDiag
import RucteProofs.NodeLemmas

/-!
# C01 (continued) — what each body node accounts for in the source

For the arms of `template_expression` that produce text or nothing: the node's text is exactly the
source span (a maximal run without `@`, `{`, `}`), or one of the three escapes; a comment node
spans `@*` … first `*@`.  Together with `template_accepts_whole` (every byte is consumed) and the
literal round trips (`C01.textLit_*`) this is "literal text is reproduced byte for byte".
-/
namespace Ructe.C01
open Nom Ructe.Nodes

/-- no `@`, `{` or `}` -/
def plainText (t : Bytes) : Bool := t.all fun b => b != 64 && b != 123 && b != 125

theorem plainText_eq : (fun b : UInt8 => !([64, 123, 125] : Bytes).contains b) =
    fun b => b != 64 && b != 123 && b != 125 := by
  funext b
  rw [Bool.eq_iff_iff]
  simp [bne, and_assoc]

/-- **text nodes**: a text node is the consumed source span itself — non-empty, valid UTF-8, free of
`@{}` and maximal (the next byte, if any, is one of `@{}`) — or the value of one of the three
escapes `@@`, `@{`, `@}` -/
theorem text_node_sound (n : Nat) (inp rest t : Bytes) (h : templateExpression n inp = .ok rest (.text t)) :
    (inp = t ++ rest ∧ t ≠ [] ∧ plainText t = true ∧ validUtf8 t = true ∧
       (∀ b r, rest = b :: r → (b = 64 ∨ b = 123 ∨ b = 125))) ∨
    (inp = [64, 64] ++ rest ∧ t = [64]) ∨
    (inp = [64, 123] ++ rest ∧ t = [123]) ∨
    (inp = [64, 125] ++ rest ∧ t = [125]) := by
  cases n with
  | zero => simp [templateExpression] at h
  | succ n =>
    rcases node_shape n h with ⟨t', ht', hm⟩ | ⟨he, hi⟩ | ⟨he, hi⟩ | ⟨he, hi⟩ | ⟨he, _⟩ |
      ⟨a, b, he⟩ | ⟨a, b, c, he⟩ | ⟨a, b, c, he⟩ | ⟨a, b, he⟩ | ⟨a, he⟩
    · injection ht' with ht'
      subst ht'
      obtain ⟨w, hw, hs⟩ := mapRes_ok hm
      obtain ⟨rfl, hvalid⟩ := toStr_some hs
      rw [isNot_eq_take1] at hw
      obtain ⟨h1, h2, h3, h4⟩ := take1_spec hw
      refine .inl ⟨h1, h2, ?_, hvalid, ?_⟩
      · rw [plainText_eq] at h3; exact h3
      · intro b r hr
        have := h4 b r hr
        simp at this
        by_cases h1 : b = 64
        · exact .inl h1
        by_cases h2 : b = 123
        · exact .inr (.inl h2)
        exact .inr (.inr (this h1 h2))
    · injection he with he
      exact .inr (.inl ⟨by simpa using hi, he⟩)
    · injection he with he
      exact .inr (.inr (.inl ⟨by simpa using hi, he⟩))
    · injection he with he
      exact .inr (.inr (.inr ⟨by simpa using hi, he⟩))
    all_goals cases he

/-- **comment nodes** produce no text and span `@*` body `*@` where the body contains no earlier
terminator (no `*@` inside `body ++ "*"`) -/
theorem comment_node_sound (n : Nat) (inp rest : Bytes) (h : templateExpression n inp = .ok rest .comment) :
    ∃ body, inp = [64, 42] ++ body ++ [42, 64] ++ rest ∧ noStarAt (body ++ [42]) = true := by
  cases n with
  | zero => simp [templateExpression] at h
  | succ n =>
    rcases node_shape n h with ⟨t', he, _⟩ | ⟨he, _⟩ | ⟨he, _⟩ | ⟨he, _⟩ | ⟨_, x, hi, hc⟩ |
      ⟨a, b, he⟩ | ⟨a, b, c, he⟩ | ⟨a, b, c, he⟩ | ⟨a, b, he⟩ | ⟨a, he⟩
    case inr.inr.inr.inr.inl =>
      obtain ⟨body, hb, hn⟩ := commentTail_sound hc
      exact ⟨body, by rw [hi, hb]; simp, hn⟩
    all_goals cases he

/-- every node consumes something and leaves a suffix: nodes follow each other in source order
without gaps or overlaps -/
theorem node_consumes (n : Nat) (inp rest : Bytes) (e : TExpr) (h : templateExpression n inp = .ok rest e) :
    ∃ span, span ≠ [] ∧ inp = span ++ rest := by
  obtain ⟨span, hs⟩ := (good_templateExpression n).sfx _ _ _ h
  have hl := consumes_templateExpression n _ _ _ h
  refine ⟨span, ?_, hs.symm⟩
  intro he
  subst he
  rw [← hs] at hl
  simp at hl

/-- completeness for plain text: a non-empty run without `@{}` that is valid UTF-8 and is followed
by `@`, `{`, `}` or the end of input is taken as exactly one text node -/
theorem text_complete (n : Nat) (t rest : Bytes) (ht : t ≠ []) (hp : plainText t = true) (hv : validUtf8 t = true)
    (hr : rest = [] ∨ ∃ b r, rest = b :: r ∧ (b = 64 ∨ b = 123 ∨ b = 125)) :
    templateExpression (n + 1) (t ++ rest) = .ok rest (.text t) := by
  cases t with
  | nil => exact absurd rfl ht
  | cons c t =>
    have hp' : (c :: t).all (fun b => !([64, 123, 125] : Bytes).contains b) = true := by
      rw [plainText_eq]; exact hp
    have hc : c ≠ 64 := by
      intro hc
      subst hc
      simp [plainText] at hp
    have hnot : isNot [64, 123, 125] (c :: t ++ rest) = .ok rest (c :: t) := by
      rw [isNot_eq_take1]
      apply take1_complete _ _ _ ht hp'
      intro b r hb
      rcases hr with hr | ⟨b', r', hr, hb'⟩
      · rw [hr] at hb; cases hb
      · rw [hr] at hb
        injection hb with hb _
        subst hb
        rcases hb' with rfl | rfl | rfl <;> decide
    have hopt : ∀ q : Parser Bytes, opt (preceded (char 64) q) (c :: t ++ rest) = .ok (c :: t ++ rest) none := by
      intro q
      simp [opt, preceded, pmap, seq, char, hc]
    rw [templateExpression_eq]
    simp only [pbind, hopt, str_set]
    rw [List.cons_append] at hnot
    simp [pmap, mapRes, hnot, toStr, hv]

/-- the escapes -/
theorem escapes_complete (n : Nat) (rest : Bytes) :
    templateExpression (n + 1) ([64, 64] ++ rest) = .ok rest (.text [64]) ∧
    templateExpression (n + 1) ([64, 123] ++ rest) = .ok rest (.text [123]) ∧
    templateExpression (n + 1) ([64, 125] ++ rest) = .ok rest (.text [125]) := by
  have h1 : opt (preceded (char 64) headAlt) ([64, 64] ++ rest) = .ok rest (some [64]) := by
    simp [opt, preceded, pmap, seq, char, headAlt, alt, orElse, tag, isPrefix]
  have h2 : opt (preceded (char 64) headAlt) ([64, 123] ++ rest) = .ok rest (some [123]) := by
    simp [opt, preceded, pmap, seq, char, headAlt, alt, orElse, tag, isPrefix]
  have h3 : opt (preceded (char 64) headAlt) ([64, 125] ++ rest) = .ok rest (some [125]) := by
    simp [opt, preceded, pmap, seq, char, headAlt, alt, orElse, tag, isPrefix]
  rw [templateExpression_eq, headAlt_eq]
  simp only [pbind, h1, h2, h3, str_colon, str_at, str_lb, str_rb]
  simp

end Ructe.C01
