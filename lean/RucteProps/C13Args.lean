import RucteModel.Emit
import RucteProofs.ParserSound
import RucteProofs.NodeLemmas
import RucteProps.C13
import RucteProps.C15

/-!
# C13 (continued) — from the parser to the printed signature

`formalArgument` returns the recognised source span verbatim; `template` collects these spans in
declared order; `fnHeader` prints each through `printParam` (`C13.signature_shape`).
-/
namespace Ructe.C13
open Nom

/-- a declared parameter reaches the syntax tree as the exact source span: `name ws : ws type` -/
theorem formalArgument_sound (n : Nat) (inp rest v : Bytes) (h : formalArgument n inp = .ok rest v) :
    inp = v ++ rest ∧ validUtf8 v = true ∧
    ∃ name mid, v = name ++ mid ∧ rustName inp = .ok (mid ++ rest) name := by
  unfold formalArgument at h
  obtain ⟨h1, h2, w, hw⟩ := recognized_sound (by good) h
  obtain ⟨r1, hn, hrest⟩ := seq_ok hw
  obtain ⟨mid, hmid⟩ := (Good.sfx (by good)) _ _ _ hrest
  have hname : inp = w.1 ++ r1 := by
    have hn' := hn
    unfold rustName at hn'
    exact (recognized_sound (by good) hn').1
  refine ⟨h1, h2, w.1, mid, ?_, ?_⟩
  · have : v ++ rest = (w.1 ++ mid) ++ rest := by
      rw [← h1, hname, ← hmid]; simp
    exact List.append_cancel_right this
  · rw [hmid]; exact hn

/-- the span contains the colon that separates name and type -/
theorem formalArgument_has_colon (n : Nat) (inp rest v : Bytes) (h : formalArgument n inp = .ok rest v) :
    (58 : UInt8) ∈ v := by
  unfold formalArgument at h
  obtain ⟨h1, _, w, hw⟩ := recognized_sound (by good) h
  obtain ⟨r1, hn, hw1⟩ := seq_ok hw
  obtain ⟨r2, hs, hw2⟩ := seq_ok hw1
  obtain ⟨r3, hc, hw3⟩ := seq_ok hw2
  obtain ⟨pre1, hpre1⟩ := good_rustName.sfx _ _ _ hn
  obtain ⟨pre2, hpre2⟩ := good_spacelike.sfx _ _ _ hs
  obtain ⟨post, hpost⟩ := (Good.sfx (by good)) _ _ _ hw3
  obtain ⟨hr2, _⟩ := char_ok hc
  have : v ++ rest = (pre1 ++ pre2 ++ 58 :: post) ++ rest := by
    rw [← h1, ← hpre1, ← hpre2, hr2, ← hpost]; simp
  rw [List.append_cancel_right this]
  simp

/-- `@use` lines: the preamble items are the source text between `@` and `;`, verbatim -/
theorem preamble_item_verbatim (item rest : Bytes) (h : item ≠ []) (hp : item.all (fun b => b != 59 && b != 40 && b != 41) = true)
    (hv : validUtf8 item = true) :
    delimited (tag [64]) (mapRes (isNot [59, 40, 41]) toStr) (terminated (tag [59]) spacelike) ([64] ++ item ++ [59] ++ rest)
      = (match spacelike rest with | .ok r _ => .ok r item | _ => .err []) := by
  obtain ⟨r, hr⟩ := C15.spacelike_total rest
  have hnot : isNot [59, 40, 41] (item ++ 59 :: rest) = .ok (59 :: rest) item := by
    rw [isNot_eq_take1]
    apply Nodes.take1_complete _ _ _ h
    · have e : (fun b : UInt8 => !([59, 40, 41] : Bytes).contains b) =
          fun b => b != 59 && b != 40 && b != 41 := by
        funext b
        rw [Bool.eq_iff_iff]
        simp [bne, and_assoc]
      rw [e]; exact hp
    · intro b r' hb
      injection hb with hb _
      subst hb
      decide
  simp [delimited, preceded, terminated, pmap, seq, tag, isPrefix, mapRes, hnot, toStr, hv, hr]

end Ructe.C13
