import RucteProofs.GenLemmas

/-!
# C17 — every input is announced to cargo for rebuild tracking

The model logs every directory it lists and every file it opens or embeds (`Log.reads`) and every
line it prints (`Log.stdout`).  `Covered stdout p` is cargo's documented rule: a
`cargo:rerun-if-changed=q` line was printed for `p` itself or for an ancestor directory of `p`.
-/
namespace Ructe.C17
open Nom

def rerunLine (q : Bytes) : Bytes := str "cargo:rerun-if-changed=" ++ q

/-- `q` is `p` or an ancestor directory of `p` -/
def IsPrefixPath (q p : Bytes) : Prop := q = p ∨ ∃ rest, p = q ++ [47] ++ rest

def Covered (stdout : List Bytes) (p : Bytes) : Prop := ∃ q, rerunLine q ∈ stdout ∧ IsPrefixPath q p

/-- the invariant: everything read so far is covered by a line printed so far -/
def Announced (l : Log) : Prop := ∀ p ∈ l.reads, Covered l.stdout p

/-- **announced**: for every build script over `compile_templates`, `add_file`, `add_files`,
`add_file_as`, `add_files_as` (recursively) and `add_file_data`, on every input tree, every input
that was listed or read is covered by a `cargo:rerun-if-changed=` line of the same run -/
theorem announced (ue ua : Nat → Bool) (feat : MimeFeature) (outdir utils : Bytes) (ops : List Op) :
    Announced (buildLog ue ua feat outdir utils ops) := by
  intro p hp
  exact ⟨p, buildLog_ann ue ua feat outdir utils ops p hp, Or.inl rfl⟩

/-- the pinned `add_files_as` printed no line for the directories it lists (finding #6): with
`dirLine = false` a sub-directory is read but not covered by any line printed by that call -/
theorem pinned_add_files_as_counterexample :
    let r := addFilesAs (fun _ => false) (fun _ => false) false {} (Statics.new .off) [100] [] [.dir [115] []]
    [100, 47, 115] ∈ r.1.reads ∧ r.1.stdout = [] := by
  intro r
  simp [r, addFilesAs, Log.read, joinPath]

end Ructe.C17
