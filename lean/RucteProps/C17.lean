import RucteModel

/-! # C17 — placeholder: theorems are added as they are proved. -/
namespace Ructe.C17
theorem placeholder : True := trivial
end Ructe.C17
