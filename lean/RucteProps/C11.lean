import RucteModel

/-! # C11 — placeholder: theorems are added as they are proved. -/
namespace Ructe.C11
theorem placeholder : True := trivial
end Ructe.C11
