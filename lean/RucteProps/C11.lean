import RucteModel.Diag
import RucteProofs.NomSound
import RucteProofs.ParserSound
import RucteProofs.DiagSound

/-!
# C11 — the template parser is total and its diagnostics are well-formed

`template n inp` is the transcription of the nom parser with fuel `n` (nesting depth of named
recursive calls); `Res.panic` is the outcome of nom's byte-input `Satisfy` (`none_of` / `one_of`)
running off the end of the input — after the repairs only `one_of("'\"\\nrt0xu")` (an ASCII set)
is left, which cannot panic.  `showErrors` is `show_errors`; `diagInfo` the numbers it prints.
-/
namespace Ructe.C11
open Nom

/-- **no panic**: for every byte sequence and every fuel the parser does not panic -/
theorem template_no_panic (n : Nat) (inp : Bytes) : template n inp ≠ .panic :=
  (good_template n).np inp

/-- every (visible) error entry lies inside the input -/
theorem template_err_in_range (n : Nat) (inp : Bytes) (es : Errs) (h : template n inp = .err es) :
    ∀ e ∈ es, e.rem ≤ inp.length :=
  (good_template n).ei inp es h

/-- acceptance means the **whole** input was consumed (`end_of_file`) -/
theorem template_accepts_whole (n : Nat) (inp rest : Bytes) (t : Template) (h : template n inp = .ok rest t) :
    rest = [] :=
  endsEmpty_template n inp rest t h

/-- **well-formed diagnostics**: for an error position inside the input, the line number is
between 1 and the number of lines, the line start is at or before the position and directly
after a newline (or 0), the caret column is at least 1 and at most one more than the number of
bytes before the position on that line, and the echoed line is exactly the source line containing
the position — or the placeholder (`none`) iff that line is not valid UTF-8 -/
theorem diag_in_range (buf : Bytes) (pos : Nat) (hp : pos ≤ buf.length) :
    let d := diagInfo buf pos
    1 ≤ d.lineNo ∧ d.lineNo ≤ 1 + (buf.filter (· = 10)).length ∧
    d.lineStart ≤ pos ∧
    (d.lineStart = 0 ∨ buf[d.lineStart - 1]? = some 10) ∧
    (∀ i, d.lineStart ≤ i → i < pos → buf[i]? ≠ some 10) ∧
    1 ≤ d.col ∧ d.col ≤ 1 + (pos - d.lineStart) ∧
    (match d.line with
     | some l => l = (buf.drop d.lineStart).takeWhile (· ≠ 10) ∧ validUtf8 l = true
     | none => validUtf8 ((buf.drop d.lineStart).takeWhile (· ≠ 10)) = false) := by
  obtain ⟨A, B, hAB, hA, hB, hlast⟩ := lineStart_split (buf.take pos)
  have hbuf : buf = A ++ B ++ buf.drop pos := by rw [← hAB, List.take_append_drop]
  have hlen : A.length + B.length = pos := by
    have := congrArg List.length hAB
    simp only [List.length_take, List.length_append] at this
    omega
  intro d
  have hLS : d.lineStart = A.length := hA.symm
  refine ⟨?_, ?_, ?_, ?_, ?_, ?_, ?_, ?_⟩
  · show 1 ≤ ((buf.take (lineStartOf (buf.take pos))).filter (· = 10)).length + 1
    omega
  · show ((buf.take (lineStartOf (buf.take pos))).filter (· = 10)).length + 1 ≤ _
    have := ((List.take_sublist (lineStartOf (buf.take pos)) buf).filter (· = 10)).length_le
    omega
  · omega
  · rw [hLS]
    rcases hlast with h | h
    · left; simp [h]
    · right
      have hne : A ≠ [] := by intro h0; simp [h0] at h
      have hpos : 0 < A.length := List.length_pos_iff.mpr hne
      rw [hbuf, List.append_assoc, List.getElem?_append_left (by omega), ← List.getLast?_eq_getElem?]
      exact h
  · intro i h1 h2 h3
    rw [hLS] at h1
    rw [hbuf, List.getElem?_append_left (by simp only [List.length_append]; omega),
      List.getElem?_append_right h1] at h3
    exact hB 10 (List.mem_iff_getElem?.mpr ⟨_, h3⟩) rfl
  · show 1 ≤ lossyCount _ _ + 1
    omega
  · rw [hLS]
    show lossyCount (((buf.drop (lineStartOf (buf.take pos))).take (pos - lineStartOf (buf.take pos))).length + 1)
        ((buf.drop (lineStartOf (buf.take pos))).take (pos - lineStartOf (buf.take pos))) + 1 ≤ _
    have h1 := lossyCount_le (((buf.drop (lineStartOf (buf.take pos))).take (pos - lineStartOf (buf.take pos))).length + 1)
        ((buf.drop (lineStartOf (buf.take pos))).take (pos - lineStartOf (buf.take pos)))
    have h2 : ((buf.drop (lineStartOf (buf.take pos))).take (pos - lineStartOf (buf.take pos))).length
        ≤ pos - lineStartOf (buf.take pos) := List.length_take_le _ _
    omega
  · show (match (if validUtf8 ((buf.drop (lineStartOf (buf.take pos))).takeWhile (· ≠ 10)) then
        some ((buf.drop (lineStartOf (buf.take pos))).takeWhile (· ≠ 10)) else none) with
      | some l => l = (buf.drop (lineStartOf (buf.take pos))).takeWhile (· ≠ 10) ∧ validUtf8 l = true
      | none => validUtf8 ((buf.drop (lineStartOf (buf.take pos))).takeWhile (· ≠ 10)) = false)
    generalize (buf.drop (lineStartOf (buf.take pos))).takeWhile (· ≠ 10) = lb
    cases hv : validUtf8 lb <;> simp [hv]

set_option linter.unusedVariables false in
/-- the diagnostics of a rejection are positions inside the input (so `diag_in_range` applies to each) -/
theorem rejection_positions_in_range (n : Nat) (inp : Bytes) (es : Errs) (h : template n inp = .err es) :
    ∀ e ∈ es, inp.length - e.rem ≤ inp.length := by
  intro e _; omega

/-- the pinned `show_error` computed the column with `from_utf8(prefix).unwrap()`: it panics for
`@()\n@* \xFF *@ @if { x }` at the position of the `{` (finding #4, machine-checked) -/
theorem showErrors_pinned_panics_witness :
    showErrorPinnedPanics [64, 40, 41, 10, 64, 42, 32, 255, 32, 42, 64, 32, 64, 105, 102, 32, 123, 32, 120, 32, 125] 16 = true := by
  decide +kernel

/-- nom's byte-input `none_of` panics on a byte ≥ 0x80 that is the last byte of the input — what the
pinned `comment_tail` ran into on `@* *\xC3` (finding #9, machine-checked) -/
theorem noneOf_panics_witness : noneOf [64] [195] = .panic ∧ noneOf [64] [195, 169] = .ok [] 195 := by
  constructor <;> simp [noneOf, satisfyAdvance]

end Ructe.C11
