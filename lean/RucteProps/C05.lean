import RucteModel

/-! # C05 — placeholder: theorems are added as they are proved. -/
namespace Ructe.C05
theorem placeholder : True := trivial
end Ructe.C05
