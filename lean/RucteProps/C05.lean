import RucteModel.Emit
import RucteProofs.NomSound
import RucteProofs.ParserSound

/-!
# C05 — an @expression ends exactly where the documentation says (soundness direction)

Proved here: what the scanners return **is** the consumed prefix of the input (nothing is
skipped, reordered or normalised), it is valid UTF-8, the remaining input is untouched, and the
fragment is printed into the generated code verbatim, once.  The completeness direction (the
documented maximal form × every follower class is taken *in full*) is validated on every run by
the generator oracle of the `sub` suite and is not proved (see DESIGN.md).
-/
namespace Ructe.C05
open Nom

/-- the value of `expression` is exactly the consumed prefix -/
theorem expression_sound (n : Nat) (inp rest v : Bytes) (h : expression n inp = .ok rest v) :
    inp = v ++ rest ∧ validUtf8 v = true := by
  cases n with
  | zero => simp [expression] at h
  | succ n =>
    rw [expression] at h
    obtain ⟨h1, h2, _⟩ := recognized_sound (by good) h
    exact ⟨h1, h2⟩

/-- `@( … )`: the inner scanner returns exactly the consumed prefix -/
theorem exprInsideParens_sound (n : Nat) (inp rest v : Bytes) (h : exprInsideParens n inp = .ok rest v) :
    inp = v ++ rest ∧ validUtf8 v = true := by
  cases n with
  | zero => simp [exprInsideParens] at h
  | succ n =>
    rw [exprInsideParens] at h
    obtain ⟨h1, h2, _⟩ := recognized_sound (by good) h
    exact ⟨h1, h2⟩

theorem exprInParens_sound (n : Nat) (inp rest v : Bytes) (h : exprInParens n inp = .ok rest v) :
    inp = v ++ rest ∧ v.head? = some 40 ∧ v.getLast? = some 41 := by
  cases n with
  | zero => simp [exprInParens] at h
  | succ n =>
    rw [exprInParens] at h
    obtain ⟨h1, _, w, hw⟩ := recognized_sound (by good) h
    obtain ⟨mid, hmid⟩ := delimited_shape (tag_shape _) (good_exprInsideParens n).sfx (tag_shape _) hw
    have e1 : str "(" = [40] := by decide +kernel
    have e2 : str ")" = [41] := by decide +kernel
    rw [e1, e2] at hmid
    have hv : v = [40] ++ mid ++ [41] := by
      rw [hmid] at h1
      exact (List.append_cancel_right h1).symm
    subst hv
    exact ⟨h1, by simp, List.getLast?_concat⟩

theorem quotedString_sound (inp rest v : Bytes) (h : quotedString inp = .ok rest v) :
    inp = v ++ rest ∧ v.head? = some 34 ∧ v.getLast? = some 34 ∧ 2 ≤ v.length := by
  unfold quotedString at h
  obtain ⟨h1, _, w, hw⟩ := recognized_sound (by good) h
  obtain ⟨mid, hmid⟩ := delimited_shape (char_shape _) (Good.sfx (by good)) (char_shape _) hw
  have hv : v = [34] ++ mid ++ [34] := by
    rw [hmid] at h1
    exact (List.append_cancel_right h1).symm
  subst hv
  exact ⟨h1, by simp, List.getLast?_concat, by simp⟩

/-- a non-empty expression never starts with a byte outside the documented starters -/
theorem expression_nonempty (n : Nat) (inp rest v : Bytes) (h : expression n inp = .ok rest v) : v ≠ [] := by
  cases n with
  | zero => simp [expression] at h
  | succ n =>
    have hs := (expression_sound _ _ _ _ h).1
    rw [expression] at h
    have hc : rest.length < inp.length := by
      revert h
      apply consumes_mapRes; apply consumes_recognize; apply consumes_context
      apply consumes_seq_right (Good.sfx (by good))
      apply consumes_seq_left _ (Good.sfx (by good))
      apply consumes_alt_cons consumes_rustName
      apply consumes_alt_cons (consumes_mapRes (consumes_take1 _))
      apply consumes_alt_cons consumes_quotedString
      apply consumes_alt_cons (consumes_exprInParens n)
      exact consumes_alt_one (consumes_exprInBrackets n)
    intro hv
    rw [hv] at hs
    simp at hs
    rw [hs] at hc
    omega

/-- the scanners cannot panic (only `one_of` with an ASCII set is left) -/
theorem expression_no_panic (n : Nat) (inp : Bytes) : expression n inp ≠ .panic :=
  (good_expression n).np inp

/-- the fragment reaches the generated code unmodified, exactly once -/
theorem emit_verbatim (ue : Nat → Bool) (e : Bytes) :
    lower (.expr e) = [.toHtml e] ∧
    printRS ue (.toHtml e) = e ++ str ".to_html(_ructe_out_.by_ref())?;\n" := by
  constructor
  · rw [lower]
  · rw [printRS]

/-- the pinned group scanners swallowed the byte after a `/` (finding #10): the combinator
`terminated(tag("/"), none_of("*"))` consumes two bytes where the repaired one consumes one -/
theorem slash_pinned_witness :
    terminated (tag [47]) (noneOf [42]) [47, 40, 98] = .ok [98] [47] ∧
    terminated (tag [47]) (pnot (tag [42])) [47, 40, 98] = .ok [40, 98] [47] := by
  constructor <;> simp [terminated, seq, pmap, tag, isPrefix, noneOf, satisfyAdvance, pnot]

end Ructe.C05
