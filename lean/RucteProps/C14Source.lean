import RucteProps.C14

/-!
# C14 — the only source of an error is the sink

"… the generated function stops and returns *that* error."  The model has one error value (`IoRes.err`: the sink's
error or `WriteZero` for a sink that accepts nothing); what it can say about *which* error comes back is where errors
can come from at all: the emitted statements create none.  If a run ends in an error, the sink's schedule held a
permanent failure or an `Ok(0)` — with a sink that only accepts (in any portions) and interrupts, no template, no
argument set and no nesting of calls and blocks produces an error.  (That the value handed back is the sink's own
`io::Error` — same kind, operating-system code, text and payload — is checked on the implementation: the failing sink
of the end-to-end suite reports three kinds of error in turn.)
-/
namespace Ructe.C14
open Nom
open Esc (Sink IoRes Resp WSpec Benign)

/-- an error at the end of a run comes from the sink -/
theorem err_only_from_sink (sem : Sem) (prog : Prog) (n : Nat) (body : List RS) (env : Env) (s : Sink) (out : Bytes)
    (h : renderL sem prog n body env = some out) (herr : (execL sem prog n body env s).2 = .err) :
    ∃ r ∈ s.sched, r = .fail ∨ r = .zero := by
  apply Classical.byContradiction
  intro hno
  have hb : Benign s.sched := fun r hr =>
    ⟨fun e => hno ⟨r, hr, Or.inl e⟩, fun e => hno ⟨r, hr, Or.inr e⟩⟩
  have := (exec_schedule_irrelevant sem prog n body env s out h hb).1
  rw [herr] at this
  cases this

/-- … and then what was accepted is a proper prefix or the whole rendering, never anything else -/
theorem err_keeps_prefix (sem : Sem) (prog : Prog) (n : Nat) (body : List RS) (env : Env) (s : Sink) (out : Bytes)
    (h : renderL sem prog n body env = some out) :
    ∃ k, (execL sem prog n body env s).1.got = s.got ++ out.take k :=
  exec_prefix sem prog n body env s out h

end Ructe.C14
