import RucteProps.C12
import RucteModel.Abort

/-!
# C12 for the run as the code does it

The statements of `C12` for `runScriptA` — the run with walks that may be cut short by an entry that cannot be opened.
They are the same one-line consequences of `runLog_get`: nothing in ructe reads OUT_DIR except `write_if_changed`,
whatever the walk does.  In particular a run that was cut short leaves a state from which the next run — cut short
again at the same place, or complete once the link is repaired — produces exactly what it produces from an empty
OUT_DIR.
-/
namespace Ructe.C12Abort
open Nom Ructe.C12

variable (ue ua : Nat → Bool) (feat : MimeFeature) (outdir utils base : Bytes)

/-- **incremental = clean** for the run as the code does it -/
theorem incremental_eq_cleanA (fs : FS) (t : InFS) (script : List SOp) (p : Bytes)
    (hp : p ∈ (buildLogA ue ua feat outdir utils (script.map (SOp.resolveA base t))).writes.map (·.1)) :
    (runScriptA ue ua feat fs outdir utils base t script).fs.get p =
    (runScriptA ue ua feat [] outdir utils base t script).fs.get p := by
  unfold runScriptA
  rw [runLog_get, runLog_get]
  cases h : lastWrite (buildLogA ue ua feat outdir utils (script.map (SOp.resolveA base t))).writes p with
  | some c => rfl
  | none => exact absurd hp ((lastWrite_eq_none_iff _ _).mp h)

/-- every other file of OUT_DIR is left as it was -/
theorem untouched_elsewhereA (fs : FS) (t : InFS) (script : List SOp) (p : Bytes)
    (hp : p ∉ (buildLogA ue ua feat outdir utils (script.map (SOp.resolveA base t))).writes.map (·.1)) :
    (runScriptA ue ua feat fs outdir utils base t script).fs.get p = fs.get p := by
  unfold runScriptA
  rw [runLog_get, (lastWrite_eq_none_iff _ _).mpr hp]

/-- a repeated run on unchanged inputs (the same walk, cut short at the same place) writes nothing — provided the run
does not itself ask for two contents at one path (`C12Conflicts` says what happens otherwise) -/
theorem second_run_silentA (fs : FS) (t : InFS) (script : List SOp)
    (hc : Consistent (buildLogA ue ua feat outdir utils (script.map (SOp.resolveA base t))).writes) :
    (runScriptA ue ua feat (runScriptA ue ua feat fs outdir utils base t script).fs outdir utils base t script).writes = [] := by
  unfold runScriptA
  exact second_run_silent fs _ hc

/-- after a run that was cut short on tree `t₁`, a run on the repaired tree `t₂` leaves at every path it writes what a
clean build of `t₂` leaves -/
theorem repaired_run_eq_clean (fs : FS) (t₁ t₂ : InFS) (script : List SOp) (p : Bytes)
    (hp : p ∈ (buildLogA ue ua feat outdir utils (script.map (SOp.resolveA base t₂))).writes.map (·.1)) :
    (runScriptA ue ua feat (runScriptA ue ua feat fs outdir utils base t₁ script).fs outdir utils base t₂ script).fs.get p =
    (runScriptA ue ua feat [] outdir utils base t₂ script).fs.get p :=
  incremental_eq_cleanA ue ua feat outdir utils base _ t₂ script p hp

end Ructe.C12Abort
