import RucteModel.Expr
import RucteProofs.ParserSound
import RucteProofs.Layout
import RucteProofs.Complete

/-!
# C05 (continued) — completeness: the documented maximal form is taken in full

`Grp` is the documented content of a bracketed group: plain runs, nested `()`, `[]`, `{}` groups,
string literals (whose content hides delimiters), `/* */` comments (likewise) and a division sign
not followed by `*`.  `DExpr` is the documented `@expression`: optional `&`/`*`, an atom (name,
number, string literal, `(..)`, `[..]`), then a chain of `(..)`, `{..}`, `[..]`, `!(..)`, `![..]`
that may end in `.expr` or `::expr`.
-/
namespace Ructe.C05
open Nom

/- a string literal body: bytes other than `"` and `\`, or a backslash followed by one of `'"\nrt0xu` -/
inductive StrItem where
  | plain (b : UInt8)          -- not `"` (34), not `\` (92)
  | esc (c : UInt8)            -- one of ' " \ n r t 0 x u

def StrItem.ok : StrItem → Bool
  | .plain b => b != 34 && b != 92
  | .esc c => [39, 34, 92, 110, 114, 116, 48, 120, 117].contains c

def StrItem.print : StrItem → Bytes
  | .plain b => [b]
  | .esc c => [92, c]

def printStr (items : List StrItem) : Bytes := [34] ++ (items.map StrItem.print).flatten ++ [34]

/-- the printed items, without the quotes -/
def strBody (items : List StrItem) : Bytes := (items.map StrItem.print).flatten

theorem strBody_cons (x : StrItem) (items : List StrItem) : strBody (x :: items) = x.print ++ strBody items := by
  simp [strBody]

theorem printStr_eq (items : List StrItem) : printStr items = [34] ++ strBody items ++ [34] := rfl

theorem quotedString_loop (input rest : Bytes) (hidx : (34 :: rest).length < input.length)
    (items : List StrItem) (hi : ∀ i ∈ items, i.ok = true) :
    EAbsorbs input (34 :: rest) (strBody items ++ 34 :: rest) ∧
    EAbsorbs input (34 :: rest) (span notQB (strBody items ++ 34 :: rest)).2 := by
  induction items with
  | nil =>
    have := eabsorbs_stop input rest hidx
    refine ⟨this, ?_⟩
    show EAbsorbs input (34 :: rest) (span notQB (34 :: rest)).2
    rw [span_cons_false _ _ _ (by decide)]
    exact this
  | cons x items ih =>
    have ih := ih (fun i h => hi i (by simp [h]))
    have hx := hi x (by simp)
    rw [strBody_cons]
    cases x with
    | plain b =>
      have hb : b ≠ 34 ∧ b ≠ 92 := by simpa [StrItem.ok] using hx
      have hns : notQB b = true := by simp [notQB, hb.1, hb.2]
      refine ⟨eabsorbs_plain _ _ _ b hb (by simp) ih.2, ?_⟩
      show EAbsorbs input (34 :: rest) (span notQB (b :: (strBody items ++ 34 :: rest))).2
      rw [span_cons_true _ _ _ hns]
      exact ih.2
    | esc c =>
      have hc : escSet.contains c = true := hx
      have := eabsorbs_esc _ _ _ c hc (by simp) ih.1
      refine ⟨this, ?_⟩
      show EAbsorbs input (34 :: rest) (span notQB (92 :: c :: (strBody items ++ 34 :: rest))).2
      rw [span_cons_false _ _ _ (by decide)]
      exact this

/-- **string literals**: a documented string literal is taken in full, whatever follows -/
theorem quotedString_complete (items : List StrItem) (hi : ∀ i ∈ items, i.ok = true)
    (hv : validUtf8 (printStr items) = true) (rest : Bytes) :
    quotedString (printStr items ++ rest) = .ok rest (printStr items) := by
  rw [printStr_eq] at hv ⊢
  cases items with
  | nil => exact quotedString_of_body [] rest (opt_err (qsBody_empty rest)) hv
  | cons x items =>
    refine quotedString_of_body _ rest (opt_of (qsBody_of_loop _ rest ?_)) hv
    refine (quotedString_loop _ rest ?_ (x :: items) hi).1
    rw [strBody_cons]
    cases x <;> simp [StrItem.print] <;> omega

/-- **names**: a name followed by a byte that cannot continue it is taken in full -/
def isNameStart (b : UInt8) : Bool := isAlpha b || b = 95
def isNameChar (b : UInt8) : Bool := isAlpha b || isDigit b || b = 95

theorem rustName_complete (b : UInt8) (cs rest : Bytes) (hb : isNameStart b = true) (hc : cs.all isNameChar = true)
    (hr : ∀ c r, rest = c :: r → isNameChar c = false) :
    rustName (b :: cs ++ rest) = .ok rest (b :: cs) := by
  apply rustName_complete_gen
  · simpa [isNameStart] using hb
  · simp only [nameChars_contains]; exact hc
  · intro c r h
    rw [nameChars_contains]
    exact hr c r h

/-- **block comments**: `/*` body `*/` with no `*/` inside the body (first terminator wins) -/
def noStarSlash : Bytes → Bool
  | 42 :: 47 :: _ => false
  | _ :: r => noStarSlash r
  | [] => true

theorem noStarSlash_cons_ne (c : UInt8) (r : Bytes) (hc : c ≠ 42) : noStarSlash (c :: r) = noStarSlash r :=
  noStarSlash.eq_2 c r (fun _ h _ => hc h)

theorem noStarSlash_star_ne (r : Bytes) (hr : ∀ t, r ≠ 47 :: t) : noStarSlash (42 :: r) = noStarSlash r :=
  noStarSlash.eq_2 42 r (fun t _ h => hr t h)

theorem rustComment_loop (rest body : Bytes) (h : noStarSlash (body ++ [42]) = true) :
    RAbsorbs (42 :: 47 :: rest) (body ++ 42 :: 47 :: rest) ∧
    RAbsorbs (42 :: 47 :: rest) (span notStar (body ++ 42 :: 47 :: rest)).2 := by
  induction body with
  | nil =>
    refine ⟨rabsorbs_stop rest, ?_⟩
    rw [List.nil_append, span_cons_false _ _ _ (by decide)]
    exact rabsorbs_stop rest
  | cons c body ih =>
    by_cases hc : c = 42
    · subst hc
      have hne : ∀ t, body ++ [42] ≠ 47 :: t := by
        intro t ht
        simp only [List.cons_append, ht, noStarSlash] at h
        exact absurd h (by decide)
      have hne' : ∀ t, body ++ 42 :: 47 :: rest ≠ 47 :: t := by
        intro t ht
        cases body with
        | nil => simp at ht
        | cons d body => simp at ht; exact hne (body ++ [42]) (by simp [ht.1])
      rw [List.cons_append, noStarSlash_star_ne _ hne] at h
      have hA := rabsorbs_star _ _ hne' (ih h).1
      refine ⟨hA, ?_⟩
      rw [List.cons_append, span_cons_false _ _ _ (by decide)]
      exact hA
    · rw [List.cons_append, noStarSlash_cons_ne _ _ hc] at h
      have hns : notStar c = true := by simp [notStar, hc]
      refine ⟨rabsorbs_other _ _ c hc (ih h).2, ?_⟩
      rw [List.cons_append, span_cons_true _ _ _ hns]
      exact (ih h).2

theorem rustComment_complete (body rest : Bytes) (h : noStarSlash (body ++ [42]) = true) :
    rustComment ([47, 42] ++ body ++ [42, 47] ++ rest) = .ok rest body := by
  have := rustComment_of_loop body rest (rustComment_loop rest body h).1
  simpa using this

/-- documented group content -/
inductive Grp where
  | plain (b : UInt8)                    -- a byte that is not a delimiter, quote or slash
  | parens (g : List Grp)
  | brackets (g : List Grp)
  | braces (g : List Grp)
  | str (items : List StrItem)
  | comment (body : Bytes)
  | slash                                 -- `/` not followed by `*`

mutual
def Grp.print : Grp → Bytes
  | .plain b => [b]
  | .parens g => [40] ++ Grp.printL g ++ [41]
  | .brackets g => [91] ++ Grp.printL g ++ [93]
  | .braces g => [123] ++ Grp.printL g ++ [125]
  | .str items => printStr items
  | .comment body => [47, 42] ++ body ++ [42, 47]
  | .slash => [47]
def Grp.printL : List Grp → Bytes
  | [] => []
  | x :: r => Grp.print x ++ Grp.printL r
end

-- nesting depth (the fuel needed)
mutual
def Grp.depth : Grp → Nat
  | .parens g | .brackets g | .braces g => Grp.depthL g + 1
  | _ => 0
def Grp.depthL : List Grp → Nat
  | [] => 0
  | x :: r => max (Grp.depth x) (Grp.depthL r)
end

/- well-formedness of documented group content: plain bytes are none of `{}[]()"/`, strings and
comments are well-formed, and a `/` is not directly followed by `*` -/
mutual
def Grp.wf : Grp → Bool
  | .plain b => !([123, 125, 91, 93, 40, 41, 34, 47].contains b)
  | .parens g | .brackets g | .braces g => Grp.wfL g
  | .str items => items.all StrItem.ok && validUtf8 (printStr items)
  | .comment body => noStarSlash (body ++ [42])
  | .slash => true
def Grp.wfL : List Grp → Bool
  | [] => true
  | .slash :: r => (match Grp.printL r with | 42 :: _ => false | _ => true) && Grp.wfL r
  | x :: r => Grp.wf x && Grp.wfL r
end

/-! ### fuel needed by the scanners

`exprInParens` spends two units of fuel per nesting level (`exprInParens` → `exprInsideParens` → loop),
`exprInBrackets` / `exprInBraces` one; and one more unit is needed so that the innermost loop can *try*
(and fail) its recursive alternatives at the closing delimiter instead of running out of fuel. -/
mutual
def Grp.fuel : Grp → Nat
  | .parens g => Grp.fuelL g + 2
  | .brackets g | .braces g => Grp.fuelL g + 1
  | _ => 0
def Grp.fuelL : List Grp → Nat
  | [] => 0
  | x :: r => max (Grp.fuel x) (Grp.fuelL r)
end

mutual
theorem Grp.fuel_le : (x : Grp) → x.fuel ≤ 2 * x.depth
  | .plain _ | .str _ | .comment _ | .slash => by simp [Grp.fuel]
  | .parens g => by have := Grp.fuelL_le g; simp only [Grp.fuel, Grp.depth]; omega
  | .brackets g => by have := Grp.fuelL_le g; simp only [Grp.fuel, Grp.depth]; omega
  | .braces g => by have := Grp.fuelL_le g; simp only [Grp.fuel, Grp.depth]; omega
theorem Grp.fuelL_le : (g : List Grp) → Grp.fuelL g ≤ 2 * Grp.depthL g
  | [] => by simp [Grp.fuelL]
  | x :: r => by
    have := Grp.fuel_le x; have := Grp.fuelL_le r
    simp only [Grp.fuelL, Grp.depthL]; omega
end

/- every nested group's content is valid UTF-8 (follows from validity of the whole) -/
mutual
def Grp.vok : Grp → Bool
  | .parens g | .brackets g | .braces g => validUtf8 (Grp.printL g) && Grp.vokL g
  | _ => true
def Grp.vokL : List Grp → Bool
  | [] => true
  | x :: r => Grp.vok x && Grp.vokL r
end

theorem valid_group (pre post body : Bytes) (o c : UInt8) (ho : o < 0x80) (hc : c < 0x80)
    (h : validUtf8 (pre ++ ([o] ++ body ++ [c]) ++ post) = true) :
    validUtf8 body = true ∧ validUtf8 post = true := by
  have e : pre ++ ([o] ++ body ++ [c]) ++ post = pre ++ o :: (body ++ c :: post) := by simp
  rw [e, validUtf8_split _ _ _ ho, validUtf8_split _ _ _ hc] at h
  simp only [Bool.and_eq_true] at h
  exact h.2

mutual
theorem Grp.vok_of : (x : Grp) → ∀ pre post, validUtf8 (pre ++ x.print ++ post) = true →
    x.vok = true ∧ ∃ pre', validUtf8 (pre' ++ post) = true
  | .plain b => fun pre post h => ⟨rfl, pre ++ [b], by simpa [Grp.print] using h⟩
  | .parens g => fun pre post h => by
    have := valid_group pre post (Grp.printL g) 40 41 (by decide) (by decide) h
    exact ⟨by simp [Grp.vok, this.1, Grp.vokL_of g [] this.1], [], this.2⟩
  | .brackets g => fun pre post h => by
    have := valid_group pre post (Grp.printL g) 91 93 (by decide) (by decide) h
    exact ⟨by simp [Grp.vok, this.1, Grp.vokL_of g [] this.1], [], this.2⟩
  | .braces g => fun pre post h => by
    have := valid_group pre post (Grp.printL g) 123 125 (by decide) (by decide) h
    exact ⟨by simp [Grp.vok, this.1, Grp.vokL_of g [] this.1], [], this.2⟩
  | .str items => fun pre post h => by
    have := valid_group pre post (strBody items) 34 34 (by decide) (by decide) h
    exact ⟨rfl, [], this.2⟩
  | .comment body => fun pre post h => by
    have e : pre ++ Grp.print (.comment body) ++ post = pre ++ ([47] ++ (42 :: (body ++ [42])) ++ [47]) ++ post := by
      simp [Grp.print]
    rw [e] at h
    have := valid_group pre post _ 47 47 (by decide) (by decide) h
    exact ⟨rfl, [], this.2⟩
  | .slash => fun pre post h => by
    have e : pre ++ Grp.print .slash ++ post = pre ++ 47 :: post := by simp [Grp.print]
    rw [e, validUtf8_split _ _ _ (by decide)] at h
    simp only [Bool.and_eq_true] at h
    exact ⟨rfl, [], h.2⟩
theorem Grp.vokL_of : (g : List Grp) → ∀ pre, validUtf8 (pre ++ Grp.printL g) = true → Grp.vokL g = true
  | [] => fun _ _ => rfl
  | x :: r => fun pre h => by
    have e : pre ++ Grp.printL (x :: r) = pre ++ x.print ++ Grp.printL r := by simp [Grp.printL]
    rw [e] at h
    obtain ⟨h1, pre', h2⟩ := Grp.vok_of x pre _ h
    simp [Grp.vokL, h1, Grp.vokL_of r pre' h2]
end

theorem Grp.wfL_cons (x : Grp) (r : List Grp) (h : Grp.wfL (x :: r) = true) :
    x.wf = true ∧ Grp.wfL r = true ∧ (x = .slash → ∀ X t, (∀ t, X ≠ 42 :: t) → Grp.printL r ++ X ≠ 42 :: t) := by
  by_cases hx : x = .slash
  · subst hx
    rw [Grp.wfL.eq_2] at h
    simp only [Bool.and_eq_true] at h
    refine ⟨rfl, h.2, fun _ X t hX => ?_⟩
    have h1 := h.1
    cases hp : Grp.printL r with
    | nil => exact hX t
    | cons c pr =>
      rw [hp] at h1
      intro e
      have : c = 42 := (List.cons.inj e).1
      subst this
      simp at h1
  · rw [Grp.wfL.eq_3 x r hx] at h
    simp only [Bool.and_eq_true] at h
    exact ⟨h.1, h.2, fun e => absurd e hx⟩

/- **the shared induction**: in each of the three loops (any step `s` satisfying `StepSpec` at a level
`k` above the fuel need), documented content in front of `X` is absorbed down to `X` -/
mutual
theorem Grp.absorb : (x : Grp) → x.wf = true → x.vok = true → ∀ k, x.fuel < k →
    ∀ s pl, StepSpec s pl k → ∀ X T, (x = .slash → ∀ t, X ≠ 42 :: t) →
    GInv s pl T X → GInv s pl T (x.print ++ X)
  | .plain b => fun hw _ k _ s pl hs X T _ hinv => by
    have hb : pl b = true := hs.pl_of b hw
    exact ginv_plain hs b hb hinv.2
  | .parens g => fun hw hv k hk s pl hs X T _ hinv => by
    simp only [Grp.wf] at hw
    simp only [Grp.vok, Bool.and_eq_true] at hv
    simp only [Grp.fuel] at hk
    obtain ⟨i, rfl⟩ : ∃ i, k = i + 3 := ⟨k - 3, by omega⟩
    have h1 := Grp.absorbL g hw hv.2 (i + 1) (by omega) _ _ (specP i) (41 :: X) (41 :: X) (by simp)
      (ginv_stop (by decide) (stepP_stop i X))
    have h2 := exprInsideParens_of_loop (i + 1) _ X h1.1 hv.1
    have h3 := hs.parens _ _ _ (exprInParens_of_inside (i + 2) _ X h2 hv.1)
    have e : Grp.print (.parens g) ++ X = 40 :: (Grp.printL g ++ 41 :: X) := by simp [Grp.print]
    rw [e]
    exact ginv_token' 40 _ hs.npl.1 h3 (by simp; omega) hinv.1
  | .brackets g => fun hw hv k hk s pl hs X T _ hinv => by
    simp only [Grp.wf] at hw
    simp only [Grp.vok, Bool.and_eq_true] at hv
    simp only [Grp.fuel] at hk
    obtain ⟨i, rfl⟩ : ∃ i, k = i + 2 := ⟨k - 2, by omega⟩
    have h1 := Grp.absorbL g hw hv.2 (i + 1) (by omega) _ _ (specB i) (93 :: X) (93 :: X) (by simp)
      (ginv_stop (by decide) (stepB_stop i X))
    have h3 := hs.brackets _ _ _ (exprInBrackets_of_loop (i + 1) _ X h1.1 hv.1)
    have e : Grp.print (.brackets g) ++ X = 91 :: (Grp.printL g ++ 93 :: X) := by simp [Grp.print]
    rw [e]
    exact ginv_token' 91 _ hs.npl.2.1 h3 (by simp; omega) hinv.1
  | .braces g => fun hw hv k hk s pl hs X T _ hinv => by
    simp only [Grp.wf] at hw
    simp only [Grp.vok, Bool.and_eq_true] at hv
    simp only [Grp.fuel] at hk
    have e : Grp.print (.braces g) ++ X = 123 :: (Grp.printL g ++ 125 :: X) := by simp [Grp.print]
    rw [e]
    cases h123 : pl 123 with
    | false =>
      obtain ⟨i, rfl⟩ : ∃ i, k = i + 2 := ⟨k - 2, by omega⟩
      have h1 := Grp.absorbL g hw hv.2 (i + 1) (by omega) _ _ (specC i) (125 :: X) (125 :: X) (by simp)
        (ginv_stop (by decide) (stepC_stop i X))
      have h3 := hs.braces h123 _ _ _ (exprInBraces_of_loop (i + 1) _ X h1.1 hv.1)
      exact ginv_token' 123 _ h123 h3 (by simp; omega) hinv.1
    | true =>
      -- inside brackets `{` and `}` are plain bytes: the content is scanned by the same loop
      have h125 := hs.brace_close h123
      have h1 := Grp.absorbL g hw hv.2 k (by omega) s pl hs (125 :: X) T (by simp)
        (ginv_plain hs 125 h125 hinv.2)
      exact ginv_plain hs 123 h123 h1.2
  | .str items => fun hw _ k _ s pl hs X T _ hinv => by
    simp only [Grp.wf, Bool.and_eq_true, List.all_eq_true] at hw
    have h2 := quotedString_complete items hw.1 hw.2 X
    have e : Grp.print (.str items) ++ X = 34 :: (strBody items ++ 34 :: X) := by
      simp [Grp.print, printStr_eq]
    rw [← Grp.print.eq_5, e] at h2
    rw [e]
    exact ginv_token' 34 _ hs.npl.2.2.1 (hs.quote _ _ _ h2) (by simp; omega) hinv.1
  | .comment body => fun hw _ k _ s pl hs X T _ hinv => by
    simp only [Grp.wf] at hw
    have h2 := rustComment_complete body X hw
    have e : Grp.print (.comment body) ++ X = 47 :: 42 :: (body ++ 42 :: 47 :: X) := by
      simp [Grp.print]
    rw [← Grp.print.eq_6, e] at h2
    rw [e]
    exact ginv_token' 47 _ hs.npl.2.2.2 (hs.comment _ _ _ h2) (by simp; omega) hinv.1
  | .slash => fun _ _ k _ s pl hs X T hX hinv => by
    exact ginv_token' 47 X hs.npl.2.2.2 (hs.slash X (hX rfl)) (by simp) hinv.1
theorem Grp.absorbL : (g : List Grp) → Grp.wfL g = true → Grp.vokL g = true → ∀ k, Grp.fuelL g < k →
    ∀ s pl, StepSpec s pl k → ∀ X T, (∀ t, X ≠ 42 :: t) →
    GInv s pl T X → GInv s pl T (Grp.printL g ++ X)
  | [] => fun _ _ _ _ _ _ _ _ _ _ hinv => hinv
  | x :: r => fun hw hv k hk s pl hs X T hX hinv => by
    obtain ⟨hw1, hw2, hw3⟩ := Grp.wfL_cons x r hw
    simp only [Grp.vokL, Bool.and_eq_true] at hv
    simp only [Grp.fuelL] at hk
    have h1 := Grp.absorbL r hw2 hv.2 k (by omega) s pl hs X T hX hinv
    have h2 := Grp.absorb x hw1 hv.1 k (by omega) s pl hs _ T (fun e t => hw3 e X t hX) h1
    have e : Grp.printL (x :: r) ++ X = x.print ++ (Grp.printL r ++ X) := by simp [Grp.printL]
    rw [e]
    exact h2
end

/-- **`@( .. )` ends at its matching parenthesis**: documented group content followed by `)` is
taken in full by the scanner between the parentheses — delimiters inside string literals and
comments are hidden, nested groups are balanced (sharp fuel bound) -/
theorem exprInsideParens_complete_fuel (g : List Grp) (hw : Grp.wfL g = true) (hv : validUtf8 (Grp.printL g) = true)
    (rest : Bytes) (n : Nat) (hn : Grp.fuelL g + 1 < n) :
    exprInsideParens n (Grp.printL g ++ [41] ++ rest) = .ok ([41] ++ rest) (Grp.printL g) := by
  obtain ⟨i, rfl⟩ : ∃ i, n = i + 2 := ⟨n - 2, by omega⟩
  have h1 := Grp.absorbL g hw (Grp.vokL_of g [] hv) (i + 1) (by omega) _ _ (specP i) (41 :: rest) (41 :: rest)
    (by simp) (ginv_stop (by decide) (stepP_stop i rest))
  have := exprInsideParens_of_loop (i + 1) _ rest h1.1 hv
  simpa using this

/-- a parenthesised group is taken in full, whatever follows (sharp fuel bound) -/
theorem exprInParens_complete_fuel (g : List Grp) (hw : Grp.wfL g = true) (hv : validUtf8 (Grp.printL g) = true)
    (rest : Bytes) (n : Nat) (hn : Grp.fuelL g + 2 < n) :
    exprInParens n ([40] ++ Grp.printL g ++ [41] ++ rest) = .ok rest ([40] ++ Grp.printL g ++ [41]) := by
  obtain ⟨i, rfl⟩ : ∃ i, n = i + 1 := ⟨n - 1, by omega⟩
  have h1 := exprInsideParens_complete_fuel g hw hv rest i (by omega)
  have := exprInParens_of_inside i (Grp.printL g) rest (by simpa using h1) hv
  simpa using this

/- ORIGINAL STATEMENT (false: the fuel bound is too small — `exprInParens` spends two units of fuel per
nesting level, and one extra unit is needed so that the innermost loop can try and *fail* its recursive
alternatives at the closing delimiter instead of running out of fuel.  Counterexample: `g = []`,
`rest = []`, `n = 1`: `exprInsideParens 1 [41] = .oom`, because `exprInBraces 0 = .oom` is tried at `)`.)

theorem exprInsideParens_complete (g : List Grp) (hw : Grp.wfL g = true) (hv : validUtf8 (Grp.printL g) = true)
    (rest : Bytes) (n : Nat) (hn : Grp.depthL g < n) :
    exprInsideParens n (Grp.printL g ++ [41] ++ rest) = .ok ([41] ++ rest) (Grp.printL g)
-/
/-- corrected: `2 * depth + 1 < n` in place of `depth < n` -/
theorem exprInsideParens_complete (g : List Grp) (hw : Grp.wfL g = true) (hv : validUtf8 (Grp.printL g) = true)
    (rest : Bytes) (n : Nat) (hn : 2 * Grp.depthL g + 1 < n) :
    exprInsideParens n (Grp.printL g ++ [41] ++ rest) = .ok ([41] ++ rest) (Grp.printL g) :=
  exprInsideParens_complete_fuel g hw hv rest n (by have := Grp.fuelL_le g; omega)

/- ORIGINAL STATEMENT (false for the same reason; counterexample `g = []`, `rest = []`, `n = 2`:
`exprInParens 2 [40, 41] = .oom`)

theorem exprInParens_complete (g : List Grp) (hw : Grp.wfL g = true) (hv : validUtf8 (Grp.printL g) = true)
    (rest : Bytes) (n : Nat) (hn : Grp.depthL g + 1 < n) :
    exprInParens n ([40] ++ Grp.printL g ++ [41] ++ rest) = .ok rest ([40] ++ Grp.printL g ++ [41])
-/
/-- corrected: `2 * depth + 2 < n` in place of `depth + 1 < n` -/
theorem exprInParens_complete (g : List Grp) (hw : Grp.wfL g = true) (hv : validUtf8 (Grp.printL g) = true)
    (rest : Bytes) (n : Nat) (hn : 2 * Grp.depthL g + 2 < n) :
    exprInParens n ([40] ++ Grp.printL g ++ [41] ++ rest) = .ok rest ([40] ++ Grp.printL g ++ [41]) :=
  exprInParens_complete_fuel g hw hv rest n (by have := Grp.fuelL_le g; omega)

/- what may follow an expression: the chain cannot be continued on `rest`.

ORIGINAL DEFINITION quantified over all `n` (`∀ n, … ∨ …`), which makes `Stops rest` FALSE for every
`rest`: at `n = 0` the third alternative `exprInParens 0` is `.oom`, so the `alt` is never `.err`
(and at `n = 1` the `.` case runs out of fuel inside `expression 1`, whose atoms are at fuel 0).
Corrected: `2 ≤ n →`. -/
def Stops (rest : Bytes) : Prop :=
  ∀ n, 2 ≤ n → ((alt [
    value () (preceded (context "separator" (tag (str "."))) (expression n)),
    value () (preceded (tag (str "::")) (expression n)),
    value () (exprInParens n), value () (exprInBraces n), value () (exprInBrackets n),
    value () (preceded (tag (str "!")) (exprInParens n)),
    value () (preceded (tag (str "!")) (exprInBrackets n))] : Parser Unit) rest = .err [] ∨
  ∃ e, (alt [
    value () (preceded (context "separator" (tag (str "."))) (expression n)),
    value () (preceded (tag (str "::")) (expression n)),
    value () (exprInParens n), value () (exprInBraces n), value () (exprInBrackets n),
    value () (preceded (tag (str "!")) (exprInParens n)),
    value () (preceded (tag (str "!")) (exprInBrackets n))] : Parser Unit) rest = .err e)

theorem stops_iff (rest : Bytes) : Stops rest ↔ ∀ n, 2 ≤ n → ∃ e, chainStep n rest = .err e := by
  unfold Stops
  simp only [← chainStep_eq]
  constructor
  · intro h n hn
    rcases h n hn with h | h
    · exact ⟨_, h⟩
    · exact h
  · intro h n hn
    exact Or.inr (h n hn)

/-- the documented followers stop an expression: end of input, a space, `<`, `@`, `,`, `)`, `}`,
and a `.` that is not followed by an expression start -/
theorem stops_eof : Stops [] := by
  rw [stops_iff]
  intro n hn
  obtain ⟨m, rfl⟩ : ∃ m, n = m + 1 := ⟨n - 1, by omega⟩
  exact ⟨_, chainStep_stop m [] (fun _ _ e => by simp at e)⟩

theorem stops_simple (b : UInt8) (r : Bytes) (hb : b = 32 ∨ b = 60 ∨ b = 64 ∨ b = 44 ∨ b = 41 ∨ b = 125 ∨ b = 10) :
    Stops (b :: r) := by
  rw [stops_iff]
  intro n hn
  obtain ⟨m, rfl⟩ : ∃ m, n = m + 1 := ⟨n - 1, by omega⟩
  refine ⟨_, chainStep_stop m _ ?_⟩
  intro b' x e
  obtain ⟨rfl, _⟩ := List.cons.inj e
  rcases hb with rfl | rfl | rfl | rfl | rfl | rfl | rfl <;> decide

theorem stops_dot_nonident (c : UInt8) (r : Bytes)
    (hc : c = 32 ∨ c = 60 ∨ c = 64 ∨ c = 41 ∨ c = 125 ∨ c = 10 ∨ c = 46) : Stops (46 :: c :: r) := by
  rw [stops_iff]
  intro n hn
  obtain ⟨m, rfl⟩ : ∃ m, n = m + 2 := ⟨n - 2, by omega⟩
  refine ⟨_, chainStep_dot (m + 1) _ (expression_head m (c :: r) ?_)⟩
  intro b' x e
  obtain ⟨rfl, _⟩ := List.cons.inj e
  rcases hc with rfl | rfl | rfl | rfl | rfl | rfl | rfl <;> decide

theorem stops_dot_eof : Stops [46] := by
  rw [stops_iff]
  intro n hn
  obtain ⟨m, rfl⟩ : ∃ m, n = m + 2 := ⟨n - 2, by omega⟩
  exact ⟨_, chainStep_dot (m + 1) _ (expression_head m [] (fun _ _ e => by simp at e))⟩

theorem nameStart_facts (b : UInt8) (hb : isNameStart b = true) :
    (isAlpha b = true ∨ b = 95) ∧ b ≠ 38 ∧ b ≠ 42 := by
  have h : isAlpha b = true ∨ b = 95 := by simpa [isNameStart] using hb
  refine ⟨h, ?_, ?_⟩ <;> (rintro rfl; revert h; decide)

/- ORIGINAL STATEMENT had no hypothesis on `n`; with the corrected `Stops` (which says nothing below
fuel 2) it needs `2 ≤ n`: e.g. `expression 1 (str "abc ") = .oom`. -/
/-- **a name (or path, or method chain head) followed by a documented follower is taken in full**:
`@name` + follower — the simplest instance of the documented maximal form -/
theorem expression_name_complete (b : UInt8) (cs rest : Bytes) (hb : isNameStart b = true) (hc : cs.all isNameChar = true)
    (hr : ∀ c r, rest = c :: r → isNameChar c = false) (hs : Stops rest) (n : Nat) (hn : 2 ≤ n) :
    expression (n + 1) (b :: cs ++ rest) = .ok rest (b :: cs) := by
  have hname := rustName_complete b cs rest hb hc hr
  obtain ⟨e, he⟩ := (stops_iff rest).mp hs n hn
  have hb' := nameStart_facts b hb
  exact expression_of_parts n (b :: cs) rest b (cs ++ rest) rest (b :: cs) hb'.2 rfl
    (alt_cons_ok hname) (foldMany0_stop he) (rustName_valid hname)

/- ORIGINAL fuel hypothesis: `hn : Grp.depthL g + 1 < n` (too small, see `exprInParens_complete`). -/
/-- **call / index chain**: `name(..)` followed by a documented follower is taken in full -/
theorem expression_call_complete (b : UInt8) (cs : Bytes) (g : List Grp) (rest : Bytes)
    (hb : isNameStart b = true) (hc : cs.all isNameChar = true)
    (hw : Grp.wfL g = true) (hv : validUtf8 (Grp.printL g) = true) (hs : Stops rest) (n : Nat)
    (hn : 2 * Grp.depthL g + 2 < n) :
    expression (n + 1) (b :: cs ++ [40] ++ Grp.printL g ++ [41] ++ rest) = .ok rest (b :: cs ++ [40] ++ Grp.printL g ++ [41]) := by
  have hgrp := exprInParens_complete g hw hv rest n hn
  have hname := rustName_complete b cs ([40] ++ Grp.printL g ++ [41] ++ rest) hb hc
    (fun c r e => by
      obtain ⟨rfl, _⟩ := List.cons.inj (show 40 :: (Grp.printL g ++ [41] ++ rest) = c :: r from e)
      decide)
  obtain ⟨e, he⟩ := (stops_iff rest).mp hs n (by omega)
  have hb' := nameStart_facts b hb
  have hvalid : validUtf8 (b :: cs ++ [40] ++ Grp.printL g ++ [41]) = true := by
    have e : b :: cs ++ [40] ++ Grp.printL g ++ [41] = (b :: cs) ++ 40 :: (Grp.printL g ++ 41 :: []) := by simp
    rw [e, validUtf8_split _ _ _ (by decide), validUtf8_split _ _ _ (by decide), rustName_valid hname, hv]
    rfl
  have hchain : foldMany0 (chainStep n) ([40] ++ Grp.printL g ++ [41] ++ rest) = .ok rest () :=
    foldMany0_one (chainStep_paren n _ _ _ hgrp) (by simp; omega) he
  have := expression_of_parts n (b :: cs ++ [40] ++ Grp.printL g ++ [41]) rest b
    (cs ++ [40] ++ Grp.printL g ++ [41] ++ rest) ([40] ++ Grp.printL g ++ [41] ++ rest) (b :: cs) hb'.2
    (by simp) (alt_cons_ok (by simpa using hname)) hchain hvalid
  simpa using this

end Ructe.C05
