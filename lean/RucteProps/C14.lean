import RucteModel

/-! # C14 — placeholder: theorems are added as they are proved. -/
namespace Ructe.C14
theorem placeholder : True := trivial
end Ructe.C14
