import RucteProofs.ExecSpec

/-!
# C14 — sink failures propagate and the output is always a prefix

`execL sem prog n (lowerList body) env sink` is the meaning of the generated function body
(every statement ends in `?`), `renderL …` the full rendering; `sem` (the meaning of the user's
Rust fragments) and the sink schedule are universally quantified.
-/
namespace Ructe.C14
open Nom
open Esc (Sink IoRes Resp WSpec Benign)

/-- **prefix**: whatever the sink does, what it accepted is a prefix of the full rendering -/
theorem exec_prefix (sem : Sem) (prog : Prog) (n : Nat) (body : List RS) (env : Env) (s : Sink) (out : Bytes)
    (h : renderL sem prog n body env = some out) :
    ∃ k, (execL sem prog n body env s).1.got = s.got ++ out.take k := by
  have := (exec_realises sem prog n).2.1 body env s
  rw [h] at this
  exact this.pre

/-- the function returns `Ok` only if the whole rendering arrived -/
theorem exec_ok_complete (sem : Sem) (prog : Prog) (n : Nat) (body : List RS) (env : Env) (s : Sink) (out : Bytes)
    (h : renderL sem prog n body env = some out) (hok : (execL sem prog n body env s).2 = .ok) :
    (execL sem prog n body env s).1.got = s.got ++ out := by
  have := (exec_realises sem prog n).2.1 body env s
  rw [h] at this
  exact this.all hok

/-- **schedule irrelevant**: partial writes and `Interrupted` do not change the final output -/
theorem exec_schedule_irrelevant (sem : Sem) (prog : Prog) (n : Nat) (body : List RS) (env : Env) (s : Sink) (out : Bytes)
    (h : renderL sem prog n body env = some out) (hb : Benign s.sched) :
    (execL sem prog n body env s).2 = .ok ∧ (execL sem prog n body env s).1.got = s.got ++ out := by
  have := (exec_realises sem prog n).2.1 body env s
  rw [h] at this
  exact ⟨this.ben hb, this.all (this.ben hb)⟩

/-- **stop at the first error**: once a statement has failed, no later statement runs — the
function returns that error with the sink exactly as the failing statement left it -/
theorem exec_err_stops (sem : Sem) (prog : Prog) (n : Nat) (st : RS) (rest : List RS) (env : Env) (s s' : Sink)
    (h : execS sem prog n st env s = (s', .err)) :
    execL sem prog (n + 1) (st :: rest) env s = (s', .err) := by
  simp [execL, h]

/-- the same inside loops: a failing iteration ends the loop -/
theorem iter_err_stops (sem : Sem) (prog : Prog) (n : Nat) (body : List RS) (e : Env) (es : List Env) (s s' : Sink)
    (h : execL sem prog n body e s = (s', .err)) :
    execIter sem prog (n + 1) body (e :: es) s = (s', .err) := by
  simp [execIter, h]

/-- a sink that fails (not benign) and a rendering longer than what it accepted ⇒ an error is returned -/
theorem exec_incomplete_is_err (sem : Sem) (prog : Prog) (n : Nat) (body : List RS) (env : Env) (s : Sink) (out : Bytes)
    (h : renderL sem prog n body env = some out)
    (hshort : (execL sem prog n body env s).1.got ≠ s.got ++ out) :
    (execL sem prog n body env s).2 = .err := by
  have := (exec_realises sem prog n).2.1 body env s
  rw [h] at this
  cases hres : (execL sem prog n body env s).2 with
  | err => rfl
  | ok => exact absurd (this.all hres) hshort

end Ructe.C14
