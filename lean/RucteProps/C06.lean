import RucteProofs.Html

/-!
# C06 — explicitly raw output is emitted verbatim, exactly once

`Esc.toHtmlRaw` = `Html(x).to_html(out)` (`write!(out, "{}", x)`), `toBufferDisplay` =
`to_buffer()` of a `Display` value, `bufferToHtml` = `HtmlBuffer::to_html`,
`bufferToBuffer` = `to_buffer()` of a buffer, `bufferEq` = the two `PartialEq` impls.
-/
namespace Esc.C06

/-- `Html(x)` writes exactly the `Display` text, unescaped, under every benign schedule
and every chunking. -/
theorem html_raw (ps : List Bytes) (s : Sink) (hb : Benign s.sched) :
    (toHtmlRaw ps s).2 = .ok ∧ (toHtmlRaw ps s).1.got = s.got ++ ps.flatten := by
  have h := toHtmlRaw_spec ps s
  exact ⟨h.ben hb, h.all (h.ben hb)⟩

/-- … and for every schedule whatsoever a prefix of it (never anything else). -/
theorem html_raw_prefix (ps : List Bytes) (s : Sink) :
    (∃ k, (toHtmlRaw ps s).1.got = s.got ++ ps.flatten.take k) ∧
    ((toHtmlRaw ps s).2 = .ok → (toHtmlRaw ps s).1.got = s.got ++ ps.flatten) :=
  ⟨(toHtmlRaw_spec ps s).pre, (toHtmlRaw_spec ps s).all⟩

theorem benign_nil : Benign [] := by intro r hr; cases hr

/-- `to_buffer()` holds exactly the bytes `to_html` writes (to any benign sink, after `got`). -/
theorem toBuffer_eq (ps : List Bytes) : toBufferDisplay ps = some (escape ps.flatten) := by
  have h := toHtmlDisplay_spec ps perfect
  unfold toBufferDisplay
  have hok := h.ben benign_nil
  have hall := h.all hok
  cases hw : toHtmlDisplay ps perfect with
  | mk s' res =>
    rw [hw] at hok hall
    simp only at hok hall
    subst hok
    simp [hall, perfect]

theorem toBuffer_eq_to_html (ps : List Bytes) (s : Sink) (hb : Benign s.sched) :
    ∃ buf, toBufferDisplay ps = some buf ∧ (toHtmlDisplay ps s).1.got = s.got ++ buf := by
  refine ⟨escape ps.flatten, toBuffer_eq ps, ?_⟩
  have h := toHtmlDisplay_spec ps s
  exact h.all (h.ben hb)

theorem toBufferRaw_eq (ps : List Bytes) : toBufferRaw ps = some ps.flatten := by
  have h := toHtmlRaw_spec ps perfect
  unfold toBufferRaw
  have hok := h.ben benign_nil
  have hall := h.all hok
  cases hw : toHtmlRaw ps perfect with
  | mk s' res =>
    rw [hw] at hok hall
    simp only at hok hall
    subst hok
    simp [hall, perfect]

/-- An `HtmlBuffer` interpolated again is written verbatim (under every benign schedule). -/
theorem buffer_verbatim (buf : Bytes) (s : Sink) (hb : Benign s.sched) :
    (bufferToHtml buf s).2 = .ok ∧ (bufferToHtml buf s).1.got = s.got ++ buf := by
  have h := writeAllSink_wspec s buf
  exact ⟨h.ben hb, h.all (h.ben hb)⟩

theorem buffer_prefix (buf : Bytes) (s : Sink) :
    ∃ k, (bufferToHtml buf s).1.got = s.got ++ buf.take k := (writeAllSink_wspec s buf).pre

/-- `to_buffer()` of a buffer is the same buffer: never escaped a second time. -/
theorem buffer_roundtrip (buf : Bytes) : bufferToBuffer buf = some buf := by
  have h := writeAllSink_wspec perfect buf
  unfold bufferToBuffer bufferToHtml
  have hok := h.ben benign_nil
  have hall := h.all hok
  cases hw : writeAllSink perfect buf with
  | mk s' res =>
    rw [hw] at hok hall
    simp only at hok hall
    subst hok
    simp [hall, perfect]

/-- value → to_buffer → to_buffer = value → to_buffer -/
theorem toBuffer_idempotent (ps : List Bytes) :
    (toBufferDisplay ps).bind bufferToBuffer = toBufferDisplay ps := by
  rw [toBuffer_eq]; simp [buffer_roundtrip]

theorem escape_length_ge (s : Bytes) : s.length ≤ (escape s).length := by
  induction s with
  | nil => simp [escape]
  | cons c r ih =>
    simp only [escape]
    split
    · have : (entity c).length ≥ 1 := by unfold entity; (repeat' split) <;> simp
      simp; omega
    · simp; omega

theorem escape_length_gt (s : Bytes) (h : ∃ c ∈ s, isSpecial c = true) : s.length < (escape s).length := by
  induction s with
  | nil => obtain ⟨c, hc, _⟩ := h; cases hc
  | cons c r ih =>
    simp only [escape]
    by_cases hc : isSpecial c = true
    · have : (entity c).length ≥ 4 := by unfold entity; (repeat' split) <;> simp
      have := escape_length_ge r
      simp [hc]; omega
    · obtain ⟨d, hd, hsp⟩ := h
      rw [List.mem_cons] at hd
      cases hd with
      | inl h' => subst h'; exact absurd hsp hc
      | inr h' => have := ih ⟨d, h', hsp⟩; simp [hc]; omega

theorem escape_has_amp (s : Bytes) (h : ∃ c ∈ s, isSpecial c = true) : ∃ c ∈ escape s, isSpecial c = true := by
  induction s with
  | nil => obtain ⟨c, hc, _⟩ := h; cases hc
  | cons c r ih =>
    simp only [escape]
    by_cases hc : isSpecial c = true
    · refine ⟨38, ?_, by decide⟩
      simp only [hc, if_true, List.mem_append]
      left; unfold entity; (repeat' split) <;> simp
    · obtain ⟨d, hd, hsp⟩ := h
      rw [List.mem_cons] at hd
      cases hd with
      | inl h' => subst h'; exact absurd hsp hc
      | inr h' =>
        obtain ⟨e, he, hes⟩ := ih ⟨d, h', hsp⟩
        exact ⟨e, by simp [hc, he], hes⟩

/-- The theorem above is not vacuous: escaping *is not* idempotent, so "verbatim, not escaped a
second time" is a real requirement on `HtmlBuffer::to_html`. -/
theorem escape_not_idempotent (s : Bytes) (h : ∃ c ∈ s, isSpecial c = true) : escape (escape s) ≠ escape s := by
  intro heq
  have := escape_length_gt (escape s) (escape_has_amp s h)
  rw [heq] at this
  omega

/-- `HtmlBuffer == bytes` / `== str` holds iff the byte strings are equal. -/
theorem buffer_eq_iff (buf other : Bytes) : bufferEq buf other = true ↔ buf = other := by
  simp [bufferEq]

/-- the buffer compares equal to what `to_html` writes -/
theorem toBuffer_compares_equal (ps : List Bytes) :
    ∃ buf, toBufferDisplay ps = some buf ∧ bufferEq buf (escape ps.flatten) = true :=
  ⟨_, toBuffer_eq ps, by simp [bufferEq]⟩

example : escape (escape [60]) ≠ escape [60] := escape_not_idempotent [60] ⟨60, by simp, by decide⟩
#guard toBufferDisplay [[97, 60], [38]] == some [97, 38, 108, 116, 59, 38, 97, 109, 112, 59]

end Esc.C06
