import RucteProps.C01Nodes

/-!
# C01 — body accounting for **every accepted template** (soundness direction)

`C15Tree.body_complete` / `C13Header.template_complete` say that every well-formed *source* parses to
its intended tree.  This file is the other direction and has no well-formedness hypothesis at all: for
**every** byte string the parser accepts, the input is the header followed by the spans of the body
nodes, in order, without gaps or overlaps (`body_accounting`); a text node's span **is** its text
(or one of the three escapes), and every other node's span starts with `@` — so every body byte that
is not part of an `@`-construct sits in exactly one top-level text node, in source order
(`literal_bytes_accounted`).  The same holds inside every block, because block bodies are parsed by the
same `template_expression` (`node_head`, `text_node_sound` are statements about that parser at any
depth).
-/
namespace Ructe.C01
open Nom Ructe.Nodes

/-- `Chain f inp parts rest`: `f` parsed the values one after the other starting at `inp`; each part is
the span it consumed together with the value; `rest` is what is left -/
inductive Chain {α : Type} (f : Parser α) : Bytes → List (Bytes × α) → Bytes → Prop
  | nil (inp : Bytes) : Chain f inp [] inp
  | cons {span mid rest : Bytes} {v : α} {ps : List (Bytes × α)} :
      f (span ++ mid) = .ok mid v → span ≠ [] → Chain f mid ps rest → Chain f (span ++ mid) ((span, v) :: ps) rest

theorem Chain.input_eq {α : Type} {f : Parser α} {inp rest : Bytes} {ps : List (Bytes × α)}
    (h : Chain f inp ps rest) : inp = (ps.map (·.1)).flatten ++ rest := by
  induction h with
  | nil inp => simp
  | cons _ _ _ ih => simp [ih, List.append_assoc]

theorem Chain.mono {α : Type} {f g : Parser α} (hfg : ∀ i r v, f i = .ok r v → g i = .ok r v)
    {inp rest : Bytes} {ps : List (Bytes × α)} (h : Chain f inp ps rest) : Chain g inp ps rest := by
  induction h with
  | nil inp => exact .nil inp
  | cons hf hne _ ih => exact .cons (hfg _ _ _ hf) hne ih

/-- the items of a `many_till` were parsed one after the other from consecutive, non-empty spans -/
theorem manyTillGo_chain {α β : Type} {f : Parser α} {g : Parser β} (hf : Sfx f) :
    ∀ n inp acc r vs w, manyTillGo f g n inp acc = .ok r (vs, w) →
      ∃ mid ps, vs = acc.reverse ++ ps.map (·.2) ∧ Chain f inp ps mid ∧ g mid = .ok r w := by
  intro n
  induction n with
  | zero => intro inp acc r vs w h; simp [manyTillGo] at h
  | succ n ih =>
    intro inp acc r vs w h
    simp only [manyTillGo] at h
    split at h
    · next r' o hg =>
      simp only [Res.ok.injEq, Prod.mk.injEq] at h
      obtain ⟨rfl, rfl, rfl⟩ := h
      exact ⟨inp, [], by simp, .nil inp, hg⟩
    · cases h
    · cases h
    · split at h
      · cases h
      · cases h
      · cases h
      · next r1 v hfv =>
        split at h
        · cases h
        · next hlen =>
          obtain ⟨mid, ps, hvs, hch, hg⟩ := ih r1 (v :: acc) r vs w h
          obtain ⟨span, hspan⟩ := hf _ _ _ hfv
          subst hspan
          have hne : span ≠ [] := by
            intro he; subst he; exact hlen (by simp)
          refine ⟨mid, (span, v) :: ps, ?_, .cons hfv hne hch, hg⟩
          simp [hvs, List.append_assoc]

theorem seq_ok_sfx {α β : Type} {p : Parser α} {q : Parser β} (hp : Good p) {inp r : Bytes} {v : α × β}
    (h : seq p q inp = .ok r v) : ∃ pre mid, inp = pre ++ mid ∧ q mid = .ok r v.2 := by
  obtain ⟨mid, h1, h2⟩ := seq_ok h
  obtain ⟨pre, hpre⟩ := hp.sfx _ _ _ h1
  exact ⟨pre, mid, hpre.symm, h2⟩

/-- **body accounting**: an accepted template is its header followed by the spans of its body nodes -/
theorem body_accounting (n : Nat) (inp rest : Bytes) (t : Template) (h : template n inp = .ok rest t) :
    ∃ (hdr : Bytes) (parts : List (Bytes × TExpr)), inp = hdr ++ (parts.map (·.1)).flatten ∧ parts.map (·.2) = t.body ∧ rest = [] ∧
      Chain (templateExpression n) (parts.map (·.1)).flatten parts [] := by
  unfold template at h
  obtain ⟨w, hw, rfl⟩ := pmap_ok h
  obtain ⟨p1, m1, e1, h1⟩ := seq_ok_sfx (by good) hw
  obtain ⟨p2, m2, e2, h2⟩ := seq_ok_sfx (by good) h1
  obtain ⟨p3, m3, e3, h3⟩ := seq_ok_sfx (by good) h2
  obtain ⟨p4, m4, e4, h4⟩ := seq_ok_sfx (by good) h3
  obtain ⟨p5, m5, e5, h5⟩ := seq_ok_sfx (by good) h4
  unfold manyTill at h5
  obtain ⟨mid, ps, hvs, hch, hg⟩ := manyTillGo_chain (f := context "Error in expression starting here:" (templateExpression n))
    (good_context (good_templateExpression n)).sfx _ _ _ _ _ _ h5
  have hmid : mid = [] := by
    unfold endOfFile at hg
    split at hg
    · rfl
    · cases hg
  subst hmid
  have hr : rest = [] := by
    unfold endOfFile at hg
    simp only [Res.ok.injEq] at hg
    exact hg.1.symm
  have hch' : Chain (templateExpression n) m5 ps [] := hch.mono (fun _ _ _ hc => context_ok hc)
  have hm5 : m5 = (ps.map (·.1)).flatten := by simpa using hch'.input_eq
  refine ⟨p1 ++ p2 ++ p3 ++ p4 ++ p5, ps, ?_, ?_, hr, hm5 ▸ hch'⟩
  · rw [e1, e2, e3, e4, e5, hm5]; simp [List.append_assoc]
  · simpa using hvs.symm

/-- a node that is not plain text starts with `@` -/
theorem node_head (n : Nat) {inp rest : Bytes} {e : TExpr} (h : templateExpression (n + 1) inp = .ok rest e) :
    (∃ t, e = .text t ∧ mapRes (isNot [64, 123, 125]) toStr inp = .ok rest t) ∨ inp.head? = some 64 := by
  rw [templateExpression_eq, headAlt_eq] at h
  obtain ⟨i, o, ho, hf⟩ := pbind_ok h
  rcases opt_ok ho with ⟨k, rfl, hk⟩ | ⟨rfl, rfl⟩
  · obtain ⟨x, c, hc, _⟩ := preceded_ok hk
    obtain ⟨hinp, _⟩ := char_ok hc
    subst hinp
    exact .inr rfl
  · simp only [str_set] at hf
    obtain ⟨t, ht, rfl⟩ := pmap_ok hf
    exact .inl ⟨t, rfl, ht⟩

/-- what a part of the body is: plain text whose span is the text itself, one of the three escapes, or an
`@`-construct (its span starts with `@`) that produces no literal text of its own at this level -/
theorem part_kinds (n : Nat) (span mid : Bytes) (e : TExpr) (hne : span ≠ [])
    (h : templateExpression n (span ++ mid) = .ok mid e) :
    (e = .text span ∧ plainText span = true ∧ validUtf8 span = true) ∨
    (span = [64, 64] ∧ e = .text [64]) ∨ (span = [64, 123] ∧ e = .text [123]) ∨ (span = [64, 125] ∧ e = .text [125]) ∨
    (span.head? = some 64 ∧ ∀ t, e ≠ .text t) := by
  cases n with
  | zero => simp [templateExpression] at h
  | succ n =>
    rcases node_shape n h with ⟨t, rfl, hm⟩ | ⟨rfl, hi⟩ | ⟨rfl, hi⟩ | ⟨rfl, hi⟩ | ⟨rfl, x, hi, _⟩ |
      ⟨a, b, rfl⟩ | ⟨a, b, c, rfl⟩ | ⟨a, b, c, rfl⟩ | ⟨a, b, rfl⟩ | ⟨a, rfl⟩
    · rcases text_node_sound (n + 1) _ _ _ h with ⟨h1, _, h3, h4, _⟩ | ⟨h1, rfl⟩ | ⟨h1, rfl⟩ | ⟨h1, rfl⟩
      · have : span = t := List.append_cancel_right h1
        subst this
        exact .inl ⟨rfl, h3, h4⟩
      · exact .inr (.inl ⟨List.append_cancel_right h1, rfl⟩)
      · exact .inr (.inr (.inl ⟨List.append_cancel_right h1, rfl⟩))
      · exact .inr (.inr (.inr (.inl ⟨List.append_cancel_right h1, rfl⟩)))
    · exact .inr (.inl ⟨List.append_cancel_right (by simpa using hi), rfl⟩)
    · exact .inr (.inr (.inl ⟨List.append_cancel_right (by simpa using hi), rfl⟩))
    · exact .inr (.inr (.inr (.inl ⟨List.append_cancel_right (by simpa using hi), rfl⟩)))
    all_goals
      refine .inr (.inr (.inr (.inr ⟨?_, fun t ht => by cases ht⟩)))
      rcases node_head n h with ⟨t, ht, _⟩ | hh
      · cases ht
      · cases span with
        | nil => exact absurd rfl hne
        | cons b s => simpa using hh

/-- the literal text a top-level part contributes to the rendering: its bytes for plain text, the escaped
character for an escape, nothing for an `@`-construct (which renders through its own code) -/
def literalOfPart : Bytes × TExpr → Bytes
  | (_, .text t) => t
  | _ => []

/-- the kind of a part (see `part_kinds`) -/
def PartOk (p : Bytes × TExpr) : Prop :=
  (p.2 = .text p.1 ∧ plainText p.1 = true) ∨
  (p.1 = [64, 64] ∧ p.2 = .text [64]) ∨ (p.1 = [64, 123] ∧ p.2 = .text [123]) ∨ (p.1 = [64, 125] ∧ p.2 = .text [125]) ∨
  (p.1.head? = some 64 ∧ ∀ x, p.2 ≠ .text x)

theorem Chain.parts_ok (n : Nat) {src fin : Bytes} {ps : List (Bytes × TExpr)}
    (h : Chain (templateExpression n) src ps fin) : ∀ p ∈ ps, PartOk p := by
  induction h with
  | nil _ => intro p hp; cases hp
  | cons hf hne _ ih =>
    intro p hp
    rcases List.mem_cons.mp hp with rfl | hp'
    · rcases part_kinds n _ _ _ hne hf with ⟨a, b, _⟩ | h | h | h | h
      · exact .inl ⟨a, b⟩
      · exact .inr (.inl h)
      · exact .inr (.inr (.inl h))
      · exact .inr (.inr (.inr (.inl h)))
      · exact .inr (.inr (.inr (.inr h)))
    · exact ih p hp'

/-- **every literal byte is accounted for**: for every accepted template, every part of the body is
either an `@`-construct (span starting with `@`) or literal text whose node carries exactly the span's
bytes (with `@@`, `@{`, `@}` standing for `@`, `{`, `}`) — nothing is dropped, duplicated or reordered -/
theorem literal_bytes_accounted (n : Nat) (inp rest : Bytes) (t : Template) (h : template n inp = .ok rest t) :
    ∃ (hdr : Bytes) (parts : List (Bytes × TExpr)), inp = hdr ++ (parts.map (·.1)).flatten ∧ parts.map (·.2) = t.body ∧
      ∀ p ∈ parts, PartOk p := by
  obtain ⟨hdr, parts, h1, h2, _, hch⟩ := body_accounting n inp rest t h
  exact ⟨hdr, parts, h1, h2, hch.parts_ok n⟩

/-- the same inside every block: the nodes of a block body, a match arm or a block argument are parsed by
the same `template_expression`, so any run of consecutive nodes anywhere in the tree is a chain of such parts -/
theorem nested_parts_ok (n : Nat) {src fin : Bytes} {ps : List (Bytes × TExpr)}
    (h : Chain (templateExpression n) src ps fin) :
    src = (ps.map (·.1)).flatten ++ fin ∧ ∀ p ∈ ps, PartOk p :=
  ⟨h.input_eq, h.parts_ok n⟩

/-- **inside a block** (`@if` / `else` / `@for` bodies, `@match` arms): a block is `{`, the spans of its
nodes in order, `}` — and every node is again literal text carrying exactly its span, an escape, or an
`@`-construct.  By induction over the tree this is the statement for every nesting position. -/
theorem block_accounting (n : Nat) (inp rest : Bytes) (body : List TExpr)
    (h : templateBlock (n + 1) inp = .ok rest body) :
    ∃ parts : List (Bytes × TExpr), inp = [123] ++ (parts.map (·.1)).flatten ++ [125] ++ rest ∧
      parts.map (·.2) = body ∧ ∀ p ∈ parts, PartOk p := by
  rw [templateBlock] at h
  obtain ⟨r1, c, hc, hq⟩ := preceded_ok h
  obtain ⟨hinp, _⟩ := char_ok hc
  obtain ⟨w, hw, rfl⟩ := pmap_ok hq
  unfold manyTill at hw
  obtain ⟨vs, w2⟩ := w
  obtain ⟨mid, ps, hvs, hch, hg⟩ := manyTillGo_chain (f := context "Error in expression starting here:" (templateExpression n))
    (good_context (good_templateExpression n)).sfx _ _ _ _ _ _ hw
  obtain ⟨hmid, _⟩ := char_ok hg
  have hch' : Chain (templateExpression n) r1 ps mid := hch.mono (fun _ _ _ hc => context_ok hc)
  refine ⟨ps, ?_, by simpa using hvs.symm, hch'.parts_ok n⟩
  rw [hinp, hch'.input_eq, hmid]
  simp [List.append_assoc]

/-! Non-vacuity (evaluated): a concrete accepted template; its body has the five parts `Hi `, `@@`, ` `,
`@name`, `!` -/
#guard (match template 40 (str "@()\nHi @@ @name!") with | .ok r t => r == [] && t.body.length == 5 | _ => false)

end Ructe.C01
