import RucteModel.Statics
import RucteProofs.BTree

/-!
# C09 — STATICS is complete and sorted; lookup by name is exact

`btInsert` = `BTreeMap<String,String>::insert` on a strictly sorted association list
(byte-lexicographic keys, `bytesLt`), `staticsLine` = what `Drop for StaticFiles` prints,
`binarySearch` = the halving search of `binary_search_by_key` on the sorted `STATICS` array.
-/
namespace Ructe.C09
open Nom

/-- the URL names (keys of `names_r`) in the order `STATICS` lists them -/
def staticsOrder (namesR : List (Bytes × Bytes)) : List Bytes := namesR.map (·.1)

/-- after any sequence of inserts into the empty map the list is strictly sorted by key -/
theorem btree_insert_sorted (ops : List (Bytes × Bytes)) :
    StrictSorted ((ops.foldl (fun m kv => btInsert kv.1 kv.2 m) []).map (·.1)) := by
  exact foldl_btInsert_sorted ops [] trivial

/-- … and its key set is exactly the set of keys inserted (independent of the order) -/
theorem btree_keys (ops : List (Bytes × Bytes)) (k : Bytes) :
    k ∈ (ops.foldl (fun m kv => btInsert kv.1 kv.2 m) []).map (·.1) ↔ k ∈ ops.map (·.1) := by
  rw [mem_keys_foldl_btInsert]
  simp

/-- the final map does not depend on the insertion order when keys are pairwise distinct -/
theorem btree_perm (ops₁ ops₂ : List (Bytes × Bytes)) (hp : ops₁.Perm ops₂) (hd : (ops₁.map (·.1)).Nodup) :
    ops₁.foldl (fun m kv => btInsert kv.1 kv.2 m) [] = ops₂.foldl (fun m kv => btInsert kv.1 kv.2 m) [] := by
  exact foldl_btInsert_perm hp hd []

/-- the `STATICS` line lists the identifiers of `names_r` in key order: `&a, &b, …` -/
theorem staticsLine_lists (namesR : List (Bytes × Bytes)) :
    staticsLine namesR = str "\npub static STATICS: &[&StaticFile] = &[" ++
      (match namesR with
       | [] => []
       | p :: r => str "&" ++ p.2 ++ r.flatMap (fun q => str ", &" ++ q.2)) ++ str "];\n" := by
  cases namesR with
  | nil => rfl
  | cons p r => cases p; rfl

/-- invariant of the halving loop: a hit is in range and carries the key -/
theorem go_sound (arr : Array Bytes) (key : Bytes) (fuel lo hi i : Nat) (hhi : hi ≤ arr.size)
    (h : binarySearch.go arr key fuel lo hi = some i) : i < arr.size ∧ arr[i]! = key := by
  induction fuel generalizing lo hi with
  | zero => simp [binarySearch.go] at h
  | succ n ih =>
    simp only [binarySearch.go] at h
    split at h
    · next hlt =>
      split at h
      · next e =>
        cases h
        exact ⟨by omega, e⟩
      · split at h
        · exact ih _ _ hhi h
        · exact ih _ _ (by omega) h
    · cases h

/-- `get`: on a strictly sorted array the halving search finds exactly the entry with that name … -/
theorem get_sound (arr : Array Bytes) (key : Bytes) (i : Nat) (h : binarySearch arr key = some i) :
    i < arr.size ∧ arr[i]! = key :=
  go_sound arr key _ _ _ i (Nat.le_refl _) h

/-- invariant of the halving loop: with the key inside the window and enough fuel, it is found -/
theorem go_complete (arr : Array Bytes) (hs : StrictSorted arr.toList) (key : Bytes) (j : Nat) (hj : j < arr.size)
    (hkey : arr[j] = key) (fuel lo hi : Nat) (hlo : lo ≤ j) (hjh : j < hi) (hhi : hi ≤ arr.size) (hf : hi - lo < fuel) :
    ∃ i, binarySearch.go arr key fuel lo hi = some i := by
  induction fuel generalizing lo hi with
  | zero => omega
  | succ n ih =>
    simp only [binarySearch.go]
    have hlt : lo < hi := by omega
    simp only [hlt, if_true]
    have hm : (lo + hi) / 2 < arr.size := by omega
    rw [getElem!_pos arr _ hm]
    split
    · exact ⟨_, rfl⟩
    · next hne =>
      split
      · next hb =>
        -- arr[mid] < key = arr[j], so mid < j
        refine ih _ _ ?_ hjh hhi (by omega)
        apply Nat.succ_le_of_lt
        apply Nat.lt_of_not_le
        intro hle
        rcases Nat.lt_or_eq_of_le hle with hl | he
        · have := hs.getElem_lt hl (by simpa using hm)
          simp only [Array.getElem_toList] at this
          rw [hkey] at this
          rw [bytesLt_asymm this] at hb
          cases hb
        · subst he; exact hne hkey
      · next hb =>
        refine ih _ _ hlo ?_ (by omega) (by omega)
        apply Nat.lt_of_not_le
        intro hle
        rcases Nat.lt_or_eq_of_le hle with hl | he
        · have := hs.getElem_lt hl (by simpa using hj)
          simp only [Array.getElem_toList] at this
          rw [hkey] at this
          exact hb this
        · exact hne (by simp only [he]; exact hkey)

/-- … and finds it whenever it is present: `None` is returned for every other string only -/
theorem get_complete (arr : Array Bytes) (hs : StrictSorted arr.toList) (key : Bytes) (hk : key ∈ arr.toList) :
    ∃ i, binarySearch arr key = some i := by
  obtain ⟨j, hj, e⟩ := List.getElem_of_mem hk
  have hj' : j < arr.size := by simpa using hj
  exact go_complete arr hs key j hj' (by simpa using e) _ 0 arr.size (Nat.zero_le _) hj' (Nat.le_refl _) (by omega)

theorem get_exact (arr : Array Bytes) (hs : StrictSorted arr.toList) (key : Bytes) :
    (binarySearch arr key).isSome = true ↔ key ∈ arr.toList := by
  constructor
  · intro h
    obtain ⟨i, hi⟩ := Option.isSome_iff_exists.mp h
    obtain ⟨h1, h2⟩ := get_sound arr key i hi
    rw [getElem!_pos arr i h1] at h2
    rw [← h2]
    simp
  · intro h
    obtain ⟨i, hi⟩ := get_complete arr hs key h
    simp [hi]

/-! Non-vacuity -/
example : StrictSorted [[45], [46], [95], [97]] := by decide
#guard binarySearch #[[45], [46], [95], [97]] [95] == some 2
#guard binarySearch #[[45], [46], [95], [97]] [96] == none

end Ructe.C09
