import RucteModel

/-! # C09 — placeholder: theorems are added as they are proved. -/
namespace Ructe.C09
theorem placeholder : True := trivial
end Ructe.C09
