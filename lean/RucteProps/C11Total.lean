import RucteModel.Diag
import RucteProofs.ParserSound
import RucteProofs.ErrDiag
import RucteProofs.FuelMono
import RucteProofs.FuelAdequate
import RucteProps.C11

/-!
# C11 (continued) — a rejection always carries a diagnostic; the fuel is adequate
-/
namespace Ructe.C11
open Nom

/-- **reject_has_diag**: a rejection yields at least one (visible) diagnostic entry -/
theorem reject_has_diag (n : Nat) (inp : Bytes) (es : Errs) (h : template n inp = .err es) : es ≠ [] :=
  errNE_template n inp es h

/-- … hence `show_errors` prints at least one two-line diagnostic for it -/
theorem reject_prints_something (n : Nat) (inp : Bytes) (es : Errs) (h : template n inp = .err es) (pfx : Bytes) :
    showErrors inp es pfx ≠ [] :=
  showErrors_ne_nil inp es pfx (reject_has_diag n inp es h)

/-- **fuel monotone**: more fuel never changes a result that is not "out of fuel" -/
theorem template_fuel_mono (n : Nat) (inp : Bytes) (h : template n inp ≠ .oom) :
    template (n + 1) inp = template n inp :=
  mono_template n inp h

/-- … for any larger fuel -/
theorem template_fuel_mono_le (n m : Nat) (hnm : n ≤ m) (inp : Bytes) (h : template n inp ≠ .oom) :
    template m inp = template n inp :=
  mono_template.le hnm inp h

/-- fuel `2 * length + 3` already suffices (every cycle of the grammar's call graph consumes a byte and
spends at most two units of fuel per byte) -/
theorem template_no_oom_of_le (n : Nat) (inp : Bytes) (hn : 2 * inp.length + 3 ≤ n) : template n inp ≠ .oom :=
  tot_template hn inp (Nat.le_refl _)

/-- **fuel adequate** (termination with recursion depth linear in the input length): with the fuel
the driver uses, the parser never runs out of fuel — every byte string is either accepted or rejected -/
theorem template_no_oom (inp : Bytes) : template (8 * inp.length + 16) inp ≠ .oom :=
  template_no_oom_of_le _ inp (by omega)

/-- **total**: for every byte string the parse is an acceptance of the whole input or a rejection
with at least one diagnostic — never a panic, never non-termination -/
theorem template_total (inp : Bytes) :
    (∃ t, template (8 * inp.length + 16) inp = .ok [] t) ∨
    (∃ es, es ≠ [] ∧ template (8 * inp.length + 16) inp = .err es) := by
  cases h : template (8 * inp.length + 16) inp with
  | ok rest t =>
    left
    exact ⟨t, by rw [template_accepts_whole _ _ _ _ h]⟩
  | err es => exact .inr ⟨es, reject_has_diag _ _ _ h, rfl⟩
  | oom => exact absurd h (template_no_oom inp)
  | panic => exact absurd h (template_no_panic _ inp)

end Ructe.C11
