import RucteProofs.GenLemmas
import RucteModel.InFS

/-!
# C17, second half — "… so that adding, editing or deleting an input makes cargo run the build script again"

`C17.announced` says that every path a run reads is covered by a line of the same run.  That alone
does not yet say that the lines are *enough*: the statement the user relies on is about a later edit.
Here the input tree is explicit (`InFS`: what the operating system shows at a path — a file's bytes or
a directory's whole subtree) and the calls are as written in `build.rs` (`SOp`).

cargo's documented rule (the trusted part): the build script is run again iff, for some printed
`cargo:rerun-if-changed=q`, the file at `q`, or anything under the directory `q`, changed — i.e.
iff `t₁ q ≠ t₂ q` for the trees before and after the edit.

`rerun_sound`: if the trees before and after an edit (any edit: any number of files and directories
added, changed, deleted, anywhere) agree at every path announced by the run on the first tree —
that is, if cargo does **not** run the script again — then every call of the script gets exactly
what it got before (the same listing, the same bytes, the same failure), so a run would ask for the
same files with the same bytes and print the same lines: nothing is stale.
`change_triggers_rerun` is the contrapositive, which is what the property states.
-/
namespace Ructe.C17Rerun
open Nom

variable (ue ua : Nat → Bool) (feat : MimeFeature) (outdir utils base : Bytes)

/-- a call looks at the tree only at its root path -/
theorem resolve_congr (t₁ t₂ : InFS) (s : SOp) (h : ∀ q, s.root base = some q → t₁ q = t₂ q) :
    s.resolve base t₁ = s.resolve base t₂ := by
  cases s with
  | compileTemplates d => simp only [SOp.resolve, h d rfl]
  | addFile p =>
    simp only [SOp.resolve]
    cases hn : nameAndExt (baseName (pathFor base p)) with
    | none => rfl
    | some v => simp only [h (pathFor base p) (by simp [SOp.root, hn])]
  | addFiles d => simp only [SOp.resolve, h (pathFor base d) rfl]
  | addFileAs p u => rfl
  | addFilesAs d to => simp only [SOp.resolve, h (pathFor base d) rfl]
  | addFileData p data => rfl

theorem withStatics_some (b : Build) : ∃ s, (b.withStatics feat).statics = some s := by
  unfold Build.withStatics
  cases h : b.statics with
  | none => exact ⟨_, rfl⟩
  | some s => exact ⟨s, by simp [h]⟩

theorem failed_announces (b : Build) (st : Bool) (q : Bytes) :
    rerun q ∈ (Build.step ue ua feat outdir b (.failed st q)).out.stdout := by
  simp [Build.step, Log.print, Log.read, rerun]

/-- every call that looks at a path prints that path's own line — whether it succeeds or fails -/
theorem step_announces_root (t : InFS) (b : Build) (s : SOp) (q : Bytes) (hq : s.root base = some q) :
    rerun q ∈ (Build.step ue ua feat outdir b (s.resolve base t)).out.stdout := by
  cases s with
  | compileTemplates d =>
    simp only [SOp.root, Option.some.injEq] at hq; subst hq
    simp only [SOp.resolve]
    split
    · simp only [Build.step]
      rw [handleDir]
      apply (handleEntries_grow ue _ _ _ _ _).1.stdout.subset
      simp [Log.print, Log.read, rerun]
    · exact failed_announces ue ua feat outdir b _ _
  | addFile p =>
    simp only [SOp.root] at hq
    cases hn : nameAndExt (baseName (pathFor base p)) with
    | none => simp [hn] at hq
    | some v =>
      simp only [hn, Option.some.injEq] at hq; subst hq
      simp only [SOp.resolve, hn]
      split
      · obtain ⟨st, hst⟩ := withStatics_some feat b
        simp only [Build.step, hst, hn]
        simp [Log.print, Log.read, rerun]
      · exact failed_announces ue ua feat outdir b _ _
  | addFiles d =>
    simp only [SOp.root, Option.some.injEq] at hq; subst hq
    simp only [SOp.resolve]
    split
    · obtain ⟨st, hst⟩ := withStatics_some feat b
      simp only [Build.step, hst]
      apply (addFilesFlat_grow ue ua _ _ _ _).stdout.subset
      simp [Log.print, Log.read, rerun]
    · exact failed_announces ue ua feat outdir b _ _
  | addFileAs p u => simp [SOp.root] at hq
  | addFilesAs d to =>
    simp only [SOp.root, Option.some.injEq] at hq; subst hq
    simp only [SOp.resolve]
    split
    · obtain ⟨st, hst⟩ := withStatics_some feat b
      simp only [Build.step, hst]
      apply (addFilesAs_grow ue ua _ _ _ _ _).stdout.subset
      simp [Log.print, Log.read, rerun]
    · exact failed_announces ue ua feat outdir b _ _
  | addFileData p data => simp [SOp.root] at hq

/-- … and the line is still there at the end of the run -/
theorem roots_announced (t : InFS) (script : List SOp) (b : Build)
    (s : SOp) (hs : s ∈ script) (q : Bytes) (hq : s.root base = some q) :
    rerun q ∈ (((script.map (SOp.resolve base t)).foldl (Build.step ue ua feat outdir) b).finish outdir).stdout := by
  apply (Build.finish_grow outdir _).stdout.subset
  induction script generalizing b with
  | nil => cases hs
  | cons s₀ rest ih =>
    simp only [List.map_cons, List.foldl_cons]
    rcases List.mem_cons.mp hs with rfl | hs'
    · exact (Build.foldl_step_grow ue ua feat outdir _ _).stdout.subset
        (step_announces_root ue ua feat outdir base t b s q hq)
    · exact ih _ hs'

/-- **rerun_sound**: the trees agree wherever the first run announced a path (cargo sees no reason to
run the script again) ⇒ every call gets on the second tree exactly what it got on the first -/
theorem rerun_sound (t₁ t₂ : InFS) (script : List SOp)
    (hagree : ∀ q, rerun q ∈ (buildLog ue ua feat outdir utils (script.map (SOp.resolve base t₁))).stdout → t₁ q = t₂ q) :
    script.map (SOp.resolve base t₂) = script.map (SOp.resolve base t₁) := by
  apply List.map_congr_left
  intro s hs
  exact (resolve_congr base t₁ t₂ s (fun q hq =>
    hagree q (roots_announced ue ua feat outdir base t₁ script _ s hs q hq))).symm

/-- hence nothing is stale: a run on the edited tree would produce exactly what the first run
produced — same requests, same bytes, same lines — on every prior OUT_DIR state -/
theorem no_rerun_nothing_stale (fs : FS) (t₁ t₂ : InFS) (script : List SOp)
    (hagree : ∀ q, rerun q ∈ (runScript ue ua feat fs outdir utils base t₁ script).stdout → t₁ q = t₂ q) :
    runScript ue ua feat fs outdir utils base t₂ script = runScript ue ua feat fs outdir utils base t₁ script := by
  unfold runScript
  rw [rerun_sound ue ua feat outdir utils base t₁ t₂ script (fun q hq => hagree q (by simpa [runScript, build, runLog] using hq))]

/-- **change_triggers_rerun** (what the property says): if after an edit of the input tree a run of
the build script would produce anything else than before (other bytes in some file, other lines, a
call that now fails), then some path announced by the first run changed — cargo does run the script
again -/
theorem change_triggers_rerun (fs : FS) (t₁ t₂ : InFS) (script : List SOp)
    (hne : runScript ue ua feat fs outdir utils base t₂ script ≠ runScript ue ua feat fs outdir utils base t₁ script) :
    ∃ q, rerun q ∈ (runScript ue ua feat fs outdir utils base t₁ script).stdout ∧ t₁ q ≠ t₂ q := by
  apply Classical.byContradiction
  intro hno
  apply hne
  apply no_rerun_nothing_stale ue ua feat outdir utils base fs t₁ t₂ script
  intro q hq
  apply Classical.byContradiction
  intro hd
  exact hno ⟨q, hq, hd⟩

/-! ### The hypotheses are satisfiable and the conclusion is not vacuous -/

theorem ab_has_ext : nameAndExt (baseName [97, 46, 98]) = some ([97], [98]) := by decide

/-- a script that looks at a directory and a file; `t₂` adds a file elsewhere: every call succeeds on
`t₁` and gets the same on `t₂`; on a tree where the file is gone the call fails -/
example :
    let t₁ : InFS := fun p => if p = [116] then some (.dir [.dir [115] [], .link [108] [7]]) else if p = [97, 46, 98] then some (.file [1]) else none
    let t₂ : InFS := fun p => if p = [122] then some (.file [7]) else t₁ p
    let t₃ : InFS := fun p => if p = [97, 46, 98] then none else t₁ p
    (SOp.addFile [97, 46, 98]).resolve [] t₁ = .addFile [97, 46, 98] [1] ∧
    [SOp.compileTemplates [116], .addFile [97, 46, 98]].map (SOp.resolve [] t₂) =
      [SOp.compileTemplates [116], .addFile [97, 46, 98]].map (SOp.resolve [] t₁) ∧
    (SOp.addFile [97, 46, 98]).resolve [] t₃ = .failed true [97, 46, 98] := by
  intro t₁ t₂ t₃
  have hp : pathFor [] [97, 46, 98] = [97, 46, 98] := by decide
  refine ⟨?_, ?_, ?_⟩ <;> simp [SOp.resolve, hp, ab_has_ext, t₁, t₂, t₃]

end Ructe.C17Rerun
