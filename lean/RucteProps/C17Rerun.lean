import RucteProofs.GenLemmas
import RucteModel.InFS

/-!
# C17, second half — "… so that adding, editing or deleting an input makes cargo run the build script again"

`C17.announced` says that every path a run reads is covered by a line of the same run.  That alone
does not yet say that the lines are *enough*: the statement the user relies on is about a later edit.
Here the input tree is explicit (`InFS`: what the operating system shows at a path — a file's bytes or
a directory's whole subtree) and the calls are as written in `build.rs` (`SOp`).

cargo's documented rule (the trusted part): the build script is run again iff, for some printed
`cargo:rerun-if-changed=q`, the file at `q`, or anything under the directory `q`, changed — i.e.
iff `t₁ q ≠ t₂ q` for the trees before and after the edit.

`rerun_sound`: if the trees before and after an edit (any edit: any number of files and directories
added, changed, deleted, anywhere) agree at every path announced by the run on the first tree —
that is, if cargo does **not** run the script again — then the script resolves to exactly the same
calls on the second tree, so a run would ask for the same files with the same bytes and print the
same lines: nothing is stale.  `change_triggers_rerun` is the contrapositive the property states.
-/
namespace Ructe.C17Rerun
open Nom

variable (ue ua : Nat → Bool) (feat : MimeFeature) (outdir utils : Bytes)

/-- a call looks at the tree only at its root path -/
theorem resolve_congr (t₁ t₂ : InFS) (s : SOp) (h : ∀ q, s.root = some q → t₁ q = t₂ q) :
    s.resolve t₁ = s.resolve t₂ := by
  cases s with
  | compileTemplates d => simp only [SOp.resolve, h d rfl]
  | addFile p =>
    simp only [SOp.resolve]
    cases hn : nameAndExt (baseName p) with
    | none => rfl
    | some v => simp only [h p (by simp [SOp.root, hn])]
  | addFiles d => simp only [SOp.resolve, h d rfl]
  | addFileAs p u => rfl
  | addFilesAs d to => simp only [SOp.resolve, h d rfl]
  | addFileData p data => rfl

theorem withStatics_some (b : Build) : ∃ s, (b.withStatics feat).statics = some s := by
  unfold Build.withStatics
  cases h : b.statics with
  | none => exact ⟨_, rfl⟩
  | some s => exact ⟨s, by simp [h]⟩

/-- every call that looks at a path prints that path's own line -/
theorem step_announces_root (t : InFS) (b : Build) (s : SOp) (o : Op) (q : Bytes)
    (hr : s.resolve t = some o) (hq : s.root = some q) :
    rerun q ∈ (Build.step ue ua feat outdir b o).out.stdout := by
  cases s with
  | compileTemplates d =>
    simp only [SOp.root, Option.some.injEq] at hq; subst hq
    simp only [SOp.resolve] at hr
    split at hr <;> simp only [Option.some.injEq, reduceCtorEq] at hr
    subst hr
    simp only [Build.step]
    rw [handleDir]
    apply (handleEntries_grow ue _ _ _ _ _).1.stdout.subset
    simp [Log.print, Log.read, rerun]
  | addFile p =>
    simp only [SOp.root] at hq
    cases hn : nameAndExt (baseName p) with
    | none => simp [hn] at hq
    | some v =>
      simp only [hn, Option.some.injEq] at hq; subst hq
      simp only [SOp.resolve, hn] at hr
      split at hr <;> simp only [Option.some.injEq, reduceCtorEq] at hr
      subst hr
      obtain ⟨st, hst⟩ := withStatics_some feat b
      simp only [Build.step, hst, hn]
      simp [Log.print, Log.read, rerun]
  | addFiles d =>
    simp only [SOp.root, Option.some.injEq] at hq; subst hq
    simp only [SOp.resolve] at hr
    split at hr <;> simp only [Option.some.injEq, reduceCtorEq] at hr
    subst hr
    obtain ⟨st, hst⟩ := withStatics_some feat b
    simp only [Build.step, hst]
    apply (addFilesFlat_grow ue ua _ _ _ _).stdout.subset
    simp [Log.print, Log.read, rerun]
  | addFileAs p u => simp [SOp.root] at hq
  | addFilesAs d to =>
    simp only [SOp.root, Option.some.injEq] at hq; subst hq
    simp only [SOp.resolve] at hr
    split at hr <;> simp only [Option.some.injEq, reduceCtorEq] at hr
    subst hr
    obtain ⟨st, hst⟩ := withStatics_some feat b
    simp only [Build.step, hst]
    apply (addFilesAs_grow ue ua _ _ _ _ _).stdout.subset
    simp [Log.print, Log.read, rerun]
  | addFileData p data => simp [SOp.root] at hq

/-- … and the line is still there at the end of the run -/
theorem roots_announced (t : InFS) (script : List SOp) (ops : List Op) (b : Build)
    (h : resolveAll t script = some ops) (s : SOp) (hs : s ∈ script) (q : Bytes) (hq : s.root = some q) :
    rerun q ∈ ((ops.foldl (Build.step ue ua feat outdir) b).finish outdir).stdout := by
  apply (Build.finish_grow outdir _).stdout.subset
  induction script generalizing ops b with
  | nil => cases hs
  | cons s₀ rest ih =>
    simp only [resolveAll] at h
    cases h₀ : s₀.resolve t with
    | none => simp [h₀] at h
    | some o =>
      cases hr : resolveAll t rest with
      | none => simp [h₀, hr] at h
      | some os =>
        simp only [h₀, hr, Option.some.injEq] at h
        subst h
        simp only [List.foldl_cons]
        rcases List.mem_cons.mp hs with rfl | hs'
        · exact (Build.foldl_step_grow ue ua feat outdir os _).stdout.subset
            (step_announces_root ue ua feat outdir t b s o q h₀ hq)
        · exact ih os _ hr hs'

/-- **rerun_sound**: the trees agree wherever the first run announced a path (cargo sees no reason to
run the script again) ⇒ the script resolves to the very same calls on the second tree -/
theorem rerun_sound (t₁ t₂ : InFS) (script : List SOp) (ops : List Op)
    (h₁ : resolveAll t₁ script = some ops)
    (hagree : ∀ q, rerun q ∈ (buildLog ue ua feat outdir utils ops).stdout → t₁ q = t₂ q) :
    resolveAll t₂ script = some ops := by
  have hroot : ∀ s ∈ script, ∀ q, s.root = some q → t₁ q = t₂ q := fun s hs q hq =>
    hagree q (roots_announced ue ua feat outdir t₁ script ops _ h₁ s hs q hq)
  clear hagree
  induction script generalizing ops with
  | nil => simpa [resolveAll] using h₁
  | cons s rest ih =>
    simp only [resolveAll] at h₁ ⊢
    rw [← resolve_congr t₁ t₂ s (hroot s (List.mem_cons_self ..))]
    cases h₀ : s.resolve t₁ with
    | none => simp [h₀] at h₁
    | some o =>
      cases hr : resolveAll t₁ rest with
      | none => simp [h₀, hr] at h₁
      | some os =>
        simp only [h₀, hr, Option.some.injEq] at h₁
        subst h₁
        rw [ih os hr (fun s' hs' => hroot s' (List.mem_cons_of_mem _ hs'))]

/-- hence nothing is stale: a run on the edited tree would produce exactly what the first run
produced — same requests, same bytes, same lines — on every prior OUT_DIR state -/
theorem no_rerun_nothing_stale (fs : FS) (t₁ t₂ : InFS) (script : List SOp) (o₁ : Out)
    (h₁ : runScript ue ua feat fs outdir utils t₁ script = some o₁)
    (hagree : ∀ q, rerun q ∈ o₁.stdout → t₁ q = t₂ q) :
    runScript ue ua feat fs outdir utils t₂ script = some o₁ := by
  unfold runScript at h₁ ⊢
  cases hr : resolveAll t₁ script with
  | none => simp [hr] at h₁
  | some ops =>
    simp only [hr, Option.map_some, Option.some.injEq] at h₁
    subst h₁
    rw [rerun_sound ue ua feat outdir utils t₁ t₂ script ops hr (fun q hq => hagree q (by simpa [build, runLog] using hq))]
    rfl

/-- **change_triggers_rerun** (what the property says): if after an edit of the input tree a run of
the build script would produce anything else than before (other bytes in some file, other lines, or
a failure), then some path announced by the first run changed — cargo does run the script again -/
theorem change_triggers_rerun (fs : FS) (t₁ t₂ : InFS) (script : List SOp) (o₁ : Out)
    (h₁ : runScript ue ua feat fs outdir utils t₁ script = some o₁)
    (hne : runScript ue ua feat fs outdir utils t₂ script ≠ some o₁) :
    ∃ q, rerun q ∈ o₁.stdout ∧ t₁ q ≠ t₂ q := by
  apply Classical.byContradiction
  intro hno
  apply hne
  apply no_rerun_nothing_stale ue ua feat outdir utils fs t₁ t₂ script o₁ h₁
  intro q hq
  apply Classical.byContradiction
  intro hd
  exact hno ⟨q, hq, hd⟩

/-! ### The hypotheses are satisfiable and the conclusion is not vacuous -/

theorem ab_has_ext : nameAndExt (baseName [97, 46, 98]) = some ([97], [98]) := by decide

/-- a script that looks at a directory and a file; `t₂` adds a file elsewhere: the run succeeds on
`t₁` and resolves to the same calls on `t₂` -/
example :
    let t₁ : InFS := fun p => if p = [116] then some (.dir [.dir [115] []]) else if p = [97, 46, 98] then some (.file [1]) else none
    let t₂ : InFS := fun p => if p = [122] then some (.file [7]) else t₁ p
    (resolveAll t₁ [.compileTemplates [116], .addFile [97, 46, 98]]).isSome = true ∧
    resolveAll t₂ [.compileTemplates [116], .addFile [97, 46, 98]] =
      resolveAll t₁ [.compileTemplates [116], .addFile [97, 46, 98]] := by
  intro t₁ t₂
  constructor <;> simp [resolveAll, SOp.resolve, ab_has_ext, t₁, t₂]

/-- the announcement of a directory is needed: the pinned `add_files_as` (no line for
sub-directories, finding #6) is still sound *here* only because the top directory's line covers the
whole subtree under cargo's rule; a call that printed no line at all for its root would make
`step_announces_root` false (`C17.pinned_add_files_as_counterexample` is the concrete case) -/
example (t : InFS) (d : Bytes) (es : List Entry) (h : t d = some (.dir es)) :
    (SOp.addFilesAs d []).resolve t = some (.addFilesAs d [] es) := by
  simp [SOp.resolve, h]

end Ructe.C17Rerun
