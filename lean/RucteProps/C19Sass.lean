import RucteProps.C08Items
import RucteProps.C20

/-!
# C19 × C20 — the stylesheet compiled by `add_sass_file` is a CSS static

`add_sass_file(src)` adds the compiled CSS with `add_file_data(src.with_extension("css"), css)`.  Whatever
the source is called (`style.scss`, `main.sass`, `theme.v2.scss`, a path in any directory), the item's
suffix — which selects the `mime:` row — is `css`, and its published name ends in `.css`.
The proof needs the *completeness* direction of `name_and_ext` / `Path::file_name`
(`nameAndExt_of_parts`, `baseName_append`): the last component of `dir/stem.css` is `stem.css`, and
splitting `stem.css` at the last dot gives `(stem, css)`.
-/
namespace Ructe.C19Sass
open Nom

/-! ## `lastDot` / `nameAndExt`, completeness direction -/

theorem lastDot_go_append (a b : Bytes) (i : Nat) (acc : Option Nat) :
    lastDot.go (a ++ b) i acc = lastDot.go b (i + a.length) (lastDot.go a i acc) := by
  induction a generalizing i acc with
  | nil => simp [lastDot.go]
  | cons c r ih =>
    simp only [List.cons_append, lastDot.go, List.length_cons]
    rw [ih]
    congr 1
    omega

theorem lastDot_go_no_dot (s : Bytes) (i : Nat) (acc : Option Nat) (h : (46 : UInt8) ∉ s) :
    lastDot.go s i acc = acc := by
  induction s generalizing i acc with
  | nil => rfl
  | cons c r ih =>
    simp only [List.mem_cons, not_or] at h
    have hc : c ≠ 46 := fun e => h.1 e.symm
    rw [lastDot.go, ih _ _ h.2]
    simp [hc]

theorem lastDot_of_parts (b e : Bytes) (he : (46 : UInt8) ∉ e) : lastDot (b ++ [46] ++ e) = some b.length := by
  unfold lastDot
  rw [List.append_assoc, lastDot_go_append, lastDot_go_append]
  simp only [lastDot.go, if_true]
  rw [lastDot_go_no_dot _ _ _ he]
  simp

/-- `stem.ext` splits into `(stem, ext)` when `ext` has no dot and `stem` is not empty -/
theorem nameAndExt_of_parts (b e : Bytes) (hb : b ≠ []) (he : (46 : UInt8) ∉ e) (hne : e ≠ [] ∨ b ≠ [46]) :
    nameAndExt (b ++ [46] ++ e) = some (b, e) := by
  unfold nameAndExt
  have hdd : b ++ [46] ++ e ≠ [46, 46] := by
    intro h
    cases b with
    | nil => exact hb rfl
    | cons x b' =>
      cases b' with
      | nil =>
        simp only [List.cons_append, List.nil_append, List.cons.injEq] at h
        rcases hne with h1 | h1
        · exact h1 h.2.2
        · exact h1 (by rw [h.1])
      | cons y b'' => simp at h
  rw [if_neg hdd, lastDot_of_parts b e he]
  cases hl : b.length with
  | zero => exact absurd (List.length_eq_zero_iff.mp hl) hb
  | succ k =>
    simp only
    rw [← hl]
    simp [List.take_left', List.append_assoc]

/-! ## `baseName`, completeness direction -/

/-- one step of the scan for the last path component -/
def bnStep (st : Bytes × Bytes) (c : UInt8) : Bytes × Bytes :=
  if c = 47 then ([], if st.1 = [] then st.2 else st.1.reverse) else (c :: st.1, st.2)

theorem baseName_go_fold (p cur last : Bytes) :
    baseName.go p cur last =
      (let st := p.foldl bnStep (cur, last); if st.1 = [] then st.2 else st.1.reverse) := by
  induction p generalizing cur last with
  | nil => simp only [baseName.go, List.foldl_nil]; rfl
  | cons c r ih =>
    rw [baseName.go]
    by_cases hc : c = 47
    · simp only [hc, if_true, List.foldl_cons, bnStep]
      exact ih _ _
    · simp only [hc, if_false, List.foldl_cons, bnStep]
      exact ih _ _

theorem foldl_bnStep_noslash (q : Bytes) (st : Bytes × Bytes) (h : (47 : UInt8) ∉ q) :
    q.foldl bnStep st = (q.reverse ++ st.1, st.2) := by
  induction q generalizing st with
  | nil => simp
  | cons c r ih =>
    simp only [List.mem_cons, not_or] at h
    simp only [List.foldl_cons]
    have hc : c ≠ 47 := fun e => h.1 e.symm
    rw [show bnStep st c = (c :: st.1, st.2) from by simp [bnStep, hc]]
    rw [ih _ h.2]
    simp

/-- the last component of `p ++ q`, for a non-empty `q` without `/`, is the component `p` ends in
(empty if `p` ends with `/`) followed by `q` -/
theorem baseName_append (p q : Bytes) (hq : q ≠ []) (hs : (47 : UInt8) ∉ q) :
    baseName (p ++ q) = ((p.foldl bnStep ([], [])).1).reverse ++ q := by
  unfold baseName
  rw [baseName_go_fold, List.foldl_append, foldl_bnStep_noslash _ _ hs]
  simp only
  have : q.reverse ++ (p.foldl bnStep ([], [])).1 ≠ [] := by
    intro h
    have := List.append_eq_nil_iff.mp h
    exact hq (List.reverse_eq_nil_iff.mp this.1)
  rw [if_neg this]
  simp

/-! ## the compiled stylesheet -/

theorem str_css : str "css" = [99, 115, 115] := by decide +kernel


/-- `src.with_extension("css")` has a last component of the form `stem.css` -/
theorem withExtension_css_base (src : Bytes) :
    ∃ stem, baseName (withExtension src (str "css")) = stem ++ [46] ++ str "css" := by
  rw [str_css]
  have hq : (47 : UInt8) ∉ ([46, 99, 115, 115] : Bytes) := by decide
  have hne : ([46, 99, 115, 115] : Bytes) ≠ [] := by decide
  obtain ⟨P, e⟩ : ∃ P, withExtension src [99, 115, 115] = P ++ [46, 99, 115, 115] := by
    unfold withExtension
    exact ⟨_, List.append_assoc _ [46] [99, 115, 115]⟩
  refine ⟨((P.foldl bnStep ([], [])).1).reverse, ?_⟩
  rw [e, baseName_append P [46, 99, 115, 115] hne hq]
  simp [List.append_assoc]

/-- **the suffix of the compiled stylesheet is `css`** — and so is the row of the MIME table it gets —
whatever the source file is called -/
theorem sass_suffix_is_css (src stem ext : Bytes)
    (h : nameAndExt (baseName (withExtension src (str "css"))) = some (stem, ext)) : ext = str "css" := by
  obtain ⟨st, hst⟩ := withExtension_css_base src
  obtain ⟨h1, h2, _⟩ := C07.nameAndExt_shape _ _ _ h
  rw [hst] at h1
  have hcss : (46 : UInt8) ∉ (str "css" : Bytes) := by rw [str_css]; decide
  exact ((C20.append_dot_inj (str "css") ext st stem hcss h2 h1).2).symm

/-- the item `add_sass_file` appends: data content, a name ending in `.css`, and the `mime:` line of `css` -/
theorem sass_item (ue ua : Nat → Bool) (s : Statics) (src css stem ext : Bytes)
    (h : nameAndExt (baseName (withExtension src (str "css"))) = some (stem, ext)) :
    (s.addSassResult ue ua src css).src =
      s.src ++ C08.itemText ue ua s.feat (withExtension src (str "css")) (stem ++ [95] ++ str "css")
        (stem ++ [45] ++ checksumSlug css ++ [46] ++ str "css") (.data css) (str "css") := by
  have he := sass_suffix_is_css src stem ext h
  subst he
  simp only [Statics.addSassResult, Statics.addHashed, h]
  exact C08.addStatic_src ue ua s _ _ _ _ _

-- evaluated: the usual names
#guard baseName (withExtension (str "scss/site/style.scss") (str "css")) == str "style.css"
#guard baseName (withExtension (str "theme.v2.scss") (str "css")) == str "theme.v2.css"
#guard nameAndExt (str "theme.v2.css") == some (str "theme.v2", str "css")
-- (a test, evaluated on the tables extracted from the source on this run; the rows themselves are C19.mime03_rows_correct / httpTypes_rows_correct)
#guard mimeArg .mime03 (str "css") == str "  mime: &mime::TEXT_CSS,\n"
#guard mimeArg .httpTypes (str "css") == str "  mime: &mime::CSS,\n"

end Ructe.C19Sass
