import RucteProofs.GenLemmas
import RucteProps.C10

/-!
# C10 (continued) — whole trees, any depth

`Reach entries dirs fname content`: following the directory names `dirs` from the listing `entries`
leads to a file entry `fname` with bytes `content`.  No bound on the depth.
-/
namespace Ructe.C10
open Nom

inductive Reach : List Entry → List Bytes → Bytes → Bytes → Prop where
  | here {entries fname content} : Entry.file fname content ∈ entries → Reach entries [] fname content
  | down {entries d sub ds fname content} : Entry.dir d sub ∈ entries → Reach sub ds fname content →
      Reach entries (d :: ds) fname content

/-- `outdir/d₁/…/d_k` -/
def joinDirs (base : Bytes) : List Bytes → Bytes
  | [] => base
  | d :: ds => joinDirs (joinPath base d) ds

/-- the function name `<stem>_<ext>` for a file name ending in `suf` -/
def fnName (fname suf : Bytes) : Bytes := fname.take (fname.length - suf.length) ++ [95] ++ suf.drop suffixSkipLen


/-! ## Helper lemmas -/

/-- a request once in the log stays there -/
theorem _root_.Ructe.Grow.mem_writes {a b : Log} (h : Grow a b) {x : Bytes × Bytes} (hx : x ∈ a.writes) : x ∈ b.writes :=
  h.writes.subset hx

theorem handleDir_eq (ue : Nat → Bool) (o : Log) (f indir outdir : Bytes) (entries : List Entry) :
    handleDir ue o f indir outdir entries =
      handleEntries ue ((o.read indir).print (str "cargo:rerun-if-changed=" ++ indir)) f indir outdir entries := by
  rw [handleDir]

/-- a valid template file somewhere in an entry list: declared in the text, requested in the log -/
theorem entries_file (ue : Nat → Bool) (o : Log) (f indir outdir : Bytes) (entries : List Entry)
    (fname content suf code : Bytes) (hm : Entry.file fname content ∈ entries) (hf : validUtf8 fname = true)
    (hsuf : suffixes.filter (fun s => endsWith fname s) = [suf])
    (hok : C18.templateCode ue (fnName fname suf) content = some code) :
    (∃ a b, (handleEntries ue o f indir outdir entries).1 = a ++ templateDecl (fnName fname suf) ++ b) ∧
    (joinPath outdir (str "template_" ++ fnName fname suf ++ str ".rs"), code) ∈
      (handleEntries ue o f indir outdir entries).2.writes := by
  obtain ⟨s, t, rfl⟩ := List.append_of_mem hm
  rw [handleEntries_append]
  simp only
  generalize handleEntries ue o f indir outdir s = r1
  have hstep : handleEntries ue r1.2 r1.1 indir outdir (.file fname content :: t) =
      handleEntries ue (handleFile ue r1.2 r1.1 fname (joinPath indir fname) outdir content suffixes).2
        (handleFile ue r1.2 r1.1 fname (joinPath indir fname) outdir content suffixes).1 indir outdir t := by
    rw [handleEntries, if_pos hf]
  rw [hstep]
  obtain ⟨h1, h2, _⟩ :=
    valid_template_declared ue r1.2 r1.1 fname (joinPath indir fname) outdir content suf code hsuf hok
  obtain ⟨hg, ⟨b, hb⟩⟩ := handleEntries_grow ue
    (handleFile ue r1.2 r1.1 fname (joinPath indir fname) outdir content suffixes).2
    (handleFile ue r1.2 r1.1 fname (joinPath indir fname) outdir content suffixes).1 indir outdir t
  refine ⟨⟨r1.1, b, ?_⟩, hg.mem_writes ?_⟩
  · rw [← hb, h1]; rfl
  · rw [h2]; exact List.mem_append_right _ (List.mem_singleton.mpr rfl)

/-- a sub-directory somewhere in an entry list: `handleDir` is run on it from some later log `o1`, its
result is kept, its `mod.rs` is requested and it is declared in the text -/
theorem entries_dir (ue : Nat → Bool) (o : Log) (f indir outdir : Bytes) (entries : List Entry)
    (d : Bytes) (sub : List Entry) (hm : Entry.dir d sub ∈ entries) (hd : validUtf8 d = true) :
    ∃ o1, Grow o o1 ∧
      Grow (handleDir ue o1 modRsHeader (joinPath indir d) (joinPath outdir d) sub).2
        (handleEntries ue o f indir outdir entries).2 ∧
      (joinPath (joinPath outdir d) (str "mod.rs"),
        (handleDir ue o1 modRsHeader (joinPath indir d) (joinPath outdir d) sub).1) ∈
        (handleEntries ue o f indir outdir entries).2.writes ∧
      ∃ a b, (handleEntries ue o f indir outdir entries).1 = a ++ (str "pub mod " ++ d ++ str ";\n\n") ++ b := by
  obtain ⟨s, t, rfl⟩ := List.append_of_mem hm
  rw [handleEntries_append]
  simp only
  have hg1 := (handleEntries_grow ue o f indir outdir s).1
  generalize handleEntries ue o f indir outdir s = r1 at hg1 ⊢
  obtain ⟨modrs, o', hdir, hstep⟩ := subdir_declared ue r1.2 r1.1 indir outdir d sub t hd
  rw [hstep]
  obtain ⟨hg, ⟨b, hb⟩⟩ := handleEntries_grow ue
    (writeIfChanged o' (joinPath (joinPath outdir d) (str "mod.rs")) modrs)
    (r1.1 ++ str "pub mod " ++ d ++ str ";\n\n") indir outdir t
  refine ⟨r1.2, hg1, ?_, ?_, r1.1, b, ?_⟩
  · rw [hdir]; exact (Grow.writeIfChanged _ _ _).trans hg
  · rw [hdir]; apply hg.mem_writes
    simp [writeIfChanged, Log.write]
  · rw [← hb]; simp only [List.append_assoc]

/-! ## The theorems -/

/-- **tree_mirror (files)**: every template file that parses, at any depth, is requested at the
mirrored path with the code generated for it alone -/
theorem tree_mirror_file (ue : Nat → Bool) (o : Log) (f indir outdir : Bytes) (entries : List Entry)
    (dirs : List Bytes) (fname content suf code : Bytes)
    (hr : Reach entries dirs fname content)
    (hd : ∀ d ∈ dirs, validUtf8 d = true) (hf : validUtf8 fname = true)
    (hsuf : suffixes.filter (fun s => endsWith fname s) = [suf])
    (hok : C18.templateCode ue (fnName fname suf) content = some code) :
    (joinPath (joinDirs outdir dirs) (str "template_" ++ fnName fname suf ++ str ".rs"), code) ∈
      (handleDir ue o f indir outdir entries).2.writes := by
  induction hr generalizing o f indir outdir with
  | @here entries fname content hm =>
    rw [handleDir_eq]
    exact (entries_file ue _ f indir outdir entries fname content suf code hm hf hsuf hok).2
  | @down entries d sub ds fname content hm _ ih =>
    rw [handleDir_eq]
    obtain ⟨o1, _, hg, _, _⟩ := entries_dir ue ((o.read indir).print (str "cargo:rerun-if-changed=" ++ indir))
      f indir outdir entries d sub hm (hd d List.mem_cons_self)
    exact hg.mem_writes (ih o1 modRsHeader (joinPath indir d) (joinPath outdir d)
      (fun d' h' => hd d' (List.mem_cons_of_mem _ h')) hf hsuf hok)

/-- **tree_mirror (declarations, one level)**: a sub-directory is declared `pub mod d;` in the text
of its parent module and its `mod.rs` is requested in the mirrored directory -/
theorem subdir_mod_declared (ue : Nat → Bool) (o : Log) (f indir outdir : Bytes) (entries : List Entry)
    (d : Bytes) (sub : List Entry) (hm : Entry.dir d sub ∈ entries) (hd : validUtf8 d = true) :
    (∃ a b, (handleDir ue o f indir outdir entries).1 = a ++ (str "pub mod " ++ d ++ str ";\n\n") ++ b) ∧
    (∃ c, (joinPath (joinPath outdir d) (str "mod.rs"), c) ∈ (handleDir ue o f indir outdir entries).2.writes) := by
  rw [handleDir_eq]
  obtain ⟨o1, _, _, hw, hdecl⟩ := entries_dir ue ((o.read indir).print (str "cargo:rerun-if-changed=" ++ indir))
    f indir outdir entries d sub hm hd
  exact ⟨hdecl, _, hw⟩

/-- a valid template file of a directory is declared in the text of that directory's module -/
theorem template_fn_declared (ue : Nat → Bool) (o : Log) (f indir outdir : Bytes) (entries : List Entry)
    (fname content suf code : Bytes) (hm : Entry.file fname content ∈ entries) (hf : validUtf8 fname = true)
    (hsuf : suffixes.filter (fun s => endsWith fname s) = [suf])
    (hok : C18.templateCode ue (fnName fname suf) content = some code) :
    ∃ a b, (handleDir ue o f indir outdir entries).1 = a ++ templateDecl (fnName fname suf) ++ b := by
  rw [handleDir_eq]
  exact (entries_file ue _ f indir outdir entries fname content suf code hm hf hsuf hok).1

/-- for any suffix list: either no declaration was appended, or the list of requests got longer -/
theorem handleFile_decl_or_write (ue : Nat → Bool) (o : Log) (f fname path outdir content : Bytes) (l : List Bytes) :
    (handleFile ue o f fname path outdir content l).1 = f ∨
      o.writes.length < (handleFile ue o f fname path outdir content l).2.writes.length := by
  induction l generalizing o f with
  | nil => exact Or.inl rfl
  | cons s rest ih =>
    rw [handleFile]
    split
    · simp only
      obtain ⟨hw, hdecl⟩ := C18.template_code_pure ue (o.print (str "cargo:rerun-if-changed=" ++ path))
        (fname.take (fname.length - s.length) ++ [95] ++ s.drop suffixSkipLen) path outdir content
      generalize handleTemplate ue (o.print (str "cargo:rerun-if-changed=" ++ path))
        (fname.take (fname.length - s.length) ++ [95] ++ s.drop suffixSkipLen) path outdir content = ht at hw hdecl ⊢
      have hlen := (handleFile_grow ue ht.2
        (if ht.1 = true then f ++ templateDecl (fname.take (fname.length - s.length) ++ [95] ++ s.drop suffixSkipLen) else f)
        fname path outdir content rest).1.writes.length_le
      cases hc : C18.templateCode ue (fname.take (fname.length - s.length) ++ [95] ++ s.drop suffixSkipLen) content with
      | none =>
        rw [hc] at hw hdecl
        simp only [Option.isSome_none] at hdecl
        simp only [hdecl, Bool.false_eq_true, if_false] at hlen ⊢
        rcases ih ht.2 f with h | h
        · exact Or.inl h
        · refine Or.inr ?_
          have h1 : ht.2.writes = o.writes := by rw [hw]; simp [Log.print]
          rw [h1] at h
          exact h
      | some c =>
        rw [hc] at hw
        refine Or.inr ?_
        have h1 : ht.2.writes.length = o.writes.length + 1 := by rw [hw]; simp [Log.print]
        omega
    · exact ih o f

/-- **no dangling declaration**: the text a directory contributes to its parent's module starts with
what was there before; (with `valid_template_declared` / `broken_template_reported`) a `mod template_…;`
line is only ever appended together with the request for its file -/
theorem decl_only_with_file (ue : Nat → Bool) (o : Log) (f fname path outdir content : Bytes) :
    let r := handleFile ue o f fname path outdir content suffixes
    r.1 = f ∨ r.2.writes ≠ o.writes := by
  intro r
  rcases handleFile_decl_or_write ue o f fname path outdir content suffixes with h | h
  · exact Or.inl h
  · refine Or.inr (fun he => ?_)
    rw [he] at h
    exact Nat.lt_irrefl _ h

end Ructe.C10
