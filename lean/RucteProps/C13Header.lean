import RucteModel.Tpl
import RucteProofs.HeaderLemmas
import RucteProofs.HeaderTy
import RucteProofs.HeaderDecl
import RucteProps.C13
import RucteProps.C15Tree

/-!
# C13 / C15 (header) — the model parser is complete for the documented template *declaration*

Source trees (all with explicit layout / white-space slots, all in `RucteProofs/HeaderTy.lean` and
`RucteProofs/HeaderDecl.lean`):

* `Hdr.Ty` — the type grammar of declarations
  `Ty ::= &? (L 'name)? L (impl L | dyn L)? (name | [Ty] | (Elems)) (<Elems>)?`,
  `Elems ::= (Elem (, Elem)*)? (, ws)?`, `Elem ::= Ty | L 'name` (`L` = layout slot, `ws` = white space only);
  `printTy`, `wfTy`, `fuelTy`, `tyFollowB`;
* `Hdr.Param` — `ws name L1 : L2 Ty` (`Param.span` = `name L1 : L2 Ty`);
* `Hdr.Header` — leading layout, use lines `@text; L`, optional `<ws 'a, ws 'b>`, `(` parameters ws `)` `L`;
  `printHeader`, `wfHeader`, and the intended fields `Header.preamble`, `Header.typeArgs`, `Header.args`.

Theorems: `typeExpression_complete`, `formalArgument_complete`, `template_complete`, and the corollaries
`header_layout_irrelevant` (C15 for the header), `args_verbatim`, `use_verbatim`, `signature_of_source` (C13).
Every hypothesis has a `#guard` below showing the model parser on a print that violates exactly it.
-/
namespace Ructe.C13Header
open Nom Ructe.C15 Ructe.Hdr Ructe.Src

/-! ## 1. types -/

/-- **completeness of `type_expression`**: the print of a well-formed type, followed by anything that
may follow it (`tyFollowB`: no name character after a final name, no `<` unless the type has its generic
arguments), is taken in full — and nothing else — at any fuel `≥ fuelTy t` -/
theorem typeExpression_complete (t : Ty) (rest : Bytes) (n : Nat) (hwf : wfTy t = true)
    (hfol : tyFollowB t rest = true) (hfuel : fuelTy t ≤ n) :
    typeExpression n (printTy t ++ rest) = .ok rest () := by
  rw [printTy_eq, List.append_assoc]
  exact ty_ok t n rest t.lead hwf hfol hfuel (wfTy_lead t hwf) (amp_lead t)

/-- the layout a type starts with is irrelevant: any admissible layout in its place (none after `&`)
gives the same result -/
theorem typeExpression_lead_irrelevant (t : Ty) (rest : Bytes) (n : Nat) (hwf : wfTy t = true)
    (hfol : tyFollowB t rest = true) (hfuel : fuelTy t ≤ n) (L' : Hdr.Layout) (hL' : layoutOkB L' = true)
    (hamp : t.amp = true → L' = []) :
    typeExpression n (printLayout L' ++ (t.body ++ rest)) = typeExpression n (printTy t ++ rest) := by
  rw [typeExpression_complete t rest n hwf hfol hfuel]
  exact ty_ok t n rest L' hwf hfol hfuel (layoutOk_of hL') hamp

/-- a comma, `)`, `>`, `]` or white space may follow every type -/
theorem tyFollow_documented (t : Ty) (c : UInt8) (X : Bytes)
    (hc : c = 44 ∨ c = 41 ∨ c = 62 ∨ c = 93 ∨ isSpace c = true) : tyFollowB t (c :: X) = true := by
  rcases hc with h | h | h | h | h
  · exact tyFollow_of t c X (.inl h)
  · exact tyFollow_of t c X (.inr (.inl h))
  · exact tyFollow_of t c X (.inr (.inr (.inl h)))
  · exact tyFollow_of t c X (.inr (.inr (.inr h)))
  · exact pf_follow t ⟨c, X, rfl, .inr (.inr h)⟩

/-! ## 2. one declared parameter -/

/-- **completeness of `formal_argument`**: `name L1 : L2 type` is taken in full and the value is exactly
the printed span (this is what reaches the generated signature, C13) -/
theorem formalArgument_complete (p : Param) (rest : Bytes) (n : Nat) (hwf : p.declOk = true)
    (hfol : tyFollowB p.ty rest = true) (hfuel : fuelTy p.ty ≤ n) :
    formalArgument n (p.span ++ rest) = .ok rest p.span :=
  formalArgument_span p n rest hwf hfol hfuel

/-- … in particular in front of a comma, `)` or white space -/
theorem formalArgument_complete_documented (p : Param) (c : UInt8) (X : Bytes) (n : Nat) (hwf : p.declOk = true)
    (hc : c = 44 ∨ c = 41 ∨ isSpace c = true) (hfuel : fuelTy p.ty ≤ n) :
    formalArgument n (p.span ++ c :: X) = .ok (c :: X) p.span :=
  formalArgument_span p n _ hwf (pf_follow p.ty ⟨c, X, rfl, hc⟩) hfuel

theorem span_eq (p : Param) :
    p.span = p.b :: p.cs ++ printLayout p.l1 ++ [58] ++ printLayout p.l2 ++ printTy p.ty := rfl

/-! ## 3. the whole template -/

/-- the `Template` a header and a body are documented to produce -/
def intended (h : Header) (ns : List Node) : Template :=
  { preamble := h.preamble, typeArgs := h.typeArgs, args := h.args, body := astNodes ns }

/-- the fuel a template needs: that of its declared types and of its body -/
def fuelTemplate (h : Header) (ns : List Node) : Nat := max (fuelParams h.params) (fuelNodes ns)

/-- **completeness of `template`**: a well-formed header followed by a well-formed body that does not
itself start with layout (the run of white space and comments after `)` belongs to the header's last slot:
the parser drops it) is parsed — up to the end of the input — to exactly the intended `Template` -/
theorem template_complete (h : Header) (ns : List Node) (n : Nat) (hwf : wfHeader h = true) (hns : WF ns [])
    (hst : StopsLayout (printNodes ns)) (hfuel : fuelTemplate h ns ≤ n) :
    template n (printHeader h ++ printNodes ns) = .ok [] (intended h ns) := by
  simp only [fuelTemplate] at hfuel
  exact template_of_header n h hwf (by omega) (printNodes ns) hst (astNodes ns)
    (C15Tree.body_complete ns n hns (by omega))

/-! ## 4. corollaries -/

/-- the header with every slot *outside* the recognised spans emptied: the leading layout, the layout after
each use line, the white space after `<`, after `(`, after the commas between parameters and before `)`, and
the layout after `)` -/
def eraseLts : List LtItem → List LtItem
  | [] => []
  | x :: r => { x with pre := [] } :: r

def eraseHeader (h : Header) : Header :=
  { lead := []
    uses := h.uses.map (fun u => { u with after := [] })
    lts := eraseLts h.lts
    params := h.params.map (fun p => { p with pre := [] })
    wsClose := []
    after := [] }

/-- two headers differ only in those slots -/
def sameDecl (h₁ h₂ : Header) : Prop := eraseHeader h₁ = eraseHeader h₂

theorem fuelParams_erase (ps : List Param) :
    fuelParams (ps.map (fun p => { p with pre := [] })) = fuelParams ps := by
  induction ps with
  | nil => rfl
  | cons p r ih => simp only [List.map_cons, fuelParams, ih]

theorem erase_fields (h : Header) :
    (eraseHeader h).preamble = h.preamble ∧ (eraseHeader h).typeArgs = h.typeArgs ∧
    (eraseHeader h).args = h.args ∧ fuelParams (eraseHeader h).params = fuelParams h.params := by
  refine ⟨?_, ?_, ?_, fuelParams_erase h.params⟩
  · simp [eraseHeader, Header.preamble, Function.comp_def]
  · cases hl : h.lts <;> simp [eraseHeader, Header.typeArgs, hl, eraseLts, ltSpan, LtItem.core]
  · simp [eraseHeader, Header.args, Function.comp_def, Param.span]

theorem sameDecl_fields {h₁ h₂ : Header} (hs : sameDecl h₁ h₂) :
    h₁.preamble = h₂.preamble ∧ h₁.typeArgs = h₂.typeArgs ∧ h₁.args = h₂.args ∧
    fuelParams h₁.params = fuelParams h₂.params := by
  obtain ⟨a1, b1, c1, d1⟩ := erase_fields h₁
  obtain ⟨a2, b2, c2, d2⟩ := erase_fields h₂
  unfold sameDecl at hs
  rw [hs] at a1 b1 c1 d1
  exact ⟨a1.symm.trans a2, b1.symm.trans b2, c1.symm.trans c2, d1.symm.trans d2⟩

/-- **C15 for whole templates**: two templates whose headers differ only in the slots outside the recognised
spans and whose bodies differ only in their layout slots are parsed to the same `Template` (so the
generated code is byte-identical) -/
theorem header_layout_irrelevant (h₁ h₂ : Header) (ns₁ ns₂ : List Node) (n : Nat)
    (hs : sameDecl h₁ h₂) (hb : sameShape ns₁ ns₂)
    (hwf₁ : wfHeader h₁ = true) (hwf₂ : wfHeader h₂ = true) (hns₁ : WF ns₁ []) (hns₂ : WF ns₂ [])
    (hst₁ : StopsLayout (printNodes ns₁)) (hst₂ : StopsLayout (printNodes ns₂))
    (hfuel : fuelTemplate h₁ ns₁ ≤ n) :
    template n (printHeader h₂ ++ printNodes ns₂) = template n (printHeader h₁ ++ printNodes ns₁) ∧
    intended h₂ ns₂ = intended h₁ ns₁ := by
  obtain ⟨e1, e2, e3, e4⟩ := sameDecl_fields hs
  have hi : intended h₂ ns₂ = intended h₁ ns₁ := by
    simp only [intended, e1, e2, e3, sameShape_ast hb]
  have hfuel₂ : fuelTemplate h₂ ns₂ ≤ n := by
    simp only [fuelTemplate, ← e4, ← sameShape_fuel hb] at hfuel ⊢
    exact hfuel
  rw [template_complete h₁ ns₁ n hwf₁ hns₁ hst₁ hfuel, template_complete h₂ ns₂ n hwf₂ hns₂ hst₂ hfuel₂, hi]
  exact ⟨rfl, rfl⟩

/-- **C13, parameters**: every element of `args` of the parsed template is exactly the source span
`name L1 : L2 type` of the corresponding declared parameter — white space and comments inside the span are
kept, the white space around it is not part of it -/
theorem args_verbatim (h : Header) (ns : List Node) (n : Nat) (hwf : wfHeader h = true) (hns : WF ns [])
    (hst : StopsLayout (printNodes ns)) (hfuel : fuelTemplate h ns ≤ n) :
    ∃ T, template n (printHeader h ++ printNodes ns) = .ok [] T ∧
      T.args = h.params.map
        (fun p => p.b :: p.cs ++ printLayout p.l1 ++ [58] ++ printLayout p.l2 ++ printTy p.ty) :=
  ⟨_, template_complete h ns n hwf hns hst hfuel, rfl⟩

/-- **C13, use lines**: every element of `preamble` is exactly the text between `@` and `;` -/
theorem use_verbatim (h : Header) (ns : List Node) (n : Nat) (hwf : wfHeader h = true) (hns : WF ns [])
    (hst : StopsLayout (printNodes ns)) (hfuel : fuelTemplate h ns ≤ n) :
    ∃ T, template n (printHeader h ++ printNodes ns) = .ok [] T ∧ T.preamble = h.uses.map UseLine.text ∧
      ∀ u ∈ h.uses, u.print = [64] ++ u.text ++ [59] ++ printLayout u.after :=
  ⟨_, template_complete h ns n hwf hns hst hfuel, rfl, fun u _ => by simp [UseLine.print]⟩

/-- **C13, lifetimes**: `typeArgs` is the text between `<` (and the white space after it) and `>` -/
theorem typeArgs_verbatim (h : Header) (ns : List Node) (n : Nat) (hwf : wfHeader h = true) (hns : WF ns [])
    (hst : StopsLayout (printNodes ns)) (hfuel : fuelTemplate h ns ≤ n) :
    ∃ T, template n (printHeader h ++ printNodes ns) = .ok [] T ∧ T.typeArgs = ltSpan h.lts ∧
      ∀ x r, h.lts = x :: r → printLts h.lts = [60] ++ x.pre ++ ltSpan h.lts ++ [62] :=
  ⟨_, template_complete h ns n hwf hns hst hfuel, rfl, fun x r e => by rw [e]; simp [printLts]⟩

/-- **C13, end to end**: the generated signature, in terms of the *source*: the use lines verbatim, the
lifetime list verbatim, and each declared parameter's source span through `printParam` -/
theorem signature_of_source (h : Header) (ns : List Node) (name : Bytes) :
    fnHeader (intended h ns) name =
      str "use std::io::{self, Write};\n#[allow(clippy::useless_attribute, unused)]\nuse super::{Html,ToHtml};\n" ++
      (h.uses.map (fun u => u.text ++ str ";\n")).flatten ++
      str "\n#[allow(clippy::used_underscore_binding)]\npub fn " ++ name ++ str "<" ++ ltSpan h.lts ++
      (if ltSpan h.lts = [] then [] else str ", ") ++ str "W>(\n  #[allow(unused_mut)] mut _ructe_out_: W,\n" ++
      (h.params.map (fun p => str "  " ++ printParam p.span ++ str ",\n")).flatten ++
      str ") -> io::Result<()>\nwhere W: Write {\n" := by
  rw [C13.signature_shape]
  simp only [intended, Header.preamble, Header.typeArgs, Header.args, List.map_map, Function.comp_def]
  rfl

/-! ## 5. a concrete template: the hypotheses are satisfiable, and the model parser evaluates to the intended tree -/

section Examples

/-- a name as the base of a type -/
def nameB (s : String) : Base := .name ((str s).headD 0) (str s).tail
/-- a plain named type -/
def tyName (s : String) : Ty := .mk false none [] .none (nameB s) .none
def sp : Hdr.Layout := [.ws [32]]

/-- `&'a [T]` -/
def tyTitle : Ty := .mk true (some ⟨[], 97, []⟩) sp .none (.slice (tyName "T")) .none
/-- `Vec<(A, B,)>` -/
def tyItems : Ty := .mk false none [] .none (nameB "Vec")
  (.args [.ty (.mk false none [] .none
    (.tuple [.ty (tyName "A"), .ty (.mk false none sp .none (nameB "B") .none)] (some [])) .none)] none)
/-- `impl Fn` -/
def tyF : Ty := .mk false none [] (.impl sp) (nameB "Fn") .none
/-- `&@*c*@ 'a @*d*@ dyn @*e*@ Tr<'b, @*f*@ [X],⏎ (), 'c, ⏎>`: every slot of the type grammar in use -/
def tyBig : Ty :=
  .mk true (some ⟨[.comment (str "c"), .ws [32]], 97, []⟩) [.ws [32], .comment (str "d"), .ws [32]]
    (.dyn [.ws [32], .comment (str "e"), .ws [32]]) (nameB "Tr")
    (.args [.lt ⟨[], 98, []⟩,
            .ty (.mk false none [.ws [32], .comment (str "f"), .ws [32]] .none (.slice (tyName "X")) .none),
            .ty (.mk false none [.ws [10], .ws [32]] .none (.tuple [] none) .none),
            .lt ⟨sp, 99, []⟩] (some [32, 10]))

def mkParam (pre name : String) (l1 l2 : Hdr.Layout) (ty : Ty) : Param :=
  ⟨str pre, (str name).headD 0, (str name).tail, l1, l2, ty⟩

/-- ```
@* greeting *@
@use super::Page;   @* c1 *@
@* c2 *@ @use std::fmt::{Display};

@<'a, 'b>( title: &'a [T], items : Vec<(A, B,)>,
   f: impl Fn, body:@*block*@ Content )

``` -/
def exHeader : Header :=
  { lead := [.comment (str " greeting "), .ws [10]]
    uses := [⟨str "use super::Page", [.ws (str "   "), .comment (str " c1 "), .ws [10], .comment (str " c2 "), .ws [32]]⟩,
             ⟨str "use std::fmt::{Display}", [.ws [10, 10]]⟩]
    lts := [⟨[], 97, []⟩, ⟨[32], 98, []⟩]
    params := [mkParam " " "title" [] sp tyTitle, mkParam " " "items" sp sp tyItems,
               mkParam "\n   " "f" [] sp tyF, mkParam " " "body" [] [.comment (str "block"), .ws [32]] (tyName "Content")]
    wsClose := [32]
    after := [.ws [10, 10]] }

/-- the same declaration with other material in every slot outside the recognised spans -/
def exHeader' : Header :=
  { lead := []
    uses := [⟨str "use super::Page", [.ws [10]]⟩, ⟨str "use std::fmt::{Display}", []⟩]
    lts := [⟨[32], 97, []⟩, ⟨[32], 98, []⟩]
    params := [mkParam "" "title" [] sp tyTitle, mkParam "\n\t" "items" sp sp tyItems,
               mkParam "" "f" [] sp tyF, mkParam "" "body" [] [.comment (str "block"), .ws [32]] (tyName "Content")]
    wsClose := []
    after := [.comment (str " the body: ")] }

/-- `<h1>@title</h1>⏎` -/
def exBody : List Node := [.text (str "<h1>"), .name 116 (str "itle"), .text (str "</h1>\n")]

#guard printHeader exHeader ++ printNodes exBody == str
  "@* greeting *@\n@use super::Page;   @* c1 *@\n@* c2 *@ @use std::fmt::{Display};\n\n@<'a, 'b>( title: &'a [T], items : Vec<(A, B,)>,\n   f: impl Fn, body:@*block*@ Content )\n\n<h1>@title</h1>\n"
#guard printHeader exHeader' ++ printNodes exBody == str
  "@use super::Page;\n@use std::fmt::{Display};@< 'a, 'b>(title: &'a [T],\n\titems : Vec<(A, B,)>,f: impl Fn,body:@*block*@ Content)@* the body: *@<h1>@title</h1>\n"
#guard printTy tyBig == str "&@*c*@ 'a @*d*@ dyn @*e*@ Tr<'b, @*f*@ [X],\n (), 'c, \n>"

example : wfHeader exHeader = true := by decide +kernel
example : wfHeader exHeader' = true := by decide +kernel
example : WF exBody [] := by unfold exBody; src_wf
example : StopsLayout (printNodes exBody) := stopsLayoutB_sound _ (by decide +kernel)
example : sameDecl exHeader exHeader' := by unfold sameDecl; rfl
example : fuelTemplate exHeader exBody = 5 := by decide +kernel
example : wfTy tyBig = true ∧ fuelTy tyBig = 5 := by decide +kernel

/-- the theorem applied to the concrete template … -/
example : template 5 (printHeader exHeader ++ printNodes exBody) = .ok [] (intended exHeader exBody) :=
  template_complete exHeader exBody 5 (by decide +kernel) (by unfold exBody; src_wf)
    (stopsLayoutB_sound _ (by decide +kernel)) (by decide +kernel)

/-- … and to the other layout: the same `Template` -/
example : template 5 (printHeader exHeader' ++ printNodes exBody) = template 5 (printHeader exHeader ++ printNodes exBody) :=
  (header_layout_irrelevant exHeader exHeader' exBody exBody 5 (by unfold sameDecl; rfl) rfl (by decide +kernel)
    (by decide +kernel) (by unfold exBody; src_wf) (by unfold exBody; src_wf) (stopsLayoutB_sound _ (by decide +kernel))
    (stopsLayoutB_sound _ (by decide +kernel)) (by decide +kernel)).1

example : typeExpression 5 (printTy tyBig ++ str ")") = .ok (str ")") () :=
  typeExpression_complete tyBig _ 5 (by decide +kernel) (by decide +kernel) (by decide +kernel)

-- Boolean equality of templates (for `#guard`)
def beqT (a b : Template) : Bool :=
  a.preamble == b.preamble && a.typeArgs == b.typeArgs && a.args == b.args && C15Tree.beqL a.body b.body

/-- the model parses the print (at fuel `n`) to the intended template -/
def hdrAgrees (h : Header) (ns : List Node) (n : Nat) : Bool :=
  match template n (printHeader h ++ printNodes ns) with
  | .ok [] T => beqT T (intended h ns)
  | _ => false

/-- the model takes exactly the print of the type in front of `rest` -/
def tyAgrees (t : Ty) (rest : String) (n : Nat) : Bool :=
  match typeExpression n (printTy t ++ str rest) with
  | .ok r _ => r == str rest
  | _ => false

def tyOom (t : Ty) (rest : String) (n : Nat) : Bool :=
  match typeExpression n (printTy t ++ str rest) with
  | .oom => true
  | _ => false

/-- the model takes exactly the span of the parameter in front of `rest` and returns it -/
def argAgrees (p : Param) (rest : String) (n : Nat) : Bool :=
  match formalArgument n (p.span ++ str rest) with
  | .ok r v => r == str rest && v == p.span
  | _ => false

-- the parser evaluated on the prints
#guard hdrAgrees exHeader exBody 5
#guard hdrAgrees exHeader' exBody 5
#guard (intended exHeader exBody).args == [str "title: &'a [T]", str "items : Vec<(A, B,)>", str "f: impl Fn", str "body:@*block*@ Content"]
#guard (intended exHeader exBody).preamble == [str "use super::Page", str "use std::fmt::{Display}"]
#guard (intended exHeader exBody).typeArgs == str "'a, 'b"
#guard tyAgrees tyTitle "," 2 && tyAgrees tyItems ")" 5 && tyAgrees tyF " )" 1 && tyAgrees tyBig ")" 5
#guard argAgrees (mkParam "" "a" sp sp tyTitle) ")" 2

/-- the smallest template: `@()` -/
def hNil : Header := { lead := [], uses := [], lts := [], params := [], wsClose := [], after := [] }
#guard wfHeader hNil && hdrAgrees hNil [] 0 && printHeader hNil == str "@()"

/-! ### every side condition is needed: the model on prints that violate exactly one of them

`chkTy t rest` = (`wfTy t`, `tyFollowB t rest`, the model agrees); `chk h ns` = (`wfHeader h`, the model agrees). -/

def chkTy (t : Ty) (rest : String) : Bool × Bool × Bool := (wfTy t, tyFollowB t (str rest), tyAgrees t rest 9)

-- `wfTy`: a lifetime directly followed by a name character (`&'aT`): the lifetime's name continues
#guard chkTy (.mk true (some ⟨[], 97, []⟩) [] .none (nameB "T") .none) "," == (false, true, false)
-- … whereas `&'a[T]` is fine
#guard chkTy (.mk true (some ⟨[], 97, []⟩) [] .none (.slice (tyName "T")) .none) "," == (true, true, true)
-- `wfTy`: a lifetime whose name is not a name (`&'1 T`)
#guard chkTy (.mk true (some ⟨[], 49, []⟩) sp .none (nameB "T") .none) "," == (false, true, false)
-- `wfTy`: an inadmissible layout item (a comment body containing `*@`) in the slot before the keyword / the base
#guard chkTy (.mk false none [.comment (str "a*@b")] .none (nameB "T") .none) "," == (false, true, false)
-- … in the slot after `impl`
#guard chkTy (.mk false none [] (.impl [.comment (str "*@")]) (nameB "Fn") .none) "," == (false, true, false)
-- `wfTy` (`baseKwSafe`): the names `impl9`, `dyn`: the prefix is taken as the keyword, no name follows
#guard chkTy (tyName "impl9") "," == (false, true, false)
#guard chkTy (tyName "dyn") "," == (false, true, false)
-- … whereas `implFoo`, `dynamic` are taken in full (as keyword + name, which consumes the same bytes)
#guard chkTy (tyName "implFoo") "," == (true, true, true)
#guard chkTy (tyName "dynamic") "," == (true, true, true)
-- `wfTy`: a base name that is not a name (`9T`)
#guard chkTy (tyName "9T") "," == (false, true, false)
-- `wfTy` (`trailingOk`): the slot after a trailing comma is white space only, no comments (`(A,@*c*@)`)
#guard chkTy (.mk false none [] .none (.tuple [.ty (tyName "A")] (some (str "@*c*@"))) .none) "," == (false, true, false)
-- … whereas a comment after a comma that an element follows is fine (`(A,@*c*@B)`: the element's own slot)
#guard chkTy (.mk false none [] .none (.tuple [.ty (tyName "A"), .ty (.mk false none [.comment (str "c")] .none (nameB "B") .none)] none) .none) ","
  == (true, true, true)
-- `tyFollowB`: a final name followed by a name character: the name continues
#guard chkTy (tyName "T") "x," == (true, false, false)
-- `tyFollowB`: a type without generic arguments followed by `<A>`: taken as its generic arguments
#guard chkTy (tyName "T") "<A>," == (true, false, false)
-- (the `<` test is sufficient, not necessary: a `<` that does not open a well-formed argument list is left alone)
#guard chkTy (tyName "T") "<)," == (true, false, true)
-- … whereas after `Vec<…>` a `<` is left alone, and after `&'a [T]` a name character is
#guard chkTy tyItems "<A>," == (true, true, true)
#guard chkTy tyTitle "x," == (true, true, true)
-- the fuel bound is sharp on these
#guard fuelTy tyItems == 5 && tyAgrees tyItems ")" 5 && tyOom tyItems ")" 4
#guard fuelTy tyBig == 5 && tyOom tyBig ")" 4
#guard fuelTy (tyName "T") == 1 && tyAgrees (tyName "T") "," 1 && tyOom (tyName "T") "," 0

-- `Param.declOk`: the span must be valid UTF-8 (a comment inside it may contain any bytes)
#guard (mkParam "" "a" [] [.comment [0xFF]] (tyName "T")).declOk == false &&
  !argAgrees (mkParam "" "a" [] [.comment [0xFF]] (tyName "T")) ")" 2
-- `Param.declOk`: the parameter name must be a name, the layouts admissible
#guard (mkParam "" "9a" [] [] (tyName "T")).declOk == false && !argAgrees (mkParam "" "9a" [] [] (tyName "T")) ")" 2
#guard (mkParam "" "a" [.comment (str "*@")] [] (tyName "T")).declOk == false &&
  !argAgrees (mkParam "" "a" [.comment (str "*@")] [] (tyName "T")) ")" 2
#guard (mkParam "" "a" [] [.comment (str "*@")] (tyName "T")).declOk == false &&
  !argAgrees (mkParam "" "a" [] [.comment (str "*@")] (tyName "T")) ")" 2

/-- `@(a: T)` -/
def h0 : Header :=
  { lead := [], uses := [], lts := [], params := [mkParam "" "a" [] sp (tyName "T")], wsClose := [], after := [] }
def b0 : List Node := [.text (str "x")]
def chk (h : Header) (ns : List Node := b0) : Bool × Bool := (wfHeader h, hdrAgrees h ns 5)

#guard chk h0 == (true, true)
-- fuel: `@(a: T)x` needs 1, the example above 5
#guard !hdrAgrees exHeader exBody 4
#guard fuelTemplate h0 b0 == 1 && hdrAgrees h0 b0 1 && !hdrAgrees h0 b0 0
-- `wfHeader`, use lines: a text starting with `*` (`@*a;@(a: T)x*@@`: everything up to the `*@` is a comment)
#guard chk { h0 with uses := [⟨str "*a", []⟩] } [.text (str "x*"), .escAt] == (false, false)
-- (sufficient, not necessary: without a later `*@` the same use line is taken as such)
#guard chk { h0 with uses := [⟨str "*a", []⟩] } == (false, true)
-- … an empty text, a text containing `(`, a text that is not UTF-8, an inadmissible layout after the `;`
#guard chk { h0 with uses := [⟨[], []⟩] } == (false, false)
#guard chk { h0 with uses := [⟨str "use a(b", []⟩] } == (false, false)
#guard chk { h0 with uses := [⟨[0xFF], []⟩] } == (false, false)
#guard chk { h0 with uses := [⟨str "use a", [.comment (str "*@")]⟩] } == (false, false)
#guard chk { h0 with uses := [⟨str "use a::b", sp⟩] } == (true, true)
-- `wfHeader`: the leading layout
#guard chk { h0 with lead := [.comment (str "*@")] } == (false, false)
-- `wfHeader`, lifetimes: the slots are white space only (`@<@*c*@'a>(…)`), the names are names
#guard chk { h0 with lts := [⟨str "@*c*@", 97, []⟩] } == (false, false)
#guard chk { h0 with lts := [⟨[], 49, []⟩] } == (false, false)
#guard chk { h0 with lts := [⟨[32], 97, []⟩, ⟨[10], 98, [49]⟩] } == (true, true)
-- `wfHeader`, parameters: the slots after `(`, after a comma and before `)` are white space only
#guard chk { h0 with params := [mkParam "@*c*@" "a" [] sp (tyName "T")] } == (false, false)
#guard chk { h0 with params := [mkParam " " "a" [] sp (tyName "T"), mkParam "@*c*@" "b" [] sp (tyName "T")] } == (false, false)
#guard chk { h0 with params := [mkParam " " "a" [] sp (tyName "T"), mkParam "\n" "b" [] sp (tyName "T")] } == (true, true)
#guard chk { h0 with wsClose := str "@*c*@" } == (false, false)
#guard chk { h0 with wsClose := str " \n" } == (true, true)
-- `wfHeader`: the layout after `)`
#guard chk { h0 with after := [.comment (str "*@")] } == (false, false)
#guard chk { h0 with after := [.comment (str "c"), .ws [10]] } == (true, true)
-- `StopsLayout (printNodes ns)`: a body that starts with white space or a comment loses it
#guard chk h0 [.text (str "\n<p>")] == (true, false)
#guard chk h0 [.comment (str "c"), .text (str "<p>")] == (true, false)
#guard chk { h0 with after := [.ws [10]] } [.text (str "<p>")] == (true, true)
-- not in the grammar (no slot in `Header`), and indeed rejected by the model: white space before a comma,
-- a trailing comma in the parameter list, white space before `>`, between `@` and `(`, between `>` and `(`
#guard (match template 5 (str "@(a: T, b: U)x") with | .ok _ _ => true | _ => false)
#guard (match template 5 (str "@(a: T ,b: U)x") with | .ok _ _ => false | _ => true)
#guard (match template 5 (str "@(a: T, )x") with | .ok _ _ => false | _ => true)
#guard (match template 5 (str "@<'a >(a: T)x") with | .ok _ _ => false | _ => true)
#guard (match template 5 (str "@ (a: T)x") with | .ok _ _ => false | _ => true)
#guard (match template 5 (str "@<'a> (a: T)x") with | .ok _ _ => false | _ => true)
-- Rust types outside the documented grammar are not taken in full by the model either (so such a
-- declaration is rejected): `&mut T`, paths, `Fn(A) -> B`, arrays
#guard (match typeExpression 9 (str "&mut T,") with | .ok r _ => r == str " T," | _ => false)
#guard (match typeExpression 9 (str "a::B,") with | .ok r _ => r == str "::B," | _ => false)
#guard (match typeExpression 9 (str "Fn(A) -> B,") with | .ok r _ => r == str "(A) -> B," | _ => false)
#guard (match typeExpression 9 (str "[T; 3],") with | .ok _ _ => false | _ => true)
-- likewise inside types: white space before a comma or a closing delimiter, or inside `()`
#guard (match typeExpression 9 (str "(A ,B),") with | .ok r _ => r != str "," | _ => true)
#guard (match typeExpression 9 (str "( ),") with | .ok r _ => r != str "," | _ => true)

end Examples

end Ructe.C13Header

#print axioms Ructe.C13Header.typeExpression_complete
#print axioms Ructe.C13Header.formalArgument_complete
#print axioms Ructe.C13Header.template_complete
#print axioms Ructe.C13Header.header_layout_irrelevant
#print axioms Ructe.C13Header.args_verbatim
#print axioms Ructe.C13Header.use_verbatim
#print axioms Ructe.C13Header.typeArgs_verbatim
#print axioms Ructe.C13Header.signature_of_source
