import RucteModel.Statics
import RucteTables.Mime

/-!
# C19 — content types follow the file suffix

The two `mime_from_suffix` tables, the `mime_arg` format string and the constant list of the
`mime` crate are **regenerated from the sources on every run** (`RucteTables/Mime.lean`,
written by `tools/translate.py` from `/repo/src/staticfiles.rs` and the cached
`mime-0.3.17/src/lib.rs`).  The theorems below are closed by `decide` in the kernel, so a changed
row re-opens a proof obligation.  `registered` is the committed specification.
The `http-types` crate is not in the offline registry: its constant list is committed here
(trusted base).
-/
namespace Ructe.C19
open RucteTables

/-- registered media types per suffix (where two registrations are in common use, both are accepted) -/
def registered : List (String × List String) := [
  ("css", ["text/css"]),
  ("js", ["text/javascript", "application/javascript"]),
  ("jsonp", ["text/javascript", "application/javascript"]),
  ("json", ["application/json"]),
  ("png", ["image/png"]),
  ("jpg", ["image/jpeg"]),
  ("jpeg", ["image/jpeg"]),
  ("gif", ["image/gif"]),
  ("bmp", ["image/bmp"]),
  ("svg", ["image/svg+xml"]),
  ("woff", ["font/woff"]),
  ("woff2", ["font/woff2"]),
  ("ico", ["image/x-icon", "image/vnd.microsoft.icon"]),
  ("html", ["text/html"]),
  ("htm", ["text/html"]),
  ("txt", ["text/plain"]),
  ("wasm", ["application/wasm"]),
  ("xml", ["application/xml", "text/xml"])]

/-- constants of `http_types::mime` (http-types 2.x), committed: the crate is not available offline -/
def httpTypesConstants : List (String × String) := [
  ("ANY", "*/*"), ("BYTE_STREAM", "application/octet-stream"), ("CSS", "text/css"),
  ("FORM", "application/x-www-form-urlencoded"), ("HTML", "text/html"), ("ICO", "image/x-icon"),
  ("JAVASCRIPT", "text/javascript"), ("JPEG", "image/jpeg"), ("JSON", "application/json"),
  ("MULTIPART_FORM", "multipart/form-data"), ("PLAIN", "text/plain"), ("PNG", "image/png"),
  ("SSE", "text/event-stream"), ("SVG", "image/svg+xml"), ("WASM", "application/wasm"),
  ("XML", "application/xml")]

/-- a table row is right when its constant exists in the crate and denotes a registered type of its suffix -/
def rowOk (consts : List (String × String)) (r : String × String) : Bool :=
  match registered.lookup r.1, consts.lookup r.2 with
  | some types, some t => types.contains t
  | _, _ => false

/-- the keys are lower case, so that lower-casing the suffix first makes the match case-insensitive -/
def keyLower (r : String × String) : Bool := r.1.toList.all fun c => !(c.isUpper)

theorem mime03_rows_correct : mime03Rows.all (rowOk mime03Constants) = true := by decide
theorem mime03_default : mime03Constants.lookup mime03Default = some "application/octet-stream" := by decide
theorem httpTypes_rows_correct : httpTypesRows.all (rowOk httpTypesConstants) = true := by decide
theorem httpTypes_default : httpTypesConstants.lookup httpTypesDefault = some "application/octet-stream" := by decide
theorem lookups_lowercase : mime03Lowercases = true ∧ httpTypesLowercases = true := by decide
theorem keys_lowercase : mime03Rows.all keyLower = true ∧ httpTypesRows.all keyLower = true := by decide
/-- the constant is printed behind exactly one `mime::` prefix -/
theorem format_prefix : mimeArgFormat = "  mime: &mime::{},\n" := by decide
/-- the suffixes the property names are all listed by both features (where the crate has a constant) -/
theorem listed_suffixes :
    (["css", "js", "json", "png", "jpg", "jpeg", "svg", "woff", "woff2"].all fun s => (mime03Rows.lookup s).isSome) = true ∧
    (["css", "js", "json", "png", "jpg", "jpeg", "svg"].all fun s => (httpTypesRows.lookup s).isSome) = true := by decide

/-! ### The lookup function of the model (`Ructe.mimeFromSuffix`), for every suffix -/

theorem lookupS_cases (rows : List (String × String)) (d : String) (k : Nom.Bytes) :
    lookupS rows d k = Nom.str d ∨ ∃ r ∈ rows, (Nom.str r.1 == k) = true ∧ lookupS rows d k = Nom.str r.2 := by
  unfold lookupS
  cases h : rows.find? (fun r => Nom.str r.1 == k) with
  | none => left; rfl
  | some r =>
    right
    exact ⟨r, List.mem_of_find?_eq_some h, by simpa using List.find?_some h, rfl⟩

/-- **never the type of a different format**: for every suffix the constant is the default
(generic binary) one or the one of the row whose key is the lower-cased suffix. -/
theorem mime03_never_other (suffix : Nom.Bytes) :
    mimeFromSuffix .mime03 suffix = Nom.str mime03Default ∨
    ∃ r ∈ mime03Rows, Nom.str r.1 = asciiLower suffix ∧ mimeFromSuffix .mime03 suffix = Nom.str r.2 := by
  have hl : mime03Lowercases = true := by decide
  simp only [mimeFromSuffix, hl, if_true]
  rcases lookupS_cases mime03Rows mime03Default (asciiLower suffix) with h | ⟨r, hr, hk, hv⟩
  · left; exact h
  · right; exact ⟨r, hr, by simpa using hk, hv⟩

theorem httpTypes_never_other (suffix : Nom.Bytes) :
    mimeFromSuffix .httpTypes suffix = Nom.str httpTypesDefault ∨
    ∃ r ∈ httpTypesRows, Nom.str r.1 = asciiLower suffix ∧ mimeFromSuffix .httpTypes suffix = Nom.str r.2 := by
  have hl : httpTypesLowercases = true := by decide
  simp only [mimeFromSuffix, hl, if_true]
  rcases lookupS_cases httpTypesRows httpTypesDefault (asciiLower suffix) with h | ⟨r, hr, hk, hv⟩
  · left; exact h
  · right; exact ⟨r, hr, by simpa using hk, hv⟩

theorem lowerB_idem_nat : ∀ n < 256, lowerB (lowerB n.toUInt8) = lowerB n.toUInt8 := by decide +kernel

theorem lowerB_idem (b : UInt8) : lowerB (lowerB b) = lowerB b := by
  have := lowerB_idem_nat b.toNat b.toNat_lt
  simpa using this

theorem asciiLower_idem (s : Nom.Bytes) : asciiLower (asciiLower s) = asciiLower s := by
  simp [asciiLower, List.map_map, Function.comp_def, lowerB_idem]

/-- **case-insensitive**: a suffix and any re-casing of it (same lower-case form) get the same constant -/
theorem mime_case_insensitive (f : MimeFeature) (s t : Nom.Bytes) (h : asciiLower s = asciiLower t) :
    mimeFromSuffix f s = mimeFromSuffix f t := by
  have h1 : mime03Lowercases = true := by decide
  have h2 : httpTypesLowercases = true := by decide
  cases f <;> simp [mimeFromSuffix, h1, h2, h]

-- tests (evaluated): the lookup computes
#guard mimeFromSuffix .mime03 (Nom.str "CsS") == Nom.str "TEXT_CSS"
#guard mimeFromSuffix .mime03 (Nom.str "zip") == Nom.str "APPLICATION_OCTET_STREAM"

end Ructe.C19
