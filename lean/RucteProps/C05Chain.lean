import RucteModel.Expr
import RucteProofs.ChainLemmas
import RucteProps.C05Complete

/-!
# C05 (continued) — maximal munch of `@expression` for the whole documented chain grammar

`DExpr` is the documented form of an `@expression`, modelled the way the scanner really nests it:
after `.` / `::` comes a complete `expression`, which takes a maximal chain itself, so a documented
expression is a non-empty `.`/`::`-separated list of *segments*

    segment ::= prefix? atom gpost*          prefix ::= `&` | `*`
    atom    ::= name | digits | "string" | ( group ) | [ group ]
    gpost   ::= ( group ) | [ group ] | { group } | !( group ) | ![ group ]

(`a.b.c(1)` is `a` `.` (`b` `.` (`c` `(1)`))).  Main theorem: `expression_complete`.
-/
namespace Ructe.C05
open Nom

/-! ## the documented form -/

/-- optional prefix operator -/
inductive Pre where
  | none | amp | star
deriving DecidableEq, Repr

def Pre.print : Pre → Bytes
  | .none => []
  | .amp => [38]
  | .star => [42]

inductive Atom where
  | name (b : UInt8) (cs : Bytes)          -- `b` a letter or `_`, `cs` letters, digits, `_`
  | digits (d : UInt8) (ds : Bytes)        -- a non-empty run of decimal digits
  | str (items : List StrItem)             -- `"…"`
  | parens (g : List Grp)                  -- `( … )`
  | brackets (g : List Grp)                -- `[ … ]`

def Atom.print : Atom → Bytes
  | .name b cs => b :: cs
  | .digits d ds => d :: ds
  | .str items => printStr items
  | .parens g => [40] ++ Grp.printL g ++ [41]
  | .brackets g => [91] ++ Grp.printL g ++ [93]

/-- group content well-formed and valid UTF-8 -/
def grpOk (g : List Grp) : Bool := Grp.wfL g && validUtf8 (Grp.printL g)

def Atom.wf : Atom → Bool
  | .name b cs => isNameStart b && cs.all isNameChar
  | .digits d ds => isDigit d && ds.all isDigit
  | .str items => items.all StrItem.ok && validUtf8 (printStr items)
  | .parens g => grpOk g
  | .brackets g => grpOk g

/-- the least `n` such that the atom parsers at level `n` (inside `expression (n+1)`) take the atom -/
def Atom.fuel : Atom → Nat
  | .parens g => Grp.fuelL g + 3
  | .brackets g => Grp.fuelL g + 2
  | _ => 0

/-- bytes that would make the atom's token longer if they came directly after it -/
def Atom.contBy : Atom → UInt8 → Bool
  | .name _ _ => isNameChar
  | .digits _ _ => isDigit
  | _ => fun _ => false

/-- the links of the chain that are bracketed groups -/
inductive Post where
  | call (g : List Grp)                    -- `( … )`
  | index (g : List Grp)                   -- `[ … ]`
  | braces (g : List Grp)                  -- `{ … }`
  | bangCall (g : List Grp)                -- `!( … )`
  | bangIndex (g : List Grp)               -- `![ … ]`

def Post.print : Post → Bytes
  | .call g => [40] ++ Grp.printL g ++ [41]
  | .index g => [91] ++ Grp.printL g ++ [93]
  | .braces g => [123] ++ Grp.printL g ++ [125]
  | .bangCall g => [33, 40] ++ Grp.printL g ++ [41]
  | .bangIndex g => [33, 91] ++ Grp.printL g ++ [93]

def Post.group : Post → List Grp
  | .call g | .index g | .braces g | .bangCall g | .bangIndex g => g

def Post.wf (p : Post) : Bool := grpOk p.group

def Post.fuel : Post → Nat
  | .call g | .bangCall g => Grp.fuelL g + 3
  | .index g | .braces g | .bangIndex g => Grp.fuelL g + 2

def printPosts : List Post → Bytes
  | [] => []
  | p :: ps => p.print ++ printPosts ps

def postsFuel : List Post → Nat
  | [] => 0
  | p :: ps => max p.fuel (postsFuel ps)

/-- `.` or `::` -/
inductive Sep where
  | dot | path
deriving DecidableEq, Repr

def Sep.print : Sep → Bytes
  | .dot => [46]
  | .path => [58, 58]

/-- the documented `@expression`, nested the way the scanner nests it -/
inductive DExpr where
  | last (p : Pre) (a : Atom) (ps : List Post)
  | link (p : Pre) (a : Atom) (ps : List Post) (s : Sep) (next : DExpr)

def DExpr.print : DExpr → Bytes
  | .last p a ps => p.print ++ a.print ++ printPosts ps
  | .link p a ps s next => p.print ++ a.print ++ printPosts ps ++ s.print ++ next.print

def DExpr.wf : DExpr → Bool
  | .last _ a ps => a.wf && ps.all Post.wf
  | .link _ a ps _ next => a.wf && ps.all Post.wf && next.wf

/-- fuel (recursion depth of `expression`) that suffices -/
def DExpr.fuel : DExpr → Nat
  | .last _ a ps => max 2 (max a.fuel (postsFuel ps)) + 1
  | .link _ a ps _ next => max (max 2 (max a.fuel (postsFuel ps))) next.fuel + 1

/-- bytes that would make the *last token* of the expression longer: name characters after a bare
name, digits after a bare number; nothing after a closing delimiter or quote -/
def DExpr.contBy : DExpr → UInt8 → Bool
  | .last _ a [] => a.contBy
  | .last _ _ (_ :: _) => fun _ => false
  | .link _ _ _ _ next => next.contBy

/-- the follower does not continue the last token -/
def DExpr.follows (e : DExpr) : Bytes → Bool
  | [] => true
  | c :: _ => !e.contBy c

/-! ## bracketed groups standing alone -/

/-- `[ … ]` is taken in full, whatever follows -/
theorem exprInBrackets_complete_fuel (g : List Grp) (hw : Grp.wfL g = true) (hv : validUtf8 (Grp.printL g) = true)
    (rest : Bytes) (n : Nat) (hn : Grp.fuelL g + 1 < n) :
    exprInBrackets n (91 :: (Grp.printL g ++ 93 :: rest)) = .ok rest (91 :: (Grp.printL g ++ [93])) := by
  obtain ⟨i, rfl⟩ : ∃ i, n = i + 2 := ⟨n - 2, by omega⟩
  have h1 := Grp.absorbL g hw (Grp.vokL_of g [] hv) (i + 1) (by omega) _ _ (specB i) (93 :: rest) (93 :: rest)
    (by simp) (ginv_stop (by decide) (stepB_stop i rest))
  exact exprInBrackets_of_loop (i + 1) _ rest h1.1 hv

/-- `{ … }` is taken in full, whatever follows -/
theorem exprInBraces_complete_fuel (g : List Grp) (hw : Grp.wfL g = true) (hv : validUtf8 (Grp.printL g) = true)
    (rest : Bytes) (n : Nat) (hn : Grp.fuelL g + 1 < n) :
    exprInBraces n (123 :: (Grp.printL g ++ 125 :: rest)) = .ok rest (123 :: (Grp.printL g ++ [125])) := by
  obtain ⟨i, rfl⟩ : ∃ i, n = i + 2 := ⟨n - 2, by omega⟩
  have h1 := Grp.absorbL g hw (Grp.vokL_of g [] hv) (i + 1) (by omega) _ _ (specC i) (125 :: rest) (125 :: rest)
    (by simp) (ginv_stop (by decide) (stepC_stop i rest))
  exact exprInBraces_of_loop (i + 1) _ rest h1.1 hv

/-- `( … )` in cons form -/
theorem exprInParens_complete_cons (g : List Grp) (hw : Grp.wfL g = true) (hv : validUtf8 (Grp.printL g) = true)
    (rest : Bytes) (n : Nat) (hn : Grp.fuelL g + 2 < n) :
    exprInParens n (40 :: (Grp.printL g ++ 41 :: rest)) = .ok rest (40 :: (Grp.printL g ++ [41])) := by
  have := exprInParens_complete_fuel g hw hv rest n hn
  simpa using this

theorem grpOk_iff (g : List Grp) : grpOk g = true ↔ Grp.wfL g = true ∧ validUtf8 (Grp.printL g) = true := by
  simp [grpOk]

/-! ## atoms -/

theorem Atom.complete (a : Atom) (hw : a.wf = true) (X : Bytes) (n : Nat) (hn : a.fuel ≤ n) (h1 : 1 ≤ n)
    (hX : ∀ c r, X = c :: r → a.contBy c = false) :
    exprAtom n (a.print ++ X) = .ok X a.print := by
  cases a with
  | name b cs =>
    simp only [Atom.wf, Bool.and_eq_true] at hw
    exact exprAtom_name n (rustName_complete b cs X hw.1 hw.2 hX)
  | digits d ds =>
    simp only [Atom.wf, Bool.and_eq_true] at hw
    exact exprAtom_digits n d ds X hw.1 hw.2 hX
  | str items =>
    simp only [Atom.wf, Bool.and_eq_true, List.all_eq_true] at hw
    have h := quotedString_complete items hw.1 hw.2 X
    have e : printStr items ++ X = 34 :: (strBody items ++ 34 :: X) := by simp [printStr_eq]
    simp only [Atom.print]
    rw [e] at h ⊢
    exact exprAtom_str n h
  | parens g =>
    obtain ⟨hw1, hw2⟩ := (grpOk_iff g).mp hw
    simp only [Atom.fuel] at hn
    have h := exprInParens_complete_cons g hw1 hw2 X n (by omega)
    have e : Atom.print (.parens g) ++ X = 40 :: (Grp.printL g ++ 41 :: X) := by simp [Atom.print]
    have e' : Atom.print (.parens g) = 40 :: (Grp.printL g ++ [41]) := by simp [Atom.print]
    rw [e, e']
    exact exprAtom_parens n h
  | brackets g =>
    obtain ⟨hw1, hw2⟩ := (grpOk_iff g).mp hw
    simp only [Atom.fuel] at hn
    obtain ⟨m, rfl⟩ : ∃ m, n = m + 1 := ⟨n - 1, by omega⟩
    have h := exprInBrackets_complete_fuel g hw1 hw2 X (m + 1) (by omega)
    have e : Atom.print (.brackets g) ++ X = 91 :: (Grp.printL g ++ 93 :: X) := by simp [Atom.print]
    have e' : Atom.print (.brackets g) = 91 :: (Grp.printL g ++ [93]) := by simp [Atom.print]
    rw [e, e']
    exact exprAtom_brackets m h

/-- an atom starts with a byte that is not a prefix operator -/
theorem Atom.head (a : Atom) (hw : a.wf = true) : ∃ b x, a.print = b :: x ∧ b ≠ 38 ∧ b ≠ 42 := by
  cases a with
  | name b cs =>
    simp only [Atom.wf, Bool.and_eq_true] at hw
    exact ⟨b, cs, rfl, (nameStart_facts b hw.1).2⟩
  | digits d ds =>
    simp only [Atom.wf, Bool.and_eq_true] at hw
    have hd := hw.1
    refine ⟨d, ds, rfl, ?_, ?_⟩ <;> (rintro rfl; revert hd; decide)
  | str items => exact ⟨34, strBody items ++ [34], by simp [Atom.print, printStr_eq], by decide, by decide⟩
  | parens g => exact ⟨40, Grp.printL g ++ [41], by simp [Atom.print], by decide, by decide⟩
  | brackets g => exact ⟨91, Grp.printL g ++ [93], by simp [Atom.print], by decide, by decide⟩

/-! ## group links of the chain -/

theorem Post.step (p : Post) (hw : p.wf = true) (X : Bytes) (n : Nat) (hn : p.fuel ≤ n) :
    chainStep n (p.print ++ X) = .ok X () := by
  obtain ⟨hw1, hw2⟩ := (grpOk_iff _).mp hw
  cases p with
  | call g =>
    simp only [Post.fuel] at hn
    have h := exprInParens_complete_cons g hw1 hw2 X n (by omega)
    have e : Post.print (.call g) ++ X = 40 :: (Grp.printL g ++ 41 :: X) := by simp [Post.print]
    rw [e]
    exact chainStep_paren n _ _ _ h
  | index g =>
    simp only [Post.fuel] at hn
    obtain ⟨m, rfl⟩ : ∃ m, n = m + 1 := ⟨n - 1, by omega⟩
    have h := exprInBrackets_complete_fuel g hw1 hw2 X (m + 1) (by omega)
    have e : Post.print (.index g) ++ X = 91 :: (Grp.printL g ++ 93 :: X) := by simp [Post.print]
    rw [e]
    exact chainStep_bracket m _ _ _ h
  | braces g =>
    simp only [Post.fuel] at hn
    obtain ⟨m, rfl⟩ : ∃ m, n = m + 1 := ⟨n - 1, by omega⟩
    have h := exprInBraces_complete_fuel g hw1 hw2 X (m + 1) (by omega)
    have e : Post.print (.braces g) ++ X = 123 :: (Grp.printL g ++ 125 :: X) := by simp [Post.print]
    rw [e]
    exact chainStep_brace m _ _ _ h
  | bangCall g =>
    simp only [Post.fuel] at hn
    obtain ⟨m, rfl⟩ : ∃ m, n = m + 1 := ⟨n - 1, by omega⟩
    have h := exprInParens_complete_cons g hw1 hw2 X (m + 1) (by omega)
    have e : Post.print (.bangCall g) ++ X = 33 :: 40 :: (Grp.printL g ++ 41 :: X) := by simp [Post.print]
    rw [e]
    exact chainStep_bangParen m _ _ _ h
  | bangIndex g =>
    simp only [Post.fuel] at hn
    obtain ⟨m, rfl⟩ : ∃ m, n = m + 1 := ⟨n - 1, by omega⟩
    have h := exprInBrackets_complete_fuel g hw1 hw2 X (m + 1) (by omega)
    have e : Post.print (.bangIndex g) ++ X = 33 :: 91 :: (Grp.printL g ++ 93 :: X) := by simp [Post.print]
    rw [e]
    exact chainStep_bangBracket m _ _ _ h

theorem Post.print_length_pos (p : Post) : 0 < p.print.length := by
  cases p <;> simp [Post.print]

/-- a post starts with `(`, `[`, `{` or `!` -/
theorem Post.head (p : Post) : ∃ b x, p.print = b :: x ∧ (b = 40 ∨ b = 91 ∨ b = 123 ∨ b = 33) := by
  cases p with
  | call g => exact ⟨40, _, by simp [Post.print]; rfl, by simp⟩
  | index g => exact ⟨91, _, by simp [Post.print]; rfl, by simp⟩
  | braces g => exact ⟨123, _, by simp [Post.print]; rfl, by simp⟩
  | bangCall g => exact ⟨33, _, by simp [Post.print]; rfl, by simp⟩
  | bangIndex g => exact ⟨33, _, by simp [Post.print]; rfl, by simp⟩

/-- the chain loop absorbs a list of group links -/
theorem posts_absorb (ps : List Post) (hw : ps.all Post.wf = true) (n : Nat) (hn : postsFuel ps ≤ n)
    (T X : Bytes) (h : GAbsorbs (chainStep n) T X) : GAbsorbs (chainStep n) T (printPosts ps ++ X) := by
  induction ps with
  | nil => exact h
  | cons p ps ih =>
    simp only [List.all_cons, Bool.and_eq_true] at hw
    simp only [postsFuel] at hn
    have e : printPosts (p :: ps) ++ X = p.print ++ (printPosts ps ++ X) := by simp [printPosts]
    rw [e]
    refine gabsorbs_step (Post.step p hw.1 _ n (by omega)) ?_ (ih hw.2 (by omega))
    have := Post.print_length_pos p
    simp only [List.length_append]; omega

/-! ## the print of a well-formed documented expression is valid UTF-8 -/

theorem validUtf8_group (o c : UInt8) (g : List Grp) (ho : o < 0x80) (hc : c < 0x80) (h : grpOk g = true) :
    validUtf8 ([o] ++ Grp.printL g ++ [c]) = true := by
  have := validUtf8_wrap o c _ ho hc ((grpOk_iff g).mp h).2
  simpa using this

theorem Atom.valid (a : Atom) (hw : a.wf = true) : validUtf8 a.print = true := by
  cases a with
  | name b cs =>
    simp only [Atom.wf, Bool.and_eq_true] at hw
    exact rustName_valid (rustName_complete b cs [] hw.1 hw.2 (fun _ _ e => by simp at e))
  | digits d ds =>
    simp only [Atom.wf, Bool.and_eq_true] at hw
    apply validUtf8_ascii
    intro c hc
    rcases List.mem_cons.mp hc with rfl | hc
    · exact digit_ascii _ hw.1
    · exact digit_ascii _ (List.all_eq_true.mp hw.2 c hc)
  | str items =>
    simp only [Atom.wf, Bool.and_eq_true] at hw
    exact hw.2
  | parens g => exact validUtf8_group 40 41 g (by decide) (by decide) hw
  | brackets g => exact validUtf8_group 91 93 g (by decide) (by decide) hw

theorem Post.valid (p : Post) (hw : p.wf = true) : validUtf8 p.print = true := by
  cases p with
  | call g => exact validUtf8_group 40 41 g (by decide) (by decide) hw
  | index g => exact validUtf8_group 91 93 g (by decide) (by decide) hw
  | braces g => exact validUtf8_group 123 125 g (by decide) (by decide) hw
  | bangCall g =>
    have := validUtf8_group 40 41 g (by decide) (by decide) hw
    have e : Post.print (.bangCall g) = 33 :: ([40] ++ Grp.printL g ++ [41]) := by simp [Post.print]
    rw [e, validUtf8_cons_ascii _ _ (by decide)]
    exact this
  | bangIndex g =>
    have := validUtf8_group 91 93 g (by decide) (by decide) hw
    have e : Post.print (.bangIndex g) = 33 :: ([91] ++ Grp.printL g ++ [93]) := by simp [Post.print]
    rw [e, validUtf8_cons_ascii _ _ (by decide)]
    exact this

theorem posts_valid (ps : List Post) (hw : ps.all Post.wf = true) : validUtf8 (printPosts ps) = true := by
  induction ps with
  | nil => rfl
  | cons p ps ih =>
    simp only [List.all_cons, Bool.and_eq_true] at hw
    exact validUtf8_append _ _ (Post.valid p hw.1) (ih hw.2)

theorem Pre.valid (p : Pre) : validUtf8 p.print = true := by
  cases p <;> decide

theorem Sep.valid (s : Sep) : validUtf8 s.print = true := by
  cases s <;> decide

theorem DExpr.valid (e : DExpr) (hw : e.wf = true) : validUtf8 e.print = true := by
  induction e with
  | last p a ps =>
    simp only [DExpr.wf, Bool.and_eq_true] at hw
    exact validUtf8_append _ _ (validUtf8_append _ _ (Pre.valid p) (Atom.valid a hw.1)) (posts_valid ps hw.2)
  | link p a ps s next ih =>
    simp only [DExpr.wf, Bool.and_eq_true] at hw
    exact validUtf8_append _ _ (validUtf8_append _ _ (validUtf8_append _ _ (validUtf8_append _ _
      (Pre.valid p) (Atom.valid a hw.1.1)) (posts_valid ps hw.1.2)) (Sep.valid s)) (ih hw.2)

/-! ## the main theorem -/

/-- what comes after an atom inside a documented expression never continues the atom's token -/
theorem Atom.contBy_delim (a : Atom) (c : UInt8)
    (hc : c = 40 ∨ c = 91 ∨ c = 123 ∨ c = 33 ∨ c = 46 ∨ c = 58) : a.contBy c = false := by
  cases a <;> rcases hc with rfl | rfl | rfl | rfl | rfl | rfl <;> rfl

/-- the prefix operator in front of an atom -/
theorem Pre.complete (p : Pre) (a : Atom) (hw : a.wf = true) (Y : Bytes) :
    exprPrefix (p.print ++ a.print ++ Y) = .ok (a.print ++ Y) p.print := by
  cases p with
  | none =>
    obtain ⟨b, x, hbx, hb⟩ := Atom.head a hw
    simp only [Pre.print, List.nil_append]
    apply prefix_none
    intro b' x' e
    rw [hbx] at e
    obtain ⟨rfl, _⟩ := List.cons.inj e
    exact hb
  | amp => simpa [Pre.print] using prefix_amp (a.print ++ Y)
  | star => simpa [Pre.print] using prefix_star (a.print ++ Y)

/-- one segment: prefix, atom, group links, and then whatever the chain loop does at `Y` -/
theorem segment_complete (p : Pre) (a : Atom) (ps : List Post) (hwa : a.wf = true)
    (hwp : ps.all Post.wf = true) (n : Nat) (hn : max 2 (max a.fuel (postsFuel ps)) ≤ n)
    (whole rest Y : Bytes) (hwhole : whole ++ rest = p.print ++ a.print ++ printPosts ps ++ Y)
    (hv : validUtf8 whole = true)
    (hY : ps = [] → ∀ c r, Y = c :: r → a.contBy c = false)
    (habs : GAbsorbs (chainStep n) rest Y) :
    expression (n + 1) (whole ++ rest) = .ok rest whole := by
  have hX : ∀ c r, printPosts ps ++ Y = c :: r → a.contBy c = false := by
    intro c r e
    cases ps with
    | nil => exact hY rfl c r (by simpa [printPosts] using e)
    | cons q qs =>
      obtain ⟨b, x, hbx, hb⟩ := Post.head q
      simp only [printPosts, hbx, List.cons_append, List.append_assoc] at e
      obtain ⟨rfl, _⟩ := List.cons.inj e
      apply Atom.contBy_delim
      rcases hb with h | h | h | h <;> simp [h]
  have hatom := Atom.complete a hwa (printPosts ps ++ Y) n (by omega) (by omega) hX
  have hchain := foldMany0_of_gabsorbs (posts_absorb ps hwp n (by omega) rest Y habs)
  have hpre := Pre.complete p a hwa (printPosts ps ++ Y)
  have e : whole ++ rest = p.print ++ a.print ++ (printPosts ps ++ Y) := by
    rw [hwhole]; simp
  rw [← e] at hpre
  exact expression_of_parts' n whole rest _ _ _ _ hpre hatom hchain hv

/-- **maximal munch for the whole documented grammar**: a documented expression followed by
something that cannot start a further link of the chain (and does not lengthen the last token) is
taken in full, and nothing more. -/
theorem expression_complete (e : DExpr) (rest : Bytes) (hw : e.wf = true) (hs : Stops rest)
    (hf : e.follows rest = true) (n : Nat) (hn : e.fuel ≤ n) :
    expression n (e.print ++ rest) = .ok rest e.print := by
  induction e generalizing n with
  | last p a ps =>
    have hv := DExpr.valid _ hw
    simp only [DExpr.wf, Bool.and_eq_true] at hw
    simp only [DExpr.fuel] at hn
    obtain ⟨m, rfl⟩ : ∃ m, n = m + 1 := ⟨n - 1, by omega⟩
    obtain ⟨er, her⟩ := (stops_iff rest).mp hs m (by omega)
    refine segment_complete p a ps hw.1 hw.2 m (by omega) _ rest rest (by simp [DExpr.print]) hv ?_
      (gabsorbs_stop her)
    intro hps c r hr
    subst hps hr
    simpa [DExpr.follows, DExpr.contBy] using hf
  | link p a ps s next ih =>
    have hv := DExpr.valid _ hw
    simp only [DExpr.wf, Bool.and_eq_true] at hw
    simp only [DExpr.fuel] at hn
    obtain ⟨m, rfl⟩ : ∃ m, n = m + 1 := ⟨n - 1, by omega⟩
    obtain ⟨er, her⟩ := (stops_iff rest).mp hs m (by omega)
    have hnext := ih hw.2 (by simpa [DExpr.follows, DExpr.contBy] using hf) m (by omega)
    have hlen : rest.length < (s.print ++ (next.print ++ rest)).length := by
      cases s <;> simp [Sep.print] <;> omega
    have hstep : chainStep m (s.print ++ (next.print ++ rest)) = .ok rest () := by
      cases s with
      | dot => exact chainStep_dot_ok m _ _ _ hnext
      | path => exact chainStep_path_ok m _ _ _ hnext
    refine segment_complete p a ps hw.1.1 hw.1.2 m (by omega) _ rest (s.print ++ (next.print ++ rest))
      (by simp [DExpr.print]) hv ?_ (gabsorbs_step hstep hlen (gabsorbs_stop her))
    intro _ c r hr
    apply Atom.contBy_delim
    cases s with
    | dot => obtain ⟨rfl, _⟩ := List.cons.inj (show 46 :: _ = c :: r from hr); simp
    | path => obtain ⟨rfl, _⟩ := List.cons.inj (show 58 :: _ = c :: r from hr); simp

/-! ## `stops_classes`: a decidable class of followers -/

/-- **followers**: if the first one or two bytes of the follower (three after `::`) are in the class
`stopsB`, no link of the chain can start there.  `stopsB` accepts: the empty rest; any first byte other
than `.` `:` `!` `(` `[` `{` (so space, tab, newline, `<`, `>`, `@`, `,`, `)`, `]`, `}`, `;`, `=`, `"`, `'`, …);
`.` at the end or before a byte that starts no expression; `:` at the end or before a byte other than `:`;
`::` at the end or before a byte that starts no expression; `!` at the end or before a byte other than
`(` and `[`. -/
theorem stops_classes (rest : Bytes) (h : stopsB rest = true) : Stops rest := by
  rw [stops_iff]
  intro n hn
  obtain ⟨m, rfl⟩ : ∃ m, n = m + 2 := ⟨n - 2, by omega⟩
  exact chainStep_stopsB rest h m

/-- the documented single-byte followers -/
def followerBytes : Bytes := [32, 9, 10, 13, 60, 62, 64, 44, 41, 93, 125, 59, 61, 34, 39]

theorem followerBytes_eq : followerBytes = str " \t\n\r<>@,)]};=\"'" := by decide +kernel

theorem follower_facts (b : UInt8) (hb : followerBytes.contains b = true) :
    (b ≠ 46 ∧ b ≠ 58 ∧ b ≠ 33 ∧ b ≠ 40 ∧ b ≠ 123 ∧ b ≠ 91) ∧ isNameChar b = false := by
  have h : ∀ b ∈ followerBytes,
      (b ≠ 46 ∧ b ≠ 58 ∧ b ≠ 33 ∧ b ≠ 40 ∧ b ≠ 123 ∧ b ≠ 91) ∧ isNameChar b = false := by decide
  exact h b (by simpa using hb)

theorem stopsB_other (b : UInt8) (r : Bytes)
    (hb : b ≠ 46 ∧ b ≠ 58 ∧ b ≠ 33 ∧ b ≠ 40 ∧ b ≠ 123 ∧ b ≠ 91) : stopsB (b :: r) = true := by
  simp [stopsB, hb.1, hb.2.1, hb.2.2.1, hb.2.2.2.1, hb.2.2.2.2.1, hb.2.2.2.2.2]

theorem stops_follower (b : UInt8) (r : Bytes) (hb : followerBytes.contains b = true) : Stops (b :: r) :=
  stops_classes _ (stopsB_other b r (follower_facts b hb).1)

/-- `.` followed by a byte that starts no expression (anything but a letter, digit, `_`, `&`, `*`, `"`, `(`, `[`) -/
theorem stops_dot (c : UInt8) (r : Bytes) (hc : noExprStart c = true) : Stops (46 :: c :: r) :=
  stops_classes _ (by simpa [stopsB, noExprHead] using hc)

/-- a single `:` -/
theorem stops_colon (c : UInt8) (r : Bytes) (hc : c ≠ 58) : Stops (58 :: c :: r) :=
  stops_classes _ (by simp [stopsB, hc])

/-- `::` followed by a byte that starts no expression, e.g. the turbofish `::<` -/
theorem stops_path (c : UInt8) (r : Bytes) (hc : noExprStart c = true) : Stops (58 :: 58 :: c :: r) :=
  stops_classes _ (by simpa [stopsB, noExprHead] using hc)

/-- `!` not followed by `(` or `[`, e.g. `!=` -/
theorem stops_bang (c : UInt8) (r : Bytes) (hc : c ≠ 40 ∧ c ≠ 91) : Stops (33 :: c :: r) :=
  stops_classes _ (by simp [stopsB, hc.1, hc.2])

/-! ### the follower condition in uniform form -/

theorem isDigit_nameChar (c : UInt8) (h : isNameChar c = false) : isDigit c = false := by
  simp only [isNameChar, Bool.or_eq_false_iff] at h
  exact h.1.2

theorem DExpr.follows_of_not_nameChar (e : DExpr) (rest : Bytes)
    (h : ∀ c r, rest = c :: r → isNameChar c = false) : e.follows rest = true := by
  cases rest with
  | nil => rfl
  | cons c r =>
    have hc := h c r rfl
    have key : e.contBy c = false := by
      induction e with
      | last p a ps =>
        cases ps with
        | nil => cases a <;> simp [DExpr.contBy, Atom.contBy, hc, isDigit_nameChar c hc]
        | cons q qs => rfl
      | link p a ps s next ih => exact ih
    simp [DExpr.follows, key]

/-- `expression_complete` with the decidable follower class -/
theorem expression_complete_stopsB (e : DExpr) (rest : Bytes) (hw : e.wf = true) (hs : stopsB rest = true)
    (hf : e.follows rest = true) (n : Nat) (hn : e.fuel ≤ n) :
    expression n (e.print ++ rest) = .ok rest e.print :=
  expression_complete e rest hw (stops_classes rest hs) hf n hn

/-- **every documented expression stops in front of a documented follower byte**: space, tab,
newline, CR, `<`, `>`, `@`, `,`, `)`, `]`, `}`, `;`, `=`, `"`, `'` — whatever comes after it -/
theorem expression_complete_follower (e : DExpr) (hw : e.wf = true) (b : UInt8) (r : Bytes)
    (hb : followerBytes.contains b = true) (n : Nat) (hn : e.fuel ≤ n) :
    expression n (e.print ++ b :: r) = .ok (b :: r) e.print :=
  expression_complete e (b :: r) hw (stops_follower b r hb)
    (e.follows_of_not_nameChar _ (fun c r' h => by
      obtain ⟨rfl, _⟩ := List.cons.inj h
      exact (follower_facts _ hb).2)) n hn

/-- … and at the end of the input -/
theorem expression_complete_eof (e : DExpr) (hw : e.wf = true) (n : Nat) (hn : e.fuel ≤ n) :
    expression n e.print = .ok [] e.print := by
  have := expression_complete e [] hw stops_eof rfl n hn
  simpa using this

/-- concrete-bytes form, convenient for instances -/
theorem expression_complete_bytes (e : DExpr) (inp rest v : Bytes) (hin : inp = e.print ++ rest)
    (hv : v = e.print) (hw : e.wf = true) (hs : stopsB rest = true) (hf : e.follows rest = true)
    (n : Nat) (hn : e.fuel ≤ n) : expression n inp = .ok rest v := by
  subst hin hv
  exact expression_complete_stopsB e rest hw hs hf n hn

/-! ## well-formedness = shape + "the print is valid UTF-8" -/

def Atom.shape : Atom → Bool
  | .name b cs => isNameStart b && cs.all isNameChar
  | .digits d ds => isDigit d && ds.all isDigit
  | .str items => items.all StrItem.ok
  | .parens g => Grp.wfL g
  | .brackets g => Grp.wfL g

def Post.shape (p : Post) : Bool := Grp.wfL p.group

/-- `wf` without the UTF-8 conditions -/
def DExpr.shape : DExpr → Bool
  | .last _ a ps => a.shape && ps.all Post.shape
  | .link _ a ps _ next => a.shape && ps.all Post.shape && next.shape

theorem validUtf8_ascii_append (l T : Bytes) (h : ∀ b ∈ l, b < 0x80) : validUtf8 (l ++ T) = validUtf8 T := by
  induction l with
  | nil => rfl
  | cons b l ih =>
    rw [List.cons_append, validUtf8_cons_ascii _ _ (h b (by simp))]
    exact ih (fun c hc => h c (by simp [hc]))

/-- a delimited piece `o body c` in front of `T` -/
theorem valid_piece (o c : UInt8) (body T : Bytes) (ho : o < 0x80) (hc : c < 0x80)
    (h : validUtf8 ([o] ++ body ++ [c] ++ T) = true) : validUtf8 body = true ∧ validUtf8 T = true := by
  have := valid_group [] T body o c ho hc (by simpa using h)
  exact this

theorem nameChar_lt (c : UInt8) (h : isNameChar c = true) : c < 0x80 := by
  apply nameChar_ascii
  rw [nameChars_contains]
  simpa [isNameChar] using h

theorem nameStart_nameChar (b : UInt8) (h : isNameStart b = true) : isNameChar b = true := by
  simp only [isNameStart, Bool.or_eq_true] at h
  simp only [isNameChar, Bool.or_eq_true]
  rcases h with h | h
  · exact Or.inl (Or.inl h)
  · exact Or.inr h

theorem Atom.wf_of_valid (a : Atom) (hs : a.shape = true) (T : Bytes) (hv : validUtf8 (a.print ++ T) = true) :
    a.wf = true ∧ validUtf8 T = true := by
  cases a with
  | name b cs =>
    refine ⟨hs, ?_⟩
    simp only [Atom.shape, Bool.and_eq_true] at hs
    rw [Atom.print, validUtf8_ascii_append] at hv
    · exact hv
    · intro c hc
      rcases List.mem_cons.mp hc with rfl | hc
      · exact nameChar_lt _ (nameStart_nameChar _ hs.1)
      · exact nameChar_lt _ (List.all_eq_true.mp hs.2 c hc)
  | digits d ds =>
    refine ⟨hs, ?_⟩
    simp only [Atom.shape, Bool.and_eq_true] at hs
    rw [Atom.print, validUtf8_ascii_append] at hv
    · exact hv
    · intro c hc
      rcases List.mem_cons.mp hc with rfl | hc
      · exact digit_ascii _ hs.1
      · exact digit_ascii _ (List.all_eq_true.mp hs.2 c hc)
  | str items =>
    have h := valid_piece 34 34 (strBody items) T (by decide) (by decide) (by simpa [Atom.print, printStr_eq] using hv)
    refine ⟨?_, h.2⟩
    have h2 := validUtf8_wrap 34 34 _ (by decide) (by decide) h.1
    simp only [Atom.wf, Bool.and_eq_true]
    exact ⟨hs, by simpa [printStr_eq] using h2⟩
  | parens g =>
    have h := valid_piece 40 41 (Grp.printL g) T (by decide) (by decide) (by simpa [Atom.print] using hv)
    exact ⟨(grpOk_iff g).mpr ⟨hs, h.1⟩, h.2⟩
  | brackets g =>
    have h := valid_piece 91 93 (Grp.printL g) T (by decide) (by decide) (by simpa [Atom.print] using hv)
    exact ⟨(grpOk_iff g).mpr ⟨hs, h.1⟩, h.2⟩

theorem Post.wf_of_valid (p : Post) (hs : p.shape = true) (T : Bytes) (hv : validUtf8 (p.print ++ T) = true) :
    p.wf = true ∧ validUtf8 T = true := by
  cases p with
  | call g =>
    have h := valid_piece 40 41 (Grp.printL g) T (by decide) (by decide) (by simpa [Post.print] using hv)
    exact ⟨(grpOk_iff g).mpr ⟨hs, h.1⟩, h.2⟩
  | index g =>
    have h := valid_piece 91 93 (Grp.printL g) T (by decide) (by decide) (by simpa [Post.print] using hv)
    exact ⟨(grpOk_iff g).mpr ⟨hs, h.1⟩, h.2⟩
  | braces g =>
    have h := valid_piece 123 125 (Grp.printL g) T (by decide) (by decide) (by simpa [Post.print] using hv)
    exact ⟨(grpOk_iff g).mpr ⟨hs, h.1⟩, h.2⟩
  | bangCall g =>
    have e : Post.print (.bangCall g) ++ T = 33 :: ([40] ++ Grp.printL g ++ [41] ++ T) := by simp [Post.print]
    rw [e, validUtf8_cons_ascii _ _ (by decide)] at hv
    have h := valid_piece 40 41 (Grp.printL g) T (by decide) (by decide) hv
    exact ⟨(grpOk_iff g).mpr ⟨hs, h.1⟩, h.2⟩
  | bangIndex g =>
    have e : Post.print (.bangIndex g) ++ T = 33 :: ([91] ++ Grp.printL g ++ [93] ++ T) := by simp [Post.print]
    rw [e, validUtf8_cons_ascii _ _ (by decide)] at hv
    have h := valid_piece 91 93 (Grp.printL g) T (by decide) (by decide) hv
    exact ⟨(grpOk_iff g).mpr ⟨hs, h.1⟩, h.2⟩

theorem posts_wf_of_valid (ps : List Post) (hs : ps.all Post.shape = true) (T : Bytes)
    (hv : validUtf8 (printPosts ps ++ T) = true) : ps.all Post.wf = true ∧ validUtf8 T = true := by
  induction ps with
  | nil => exact ⟨rfl, hv⟩
  | cons p ps ih =>
    simp only [List.all_cons, Bool.and_eq_true] at hs ⊢
    have e : printPosts (p :: ps) ++ T = p.print ++ (printPosts ps ++ T) := by simp [printPosts]
    rw [e] at hv
    have h1 := Post.wf_of_valid p hs.1 _ hv
    have h2 := ih hs.2 h1.2
    exact ⟨⟨h1.1, h2.1⟩, h2.2⟩

theorem pre_valid_drop (p : Pre) (T : Bytes) : validUtf8 (p.print ++ T) = validUtf8 T := by
  cases p
  · rfl
  · exact validUtf8_cons_ascii 38 T (by decide)
  · exact validUtf8_cons_ascii 42 T (by decide)

theorem sep_valid_drop (s : Sep) (T : Bytes) : validUtf8 (s.print ++ T) = validUtf8 T := by
  cases s
  · exact validUtf8_cons_ascii 46 T (by decide)
  · show validUtf8 (58 :: 58 :: T) = _
    rw [validUtf8_cons_ascii 58 _ (by decide), validUtf8_cons_ascii 58 _ (by decide)]

/-- **`wf` = shape + valid UTF-8 of the whole print** -/
theorem DExpr.wf_of_shape_valid (e : DExpr) (hs : e.shape = true) (hv : validUtf8 e.print = true) :
    e.wf = true := by
  induction e with
  | last p a ps =>
    simp only [DExpr.shape, Bool.and_eq_true] at hs
    have e1 : (DExpr.last p a ps).print = p.print ++ (a.print ++ (printPosts ps ++ [])) := by
      simp [DExpr.print]
    rw [e1, pre_valid_drop] at hv
    have h1 := Atom.wf_of_valid a hs.1 _ hv
    have h2 := posts_wf_of_valid ps hs.2 _ h1.2
    simp [DExpr.wf, h1.1, h2.1]
  | link p a ps s next ih =>
    simp only [DExpr.shape, Bool.and_eq_true] at hs
    have e1 : (DExpr.link p a ps s next).print = p.print ++ (a.print ++ (printPosts ps ++ (s.print ++ next.print))) := by
      simp [DExpr.print]
    rw [e1, pre_valid_drop] at hv
    have h1 := Atom.wf_of_valid a hs.1.1 _ hv
    have h2 := posts_wf_of_valid ps hs.1.2 _ h1.2
    have h3 := h2.2
    rw [sep_valid_drop] at h3
    simp [DExpr.wf, h1.1, h2.1, ih hs.2 h3]

theorem Atom.shape_of_wf (a : Atom) (h : a.wf = true) : a.shape = true := by
  cases a with
  | name b cs => exact h
  | digits d ds => exact h
  | str items => simp only [Atom.wf, Bool.and_eq_true] at h; exact h.1
  | parens g => exact ((grpOk_iff g).mp h).1
  | brackets g => exact ((grpOk_iff g).mp h).1

theorem posts_shape_of_wf (ps : List Post) (h : ps.all Post.wf = true) : ps.all Post.shape = true := by
  rw [List.all_eq_true] at h ⊢
  intro p hp
  exact ((grpOk_iff _).mp (h p hp)).1

theorem DExpr.shape_of_wf (e : DExpr) (h : e.wf = true) : e.shape = true := by
  induction e with
  | last p a ps =>
    simp only [DExpr.wf, Bool.and_eq_true] at h
    simp [DExpr.shape, Atom.shape_of_wf a h.1, posts_shape_of_wf ps h.2]
  | link p a ps s next ih =>
    simp only [DExpr.wf, Bool.and_eq_true] at h
    simp [DExpr.shape, Atom.shape_of_wf a h.1.1, posts_shape_of_wf ps h.1.2, ih h.2]

theorem DExpr.wf_iff (e : DExpr) : e.wf = true ↔ e.shape = true ∧ validUtf8 e.print = true :=
  ⟨fun h => ⟨DExpr.shape_of_wf e h, DExpr.valid e h⟩, fun h => DExpr.wf_of_shape_valid e h.1 h.2⟩

/-! ## the flat view -/

/-- one link of the chain in the flat reading of the documentation -/
inductive Link where
  | grp (q : Post)                        -- `(..)`, `[..]`, `{..}`, `!(..)`, `![..]`
  | seg (s : Sep) (p : Pre) (a : Atom)    -- `.member` / `::path`, where member = prefix? atom

/-- flat documented expression: `prefix? atom link*` -/
structure Flat where
  p : Pre
  a : Atom
  links : List Link

def Link.print : Link → Bytes
  | .grp q => q.print
  | .seg s p a => s.print ++ p.print ++ a.print

def printLinks : List Link → Bytes
  | [] => []
  | l :: r => l.print ++ printLinks r

def Flat.print (f : Flat) : Bytes := f.p.print ++ f.a.print ++ printLinks f.links

def Link.wf : Link → Bool
  | .grp q => q.wf
  | .seg _ _ a => a.wf

def Flat.wf (f : Flat) : Bool := f.a.wf && f.links.all Link.wf

def Link.need : Link → Nat
  | .grp q => q.fuel
  | .seg _ _ a => a.fuel

def linksNeed : List Link → Nat
  | [] => 0
  | l :: r => max l.need (linksNeed r)

def numSegs : List Link → Nat
  | [] => 0
  | .grp _ :: r => numSegs r
  | .seg _ _ _ :: r => numSegs r + 1

/-- sufficient fuel: the largest need of any atom or group, at least 2, plus one level per segment -/
def Flat.fuel (f : Flat) : Nat := max 2 (max f.a.fuel (linksNeed f.links)) + numSegs f.links + 1

/-- what would lengthen the last token, scanning the links left to right -/
def contByAux : (UInt8 → Bool) → List Link → UInt8 → Bool
  | c, [] => c
  | _, .grp _ :: r => contByAux (fun _ => false) r
  | _, .seg _ _ a :: r => contByAux a.contBy r

def Flat.contBy (f : Flat) : UInt8 → Bool := contByAux f.a.contBy f.links

def Flat.follows (f : Flat) : Bytes → Bool
  | [] => true
  | c :: _ => !f.contBy c

/-! ### nesting a flat expression the way the scanner does -/

def mkSeg (p : Pre) (a : Atom) (ps : List Post) : Option (Sep × DExpr) → DExpr
  | none => .last p a ps
  | some (s, d) => .link p a ps s d

/-- the group links of the current segment, and the rest nested -/
def tailOf : List Link → List Post × Option (Sep × DExpr)
  | [] => ([], none)
  | .grp q :: r => (q :: (tailOf r).1, (tailOf r).2)
  | .seg s p a :: r => ([], some (s, mkSeg p a (tailOf r).1 (tailOf r).2))

def Flat.nest (f : Flat) : DExpr := mkSeg f.p f.a (tailOf f.links).1 (tailOf f.links).2

def printNext : Option (Sep × DExpr) → Bytes
  | none => []
  | some (s, d) => s.print ++ d.print

theorem mkSeg_print (p : Pre) (a : Atom) (ps : List Post) (nx : Option (Sep × DExpr)) :
    (mkSeg p a ps nx).print = p.print ++ a.print ++ printPosts ps ++ printNext nx := by
  cases nx with
  | none => simp [mkSeg, DExpr.print, printNext]
  | some sd => obtain ⟨s, d⟩ := sd; simp [mkSeg, DExpr.print, printNext]

theorem tailOf_print (ls : List Link) :
    printPosts (tailOf ls).1 ++ printNext (tailOf ls).2 = printLinks ls := by
  induction ls with
  | nil => rfl
  | cons l r ih =>
    cases l with
    | grp q => simp [tailOf, printPosts, printLinks, Link.print, ← ih]
    | seg s p a => simp [tailOf, printPosts, printLinks, Link.print, printNext, mkSeg_print, ← ih]

/-- nesting does not change the bytes -/
theorem Flat.print_nest (f : Flat) : f.nest.print = f.print := by
  simp only [Flat.nest, mkSeg_print, Flat.print, ← tailOf_print f.links, List.append_assoc]

def nextWf : Option (Sep × DExpr) → Bool
  | none => true
  | some (_, d) => d.wf

theorem mkSeg_wf (p : Pre) (a : Atom) (ps : List Post) (nx : Option (Sep × DExpr)) :
    (mkSeg p a ps nx).wf = (a.wf && ps.all Post.wf && nextWf nx) := by
  cases nx with
  | none => simp [mkSeg, DExpr.wf, nextWf]
  | some sd => obtain ⟨s, d⟩ := sd; simp [mkSeg, DExpr.wf, nextWf]

theorem tailOf_wf (ls : List Link) :
    ((tailOf ls).1.all Post.wf && nextWf (tailOf ls).2) = ls.all Link.wf := by
  induction ls with
  | nil => rfl
  | cons l r ih =>
    cases l with
    | grp q => simp [tailOf, Link.wf, ← ih, Bool.and_assoc]
    | seg s p a => simp [tailOf, Link.wf, nextWf, mkSeg_wf, ← ih, Bool.and_assoc]

theorem Flat.wf_nest (f : Flat) : f.nest.wf = f.wf := by
  simp only [Flat.nest, mkSeg_wf, Flat.wf, ← tailOf_wf f.links, Bool.and_assoc]

def nextFuel : Option (Sep × DExpr) → Nat
  | none => 0
  | some (_, d) => d.fuel

theorem mkSeg_fuel (p : Pre) (a : Atom) (ps : List Post) (nx : Option (Sep × DExpr)) :
    (mkSeg p a ps nx).fuel = max (max 2 (max a.fuel (postsFuel ps))) (nextFuel nx) + 1 := by
  cases nx with
  | none => simp [mkSeg, DExpr.fuel, nextFuel]
  | some sd => obtain ⟨s, d⟩ := sd; simp [mkSeg, DExpr.fuel, nextFuel]

theorem tailOf_fuel (ls : List Link) :
    postsFuel (tailOf ls).1 ≤ linksNeed ls ∧
    nextFuel (tailOf ls).2 ≤ max 2 (linksNeed ls) + numSegs ls := by
  induction ls with
  | nil => simp [tailOf, postsFuel, nextFuel]
  | cons l r ih =>
    cases l with
    | grp q =>
      simp only [tailOf, postsFuel, linksNeed, Link.need, numSegs]
      omega
    | seg s p a =>
      have e1 : (tailOf (.seg s p a :: r)).1 = [] := rfl
      have e2 : nextFuel (tailOf (.seg s p a :: r)).2 = (mkSeg p a (tailOf r).1 (tailOf r).2).fuel := rfl
      rw [e1, e2, mkSeg_fuel]
      simp only [postsFuel, linksNeed, Link.need, numSegs]
      omega

theorem Flat.fuel_nest (f : Flat) : f.nest.fuel ≤ f.fuel := by
  have := tailOf_fuel f.links
  simp only [Flat.nest, mkSeg_fuel, Flat.fuel]
  omega

/-- the last-token function of the nested form, in terms of the current atom's `c` -/
def tailContBy (c : UInt8 → Bool) (ps : List Post) : Option (Sep × DExpr) → UInt8 → Bool
  | some (_, d) => d.contBy
  | none => match ps with
    | [] => c
    | _ :: _ => fun _ => false

theorem mkSeg_contBy (p : Pre) (a : Atom) (ps : List Post) (nx : Option (Sep × DExpr)) :
    (mkSeg p a ps nx).contBy = tailContBy a.contBy ps nx := by
  cases nx with
  | none => cases ps <;> rfl
  | some sd => obtain ⟨s, d⟩ := sd; rfl

theorem tailOf_contBy (ls : List Link) : ∀ c, tailContBy c (tailOf ls).1 (tailOf ls).2 = contByAux c ls := by
  induction ls with
  | nil => intro c; rfl
  | cons l r ih =>
    intro c
    cases l with
    | grp q =>
      simp only [tailOf, contByAux, ← ih]
      cases h2 : (tailOf r).2 with
      | none => cases h1 : (tailOf r).1 <;> rfl
      | some sd => rfl
    | seg s p a =>
      simp only [tailOf, contByAux, ← ih, tailContBy, mkSeg_contBy]

theorem Flat.contBy_nest (f : Flat) : f.nest.contBy = f.contBy := by
  simp only [Flat.nest, mkSeg_contBy, Flat.contBy, tailOf_contBy]

theorem Flat.follows_nest (f : Flat) (rest : Bytes) : f.nest.follows rest = f.follows rest := by
  cases rest with
  | nil => rfl
  | cons c r => simp only [DExpr.follows, Flat.follows, Flat.contBy_nest]

/-- **maximal munch, flat form**: `prefix? atom` followed by *any* chain of `.member`, `::path`, `(..)`,
`[..]`, `{..}`, `!(..)`, `![..]` links is taken in full -/
theorem expression_complete_flat (f : Flat) (rest : Bytes) (hw : f.wf = true) (hs : Stops rest)
    (hf : f.follows rest = true) (n : Nat) (hn : f.fuel ≤ n) :
    expression n (f.print ++ rest) = .ok rest f.print := by
  rw [← f.print_nest]
  exact expression_complete f.nest rest (by rw [f.wf_nest]; exact hw) hs (by rw [f.follows_nest]; exact hf) n
    (Nat.le_trans f.fuel_nest hn)

/-- flat form, in front of a documented follower byte -/
theorem expression_complete_flat_follower (f : Flat) (hw : f.wf = true) (b : UInt8) (r : Bytes)
    (hb : followerBytes.contains b = true) (n : Nat) (hn : f.fuel ≤ n) :
    expression n (f.print ++ b :: r) = .ok (b :: r) f.print := by
  rw [← f.print_nest]
  exact expression_complete_follower f.nest (by rw [f.wf_nest]; exact hw) b r hb n
    (Nat.le_trans f.fuel_nest hn)

/-! ### every nested expression is the nesting of a flat one -/

def DExpr.pre : DExpr → Pre
  | .last p _ _ => p
  | .link p _ _ _ _ => p

def DExpr.atom : DExpr → Atom
  | .last _ a _ => a
  | .link _ a _ _ _ => a

def DExpr.links : DExpr → List Link
  | .last _ _ ps => ps.map Link.grp
  | .link _ _ ps s next => ps.map Link.grp ++ Link.seg s next.pre next.atom :: next.links

def DExpr.flat (e : DExpr) : Flat := ⟨e.pre, e.atom, e.links⟩

theorem tailOf_grps (ps : List Post) (ls : List Link) :
    tailOf (ps.map Link.grp ++ ls) = (ps ++ (tailOf ls).1, (tailOf ls).2) := by
  induction ps with
  | nil => rfl
  | cons q qs ih => simp [tailOf, ih]

theorem DExpr.nest_flat (e : DExpr) : e.flat.nest = e := by
  induction e with
  | last p a ps =>
    have := tailOf_grps ps []
    simp only [List.append_nil] at this
    simp [DExpr.flat, Flat.nest, DExpr.pre, DExpr.atom, DExpr.links, this, tailOf, mkSeg]
  | link p a ps s next ih =>
    have e : tailOf (Link.seg s next.pre next.atom :: next.links) = ([], some (s, next.flat.nest)) := rfl
    show mkSeg p a (tailOf (ps.map Link.grp ++ Link.seg s next.pre next.atom :: next.links)).1
      (tailOf (ps.map Link.grp ++ Link.seg s next.pre next.atom :: next.links)).2 = _
    rw [tailOf_grps, e, ih]
    simp [mkSeg]


def nextLinks : Option (Sep × DExpr) → List Link
  | none => []
  | some (s, d) => Link.seg s d.pre d.atom :: d.links

theorem mkSeg_flat (p : Pre) (a : Atom) (ps : List Post) (nx : Option (Sep × DExpr)) :
    (mkSeg p a ps nx).flat = ⟨p, a, ps.map Link.grp ++ nextLinks nx⟩ := by
  cases nx with
  | none => simp [mkSeg, DExpr.flat, DExpr.pre, DExpr.atom, DExpr.links, nextLinks]
  | some sd => obtain ⟨s, d⟩ := sd; simp [mkSeg, DExpr.flat, DExpr.pre, DExpr.atom, DExpr.links, nextLinks]

theorem tailOf_links (ls : List Link) : (tailOf ls).1.map Link.grp ++ nextLinks (tailOf ls).2 = ls := by
  induction ls with
  | nil => rfl
  | cons l r ih =>
    cases l with
    | grp q => simp [tailOf, ih]
    | seg s p a =>
      have e := mkSeg_flat p a (tailOf r).1 (tailOf r).2
      rw [ih] at e
      simp only [tailOf, nextLinks, List.map_nil, List.nil_append]
      have e1 := congrArg Flat.p e
      have e2 := congrArg Flat.a e
      have e3 := congrArg Flat.links e
      simp only [DExpr.flat] at e1 e2 e3
      rw [e1, e2, e3]

/-- nesting and flattening are inverse bijections between the two views -/
theorem Flat.flat_nest (f : Flat) : f.nest.flat = f := by
  simp only [Flat.nest, mkSeg_flat, tailOf_links]

/-! ## the tree reading `Post ::= .DExpr | ::DExpr | group`

Read literally, "followed by any chain of `.member`, `::path`, `(..)` …, where after `.`/`::` comes an
expression" is a tree in which `a.b(c).d` has several shapes (`a` `.(b(c))` `.(d)`, or `a` `.(b(c).d)`, …).
All shapes of the same text flatten to the same `Flat`. -/

mutual
inductive Tree where
  | mk (p : Pre) (a : Atom) (ps : List TreePost)
inductive TreePost where
  | dot (e : Tree)
  | path (e : Tree)
  | grp (q : Post)
end

mutual
def Tree.print : Tree → Bytes
  | .mk p a ps => p.print ++ a.print ++ TreePost.printL ps
def TreePost.print : TreePost → Bytes
  | .dot e => [46] ++ e.print
  | .path e => [58, 58] ++ e.print
  | .grp q => q.print
def TreePost.printL : List TreePost → Bytes
  | [] => []
  | x :: r => x.print ++ TreePost.printL r
end

def Tree.pre : Tree → Pre
  | .mk p _ _ => p
def Tree.atom : Tree → Atom
  | .mk _ a _ => a

mutual
def Tree.links : Tree → List Link
  | .mk _ _ ps => TreePost.linksL ps
def TreePost.links : TreePost → List Link
  | .dot e => Link.seg .dot e.pre e.atom :: e.links
  | .path e => Link.seg .path e.pre e.atom :: e.links
  | .grp q => [Link.grp q]
def TreePost.linksL : List TreePost → List Link
  | [] => []
  | x :: r => x.links ++ TreePost.linksL r
end

def Tree.flat (t : Tree) : Flat := ⟨t.pre, t.atom, t.links⟩

theorem printLinks_append (l1 l2 : List Link) : printLinks (l1 ++ l2) = printLinks l1 ++ printLinks l2 := by
  induction l1 with
  | nil => rfl
  | cons l r ih => simp [printLinks, ih]

mutual
theorem Tree.print_flat : (t : Tree) → t.flat.print = t.print
  | .mk p a ps => by
    have := TreePost.printL_links ps
    simp [Tree.flat, Flat.print, Tree.pre, Tree.atom, Tree.links, Tree.print, this]
theorem TreePost.print_links : (x : TreePost) → printLinks x.links = x.print
  | .dot e => by
    have := Tree.print_flat e
    simp only [Tree.flat, Flat.print] at this
    simp [TreePost.links, TreePost.print, printLinks, Link.print, Sep.print, ← this]
  | .path e => by
    have := Tree.print_flat e
    simp only [Tree.flat, Flat.print] at this
    simp [TreePost.links, TreePost.print, printLinks, Link.print, Sep.print, ← this]
  | .grp q => by simp [TreePost.links, TreePost.print, printLinks, Link.print]
theorem TreePost.printL_links : (l : List TreePost) → printLinks (TreePost.linksL l) = TreePost.printL l
  | [] => rfl
  | x :: r => by
    simp [TreePost.linksL, TreePost.printL, printLinks_append, TreePost.print_links x, TreePost.printL_links r]
end

/-- **maximal munch, tree form** (side conditions on the flattening) -/
theorem expression_complete_tree (t : Tree) (rest : Bytes) (hw : t.flat.wf = true) (hs : Stops rest)
    (hf : t.flat.follows rest = true) (n : Nat) (hn : t.flat.fuel ≤ n) :
    expression n (t.print ++ rest) = .ok rest t.print := by
  rw [← t.print_flat]
  exact expression_complete_flat t.flat rest hw hs hf n hn

/-! ## instances on concrete bytes

Helpers to write documented expressions: `nm "abc"` a name atom, `num "12"` a number, `pl "1, 2"` plain
group content, `sl "})"` the items of a string literal without escapes. -/

def nm (s : String) : Atom := match str s with | b :: cs => .name b cs | [] => .name 95 []
def num (s : String) : Atom := match str s with | b :: cs => .digits b cs | [] => .digits 48 []
def pl (s : String) : List Grp := (str s).map Grp.plain
def sl (s : String) : List StrItem := (str s).map StrItem.plain

/-- discriminating views of a result (`Res` has no `DecidableEq`) -/
def okRest {α} : Res α → Option Bytes
  | .ok r _ => some r
  | _ => none
def isOom {α} : Res α → Bool
  | .oom => true
  | _ => false
def isErr {α} : Res α → Bool
  | .err _ => true
  | _ => false

/-- `a` -/
def exA : DExpr := .last .none (nm "a") []

/-- the documentation's `@a.@a`: the expression is `a`, the `.` is literal text -/
theorem doc_a_dot_at_a (n : Nat) (hn : 3 ≤ n) :
    expression n (str "a.@a") = .ok (str ".@a") (str "a") :=
  expression_complete_bytes exA _ _ _ (by decide +kernel) (by decide +kernel) (by decide +kernel)
    (by decide +kernel) (by decide +kernel) n (Nat.le_trans (by decide +kernel) hn)

/-- `@a.` at the end of the input -/
theorem doc_a_dot_eof (n : Nat) (hn : 3 ≤ n) : expression n (str "a.") = .ok (str ".") (str "a") :=
  expression_complete_bytes exA _ _ _ (by decide +kernel) (by decide +kernel) (by decide +kernel)
    (by decide +kernel) (by decide +kernel) n (Nat.le_trans (by decide +kernel) hn)

/-- `@a. ` (a sentence ending in an expression) -/
theorem doc_a_dot_space (n : Nat) (hn : 3 ≤ n) (r : Bytes) :
    expression n (str "a. " ++ r) = .ok (str ". " ++ r) (str "a") := by
  have h := expression_complete exA (46 :: 32 :: r) (by decide +kernel) (stops_dot 32 r (by decide))
    (exA.follows_of_not_nameChar _ (fun c r' e => by obtain ⟨rfl, _⟩ := List.cons.inj e; decide)) n (Nat.le_trans (by decide +kernel) hn)
  have e1 : str "a. " = exA.print ++ [46, 32] := by decide +kernel
  have e2 : str ". " = [46, 32] := by decide +kernel
  have e3 : str "a" = exA.print := by decide +kernel
  rw [e1, e2, e3]
  simpa using h

/-- `(a).len()`: **`expression` itself** takes the parenthesised atom and continues with the chain
(the template arm `@(` is a different parser, see `doc_paren_arm` below) -/
def exParenLen : DExpr := .link .none (.parens (pl "a")) [] .dot (.last .none (nm "len") [.call []])

theorem ex_paren_len (n : Nat) (hn : 5 ≤ n) :
    expression n (str "(a).len() x") = .ok (str " x") (str "(a).len()") :=
  expression_complete_bytes exParenLen _ _ _ (by decide +kernel) (by decide +kernel) (by decide +kernel)
    (by decide +kernel) (by decide +kernel) n (Nat.le_trans (by decide +kernel) hn)

/-- in a template, `@(a).len()` goes through the `@(` arm: the expression is `(a)`, and `.len()` is text -/
theorem doc_paren_arm :
    (match templateExpression 6 (str "@(a).len()") with
     | .ok r (.expr e) => r == str ".len()" && e == str "(a)"
     | _ => false) = true := by decide +kernel

/-- `a.b(c)[0]::<T> x`: method call, index; the turbofish `::<` is *not* part of the expression -/
def exChain : DExpr :=
  .link .none (nm "a") [] .dot (.last .none (nm "b") [.call (pl "c"), .index (pl "0")])

theorem ex_chain_turbofish (n : Nat) (hn : 5 ≤ n) :
    expression n (str "a.b(c)[0]::<T> x") = .ok (str "::<T> x") (str "a.b(c)[0]") :=
  expression_complete_bytes exChain _ _ _ (by decide +kernel) (by decide +kernel) (by decide +kernel)
    (by decide +kernel) (by decide +kernel) n (Nat.le_trans (by decide +kernel) hn)

/-- `a::b::<T>`: the path `a::b` is taken, `::<T>` is left -/
def exPath : DExpr := .link .none (nm "a") [] .path (.last .none (nm "b") [])

theorem ex_path_turbofish (n : Nat) (hn : 4 ≤ n) :
    expression n (str "a::b::<T>") = .ok (str "::<T>") (str "a::b") :=
  expression_complete_bytes exPath _ _ _ (by decide +kernel) (by decide +kernel) (by decide +kernel)
    (by decide +kernel) (by decide +kernel) n (Nat.le_trans (by decide +kernel) hn)

/-- `&self.items[0].name.to_string()` followed by `</p>` -/
def exSelf : DExpr :=
  .link .amp (nm "self") [] .dot (.link .none (nm "items") [.index (pl "0")] .dot
    (.link .none (nm "name") [] .dot (.last .none (nm "to_string") [.call []])))

theorem ex_self (n : Nat) (hn : 7 ≤ n) :
    expression n (str "&self.items[0].name.to_string()</p>") =
      .ok (str "</p>") (str "&self.items[0].name.to_string()") :=
  expression_complete_bytes exSelf _ _ _ (by decide +kernel) (by decide +kernel) (by decide +kernel)
    (by decide +kernel) (by decide +kernel) n (Nat.le_trans (by decide +kernel) hn)

/-- `vec![1, 2].len()` -/
def exVec : DExpr :=
  .link .none (nm "vec") [.bangIndex (pl "1, 2")] .dot (.last .none (nm "len") [.call []])

theorem ex_vec (n : Nat) (hn : 5 ≤ n) :
    expression n (str "vec![1, 2].len() ") = .ok (str " ") (str "vec![1, 2].len()") :=
  expression_complete_bytes exVec _ _ _ (by decide +kernel) (by decide +kernel) (by decide +kernel)
    (by decide +kernel) (by decide +kernel) n (Nat.le_trans (by decide +kernel) hn)

/-- `f("})")`: the string literal hides the delimiters it contains -/
def exHide : DExpr := .last .none (nm "f") [.call [.str (sl "})")]]

theorem ex_hide (n : Nat) (hn : 4 ≤ n) :
    expression n (str "f(\"})\")}") = .ok (str "}") (str "f(\"})\")") :=
  expression_complete_bytes exHide _ _ _ (by decide +kernel) (by decide +kernel) (by decide +kernel)
    (by decide +kernel) (by decide +kernel) n (Nat.le_trans (by decide +kernel) hn)

/-- a comment hides delimiters too; `/` alone is a division; nested groups; `format!(..)`; a string atom
with an escape and a non-ASCII character; `*` prefix; a number with a fraction -/
def exMisc : DExpr :=
  .link .star (nm "x") [.call [.comment (str " ) "), .plain 49, .slash, .plain 50,
      .braces [.brackets (pl "y")]]] .dot
    (.link .none (nm "format") [.bangCall [.str (sl "{}"), .plain 44, .plain 32, .plain 122]] .dot
      (.link .none (.str [.plain 195, .plain 169, .esc 110]) [] .dot
        (.link .none (num "1") [] .dot (.last .none (num "50") [.braces []]))))

theorem ex_misc (n : Nat) (hn : 9 ≤ n) :
    expression n (str "*x(/* ) */1/2{[y]}).format!(\"{}\", z).\"é\\n\".1.50{}@") =
      .ok (str "@") (str "*x(/* ) */1/2{[y]}).format!(\"{}\", z).\"é\\n\".1.50{}") :=
  expression_complete_bytes exMisc _ _ _ (by decide +kernel) (by decide +kernel) (by decide +kernel)
    (by decide +kernel) (by decide +kernel) n (Nat.le_trans (by decide +kernel) hn)

/-- a bracketed atom: `[1,2].len()` before `,` -/
def exArr : DExpr := .link .none (.brackets (pl "1,2")) [] .dot (.last .none (nm "len") [.call []])

theorem ex_arr (n : Nat) (hn : 5 ≤ n) (r : Bytes) :
    expression n (exArr.print ++ 44 :: r) = .ok (44 :: r) exArr.print :=
  expression_complete_follower exArr (by decide +kernel) 44 r (by decide) n
    (Nat.le_trans (by decide +kernel) hn)

example : exArr.print = str "[1,2].len()" := by decide +kernel

/-! ## every hypothesis is needed (machine-checked counterexamples) -/

/-- `Stops rest` (1): a follower that starts a group link is swallowed — `a` + `(x)` -/
example : okRest (expression 9 (str "a(x)")) = some [] ∧ exA.wf = true ∧ exA.follows (str "(x)") = true ∧
    exA.print ++ str "(x)" = str "a(x)" := by decide +kernel
example : ¬ Stops (str "(x)") := by
  intro h
  obtain ⟨e, he⟩ := (stops_iff _).mp h 5 (by decide)
  have : isErr (chainStep 5 (str "(x)")) = false := by decide +kernel
  rw [he] at this
  exact absurd this (by simp [isErr])
/-- `Stops rest` (2): `.` + expression start, `::` + expression start, `!(`, `![`, `{`, `[` are swallowed as well -/
example : okRest (expression 9 (str "a.b")) = some [] ∧ okRest (expression 9 (str "a::b")) = some [] ∧
    okRest (expression 9 (str "a!(b)")) = some [] ∧ okRest (expression 9 (str "a![b]")) = some [] ∧
    okRest (expression 9 (str "a{b}")) = some [] ∧ okRest (expression 9 (str "a[b]")) = some [] := by
  decide +kernel
/-- … so `stopsB` rejects exactly those heads (and `(`, `[`, `{`, which may or may not close) -/
example : stopsB (str "(x)") = false ∧ stopsB (str ".b") = false ∧ stopsB (str "::b") = false ∧
    stopsB (str "!(b)") = false ∧ stopsB (str "![b]") = false ∧ stopsB (str "{b}") = false ∧
    stopsB (str "[b]") = false := by decide +kernel
/-- `stopsB` is only sufficient: an unbalanced `(` does stop the chain -/
example : stopsB (str "(x") = false ∧ okRest (expression 9 (str "a(x")) = some (str "(x") := by
  decide +kernel

/-- `follows` (names): `ab` + `c` — `c` stops the chain (`stopsB`), but the name goes on -/
example : stopsB (str "c") = true ∧ (DExpr.last .none (nm "ab") []).follows (str "c") = false ∧
    okRest (expression 9 (str "abc")) = some [] := by decide +kernel
/-- `follows` (numbers): `1` + `2`; but a letter after a number is fine: `1` + `a` -/
example : stopsB (str "2") = true ∧ (DExpr.last .none (num "1") []).follows (str "2") = false ∧
    okRest (expression 9 (str "12")) = some [] := by decide +kernel
example : (DExpr.last .none (num "1") []).follows (str "a") = true ∧
    okRest (expression 9 (str "1a")) = some (str "a") := by decide +kernel
/-- after a closing delimiter or quote nothing can continue the token: `f()` + `x` -/
example : (DExpr.last .none (nm "f") [.call []]).follows (str "x") = true ∧
    okRest (expression 9 (str "f()x")) = some (str "x") := by decide +kernel

/-- `fuel`: `(b)` has `fuel = 4`, and at 3 the scanner runs out of fuel -/
example : (DExpr.last .none (.parens (pl "b")) []).fuel = 4 ∧ isOom (expression 3 (str "(b) ")) = true ∧
    okRest (expression 4 (str "(b) ")) = some (str " ") := by decide +kernel
/-- `fuel` is an upper bound, not always sharp: `a::b` has `fuel = 4` but 3 suffices, 2 does not -/
example : exPath.fuel = 4 ∧ okRest (expression 3 (str "a::b ")) = some (str " ") ∧
    isOom (expression 2 (str "a::b ")) = true := by decide +kernel

/-- `wf` (name start): `1a` is not a name -/
example : (Atom.name 49 [97]).wf = false ∧ okRest (expression 9 (str "1a")) = some (str "a") := by
  decide +kernel
/-- `wf` (name characters): `a-b` is not a name -/
example : (Atom.name 97 [45, 98]).wf = false ∧ okRest (expression 9 (str "a-b")) = some (str "-b") := by
  decide +kernel
/-- `wf` (digits) -/
example : (Atom.digits 49 [120]).wf = false ∧ okRest (expression 9 (str "1x")) = some (str "x") := by
  decide +kernel
/-- `wf` (string items): an unescaped `"` ends the literal; an unknown escape `\q` is refused -/
example : (Atom.str [.plain 34]).wf = false ∧ okRest (expression 9 (str "\"\"\"")) = some (str "\"") := by
  decide +kernel
example : (Atom.str [.esc 113]).wf = false ∧ isErr (expression 9 (str "\"\\q\"")) = true := by
  decide +kernel
/-- `wf` (UTF-8): a string literal whose bytes are not UTF-8 is refused altogether -/
example : (Atom.str [.plain 255]).wf = false ∧ isErr (expression 9 [34, 255, 34]) = true := by
  decide +kernel
/-- `wf` (UTF-8 in groups): `f(<FF>)` — the name is taken, the group is not -/
example : (Post.call [.plain 255]).wf = false ∧
    okRest (expression 9 [102, 40, 255, 41]) = some [40, 255, 41] := by decide +kernel
/-- `wf` (group content): a plain `)` closes the group early; `/` + `*` opens a comment -/
example : (Post.call [.plain 41]).wf = false ∧ okRest (expression 9 (str "f())")) = some (str ")") := by
  decide +kernel
example : (Post.call [.slash, .plain 42]).wf = false ∧
    okRest (expression 9 (str "f(/*)")) = some (str "(/*)") := by decide +kernel

/-- there are **no adjacency conditions inside** a documented expression: whatever follows an atom
inside the chain (`(`, `[`, `{`, `!`, `.`, `:`) never lengthens the atom (`Atom.contBy_delim`), and the
prefix never merges with the atom (`Atom.head`). Not every byte string is a documented expression,
though: a doubled prefix is refused -/
example : isErr (expression 9 (str "&&b ")) = true := by decide +kernel

/-! ## the flat and tree forms on an example -/

/-- `&self.items[0].name.to_string()` as a flat chain of five links -/
def exSelfFlat : Flat := ⟨.amp, nm "self", [.seg .dot .none (nm "items"), .grp (.index (pl "0")),
  .seg .dot .none (nm "name"), .seg .dot .none (nm "to_string"), .grp (.call [])]⟩

example : exSelfFlat.nest = exSelf := rfl
example : exSelfFlat.print = str "&self.items[0].name.to_string()" ∧ exSelfFlat.wf = true ∧
    exSelfFlat.fuel = 7 ∧ exSelfFlat.follows (str "</p>") = true := by decide +kernel

theorem ex_self_flat (n : Nat) (hn : 7 ≤ n) (r : Bytes) :
    expression n (exSelfFlat.print ++ 60 :: r) = .ok (60 :: r) exSelfFlat.print :=
  expression_complete_flat_follower exSelfFlat (by decide +kernel) 60 r (by decide) n
    (Nat.le_trans (by decide +kernel) hn)

/-- two tree shapes of `a.b(c).d`: `a` `.(b(c))` `.(d)` and `a` `.(b(c).(d))` — same flattening -/
def exTree1 : Tree := .mk .none (nm "a") [.dot (.mk .none (nm "b") [.grp (.call (pl "c"))]),
  .dot (.mk .none (nm "d") [])]
def exTree2 : Tree := .mk .none (nm "a") [.dot (.mk .none (nm "b") [.grp (.call (pl "c")),
  .dot (.mk .none (nm "d") [])])]

example : exTree1.print = str "a.b(c).d" ∧ exTree2.print = str "a.b(c).d" := by decide +kernel
example : exTree1.links = exTree2.links := by
  simp [exTree1, exTree2, Tree.links, TreePost.linksL, TreePost.links, Tree.pre, Tree.atom]

theorem ex_tree (n : Nat) (hn : 6 ≤ n) :
    expression n (exTree1.print ++ str " x") = .ok (str " x") exTree1.print :=
  expression_complete_tree exTree1 _ (by decide +kernel) (stops_classes _ (by decide +kernel))
    (by decide +kernel) n (Nat.le_trans (by decide +kernel) hn)

/-! ## axioms -/

#print axioms expression_complete
#print axioms stops_classes
#print axioms expression_complete_follower
#print axioms expression_complete_flat
#print axioms expression_complete_tree
#print axioms DExpr.wf_iff
#print axioms ex_misc
#print axioms doc_paren_arm

end Ructe.C05
