import RucteProofs.GenLemmas
import RucteModel.InFS

/-!
# C10 / C12 — a failing call disturbs nothing

A build script may go on after a call failed (`let _ = ructe.compile_templates("optional")`, an optional
static directory that is not there).  The failing call prints its `rerun-if-changed` line and returns `Err`;
everything else the run produces — every requested file with its bytes, the index `templates.rs`, the statics
module — is exactly what the run without that call produces.

The proof is a *frame* argument: what a run asks to be written never depends on what was printed or listed
before (`Frame`: same requests, same index text, same statics state), and every step preserves that.
-/
namespace Ructe.C10Failed
open Nom

/-- two logs with the same write requests (whatever was printed / read) -/
def SameW (a b : Log) : Prop := a.writes = b.writes

theorem handleTemplate_frame (ue : Nat → Bool) (o o' : Log) (name path outdir content : Bytes) (h : SameW o o') :
    (handleTemplate ue o name path outdir content).1 = (handleTemplate ue o' name path outdir content).1 ∧
    SameW (handleTemplate ue o name path outdir content).2 (handleTemplate ue o' name path outdir content).2 := by
  unfold handleTemplate SameW at *
  cases template (8 * content.length + 16) content with
  | ok _ t => simp [writeIfChanged, Log.write, Log.read, h]
  | err es => simp [Log.print, Log.read, h]
  | oom => simp [Log.print, Log.read, h]
  | panic => simp [Log.print, Log.read, h]

theorem handleFile_frame (ue : Nat → Bool) (fname path outdir content : Bytes) (l : List Bytes) :
    ∀ (o o' : Log) (f : Bytes), SameW o o' →
      (handleFile ue o f fname path outdir content l).1 = (handleFile ue o' f fname path outdir content l).1 ∧
      SameW (handleFile ue o f fname path outdir content l).2 (handleFile ue o' f fname path outdir content l).2 := by
  induction l with
  | nil => intro o o' f h; exact ⟨rfl, h⟩
  | cons s rest ih =>
    intro o o' f h
    rw [handleFile, handleFile]
    split
    · simp only
      have hp : SameW (o.print (str "cargo:rerun-if-changed=" ++ path)) (o'.print (str "cargo:rerun-if-changed=" ++ path)) := by
        simpa [SameW, Log.print] using h
      obtain ⟨h1, h2⟩ := handleTemplate_frame ue _ _ (fname.take (fname.length - s.length) ++ [95] ++ s.drop suffixSkipLen) path outdir content hp
      rw [h1]
      exact ih _ _ _ h2
    · exact ih o o' f h

theorem handleEntries_handleDir_frame (ue : Nat → Bool) :
    (∀ (o : Log) (f indir outdir : Bytes) (es : List Entry), ∀ o', SameW o o' →
      (handleEntries ue o f indir outdir es).1 = (handleEntries ue o' f indir outdir es).1 ∧
      SameW (handleEntries ue o f indir outdir es).2 (handleEntries ue o' f indir outdir es).2) ∧
    (∀ (o : Log) (f indir outdir : Bytes) (es : List Entry), ∀ o', SameW o o' →
      (handleDir ue o f indir outdir es).1 = (handleDir ue o' f indir outdir es).1 ∧
      SameW (handleDir ue o f indir outdir es).2 (handleDir ue o' f indir outdir es).2) := by
  apply handleEntries.mutual_induct ue
    (motive1 := fun o f indir outdir es => ∀ o', SameW o o' →
      (handleEntries ue o f indir outdir es).1 = (handleEntries ue o' f indir outdir es).1 ∧
      SameW (handleEntries ue o f indir outdir es).2 (handleEntries ue o' f indir outdir es).2)
    (motive2 := fun o f indir outdir es => ∀ o', SameW o o' →
      (handleDir ue o f indir outdir es).1 = (handleDir ue o' f indir outdir es).1 ∧
      SameW (handleDir ue o f indir outdir es).2 (handleDir ue o' f indir outdir es).2)
  · intro o f indir outdir o' h
    rw [handleEntries, handleEntries]
    exact ⟨rfl, h⟩
  · intro o f indir outdir name sub rest hv outdir' modrs o1 hd o2 ih2 ih1 o' h
    subst o2 outdir'
    rw [handleEntries, handleEntries, if_pos hv, if_pos hv]
    obtain ⟨e1, e2⟩ := ih2 o' h
    simp only [hd] at e1 e2 ⊢
    cases hd' : handleDir ue o' modRsHeader (joinPath indir name) (joinPath outdir name) sub with
    | mk modrs' o1' =>
      simp only [hd'] at e1 e2 ⊢
      subst e1
      have hw : SameW (writeIfChanged o1 (joinPath (joinPath outdir name) (str "mod.rs")) modrs)
          (writeIfChanged o1' (joinPath (joinPath outdir name) (str "mod.rs")) modrs) := by
        simpa [SameW, writeIfChanged, Log.write] using e2
      exact ih1 _ hw
  · intro o f indir outdir name sub rest hv ih o' h
    rw [handleEntries, handleEntries, if_neg hv, if_neg hv]
    exact ih o' h
  · intro o f indir outdir name content rest hv f1 o1 hf ih o' h
    rw [handleEntries, handleEntries, if_pos hv, if_pos hv]
    obtain ⟨e1, e2⟩ := handleFile_frame ue name (joinPath indir name) outdir content suffixes o o' f h
    simp only [hf] at e1 e2 ⊢
    cases hf' : handleFile ue o' f name (joinPath indir name) outdir content suffixes with
    | mk f1' o1' =>
      simp only [hf'] at e1 e2 ⊢
      subst e1
      exact ih _ e2
  · intro o f indir outdir name content rest hv ih o' h
    rw [handleEntries, handleEntries, if_neg hv, if_neg hv]
    exact ih o' h
  · intro o f indir outdir es o1 ih o' h
    subst o1
    rw [handleDir, handleDir]
    apply ih
    simpa [SameW, Log.print, Log.read] using h

theorem handleDir_frame (ue : Nat → Bool) (o o' : Log) (f indir outdir : Bytes) (es : List Entry) (h : SameW o o') :
    (handleDir ue o f indir outdir es).1 = (handleDir ue o' f indir outdir es).1 ∧
    SameW (handleDir ue o f indir outdir es).2 (handleDir ue o' f indir outdir es).2 :=
  (handleEntries_handleDir_frame ue).2 o f indir outdir es o' h

theorem addFilesAs_frame (ue ua : Nat → Bool) (dl : Bool) :
    ∀ (o : Log) (s : Statics) (indir to : Bytes) (es : List Entry) (o' : Log), SameW o o' →
      (addFilesAs ue ua dl o s indir to es).2 = (addFilesAs ue ua dl o' s indir to es).2 ∧
      SameW (addFilesAs ue ua dl o s indir to es).1 (addFilesAs ue ua dl o' s indir to es).1 := by
  intro o s indir to es
  fun_induction addFilesAs ue ua dl o s indir to es with
  | case1 o s _ _ => intro o' h; rw [addFilesAs]; exact ⟨rfl, h⟩
  | case2 o s indir to name c rest to' path o1 ih =>
    intro o' h
    rw [addFilesAs]
    apply ih
    simpa [SameW, Log.print, Log.read, o1] using h
  | case3 o s indir to name sub rest to' path o1 o2 o3 s3 hrec ih1 ih2 =>
    intro o' h
    rw [addFilesAs]
    have h2 : SameW o2 (if dl = true then ((o'.read path).print (str "cargo:rerun-if-changed=" ++ path)) else o'.read path) := by
      simp only [o2, o1]
      cases dl <;> simpa [SameW, Log.print, Log.read] using h
    obtain ⟨e1, e2⟩ := ih1 _ h2
    rw [hrec] at e1 e2
    cases hrec' : addFilesAs ue ua dl (if dl = true then ((o'.read path).print (str "cargo:rerun-if-changed=" ++ path)) else o'.read path) s path to' sub with
    | mk o3' s3' =>
      rw [hrec'] at e1 e2
      simp only at e1 e2
      subst e1
      have hr := hrec'
      simp only [path, to', dite_eq_ite] at hr
      rw [hr]
      exact ih2 _ e2

theorem addFilesFlat_frame (ue ua : Nat → Bool) :
    ∀ (o : Log) (s : Statics) (indir : Bytes) (es : List Entry) (o' : Log), SameW o o' →
      (addFilesFlat ue ua o s indir es).2 = (addFilesFlat ue ua o' s indir es).2 ∧
      SameW (addFilesFlat ue ua o s indir es).1 (addFilesFlat ue ua o' s indir es).1 := by
  intro o s indir es
  induction es generalizing o s with
  | nil => intro o' h; rw [addFilesFlat, addFilesFlat]; exact ⟨rfl, h⟩
  | cons e rest ih =>
    intro o' h
    cases e with
    | file name content =>
      rw [addFilesFlat, addFilesFlat]
      cases nameAndExt (baseName (joinPath indir name)) with
      | none => exact ih _ _ _ h
      | some _ =>
        apply ih
        simpa [SameW, Log.print, Log.read] using h
    | dir name sub =>
      rw [addFilesFlat, addFilesFlat]
      exact ih _ _ _ h

/-! ## Builds -/

/-- Two build states that differ at most in what was printed and listed. -/
structure Frame (b b' : Build) : Prop where
  f : b.f = b'.f
  statics : b.statics = b'.statics
  writes : b.out.writes = b'.out.writes

theorem Frame.refl (b : Build) : Frame b b := ⟨rfl, rfl, rfl⟩

theorem withStatics_frame (feat : MimeFeature) {b b' : Build} (h : Frame b b') :
    Frame (b.withStatics feat) (b'.withStatics feat) := by
  obtain ⟨hf, hs, hw⟩ := h
  unfold Build.withStatics
  rw [← hs]
  cases b.statics with
  | some s => exact ⟨hf, hs, hw⟩
  | none => exact ⟨by simp [hf], rfl, hw⟩

/-- every call asks for the same files and leaves the same index and statics, whatever was printed before -/
theorem step_frame (ue ua : Nat → Bool) (feat : MimeFeature) (outdir : Bytes) {b b' : Build} (h : Frame b b') (op : Op) :
    Frame (Build.step ue ua feat outdir b op) (Build.step ue ua feat outdir b' op) := by
  cases op with
  | compileTemplates indir entries =>
    obtain ⟨hf, hs, hw⟩ := h
    simp only [Build.step]
    obtain ⟨e1, e2⟩ := handleDir_frame ue b.out b'.out b.f indir (joinPath outdir (str "templates")) entries hw
    rw [← hf]
    exact ⟨e1, hs, e2⟩
  | addFile path content =>
    obtain ⟨hf, hs, hw⟩ := withStatics_frame feat h
    simp only [Build.step]
    rw [← hs]
    cases (b.withStatics feat).statics with
    | none => exact ⟨hf, hs, hw⟩
    | some s =>
      cases nameAndExt (baseName path) with
      | none => exact ⟨hf, hs, hw⟩
      | some _ => exact ⟨hf, rfl, by simpa [Log.print, Log.read] using hw⟩
  | addFiles indir entries =>
    obtain ⟨hf, hs, hw⟩ := withStatics_frame feat h
    simp only [Build.step]
    rw [← hs]
    cases (b.withStatics feat).statics with
    | none => exact ⟨hf, hs, hw⟩
    | some s =>
      have hp : SameW (((b.withStatics feat).out.read indir).print (str "cargo:rerun-if-changed=" ++ indir))
          (((b'.withStatics feat).out.read indir).print (str "cargo:rerun-if-changed=" ++ indir)) := by
        simpa [SameW, Log.print, Log.read] using hw
      obtain ⟨e1, e2⟩ := addFilesFlat_frame ue ua _ s indir entries _ hp
      exact ⟨hf, by simp only [e1], e2⟩
  | addFileAs path url =>
    obtain ⟨hf, hs, hw⟩ := withStatics_frame feat h
    simp only [Build.step]
    rw [← hs]
    cases (b.withStatics feat).statics with
    | none => exact ⟨hf, hs, hw⟩
    | some s => exact ⟨hf, rfl, by simpa [Log.print, Log.read] using hw⟩
  | addFilesAs indir to entries =>
    obtain ⟨hf, hs, hw⟩ := withStatics_frame feat h
    simp only [Build.step]
    rw [← hs]
    cases (b.withStatics feat).statics with
    | none => exact ⟨hf, hs, hw⟩
    | some s =>
      have hp : SameW (((b.withStatics feat).out.read indir).print (str "cargo:rerun-if-changed=" ++ indir))
          (((b'.withStatics feat).out.read indir).print (str "cargo:rerun-if-changed=" ++ indir)) := by
        simpa [SameW, Log.print, Log.read] using hw
      obtain ⟨e1, e2⟩ := addFilesAs_frame ue ua true _ s indir to entries _ hp
      exact ⟨hf, by simp only [e1], e2⟩
  | addFileData path data =>
    obtain ⟨hf, hs, hw⟩ := withStatics_frame feat h
    simp only [Build.step]
    rw [← hs]
    cases (b.withStatics feat).statics with
    | none => exact ⟨hf, hs, hw⟩
    | some s => exact ⟨hf, rfl, hw⟩
  | failed st path =>
    simp only [Build.step]
    cases st with
    | false => exact ⟨h.f, h.statics, by simpa [Log.print, Log.read] using h.writes⟩
    | true =>
      obtain ⟨hf, hs, hw⟩ := withStatics_frame feat h
      exact ⟨hf, hs, by simpa [Log.print, Log.read] using hw⟩

theorem foldl_frame (ue ua : Nat → Bool) (feat : MimeFeature) (outdir : Bytes) (ops : List Op) :
    ∀ {b b' : Build}, Frame b b' →
      Frame (ops.foldl (Build.step ue ua feat outdir) b) (ops.foldl (Build.step ue ua feat outdir) b') := by
  induction ops with
  | nil => intro b b' h; exact h
  | cons op rest ih => intro b b' h; exact ih (step_frame ue ua feat outdir h op)

theorem finish_frame (outdir : Bytes) {b b' : Build} (h : Frame b b') :
    (b.finish outdir).writes = (b'.finish outdir).writes := by
  obtain ⟨hf, hs, hw⟩ := h
  unfold Build.finish
  rw [← hs, ← hf]
  cases b.statics with
  | none => simp [writeIfChanged, Log.write, hw]
  | some s => simp [writeIfChanged, Log.write, hw]

/-- a failing `compile_templates` leaves the state as it was, up to its `rerun-if-changed` line -/
theorem failed_templates_frame (ue ua : Nat → Bool) (feat : MimeFeature) (outdir : Bytes) (b : Build) (p : Bytes) :
    Frame (Build.step ue ua feat outdir b (.failed false p)) b :=
  ⟨rfl, rfl, by simp [Build.step, Log.print, Log.read]⟩

/-- a failing static call, once `statics()` was called, likewise -/
theorem failed_static_frame (ue ua : Nat → Bool) (feat : MimeFeature) (outdir : Bytes) (b : Build) (p : Bytes)
    (hs : b.statics ≠ none) :
    Frame (Build.step ue ua feat outdir b (.failed true p)) b := by
  have : b.withStatics feat = b := by
    unfold Build.withStatics
    cases h : b.statics with
    | none => exact absurd h hs
    | some _ => rfl
  simp only [Build.step, if_true, this]
  exact ⟨rfl, rfl, by simp [Log.print, Log.read]⟩

/-- **A failing template directory disturbs nothing.**  The run with the failing call asks for exactly the files,
with exactly the bytes and in exactly the order, of the run without it — wherever in the script the call stands,
whatever precedes and follows it. -/
theorem failed_templates_call_disturbs_nothing (ue ua : Nat → Bool) (feat : MimeFeature) (outdir utils : Bytes)
    (ops₁ ops₂ : List Op) (p : Bytes) :
    (buildLog ue ua feat outdir utils (ops₁ ++ .failed false p :: ops₂)).writes =
    (buildLog ue ua feat outdir utils (ops₁ ++ ops₂)).writes := by
  unfold buildLog
  rw [List.foldl_append, List.foldl_append, List.foldl_cons]
  exact finish_frame outdir (foldl_frame ue ua feat outdir ops₂ (failed_templates_frame ue ua feat outdir _ p))

/-- … and so OUT_DIR ends up byte-for-byte the same, after the same physical writes, from any prior state. -/
theorem failed_templates_call_same_outdir (ue ua : Nat → Bool) (feat : MimeFeature) (fs : FS) (outdir utils : Bytes)
    (ops₁ ops₂ : List Op) (p : Bytes) :
    (build ue ua feat fs outdir utils (ops₁ ++ .failed false p :: ops₂)).fs =
      (build ue ua feat fs outdir utils (ops₁ ++ ops₂)).fs ∧
    (build ue ua feat fs outdir utils (ops₁ ++ .failed false p :: ops₂)).writes =
      (build ue ua feat fs outdir utils (ops₁ ++ ops₂)).writes := by
  unfold build runLog
  rw [failed_templates_call_disturbs_nothing]
  exact ⟨rfl, rfl⟩

/-- **A failing static call disturbs nothing** once the statics module exists (some static call came before). -/
theorem failed_static_call_disturbs_nothing (ue ua : Nat → Bool) (feat : MimeFeature) (outdir utils : Bytes)
    (ops₁ ops₂ : List Op) (p : Bytes)
    (hs : (ops₁.foldl (Build.step ue ua feat outdir) (Build.new outdir utils)).statics ≠ none) :
    (buildLog ue ua feat outdir utils (ops₁ ++ .failed true p :: ops₂)).writes =
    (buildLog ue ua feat outdir utils (ops₁ ++ ops₂)).writes := by
  unfold buildLog
  rw [List.foldl_append, List.foldl_append, List.foldl_cons]
  exact finish_frame outdir (foldl_frame ue ua feat outdir ops₂ (failed_static_frame ue ua feat outdir _ p hs))

/-- the names a later `static_name` / `get_names` sees are the same as well -/
theorem failed_call_same_names (ue ua : Nat → Bool) (feat : MimeFeature) (outdir utils : Bytes)
    (ops₁ ops₂ : List Op) (p : Bytes) :
    namesAfter ue ua feat outdir utils (ops₁ ++ .failed false p :: ops₂) =
    namesAfter ue ua feat outdir utils (ops₁ ++ ops₂) := by
  unfold namesAfter
  rw [List.foldl_append, List.foldl_append, List.foldl_cons]
  rw [(foldl_frame ue ua feat outdir ops₂ (failed_templates_frame ue ua feat outdir _ p)).statics]

/-- what the failing call does leave behind: its line, so that cargo watches the missing path -/
theorem failed_call_announces (ue ua : Nat → Bool) (feat : MimeFeature) (outdir : Bytes) (b : Build) (st : Bool) (p : Bytes) :
    (str "cargo:rerun-if-changed=" ++ p) ∈ (Build.step ue ua feat outdir b (.failed st p)).out.stdout := by
  simp [Build.step, Log.print, Log.read]

/-- the hypotheses are met by an ordinary script: templates, an optional directory that is missing, statics -/
example : (buildLog (fun _ => false) (fun _ => false) .off (str "o") (str "u")
      ([.compileTemplates (str "t") [.file (str "a.rs.html") (str "@()\nx\n")]] ++
        .failed false (str "optional") :: [.addFileData (str "x.css") (str "b")])).writes =
    (buildLog (fun _ => false) (fun _ => false) .off (str "o") (str "u")
      ([.compileTemplates (str "t") [.file (str "a.rs.html") (str "@()\nx\n")]] ++
        [.addFileData (str "x.css") (str "b")])).writes :=
  failed_templates_call_disturbs_nothing _ _ _ _ _ _ _ _

end Ructe.C10Failed
