import RucteModel

/-! # C20 — placeholder: theorems are added as they are proved. -/
namespace Ructe.C20
theorem placeholder : True := trivial
end Ructe.C20
