import RucteModel.Statics
import RucteProofs.BTree
import RucteProps.C07

/-!
# C20 — Sass `static_name()` resolves to the published names

`staticName names f` = the builtin: mangle `f` exactly as `add_static` does, look it up in
`get_names()`, and accept the entry only if its URL name is what a file called `f` is published as
(`publishedAs`: `f` itself, or `stem-<8 characters>.ext`).
`staticNamePinned` is the defective lookup of the pinned tree (only `-` and `.` were replaced) and
`staticNameByIdent` the lookup by identifier alone (a non-member sharing a member's identifier
resolved to that member); both are kept with their machine-checked counterexamples.
-/
namespace Ructe.C20
open Nom

/-! ## The shape test -/

theorem hashedForm_iff (stem ext url : Bytes) :
    hashedForm stem ext url = true ↔ ∃ h, h.length = 8 ∧ url = stem ++ [45] ++ h ++ [46] ++ ext := by
  unfold hashedForm
  constructor
  · intro h
    by_cases hp : stem.isPrefixOf url = true
    · rw [if_pos hp] at h
      obtain ⟨t, rfl⟩ := List.isPrefixOf_iff_prefix.mp hp
      rw [List.drop_left] at h
      cases t with
      | nil => cases h
      | cons c r =>
        by_cases hc : c = 45
        · subst hc
          simp only [Bool.and_eq_true, beq_iff_eq] at h
          refine ⟨r.take 8, ?_, ?_⟩
          · simp only [List.length_take]; omega
          · have hr : r = r.take 8 ++ r.drop 8 := (List.take_append_drop 8 r).symm
            rw [h.2] at hr
            conv => lhs; rw [hr]
            simp [List.append_assoc]
        · exfalso
          revert h
          split
          · rename_i r' heq
            simp only [List.cons.injEq] at heq
            exact absurd heq.1 hc
          · intro h; cases h
    · rw [if_neg hp] at h; cases h
  · rintro ⟨h, hl, rfl⟩
    have hp : stem.isPrefixOf (stem ++ [45] ++ h ++ [46] ++ ext) = true := by
      apply List.isPrefixOf_iff_prefix.mpr
      exact ⟨[45] ++ h ++ [46] ++ ext, by simp [List.append_assoc]⟩
    rw [if_pos hp]
    have hd : (stem ++ [45] ++ h ++ [46] ++ ext).drop stem.length = 45 :: (h ++ 46 :: ext) := by
      have : stem ++ [45] ++ h ++ [46] ++ ext = stem ++ (45 :: (h ++ 46 :: ext)) := by simp [List.append_assoc]
      rw [this, List.drop_left]
    rw [hd]
    simp only [List.length_append, List.length_cons, Bool.and_eq_true, beq_iff_eq]
    refine ⟨by omega, ?_⟩
    rw [← hl, List.drop_left]

/-- a verbatim URL name (`add_file_as`) is a published form of itself -/
theorem publishedAs_verbatim (f : Bytes) : publishedAs f f = true := by
  simp [publishedAs]

/-- the hashed URL name of a file is a published form of its name (any directory part) -/
theorem publishedAs_hashed (f stem ext slug : Bytes) (h : nameAndExt (baseName f) = some (stem, ext))
    (hs : slug.length = 8) : publishedAs f (stem ++ [45] ++ slug ++ [46] ++ ext) = true := by
  simp only [publishedAs, h, Bool.or_eq_true]
  exact Or.inr ((hashedForm_iff _ _ _).mpr ⟨slug, hs, rfl⟩)

/-- `a ++ "." ++ e` determines `a` and `e` when `e` has no dot -/
theorem append_dot_inj : ∀ (e e' a b : Bytes), (46 : UInt8) ∉ e → (46 : UInt8) ∉ e' →
    a ++ [46] ++ e = b ++ [46] ++ e' → a = b ∧ e = e' := by
  intro e e' a b he he' h
  have hr := congrArg List.reverse h
  simp only [List.reverse_append, List.reverse_cons, List.nil_append, List.append_assoc, List.cons_append] at hr
  have key : ∀ (x y ra rb : Bytes), (46 : UInt8) ∉ x → (46 : UInt8) ∉ y → x ++ 46 :: ra = y ++ 46 :: rb → x = y ∧ ra = rb := by
    intro x
    induction x with
    | nil =>
      intro y ra rb _ hy h
      cases y with
      | nil => simp at h; exact ⟨rfl, h⟩
      | cons c y' =>
        simp only [List.nil_append, List.cons_append, List.cons.injEq] at h
        exact absurd (h.1 ▸ List.mem_cons_self) hy
    | cons c x' ih =>
      intro y ra rb hx hy h
      cases y with
      | nil =>
        simp only [List.nil_append, List.cons_append, List.cons.injEq] at h
        exact absurd (h.1 ▸ List.mem_cons_self) hx
      | cons d y' =>
        simp only [List.cons_append, List.cons.injEq] at h
        obtain ⟨rfl, h2⟩ := h
        obtain ⟨rfl, rfl⟩ := ih y' ra rb (fun m => hx (List.mem_cons_of_mem _ m)) (fun m => hy (List.mem_cons_of_mem _ m)) h2
        exact ⟨rfl, rfl⟩
  obtain ⟨h1, h2⟩ := key e.reverse e'.reverse a.reverse b.reverse (by simpa using he) (by simpa using he') hr
  exact ⟨List.reverse_inj.mp h2, List.reverse_inj.mp h1⟩

/-- **a hashed URL name belongs to one file name only**: if the URL name published for a file `g`
(`sg-<slug>.eg`) passes the shape test for the requested name `f`, then `f` and `g` have the same
stem and extension — the requested file *is* that file -/
theorem hashed_url_determines_name (f g sf ef sg eg slug : Bytes)
    (hf : nameAndExt (baseName f) = some (sf, ef)) (hg : nameAndExt g = some (sg, eg))
    (hs : slug.length = 8) (h : hashedForm sf ef (sg ++ [45] ++ slug ++ [46] ++ eg) = true) :
    sf = sg ∧ ef = eg ∧ baseName f = g := by
  obtain ⟨hh, hl, he⟩ := (hashedForm_iff _ _ _).mp h
  obtain ⟨hfs, hfd, _⟩ := C07.nameAndExt_shape _ _ _ hf
  obtain ⟨hgs, hgd, _⟩ := C07.nameAndExt_shape _ _ _ hg
  have e1 : (sg ++ [45] ++ slug) ++ [46] ++ eg = (sf ++ [45] ++ hh) ++ [46] ++ ef := by
    simpa [List.append_assoc] using he
  obtain ⟨h1, h2⟩ := append_dot_inj eg ef _ _ hgd hfd e1
  have h3 : sg ++ [45] = sf ++ [45] := (List.append_inj' h1 (by omega)).1
  have h4 : sg = sf := List.append_cancel_right h3
  subst h4 h2
  exact ⟨rfl, rfl, by rw [hfs, hgs]⟩

/-! ## The lookup -/

/-- every file added before is found, and resolves to its published URL name (`publishedAs_verbatim`,
`publishedAs_hashed` + `C07.slug_shape` discharge the last hypothesis for the two ways a file is added) -/
theorem static_name_total (ua : Nat → Bool) (names : List (Bytes × Bytes)) (f url : Bytes)
    (hs : StrictSorted (names.map (·.1))) (hp : publishedAs f url = true) :
    staticName ua (btInsert (mangle ua f) url names) f = some url := by
  have _ := hs
  unfold staticName
  rw [btGet_btInsert_self]
  simp [Option.filter, hp]

/-- later additions under other identifiers do not disturb it -/
theorem static_name_stable (ua : Nat → Bool) (names : List (Bytes × Bytes)) (f g url : Bytes)
    (hs : StrictSorted (names.map (·.1))) (hne : mangle ua g ≠ mangle ua f) :
    staticName ua (btInsert (mangle ua g) url names) f = staticName ua names f := by
  have _ := hs
  unfold staticName
  rw [btGet_btInsert_ne _ _ _ _ (Ne.symm hne)]

/-- a hit is always the entry recorded under the identifier of the queried name: a miss is an
error (`none` = `CallError`), never another identifier's URL -/
theorem static_name_never_wrong (ua : Nat → Bool) (names : List (Bytes × Bytes)) (f u : Bytes)
    (h : staticName ua names f = some u) : (mangle ua f, u) ∈ names ∧ publishedAs f u = true := by
  unfold staticName at h
  rw [Option.filter_eq_some_iff] at h
  exact ⟨btGet_some_mem h.1, h.2⟩

/-- **exact**: whatever `static_name(f)` evaluates to is literally a published form of the *requested*
name — `f` itself, or `stem-<8 bytes>.ext` with the stem and extension of `f` — never the URL of a file
with another name that merely shares the identifier -/
theorem static_name_exact (ua : Nat → Bool) (names : List (Bytes × Bytes)) (f u : Bytes)
    (h : staticName ua names f = some u) :
    u = f ∨ ∃ stem ext hh, nameAndExt (baseName f) = some (stem, ext) ∧ hh.length = 8 ∧
      u = stem ++ [45] ++ hh ++ [46] ++ ext := by
  have hp := (static_name_never_wrong ua names f u h).2
  simp only [publishedAs, Bool.or_eq_true, beq_iff_eq] at hp
  rcases hp with hp | hp
  · exact Or.inl hp
  · cases hn : nameAndExt (baseName f) with
    | none => simp [hn] at hp
    | some v =>
      obtain ⟨stem, ext⟩ := v
      simp only [hn] at hp
      obtain ⟨hh, hl, he⟩ := (hashedForm_iff _ _ _).mp hp
      exact Or.inr ⟨stem, ext, hh, rfl, hl, he⟩

/-- … hence a name that was not added is a build error even when it shares its identifier with a file
that was: if the only entry under the identifier is the hashed URL of a file `g` whose name is not the
requested one, the lookup fails -/
theorem static_name_nonmember_error (ua : Nat → Bool) (names : List (Bytes × Bytes)) (f g sg eg slug : Bytes)
    (hg : nameAndExt g = some (sg, eg)) (hs : slug.length = 8)
    (hget : btGet (mangle ua f) names = some (sg ++ [45] ++ slug ++ [46] ++ eg))
    (hne : baseName f ≠ g) (hnv : f ≠ sg ++ [45] ++ slug ++ [46] ++ eg) :
    staticName ua names f = none := by
  unfold staticName
  rw [hget]
  simp only [Option.filter_some, ite_eq_right_iff, reduceCtorEq, imp_false, Bool.not_eq_true]
  simp only [publishedAs, Bool.or_eq_false_iff, beq_eq_false_iff_ne, ne_eq]
  refine ⟨fun h => hnv h.symm, ?_⟩
  cases hf : nameAndExt (baseName f) with
  | none => rfl
  | some v =>
    obtain ⟨sf, ef⟩ := v
    simp only
    cases hh : hashedForm sf ef (sg ++ [45] ++ slug ++ [46] ++ eg) with
    | false => rfl
    | true => exact absurd (hashed_url_determines_name f g sf ef sg eg slug hf hg hs hh).2.2 hne

/-- a name that was never added (no entry under its identifier) is an error -/
theorem static_name_missing (ua : Nat → Bool) (names : List (Bytes × Bytes)) (f : Bytes)
    (h : ∀ p ∈ names, p.1 ≠ mangle ua f) : staticName ua names f = none := by
  unfold staticName
  rw [btGet_none_of_not_mem h]
  rfl

/-- **the compiled CSS is itself added as `<stem>.css`, named by the hash of the CSS bytes**
(whatever rsass produced: `css` is universally quantified) -/
theorem sass_css_added (ue ua : Nat → Bool) (s : Statics) (src css stem ext : Bytes)
    (h : nameAndExt (baseName (withExtension src (str "css"))) = some (stem, ext)) :
    (s.addSassResult ue ua src css).names =
      btInsert (mangle ua (stem ++ [95] ++ ext)) (stem ++ [45] ++ checksumSlug css ++ [46] ++ ext) s.names :=
  (C07.urlName_shape ue ua s (withExtension src (str "css")) css (.data css) stem ext h).2

-- tests (evaluated): `q0.scss` is published as `q0-<slug of the css>.css`
#guard withExtension (str "in/q0.scss") (str "css") == str "in/q0.css"
#guard withExtension (str "style") (str "css") == str "style.css"
#guard nameAndExt (baseName (withExtension (str "a/b.x.scss") (str "css"))) == some (str "b.x", str "css")
#guard publishedAs (str "a.b.css") (str "a.b-12345678.css")
#guard publishedAs (str "to/a.css") (str "to/a.css")
#guard !publishedAs (str "a_b.css") (str "a.b-12345678.css")
#guard !publishedAs (str "a.css") (str "a-1234567.css")

/-- the pinned lookup misses files that were added: `17.css` is stored under `n17_css` but looked
up as `17_css` (finding #8, machine-checked) -/
theorem pinned_counterexample :
    staticNamePinned (btInsert (mangle (fun _ => false) [49, 55, 46, 99, 115, 115]) [120] []) [49, 55, 46, 99, 115, 115] = none ∧
    staticNameByIdent (fun _ => false) (btInsert (mangle (fun _ => false) [49, 55, 46, 99, 115, 115]) [120] []) [49, 55, 46, 99, 115, 115] = some [120] := by
  decide

/-- the lookup by identifier alone resolved a name that was never added: with only `a.b.css` added,
`static_name("a_b.css")` gave that file's URL (finding #11, machine-checked; the byte lists are
`a.b.css`, `a.b-12345678.css`, `a_b.css`); the repaired lookup fails on it and still finds the member -/
theorem pinned_ident_collision :
    let names := btInsert (mangle (fun _ => false) [97, 46, 98, 46, 99, 115, 115]) [97, 46, 98, 45, 49, 50, 51, 52, 53, 54, 55, 56, 46, 99, 115, 115] []
    staticNameByIdent (fun _ => false) names [97, 95, 98, 46, 99, 115, 115] = some [97, 46, 98, 45, 49, 50, 51, 52, 53, 54, 55, 56, 46, 99, 115, 115] ∧
    staticName (fun _ => false) names [97, 95, 98, 46, 99, 115, 115] = none ∧
    staticName (fun _ => false) names [97, 46, 98, 46, 99, 115, 115] = some [97, 46, 98, 45, 49, 50, 51, 52, 53, 54, 55, 56, 46, 99, 115, 115] := by
  decide

#guard str "a.b.css" == [97, 46, 98, 46, 99, 115, 115] && str "a_b.css" == [97, 95, 98, 46, 99, 115, 115]
#guard str "a.b-12345678.css" == [97, 46, 98, 45, 49, 50, 51, 52, 53, 54, 55, 56, 46, 99, 115, 115]

end Ructe.C20
