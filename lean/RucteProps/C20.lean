import RucteModel.Statics
import RucteProofs.BTree
import RucteProps.C07

/-!
# C20 — Sass `static_name()` resolves to the published names

`staticName names f` = the builtin: mangle `f` exactly as `add_static` does and look it up in
`get_names()`.  `staticNamePinned` is the defective lookup of the pinned tree (only `-` and `.`
were replaced), kept with its machine-checked counterexample.
-/
namespace Ructe.C20
open Nom

/-- every file added before is found, and resolves to its published URL name -/
theorem static_name_total (ua : Nat → Bool) (names : List (Bytes × Bytes)) (f url : Bytes)
    (hs : StrictSorted (names.map (·.1))) :
    staticName ua (btInsert (mangle ua f) url names) f = some url := by
  have _ := hs
  unfold staticName
  exact btGet_btInsert_self _ _ _

/-- later additions under other identifiers do not disturb it -/
theorem static_name_stable (ua : Nat → Bool) (names : List (Bytes × Bytes)) (f g url : Bytes)
    (hs : StrictSorted (names.map (·.1))) (hne : mangle ua g ≠ mangle ua f) :
    staticName ua (btInsert (mangle ua g) url names) f = staticName ua names f := by
  have _ := hs
  unfold staticName
  exact btGet_btInsert_ne _ _ _ _ (Ne.symm hne)

/-- a hit is always the entry recorded under the identifier of the queried name: a miss is an
error (`none` = `CallError`), never another identifier's URL -/
theorem static_name_never_wrong (ua : Nat → Bool) (names : List (Bytes × Bytes)) (f u : Bytes)
    (h : staticName ua names f = some u) : (mangle ua f, u) ∈ names := by
  unfold staticName at h
  exact btGet_some_mem h

/-- a name that was never added (no entry under its identifier) is an error -/
theorem static_name_missing (ua : Nat → Bool) (names : List (Bytes × Bytes)) (f : Bytes)
    (h : ∀ p ∈ names, p.1 ≠ mangle ua f) : staticName ua names f = none := by
  unfold staticName
  exact btGet_none_of_not_mem h

/-- **the compiled CSS is itself added as `<stem>.css`, named by the hash of the CSS bytes**
(whatever rsass produced: `css` is universally quantified) -/
theorem sass_css_added (ue ua : Nat → Bool) (s : Statics) (src css stem ext : Bytes)
    (h : nameAndExt (baseName (withExtension src (str "css"))) = some (stem, ext)) :
    (s.addSassResult ue ua src css).names =
      btInsert (mangle ua (stem ++ [95] ++ ext)) (stem ++ [45] ++ checksumSlug css ++ [46] ++ ext) s.names :=
  (C07.urlName_shape ue ua s (withExtension src (str "css")) css (.data css) stem ext h).2

-- tests (evaluated): `q0.scss` is published as `q0-<slug of the css>.css`
#guard withExtension (str "in/q0.scss") (str "css") == str "in/q0.css"
#guard withExtension (str "style") (str "css") == str "style.css"
#guard nameAndExt (baseName (withExtension (str "a/b.x.scss") (str "css"))) == some (str "b.x", str "css")

/-- the pinned lookup misses files that were added: `17.css` is stored under `n17_css` but looked
up as `17_css` (finding #8, machine-checked) -/
theorem pinned_counterexample :
    staticNamePinned (btInsert (mangle (fun _ => false) [49, 55, 46, 99, 115, 115]) [120] []) [49, 55, 46, 99, 115, 115] = none ∧
    staticName (fun _ => false) (btInsert (mangle (fun _ => false) [49, 55, 46, 99, 115, 115]) [120] []) [49, 55, 46, 99, 115, 115] = some [120] := by
  decide

end Ructe.C20
