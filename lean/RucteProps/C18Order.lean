import RucteProofs.GenLemmas
import RucteProofs.OrderLemmas
import RucteProps.C12
import RucteProps.C18
import RucteProps.C10

/-!
# C18 / C12 (continued) — directory-listing order and consistency of a run's requests
-/
namespace Ructe.C18
open Nom

/-- a flat directory of files (no sub-directories) -/
def allFiles (es : List Entry) : Prop := ∀ e ∈ es, ∃ n c, e = .file n c

/-- `flat_writes_perm` for arbitrary listings (sub-directories allowed): the hypothesis `allFiles`
is not needed -/
theorem writes_perm (ue : Nat → Bool) (indir outdir : Bytes) (es₁ es₂ : List Entry)
    (hp : es₁.Perm es₂) :
    ((handleEntries ue {} [] indir outdir es₁).2.writes).Perm ((handleEntries ue {} [] indir outdir es₂).2.writes) := by
  rw [handleEntries_writes_flatten, handleEntries_writes_flatten]
  exact (hp.map _).flatten

set_option linter.unusedVariables false in -- `hf` is kept from the stated form; it is not needed
/-- **decls_order_only** (flat directories): for two listings of the same files in different
`read_dir` orders, the write requests are a permutation of each other (same files, same contents) … -/
theorem flat_writes_perm (ue : Nat → Bool) (indir outdir : Bytes) (es₁ es₂ : List Entry)
    (hp : es₁.Perm es₂) (hf : allFiles es₁) :
    ((handleEntries ue {} [] indir outdir es₁).2.writes).Perm ((handleEntries ue {} [] indir outdir es₂).2.writes) :=
  writes_perm ue indir outdir es₁ es₂ hp

/-- … and the declarations text is the concatenation of the per-file declaration blocks in
listing order (so the *set* of declarations depends only on the directory contents) -/
def fileDecl (ue : Nat → Bool) (indir outdir : Bytes) (e : Entry) : Bytes :=
  (handleEntries ue {} [] indir outdir [e]).1

/-- `flat_decls_concat` for arbitrary listings -/
theorem decls_concat (ue : Nat → Bool) (indir outdir : Bytes) (es : List Entry) :
    (handleEntries ue {} [] indir outdir es).1 = (es.map (fileDecl ue indir outdir)).flatten :=
  handleEntries_decls_flatten ue indir outdir es

set_option linter.unusedVariables false in -- `hf` not needed
theorem flat_decls_concat (ue : Nat → Bool) (indir outdir : Bytes) (es : List Entry) (hf : allFiles es) :
    (handleEntries ue {} [] indir outdir es).1 = (es.map (fileDecl ue indir outdir)).flatten :=
  decls_concat ue indir outdir es

set_option linter.unusedVariables false in -- `hf` not needed
theorem flat_decls_perm (ue : Nat → Bool) (indir outdir : Bytes) (es₁ es₂ : List Entry)
    (hp : es₁.Perm es₂) (hf : allFiles es₁) :
    (es₁.map (fileDecl ue indir outdir)).Perm (es₂.map (fileDecl ue indir outdir)) :=
  hp.map _

/-- what `handleEntries` does to the declarations text and the write requests does not depend on
the lines printed or the text accumulated so far (it only appends) -/
theorem handleEntries_parametric (ue : Nat → Bool) (o : Log) (f indir outdir : Bytes) (es : List Entry) :
    (handleEntries ue o f indir outdir es).1 = f ++ (handleEntries ue {} [] indir outdir es).1 ∧
    (handleEntries ue o f indir outdir es).2.writes = o.writes ++ (handleEntries ue {} [] indir outdir es).2.writes ∧
    (handleEntries ue o f indir outdir es).2.stdout = o.stdout ++ (handleEntries ue {} [] indir outdir es).2.stdout := by
  rw [handleEntries_from_empty ue o f indir outdir es]
  exact ⟨rfl, rfl, rfl⟩

/-- the same for the inputs listed / opened -/
theorem handleEntries_parametric_reads (ue : Nat → Bool) (o : Log) (f indir outdir : Bytes) (es : List Entry) :
    (handleEntries ue o f indir outdir es).2.reads = o.reads ++ (handleEntries ue {} [] indir outdir es).2.reads := by
  rw [handleEntries_from_empty ue o f indir outdir es]
  rfl

/-- **broken_isolated**: removing a template that does not parse from a listing changes neither the
declarations nor the write requests of the other entries -/
theorem broken_isolated (ue : Nat → Bool) (indir outdir : Bytes) (es₁ es₂ : List Entry) (fname content suf : Bytes)
    (hu : validUtf8 fname = true)
    (hsuf : suffixes.filter (fun s => endsWith fname s) = [suf])
    (hbad : templateCode ue (fname.take (fname.length - suf.length) ++ [95] ++ suf.drop suffixSkipLen) content = none)
    (hrun : template (8 * content.length + 16) content ≠ .oom ∧ template (8 * content.length + 16) content ≠ .panic) :
    (handleEntries ue {} [] indir outdir (es₁ ++ .file fname content :: es₂)).1 =
      (handleEntries ue {} [] indir outdir (es₁ ++ es₂)).1 ∧
    (handleEntries ue {} [] indir outdir (es₁ ++ .file fname content :: es₂)).2.writes =
      (handleEntries ue {} [] indir outdir (es₁ ++ es₂)).2.writes := by
  rw [C10.handleEntries_append, C10.handleEntries_append]
  simp only
  generalize handleEntries ue {} [] indir outdir es₁ = r1
  have hstep : handleEntries ue r1.2 r1.1 indir outdir (.file fname content :: es₂) =
      handleEntries ue (handleFile ue r1.2 r1.1 fname (joinPath indir fname) outdir content suffixes).2
        (handleFile ue r1.2 r1.1 fname (joinPath indir fname) outdir content suffixes).1 indir outdir es₂ := by
    rw [handleEntries, if_pos hu]
  obtain ⟨h1, h2, _⟩ :=
    C10.broken_template_reported ue r1.2 r1.1 fname (joinPath indir fname) outdir content suf hsuf hbad hrun
  rw [hstep]
  obtain ⟨a1, a2, _⟩ := handleEntries_parametric ue
    (handleFile ue r1.2 r1.1 fname (joinPath indir fname) outdir content suffixes).2
    (handleFile ue r1.2 r1.1 fname (joinPath indir fname) outdir content suffixes).1 indir outdir es₂
  obtain ⟨b1, b2, _⟩ := handleEntries_parametric ue r1.2 r1.1 indir outdir es₂
  rw [a1, a2, b1, b2, h1, h2]
  exact ⟨rfl, rfl⟩

end Ructe.C18
