import RucteModel.Statics
import RucteProofs.Literals

/-!
# C08 — embedded static content and names are exact

Encoders are what ructe prints (`escapeAscii` = `escape_default` per byte for `ByteString`,
`strDebug` = `{:?}` for the `include_bytes!` path and, after the repair, for `name:`);
decoders are the model of rustc's literal lexer (`RucteModel/RustLit.lean`).
-/
namespace Ructe.C08
open Nom

/-- the `b"…"` literal printed for data decodes to exactly the data, for **every** byte string -/
theorem byteString_roundtrip (d : Bytes) :
    decodeByteStrLit ([98, 34] ++ escapeAscii d ++ [34]) = some d := by
  exact decodeByteStrLit_escapeAscii d

/-- the `"…"` literal printed by `{:?}` decodes to exactly the string, for every valid UTF-8
string and every choice `uniEsc` of which non-ASCII scalars `char::escape_debug` escapes -/
theorem strDebug_roundtrip (ue : Nat → Bool) (s : Bytes) (h : validUtf8 s = true) :
    decodeStrLit (strDebug ue s) = some s := by
  exact decodeStrLit_strDebug ue s h

/-- the printed content expression of a data item is that literal -/
theorem printContent_data (ue : Nat → Bool) (d : Bytes) :
    printContent ue (.data d) = str "b\"" ++ escapeAscii d ++ str "\"" := by
  rfl

/-- the pinned code printed the URL name between bare quotes: a name with a double quote does not
lex, a name with a backslash lexes to a different string (finding #3, machine-checked) -/
theorem name_raw_counterexample :
    decodeStrLit (nameLitPinned [119, 101, 34, 105, 114, 100]) = none ∧                          -- we"ird
    decodeStrLit (nameLitPinned [98, 97, 99, 107, 92, 110, 115]) = some [98, 97, 99, 107, 10, 115] ∧   -- back\ns ↦ back⏎s
    decodeStrLit (strDebug (fun _ => false) [119, 101, 34, 105, 114, 100]) = some [119, 101, 34, 105, 114, 100] := by
  decide +kernel

end Ructe.C08
