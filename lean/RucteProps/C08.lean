import RucteModel

/-! # C08 — placeholder: theorems are added as they are proved. -/
namespace Ructe.C08
theorem placeholder : True := trivial
end Ructe.C08
