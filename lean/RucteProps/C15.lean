import RucteModel.Tpl
import RucteProofs.Layout

/-!
# C15 — layout and template comments between syntactic elements change nothing

Proved here: at every *layout slot* of the grammar (a call of `spacelike`, or of `multispace0`
inside the declaration) **any** admissible layout — any sequence of white-space runs and
`@* … *@` comments — is consumed completely and leaves the parser in exactly the state it would
be in with any other admissible layout (in particular with none).  The composition over all the
slots of a whole template (the K theorem `layout_irrelevant` of the design) is *not* proved; it
is covered on every run by the metamorphic oracle of the `parse` suite (canonical print vs.
perturbed prints of the same source tree give byte-identical code and the documented tree).
-/
namespace Ructe.C15
open Nom

/-- one piece of insignificant material -/
inductive Item where
  | ws (bytes : Bytes)          -- a non-empty run of space, tab, CR, LF
  | comment (body : Bytes)      -- `@*` body `*@`

def Item.print : Item → Bytes
  | .ws b => b
  | .comment b => [64, 42] ++ b ++ [42, 64]

/-- a comment body must not contain the terminator: no `*@` inside `body ++ "*"` -/
def Item.ok : Item → Bool
  | .ws b => !b.isEmpty && b.all isSpace
  | .comment b => noStarAt (b ++ [42])

def printLayout (l : List Item) : Bytes := (l.map Item.print).flatten

/-- what may follow a layout slot: anything that does not itself start a piece of layout -/
def StopsLayout (rest : Bytes) : Prop :=
  (∀ b r, rest = b :: r → isSpace b = false) ∧ ¬ ∃ r, rest = 64 :: 42 :: r

/-- a comment is consumed up to its first terminator -/
theorem comment_complete (body rest : Bytes) (h : noStarAt (body ++ [42]) = true) :
    comment ([64, 42] ++ body ++ [42, 64] ++ rest) = .ok rest () := by
  have := comment_complete' body rest h
  simpa using this

/-- **layout slot**: `spacelike` consumes any admissible layout entirely … -/
theorem spacelike_complete (l : List Item) (hl : ∀ i ∈ l, i.ok = true) (rest : Bytes) (hr : StopsLayout rest) :
    spacelike (printLayout l ++ rest) = .ok rest () := by
  have hstop : SAbsorbs rest rest :=
    sabsorbs_stop rest hr.1 (fun r h => hr.2 ⟨r, h⟩)
  have hspan : (span isSpace rest).2 = rest := by rw [span_stop _ _ hr.1]
  -- invariant robust to adjacent white-space runs merging into one `multispace1` match
  have key : SAbsorbs rest (printLayout l ++ rest) ∧
      SAbsorbs rest (span isSpace (printLayout l ++ rest)).2 := by
    induction l with
    | nil => simpa [printLayout, hspan] using hstop
    | cons i l ih =>
      have ih := ih (fun j hj => hl j (List.mem_cons_of_mem _ hj))
      have hi := hl i List.mem_cons_self
      cases i with
      | ws b =>
        simp only [Item.ok, Bool.and_eq_true, Bool.not_eq_true', List.isEmpty_eq_false_iff] at hi
        have e : printLayout (Item.ws b :: l) ++ rest = b ++ (printLayout l ++ rest) := by
          simp [printLayout, Item.print]
        rw [e]
        refine ⟨sabsorbs_ws _ _ _ hi.1 hi.2 ih.2, ?_⟩
        rw [span_all _ _ _ hi.2]
        exact ih.2
      | comment b =>
        simp only [Item.ok] at hi
        have e : printLayout (Item.comment b :: l) ++ rest =
            64 :: 42 :: (b ++ 42 :: 64 :: (printLayout l ++ rest)) := by
          simp [printLayout, Item.print]
        rw [e]
        have hA := sabsorbs_comment rest b _ hi ih.1
        refine ⟨hA, ?_⟩
        rw [span_cons_false _ _ _ (by decide)]
        exact hA
  obtain ⟨vs, hvs⟩ := key.1 _ [] (Nat.lt_succ_self _)
  have : many0 spaceStep (printLayout l ++ rest) = .ok rest vs := hvs
  simp [spacelike_eq, value, pmap, this]

/-- … so any two admissible layouts at a slot are indistinguishable to the rest of the parse -/
theorem layout_irrelevant_at_slot (l₁ l₂ : List Item) (h₁ : ∀ i ∈ l₁, i.ok = true) (h₂ : ∀ i ∈ l₂, i.ok = true)
    (rest : Bytes) (hr : StopsLayout rest) :
    spacelike (printLayout l₁ ++ rest) = spacelike (printLayout l₂ ++ rest) ∧
    spacelike (printLayout l₁ ++ rest) = spacelike rest := by
  have e1 := spacelike_complete l₁ h₁ rest hr
  have e2 := spacelike_complete l₂ h₂ rest hr
  have e0 := spacelike_complete [] (by simp) rest hr
  simp only [printLayout, List.map_nil, List.flatten_nil, List.nil_append] at e0
  exact ⟨by rw [e1, e2], by rw [e1, e0]⟩

/-- the white-space-only slots of the declaration (`multispace0` after `(`, after `,`, before `)`) -/
theorem multispace0_complete (ws rest : Bytes) (hw : ws.all isSpace = true) (hr : ∀ b r, rest = b :: r → isSpace b = false) :
    multispace0 (ws ++ rest) = .ok rest ws := by
  simp [multispace0, span_all _ _ _ hw, span_stop _ _ hr]

/-- `spacelike` never fails and never panics: a slot cannot make a template be rejected -/
theorem spacelike_total (inp : Bytes) : ∃ rest, spacelike inp = .ok rest () := by
  obtain ⟨r, vs, h, _⟩ := many0_total lgood_spaceStep inp
  exact ⟨r, by simp [spacelike_eq, value, pmap, h]⟩

/-- soundness: what `spacelike` skips is a prefix of the input (nothing else is touched) -/
theorem spacelike_sound (inp rest : Bytes) (h : spacelike inp = .ok rest ()) : ∃ pre, inp = pre ++ rest := by
  exact sfx_spacelike inp rest () h

/-- the pinned `comment_tail` did not close a comment ending in an even run of stars at its
terminator: `@** doc **@B` is not a complete comment followed by `B` (finding #2, machine-checked) -/
def commentTailPinned : Parser Unit :=
  preceded
    (many0 (alt [value () (isNot [42]), value () (preceded (tag [42]) (noneOf [64]))]))
    (value () (tag [42, 64]))

theorem pinned_comment_counterexample :
    (match commentTailPinned [42, 32, 100, 32, 42, 42, 64, 66] with | .ok r _ => r | _ => [0]) ≠ [66] ∧
    commentTail [42, 32, 100, 32, 42, 42, 64, 66] = .ok [66] () := by
  constructor
  · decide +kernel
  · exact commentTail_complete [42, 32, 100, 32, 42] [66] (by decide)

example : (Item.comment [42, 32, 100, 32, 42]).ok = true := by decide   -- `@** d **@`
example : StopsLayout [60, 112, 62] := by
  constructor
  · intro b r h; cases h; decide
  · intro ⟨r, h⟩; cases h

end Ructe.C15
