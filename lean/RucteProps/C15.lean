import RucteModel

/-! # C15 — placeholder: theorems are added as they are proved. -/
namespace Ructe.C15
theorem placeholder : True := trivial
end Ructe.C15
