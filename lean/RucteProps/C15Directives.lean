import RucteModel.Tpl
import RucteProofs.Complete
import RucteProofs.Layout
import RucteProofs.DirectiveLemmas
import RucteProps.C15
import RucteProps.C05Complete

/-!
# C15 (continued) — layout between a directive keyword, its Rust fragment and its opening brace

Compositional completeness lemmas for `@if` and `@for`: whatever admissible layout (white space,
`@* *@` comments; `C15.Item`) is put at the slots of the directive, the parse result is the same
node.  The fragment and the body are abstracted by hypotheses that say "this text is parsed in
full when followed by layout / by the closing brace", so the lemmas compose with the completeness
theorems for fragments (`C05Complete`) and, by induction over a source tree, with themselves.
-/
namespace Ructe.C15
open Nom

/-- a tail that starts a piece of layout: white space or `@*` -/
def StartsLayout (tail : Bytes) : Prop :=
  (∃ b r, tail = b :: r ∧ isSpace b = true) ∨ (∃ r, tail = 64 :: 42 :: r)

/-- a non-empty admissible layout starts a piece of layout, whatever follows -/
theorem printLayout_starts (l : List Item) (hl : ∀ i ∈ l, i.ok = true) (hne : l ≠ []) (rest : Bytes) :
    StartsLayout (printLayout l ++ rest) := by
  cases l with
  | nil => exact absurd rfl hne
  | cons i l =>
    have hi := hl i List.mem_cons_self
    cases i with
    | ws b =>
      simp only [Item.ok, Bool.and_eq_true, Bool.not_eq_true', List.isEmpty_eq_false_iff] at hi
      cases b with
      | nil => exact absurd rfl hi.1
      | cons c b =>
        simp only [List.all_cons, Bool.and_eq_true] at hi
        exact .inl ⟨c, b ++ printLayout l ++ rest, by simp [printLayout, Item.print], hi.2.1⟩
    | comment b =>
      exact .inr ⟨b ++ [42, 64] ++ printLayout l ++ rest, by simp [printLayout, Item.print]⟩

/-! ## auxiliary facts about `StartsLayout` / `StopsLayout` -/

/-- the first byte of a tail that starts layout is white space or `@` -/
theorem startsLayout_head {tail : Bytes} (h : StartsLayout tail) :
    ∃ c x, tail = c :: x ∧ (isSpace c = true ∨ c = 64) := by
  rcases h with ⟨b, r, rfl, hb⟩ | ⟨r, rfl⟩
  · exact ⟨b, r, rfl, .inl hb⟩
  · exact ⟨64, 42 :: r, rfl, .inr rfl⟩

theorem layoutHead_facts (c : UInt8) (h : isSpace c = true ∨ c = 64) :
    C05.isNameChar c = false ∧ c ≠ 46 ∧ c ≠ 58 ∧ c ≠ 40 ∧ c ≠ 123 ∧ c ≠ 91 ∧ c ≠ 33 ∧ c ≠ 101 ∧ c ≠ 116 ∧
      c ≠ 42 := by
  have h' : c = 32 ∨ c = 9 ∨ c = 10 ∨ c = 13 ∨ c = 64 := by
    rcases h with h | h
    · simp only [isSpace, Bool.or_eq_true, decide_eq_true_eq] at h
      rcases h with ((h | h) | h) | h <;> simp [h]
    · simp [h]
  rcases h' with rfl | rfl | rfl | rfl | rfl <;> decide

/-- a byte that is neither white space nor `@` stops layout -/
theorem stopsLayout_cons (c : UInt8) (x : Bytes) (hc : isSpace c = false) (h64 : c ≠ 64) :
    StopsLayout (c :: x) := by
  constructor
  · intro b r e
    obtain ⟨rfl, _⟩ := List.cons.inj e
    exact hc
  · rintro ⟨r, e⟩
    exact h64 (List.cons.inj e).1

/-- a non-empty fragment that does not start layout, followed by layout, does not start layout -/
theorem stopsLayout_append (a t : Bytes) (ha : StopsLayout a) (hne : a ≠ []) (ht : StartsLayout t) :
    StopsLayout (a ++ t) := by
  obtain ⟨c, x, rfl, hc⟩ := startsLayout_head ht
  cases a with
  | nil => exact absurd rfl hne
  | cons b a =>
    constructor
    · intro b' r e
      obtain ⟨rfl, _⟩ := List.cons.inj (show b :: (a ++ c :: x) = b' :: r from e)
      exact ha.1 b a rfl
    · rintro ⟨r, e⟩
      obtain ⟨rfl, e2⟩ := List.cons.inj (show b :: (a ++ c :: x) = 64 :: 42 :: r from e)
      cases a with
      | nil =>
        obtain ⟨rfl, _⟩ := List.cons.inj (show c :: x = 42 :: r from e2)
        exact (layoutHead_facts 42 hc).2.2.2.2.2.2.2.2.2 rfl
      | cons d a =>
        obtain ⟨rfl, _⟩ := List.cons.inj (show d :: (a ++ c :: x) = 42 :: r from e2)
        exact ha.2 ⟨a, rfl⟩

/-! ## `@if` -/

/-- **`@if cond {body}` without `else`**, with the weakest hypothesis on the condition that the proof
uses: the condition is parsed in full when followed by a non-empty admissible layout and `{`.
(`name_cond_ok` below provides exactly this; see there why it cannot provide the stronger `hc` of
`if_layout_irrelevant`.) -/
theorem if_layout_irrelevant_brace (n : Nat) (l₁ l₂ : List Item) (h₁ : ∀ i ∈ l₁, i.ok = true) (h₂ : ∀ i ∈ l₂, i.ok = true)
    (hne : l₂ ≠ []) (cond condv body rest : Bytes) (nodes : List TExpr)
    (hcs : StopsLayout cond)
    (hc : ∀ l r, (∀ i ∈ l, i.ok = true) → l ≠ [] →
      condExpression n (cond ++ (printLayout l ++ 123 :: r)) = .ok (printLayout l ++ 123 :: r) condv)
    (hb : templateBlock n ([123] ++ body ++ [125] ++ rest) = .ok rest nodes)
    (hno : opt (preceded (delimited spacelike (tag (str "else")) spacelike)
              (alt [preceded (tag (str "if")) (pmap (if2 n) (fun e => [e])), templateBlock n])) rest = .ok rest none) :
    templateExpression (n + 2)
      ([64, 105, 102, 32] ++ printLayout l₁ ++ cond ++ printLayout l₂ ++ [123] ++ body ++ [125] ++ rest)
      = .ok rest (.ifBlock condv nodes none) := by
  have hcne : cond ≠ [] := by
    rintro rfl
    exact Consumes_ne (consumes_condExpression n) (hc l₂ [] h₂ hne)
  have e : [64, 105, 102, 32] ++ printLayout l₁ ++ cond ++ printLayout l₂ ++ [123] ++ body ++ [125] ++ rest =
      64 :: 105 :: 102 :: 32 :: (printLayout l₁ ++ (cond ++ (printLayout l₂ ++ 123 :: (body ++ [125] ++ rest)))) := by
    simp
  have eb : 123 :: (body ++ [125] ++ rest) = [123] ++ body ++ [125] ++ rest := by simp
  rw [e, templateExpression_if]
  refine if2_of_parts n
    (spacelike_complete l₁ h₁ _ (stopsLayout_append _ _ hcs hcne (printLayout_starts l₂ h₂ hne _)))
    (hc l₂ _ h₂ hne)
    (spacelike_complete l₂ h₂ _ (stopsLayout_cons 123 _ (by decide) (by decide))) ?_ hno
  rw [eb]; exact hb

/-- **`@if cond {body}` without `else`**: any admissible layout after the keyword's space and any
non-empty admissible layout between the condition and the brace give the same node -/
theorem if_layout_irrelevant (n : Nat) (l₁ l₂ : List Item) (h₁ : ∀ i ∈ l₁, i.ok = true) (h₂ : ∀ i ∈ l₂, i.ok = true)
    (hne : l₂ ≠ []) (cond condv body rest : Bytes) (nodes : List TExpr)
    (hcs : StopsLayout cond)
    (hc : ∀ tail, StartsLayout tail → condExpression n (cond ++ tail) = .ok tail condv)
    (hb : templateBlock n ([123] ++ body ++ [125] ++ rest) = .ok rest nodes)
    (hno : opt (preceded (delimited spacelike (tag (str "else")) spacelike)
              (alt [preceded (tag (str "if")) (pmap (if2 n) (fun e => [e])), templateBlock n])) rest = .ok rest none) :
    templateExpression (n + 2)
      ([64, 105, 102, 32] ++ printLayout l₁ ++ cond ++ printLayout l₂ ++ [123] ++ body ++ [125] ++ rest)
      = .ok rest (.ifBlock condv nodes none) :=
  if_layout_irrelevant_brace n l₁ l₂ h₁ h₂ hne cond condv body rest nodes hcs
    (fun l _ hl hl0 => hc _ (printLayout_starts l hl hl0 _)) hb hno

/-- **`@if cond {body} else {body2}`**, with the weak hypothesis on the condition (see
`if_layout_irrelevant_brace`) -/
theorem if_else_layout_irrelevant_brace (n : Nat) (l₁ l₂ l₃ l₄ : List Item)
    (h₁ : ∀ i ∈ l₁, i.ok = true) (h₂ : ∀ i ∈ l₂, i.ok = true) (h₃ : ∀ i ∈ l₃, i.ok = true) (h₄ : ∀ i ∈ l₄, i.ok = true)
    (hne : l₂ ≠ []) (cond condv body body2 rest : Bytes) (nodes nodes2 : List TExpr)
    (hcs : StopsLayout cond)
    (hc : ∀ l r, (∀ i ∈ l, i.ok = true) → l ≠ [] →
      condExpression n (cond ++ (printLayout l ++ 123 :: r)) = .ok (printLayout l ++ 123 :: r) condv)
    (hb : ∀ r, templateBlock n ([123] ++ body ++ [125] ++ r) = .ok r nodes)
    (hb2 : templateBlock n ([123] ++ body2 ++ [125] ++ rest) = .ok rest nodes2) :
    templateExpression (n + 2)
      ([64, 105, 102, 32] ++ printLayout l₁ ++ cond ++ printLayout l₂ ++ [123] ++ body ++ [125] ++
        printLayout l₃ ++ [101, 108, 115, 101] ++ printLayout l₄ ++ [123] ++ body2 ++ [125] ++ rest)
      = .ok rest (.ifBlock condv nodes (some nodes2)) := by
  have hcne : cond ≠ [] := by
    rintro rfl
    exact Consumes_ne (consumes_condExpression n) (hc l₂ [] h₂ hne)
  have e : [64, 105, 102, 32] ++ printLayout l₁ ++ cond ++ printLayout l₂ ++ [123] ++ body ++ [125] ++
        printLayout l₃ ++ [101, 108, 115, 101] ++ printLayout l₄ ++ [123] ++ body2 ++ [125] ++ rest =
      64 :: 105 :: 102 :: 32 :: (printLayout l₁ ++ (cond ++ (printLayout l₂ ++ 123 :: (body ++ [125] ++
        (printLayout l₃ ++ ([101, 108, 115, 101] ++ (printLayout l₄ ++ 123 :: (body2 ++ [125] ++ rest)))))))) := by
    simp
  have eb : ∀ r, 123 :: (body ++ [125] ++ r) = [123] ++ body ++ [125] ++ r := by intro r; simp
  have eb2 : 123 :: (body2 ++ [125] ++ rest) = [123] ++ body2 ++ [125] ++ rest := by simp
  rw [e, templateExpression_if]
  refine if2_of_parts n
    (spacelike_complete l₁ h₁ _ (stopsLayout_append _ _ hcs hcne (printLayout_starts l₂ h₂ hne _)))
    (hc l₂ _ h₂ hne)
    (spacelike_complete l₂ h₂ _ (stopsLayout_cons 123 _ (by decide) (by decide)))
    (by rw [eb]; exact hb _) ?_
  refine else_of_parts n
    (spacelike_complete l₃ h₃ _ (stopsLayout_cons 101 _ (by decide) (by decide)))
    (spacelike_complete l₄ h₄ _ (stopsLayout_cons 123 _ (by decide) (by decide))) ?_
  rw [eb2]; exact hb2

/-- **`@if cond {body} else {body2}`**: layout around `else` is irrelevant too -/
theorem if_else_layout_irrelevant (n : Nat) (l₁ l₂ l₃ l₄ : List Item)
    (h₁ : ∀ i ∈ l₁, i.ok = true) (h₂ : ∀ i ∈ l₂, i.ok = true) (h₃ : ∀ i ∈ l₃, i.ok = true) (h₄ : ∀ i ∈ l₄, i.ok = true)
    (hne : l₂ ≠ []) (cond condv body body2 rest : Bytes) (nodes nodes2 : List TExpr)
    (hcs : StopsLayout cond)
    (hc : ∀ tail, StartsLayout tail → condExpression n (cond ++ tail) = .ok tail condv)
    (hb : ∀ r, templateBlock n ([123] ++ body ++ [125] ++ r) = .ok r nodes)
    (hb2 : templateBlock n ([123] ++ body2 ++ [125] ++ rest) = .ok rest nodes2) :
    templateExpression (n + 2)
      ([64, 105, 102, 32] ++ printLayout l₁ ++ cond ++ printLayout l₂ ++ [123] ++ body ++ [125] ++
        printLayout l₃ ++ [101, 108, 115, 101] ++ printLayout l₄ ++ [123] ++ body2 ++ [125] ++ rest)
      = .ok rest (.ifBlock condv nodes (some nodes2)) :=
  if_else_layout_irrelevant_brace n l₁ l₂ l₃ l₄ h₁ h₂ h₃ h₄ hne cond condv body body2 rest nodes nodes2 hcs
    (fun l _ hl hl0 => hc _ (printLayout_starts l hl hl0 _)) hb hb2

/-! ## `@for` -/

/-- **`@for pat in iter {body}`**: layout after the keyword, around `in` and before the brace.
(The hypotheses speak about fuel `n` while `templateExpression (n + 2)` runs the loop arm at fuel
`n + 1`: the node is built at `templateExpression (n + 1)` and carried up by fuel monotonicity.) -/
theorem for_layout_irrelevant (n : Nat) (l₁ l₂ l₃ l₄ : List Item)
    (h₁ : ∀ i ∈ l₁, i.ok = true) (h₂ : ∀ i ∈ l₂, i.ok = true) (h₃ : ∀ i ∈ l₃, i.ok = true) (h₄ : ∀ i ∈ l₄, i.ok = true)
    (hne₂ : l₂ ≠ []) (hne₄ : l₄ ≠ [])
    (pat patv iter iterv body rest : Bytes) (nodes : List TExpr)
    (hps : StopsLayout pat) (his : StopsLayout iter)
    (hp : ∀ tail, StartsLayout tail →
      context "Expected loop variable name or destructuring tuple"
        (alt [mapRes (recognize (preceded rustName (opt (exprInBraces n)))) toStr,
              pmap (seq (opt (char 38)) (delimited (char 40) (commaExpressions n) (char 41)))
                (fun (pre, args) => (match pre with | some _ => str "&" | none => []) ++ str "(" ++ args ++ str ")")])
        (pat ++ tail) = .ok tail patv)
    (hi : ∀ tail, StartsLayout tail → loopExpression n (iter ++ tail) = .ok tail iterv)
    (hb : templateBlock n ([123] ++ body ++ [125] ++ rest) = .ok rest nodes) :
    templateExpression (n + 2)
      ([64, 102, 111, 114, 32] ++ printLayout l₁ ++ pat ++ printLayout l₂ ++ [105, 110] ++ printLayout l₃ ++
        iter ++ printLayout l₄ ++ [123] ++ body ++ [125] ++ rest)
      = .ok rest (.forLoop patv iterv nodes) := by
  have hsp : StartsLayout [32] := .inl ⟨32, [], rfl, by decide⟩
  have hpne : pat ≠ [] := by
    rintro rfl
    exact Consumes_ne (consumes_forPattern n) (hp [32] hsp)
  have hine : iter ≠ [] := by
    rintro rfl
    exact Consumes_ne (consumes_loopExpression n) (hi [32] hsp)
  have e : [64, 102, 111, 114, 32] ++ printLayout l₁ ++ pat ++ printLayout l₂ ++ [105, 110] ++ printLayout l₃ ++
        iter ++ printLayout l₄ ++ [123] ++ body ++ [125] ++ rest =
      64 :: 102 :: 111 :: 114 :: 32 :: (printLayout l₁ ++ (pat ++ (printLayout l₂ ++ ([105, 110] ++
        (printLayout l₃ ++ (iter ++ (printLayout l₄ ++ 123 :: (body ++ [125] ++ rest)))))))) := by
    simp
  have eb : 123 :: (body ++ [125] ++ rest) = [123] ++ body ++ [125] ++ rest := by simp
  rw [e]
  apply (mono_templateExpression (n + 1)).ok
  refine for_of_parts n
    (spacelike_complete l₁ h₁ _ (stopsLayout_append _ _ hps hpne (printLayout_starts l₂ h₂ hne₂ _)))
    (hp _ (printLayout_starts l₂ h₂ hne₂ _))
    (spacelike_complete l₂ h₂ _ (stopsLayout_cons 105 _ (by decide) (by decide)))
    (spacelike_complete l₃ h₃ _ (stopsLayout_append _ _ his hine (printLayout_starts l₄ h₄ hne₄ _)))
    (hi _ (printLayout_starts l₄ h₄ hne₄ _))
    (spacelike_complete l₄ h₄ _ (stopsLayout_cons 123 _ (by decide) (by decide))) ?_
  rw [eb]; exact hb

/-! ## instances: a plain name as condition -/

/-- a plain name (not starting with `let`) followed by a tail that starts layout and on which, after
the layout, no relational operator follows (`spacelike tail` stops at a byte `c` that starts none of
`!= && <= < == >= > ||`) is taken in full by `condExpression`, and nothing more -/
theorem name_cond_gen (n : Nat) (hn : 3 ≤ n) (b : UInt8) (cs : Bytes) (hb : Ructe.C05.isNameStart b = true)
    (hc : cs.all Ructe.C05.isNameChar = true) (hlet : (b :: cs).take 3 ≠ [108, 101, 116])
    (tail : Bytes) (hst : StartsLayout tail) (c : UInt8) (x : Bytes)
    (hsp : spacelike tail = .ok (c :: x) ())
    (hcop : c ≠ 33 ∧ c ≠ 38 ∧ c ≠ 60 ∧ c ≠ 61 ∧ c ≠ 62 ∧ c ≠ 124) :
    condExpression n (b :: cs ++ tail) = .ok tail (b :: cs) := by
  obtain ⟨erel, hrel⟩ := relOperator_err c x hsp hcop
  obtain ⟨t0, tx, rfl, ht0⟩ := startsLayout_head hst
  obtain ⟨hnc, h46, h58, h40, h123, h91, h33, h101, h116, _⟩ := layoutHead_facts t0 ht0
  obtain ⟨k, rfl⟩ : ∃ k, n = k + 3 := ⟨n - 3, by omega⟩
  have hb' := C05.nameStart_facts b hb
  have hb33 : b ≠ 33 := by
    have h := hb'.1
    rintro rfl; revert h; decide
  -- the tail cannot continue the name, and stops the expression chain
  have hr : ∀ c r, t0 :: tx = c :: r → C05.isNameChar c = false := by
    intro c r e
    obtain ⟨rfl, _⟩ := List.cons.inj e
    exact hnc
  have hs : C05.Stops (t0 :: tx) := by
    rw [C05.stops_iff]
    intro m hm
    obtain ⟨m, rfl⟩ : ∃ m', m = m' + 1 := ⟨m - 1, by omega⟩
    refine ⟨_, chainStep_stop m _ ?_⟩
    intro b' x' e
    obtain ⟨rfl, _⟩ := List.cons.inj e
    exact ⟨h46, h58, h40, h123, h91, h33⟩
  -- no `let`
  have hlet' : opt (tagS "let") (b :: cs ++ t0 :: tx) = .ok (b :: cs ++ t0 :: tx) none := by
    apply opt_err (e := [])
    rw [tagS, str_let]
    unfold tag
    cases hp : isPrefix [108, 101, 116] (b :: cs ++ t0 :: tx) with
    | none => rfl
    | some r =>
      exfalso
      have e := isPrefix_some hp
      match cs, hlet, e with
      | [], _, e =>
        simp only [List.nil_append, List.cons_append, List.cons.injEq] at e
        exact h101 e.2.1
      | [c1], _, e =>
        simp only [List.nil_append, List.cons_append, List.cons.injEq] at e
        exact h116 e.2.2.1
      | c1 :: c2 :: cs', hlet, e =>
        simp only [List.nil_append, List.cons_append, List.cons.injEq] at e
        apply hlet
        simp [e.1, e.2.1, e.2.2.1]
  have hname := C05.rustName_complete b cs (t0 :: tx) hb hc hr
  have hv : validUtf8 (b :: cs) = true := rustName_valid hname
  have hexpr := C05.expression_name_complete b cs (t0 :: tx) hb hc hr hs (k + 2) (by omega)
  rw [condExpression_eq]
  simp only [pbind, hlet']
  apply context_ok
  rw [logicExpression]
  apply mapRes_toStr_of _ hv
  rw [show b :: cs ++ t0 :: tx = (b :: cs) ++ t0 :: tx from rfl]
  apply recognize_ok_of (v := (none, b :: cs, none))
  exact seq_of
    (opt_err (terminated_err_left (char_ne 33 _ (fun x e => hb33 (List.cons.inj e).1))))
    (seq_of hexpr (opt_err (seq_err_left hrel)))

/- ORIGINAL STATEMENT (FALSE: a tail that starts layout may continue with a relational operator,
which `condExpression` → `logicExpression` → `opt (seq relOperator …)` then takes, because the leading
`spacelike` of `relOperator` skips the layout.  Counterexample `n = 3`, name `x`, tail `" == y {"`:
`condExpression 3 "x == y {" = .ok " {" "x == y"`, not `.ok " == y {" "x"`; machine-checked below as
`name_cond_ok_original_false`.)

theorem name_cond_ok (n : Nat) (hn : 3 ≤ n) (b : UInt8) (cs : Bytes) (hb : Ructe.C05.isNameStart b = true) (hc : cs.all Ructe.C05.isNameChar = true)
    (hlet : (b :: cs).take 3 ≠ [108, 101, 116]) :
    ∀ tail, StartsLayout tail → condExpression n (b :: cs ++ tail) = .ok tail (b :: cs)
-/
/-- instances: a plain name as condition satisfies the hypothesis `hc` of the `@if` lemmas
`if_layout_irrelevant_brace` / `if_else_layout_irrelevant_brace`.  Corrected: the tails are restricted
to the ones that occur in the `@if` lemmas, a non-empty admissible layout followed by `{`. -/
theorem name_cond_ok (n : Nat) (hn : 3 ≤ n) (b : UInt8) (cs : Bytes) (hb : Ructe.C05.isNameStart b = true) (hc : cs.all Ructe.C05.isNameChar = true)
    (hlet : (b :: cs).take 3 ≠ [108, 101, 116]) :
    ∀ l r, (∀ i ∈ l, i.ok = true) → l ≠ [] →
      condExpression n (b :: cs ++ (printLayout l ++ 123 :: r)) = .ok (printLayout l ++ 123 :: r) (b :: cs) := by
  intro l r hl hne
  exact name_cond_gen n hn b cs hb hc hlet _ (printLayout_starts l hl hne _) 123 r
    (spacelike_complete l hl _ (stopsLayout_cons 123 _ (by decide) (by decide))) (by decide)

/-- the original `name_cond_ok` fails for the name `x` and the tail `" == y {"` -/
theorem name_cond_ok_original_false :
    ¬ (∀ tail, StartsLayout tail → condExpression 3 (120 :: [] ++ tail) = .ok tail [120]) := by
  intro h
  have h1 := h [32, 61, 61, 32, 121, 32, 123] (.inl ⟨32, _, rfl, by decide⟩)
  have h2 : (match condExpression 3 (120 :: [] ++ [32, 61, 61, 32, 121, 32, 123]) with
      | .ok r _ => r | _ => []) = [32, 61, 61, 32, 121, 32, 123] := by rw [h1]
  revert h2
  decide +kernel

/-- a name starts no layout -/
theorem name_stopsLayout (b : UInt8) (cs : Bytes) (hb : Ructe.C05.isNameStart b = true) : StopsLayout (b :: cs) := by
  have h := (C05.nameStart_facts b hb).1
  refine stopsLayout_cons b cs ?_ ?_
  · cases hsp : isSpace b with
    | false => rfl
    | true =>
      exfalso
      have h' : b = 32 ∨ b = 9 ∨ b = 10 ∨ b = 13 := by
        simp only [isSpace, Bool.or_eq_true, decide_eq_true_eq] at hsp
        rcases hsp with ((h | h) | h) | h <;> simp [h]
      rcases h' with rfl | rfl | rfl | rfl <;> revert h <;> decide
  · rintro rfl; revert h; decide

/-- the lemmas compose: **`@if name {body}`** with any admissible layout at the two slots -/
theorem if_name_layout_irrelevant (n : Nat) (hn : 3 ≤ n) (l₁ l₂ : List Item) (h₁ : ∀ i ∈ l₁, i.ok = true)
    (h₂ : ∀ i ∈ l₂, i.ok = true) (hne : l₂ ≠ []) (b : UInt8) (cs body rest : Bytes) (nodes : List TExpr)
    (hb : Ructe.C05.isNameStart b = true) (hc : cs.all Ructe.C05.isNameChar = true)
    (hlet : (b :: cs).take 3 ≠ [108, 101, 116])
    (hbody : templateBlock n ([123] ++ body ++ [125] ++ rest) = .ok rest nodes)
    (hno : opt (preceded (delimited spacelike (tag (str "else")) spacelike)
              (alt [preceded (tag (str "if")) (pmap (if2 n) (fun e => [e])), templateBlock n])) rest = .ok rest none) :
    templateExpression (n + 2)
      ([64, 105, 102, 32] ++ printLayout l₁ ++ (b :: cs) ++ printLayout l₂ ++ [123] ++ body ++ [125] ++ rest)
      = .ok rest (.ifBlock (b :: cs) nodes none) :=
  if_layout_irrelevant_brace n l₁ l₂ h₁ h₂ hne (b :: cs) (b :: cs) body rest nodes (name_stopsLayout b cs hb)
    (name_cond_ok n hn b cs hb hc hlet) hbody hno

end Ructe.C15
