import RucteModel

/-! # C13 — placeholder: theorems are added as they are proved. -/
namespace Ructe.C13
theorem placeholder : True := trivial
end Ructe.C13
