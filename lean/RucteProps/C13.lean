import RucteModel.Emit
import RucteProofs.Sig

/-!
# C13 — declarations reach the generated signature unchanged

`fnHeader t name` = everything `write_rust` prints before the body; `printParam` = the printed
form of one declared parameter (after the repair: only a parameter whose text after the colon is
exactly `Content` becomes a block parameter); `printParamPinned` = the defective substring
replacement of the pinned tree, kept with its machine-checked counterexamples.
-/
namespace Ructe.C13
open Nom

/-- a parameter `head ++ "Content"` whose head ends (white space aside) in the colon is a block parameter -/
theorem printParam_content (head : Bytes) (h : lastNonWs head = some 58) :
    printParam (head ++ contentType) = head ++ contentImpl := by
  rw [printParam_append_content, if_pos h]

/-- every other parameter is printed verbatim -/
theorem printParam_other (a : Bytes) (h : ∀ head, a = head ++ contentType → lastNonWs head ≠ some 58) :
    printParam a = a := by
  unfold printParam
  split
  · next head hs =>
    rw [if_neg (h head (eq_append_of_stripSuffix hs))]
  · rfl

/-- in particular: any declared type that does not *end* in `Content` -/
theorem printParam_no_suffix (a : Bytes) (h : stripSuffix contentType a = none) : printParam a = a := by
  unfold printParam
  rw [h]

/-- `name: Content` with any white space around the colon is converted, keeping name and layout -/
theorem content_exact (name ws₁ ws₂ : Bytes) (h₂ : ws₂.all isWs = true) :
    printParam (name ++ ws₁ ++ [58] ++ ws₂ ++ contentType) = name ++ ws₁ ++ [58] ++ ws₂ ++ contentImpl := by
  rw [printParam_append_content, if_pos (lastNonWs_concat_ws _ 58 isWs_colon h₂)]

/-- a type that merely ends in the word (`MyContent`, `&Content`, `Vec<Content>` does not even end in it,
`dyn Content`, `&'a Content`): the byte before the word, white space aside, is not the colon ⇒ verbatim -/
theorem content_suffix_only (pre : Bytes) (c : UInt8) (ws : Bytes) (hc : c ≠ 58) (hcw : isWs c = false)
    (hw : ws.all isWs = true) :
    printParam (pre ++ [c] ++ ws ++ contentType) = pre ++ [c] ++ ws ++ contentType := by
  rw [printParam_append_content, lastNonWs_concat_ws _ c hcw hw, if_neg]
  intro h
  exact hc (Option.some.inj h)

/-- the signature: fixed prelude, the `use` lines verbatim and in order, the function name, the
lifetime list verbatim, the sink first, then exactly the declared parameters in declared order -/
theorem signature_shape (t : Template) (name : Bytes) :
    fnHeader t name =
      str "use std::io::{self, Write};\n#[allow(clippy::useless_attribute, unused)]\nuse super::{Html,ToHtml};\n" ++
      (t.preamble.map (fun l => l ++ str ";\n")).flatten ++
      str "\n#[allow(clippy::used_underscore_binding)]\npub fn " ++ name ++ str "<" ++ t.typeArgs ++
      (if t.typeArgs = [] then [] else str ", ") ++ str "W>(\n  #[allow(unused_mut)] mut _ructe_out_: W,\n" ++
      (t.args.map (fun a => str "  " ++ printParam a ++ str ",\n")).flatten ++
      str ") -> io::Result<()>\nwhere W: Write {\n" := by
  simp only [fnHeader, List.flatMap_def]

/-- the generated code is the signature followed by the body and the closing `Ok(())` -/
theorem writeRust_starts_with_header (ue : Nat → Bool) (t : Template) (name : Bytes) :
    ∃ rest, writeRust ue t name = fnHeader t name ++ rest := by
  exact ⟨codeOfList ue t.body ++ str "Ok(())\n}\n", by simp only [writeRust, List.append_assoc]⟩

/-- the pinned code mangled `ContentType` and left `b:Content` unconverted (finding #5, machine-checked) -/
theorem pinned_counterexamples :
    printParamPinned [97, 58, 32, 67, 111, 110, 116, 101, 110, 116, 84, 121, 112, 101] ≠
      [97, 58, 32, 67, 111, 110, 116, 101, 110, 116, 84, 121, 112, 101] ∧
    printParamPinned [98, 58, 67, 111, 110, 116, 101, 110, 116] = [98, 58, 67, 111, 110, 116, 101, 110, 116] ∧
    printParam [97, 58, 32, 67, 111, 110, 116, 101, 110, 116, 84, 121, 112, 101] =
      [97, 58, 32, 67, 111, 110, 116, 101, 110, 116, 84, 121, 112, 101] ∧
    printParam [98, 58, 67, 111, 110, 116, 101, 110, 116] = [98, 58] ++ contentImpl := by
  decide +kernel

end Ructe.C13
