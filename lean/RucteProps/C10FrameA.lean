import RucteProps.C10Failed
import RucteModel.Abort

/-!
# C10 — the frame theorem for the run as the code does it

`C10Failed.step_frame` says that what a call writes never depends on what was printed or listed before, for the
calls of `Gen.lean`.  Here the same is proved for `Build.stepA` (walks that may be cut short), and the isolation
theorem is restated for `buildLogA`: a call on a directory that is not there changes nothing of what the run
writes, also when other calls of the script are cut short by an entry that cannot be opened.
-/
namespace Ructe.C10FrameA
open Nom Ructe.C10Failed

theorem handleFileA_frame (ue : Nat → Bool) (fname path outdir : Bytes) (content : Option Bytes) (l : List Bytes) :
    ∀ (o o' : Log) (f : Bytes), SameW o o' →
      (handleFileA ue o f fname path outdir content l).1 = (handleFileA ue o' f fname path outdir content l).1 ∧
      SameW (handleFileA ue o f fname path outdir content l).2.1 (handleFileA ue o' f fname path outdir content l).2.1 ∧
      (handleFileA ue o f fname path outdir content l).2.2 = (handleFileA ue o' f fname path outdir content l).2.2 := by
  induction l with
  | nil => intro o o' f h; exact ⟨rfl, h, rfl⟩
  | cons s rest ih =>
    intro o o' f h
    rw [handleFileA, handleFileA]
    split
    · cases content with
      | none => exact ⟨rfl, by simpa [SameW, Log.print, Log.read] using h, rfl⟩
      | some c =>
        simp only
        have hp : SameW (o.print (str "cargo:rerun-if-changed=" ++ path)) (o'.print (str "cargo:rerun-if-changed=" ++ path)) := by
          simpa [SameW, Log.print] using h
        obtain ⟨h1, h2⟩ := handleTemplate_frame ue _ _ (fname.take (fname.length - s.length) ++ [95] ++ s.drop suffixSkipLen) path outdir c hp
        rw [h1]
        exact ih _ _ _ h2
    · exact ih o o' f h

/-- the result of a walk, up to what was printed and listed -/
def SameR (a b : Bytes × Log × Bool) : Prop := a.1 = b.1 ∧ SameW a.2.1 b.2.1 ∧ a.2.2 = b.2.2

theorem walkA_frame_both (ue : Nat → Bool) :
    (∀ (o : Log) (f indir outdir : Bytes) (es : List EntryA), ∀ o', SameW o o' →
      SameR (handleEntriesA ue o f indir outdir es) (handleEntriesA ue o' f indir outdir es)) ∧
    (∀ (o : Log) (f indir outdir : Bytes) (es : List EntryA), ∀ o', SameW o o' →
      SameR (handleDirA ue o f indir outdir es) (handleDirA ue o' f indir outdir es)) := by
  apply handleEntriesA.mutual_induct ue
    (motive1 := fun o f indir outdir es => ∀ o', SameW o o' →
      SameR (handleEntriesA ue o f indir outdir es) (handleEntriesA ue o' f indir outdir es))
    (motive2 := fun o f indir outdir es => ∀ o', SameW o o' →
      SameR (handleDirA ue o f indir outdir es) (handleDirA ue o' f indir outdir es))
  · intro o f indir outdir o' h
    rw [handleEntriesA, handleEntriesA]; exact ⟨rfl, h, rfl⟩
  · intro o f indir outdir name sub rest hv outdir' fst o1 hd ih2 o' h
    simp only [outdir'] at hd ih2
    obtain ⟨_, e2, e3⟩ := ih2 o' h
    rw [hd] at e2 e3
    rw [handleEntriesA, handleEntriesA, if_pos hv, if_pos hv]; dsimp only; rw [hd]
    cases hd' : handleDirA ue o' modRsHeader (joinPath indir name) (joinPath outdir name) sub with
    | mk m' r' =>
      obtain ⟨o1', b'⟩ := r'
      rw [hd'] at e2 e3
      simp only at e2 e3
      subst e3
      exact ⟨rfl, e2, rfl⟩
  · intro o f indir outdir name sub rest hv outdir' modrs o1 hd o2 ih2 ih1 o' h
    simp only [o2, outdir'] at hd ih2 ih1
    obtain ⟨e1, e2, e3⟩ := ih2 o' h
    rw [hd] at e1 e2 e3
    rw [handleEntriesA, handleEntriesA, if_pos hv, if_pos hv]; dsimp only; rw [hd]
    cases hd' : handleDirA ue o' modRsHeader (joinPath indir name) (joinPath outdir name) sub with
    | mk m' r' =>
      obtain ⟨o1', b'⟩ := r'
      rw [hd'] at e1 e2 e3
      simp only at e1 e2 e3
      subst e3 e1
      apply ih1
      simpa [SameW, writeIfChanged, Log.write] using e2
  · intro o f indir outdir name sub rest hv ih o' h
    rw [handleEntriesA, handleEntriesA, if_neg hv, if_neg hv]; exact ih o' h
  · intro o f indir outdir name content rest hv fst o1 hf o' h
    obtain ⟨e1, e2, e3⟩ := handleFileA_frame ue name (joinPath indir name) outdir content suffixes o o' f h
    rw [hf] at e1 e2 e3
    rw [handleEntriesA, handleEntriesA, if_pos hv, if_pos hv, hf]
    cases hf' : handleFileA ue o' f name (joinPath indir name) outdir content suffixes with
    | mk f1' r' =>
      obtain ⟨o1', b'⟩ := r'
      rw [hf'] at e1 e2 e3
      simp only at e1 e2 e3
      subst e3 e1
      exact ⟨rfl, e2, rfl⟩
  · intro o f indir outdir name content rest hv f1 o1 hf ih o' h
    obtain ⟨e1, e2, e3⟩ := handleFileA_frame ue name (joinPath indir name) outdir content suffixes o o' f h
    rw [hf] at e1 e2 e3
    rw [handleEntriesA, handleEntriesA, if_pos hv, if_pos hv, hf]
    cases hf' : handleFileA ue o' f name (joinPath indir name) outdir content suffixes with
    | mk f1' r' =>
      obtain ⟨o1', b'⟩ := r'
      rw [hf'] at e1 e2 e3
      simp only at e1 e2 e3
      subst e3 e1
      exact ih _ e2
  · intro o f indir outdir name content rest hv ih o' h
    rw [handleEntriesA, handleEntriesA, if_neg hv, if_neg hv]; exact ih o' h
  · intro o f indir outdir es o1 ih o' h
    rw [handleDirA, handleDirA]
    apply ih
    simpa [SameW, Log.print, Log.read, o1] using h

/-- every call of the run as the code does it preserves the frame -/
theorem stepA_frame (ue ua : Nat → Bool) (feat : MimeFeature) (outdir : Bytes) {b b' : Build} (h : Frame b b') (op : OpA) :
    Frame (Build.stepA ue ua feat outdir b op) (Build.stepA ue ua feat outdir b' op) := by
  cases op with
  | plain op => exact step_frame ue ua feat outdir h op
  | compileTemplatesA indir es =>
    obtain ⟨hf, hs, hw⟩ := h
    obtain ⟨e1, e2, _⟩ := (walkA_frame_both ue).2 b.out b.f indir (joinPath outdir (str "templates")) es b'.out hw
    simp only [Build.stepA]
    rw [← hf]
    exact ⟨e1, hs, e2⟩

theorem foldlA_frame (ue ua : Nat → Bool) (feat : MimeFeature) (outdir : Bytes) (ops : List OpA) :
    ∀ {b b' : Build}, Frame b b' →
      Frame (ops.foldl (Build.stepA ue ua feat outdir) b) (ops.foldl (Build.stepA ue ua feat outdir) b') := by
  induction ops with
  | nil => intro b b' h; exact h
  | cons op rest ih => intro b b' h; exact ih (stepA_frame ue ua feat outdir h op)

/-- **A failing template directory disturbs nothing — in the run as the code does it**, whatever else the script
does, walks that are cut short included. -/
theorem failed_templates_call_disturbs_nothingA (ue ua : Nat → Bool) (feat : MimeFeature) (outdir utils : Bytes)
    (ops₁ ops₂ : List OpA) (p : Bytes) :
    (buildLogA ue ua feat outdir utils (ops₁ ++ .plain (.failed false p) :: ops₂)).writes =
    (buildLogA ue ua feat outdir utils (ops₁ ++ ops₂)).writes := by
  unfold buildLogA
  rw [List.foldl_append, List.foldl_append, List.foldl_cons]
  exact finish_frame outdir (foldlA_frame ue ua feat outdir ops₂ (failed_templates_frame ue ua feat outdir _ p))

end Ructe.C10FrameA
