import RucteProps.C12

/-!
# C12 — "a run whose inputs have not changed rewrites no file": exactly when this can fail

`C12.second_run_silent` has the hypothesis that the run never asks one path to hold two different contents
(`Consistent`).  This file removes the hypothesis by saying what happens without it: on the state a run
left, a second run of the same requests physically writes **only** paths for which the run itself contains
two requests with different contents — e.g. two `compile_templates` calls on directories that both hold a
`page.rs.html` (a configuration whose generated code does not compile anyway: the module is declared twice).
Every other path — in particular every path of an ordinary build — is left untouched, whatever OUT_DIR held
before the first run.
-/
namespace Ructe.C12
open Nom

/-- all requests for `p` in `ws` ask for the content `c` -/
def ConsAt (ws : List (Bytes × Bytes)) (p c : Bytes) : Prop := ∀ c', (p, c') ∈ ws → c' = c

/-- `p` is asked to hold two different contents -/
def Conflict (ws : List (Bytes × Bytes)) (p : Bytes) : Prop := ∃ c c', c ≠ c' ∧ (p, c) ∈ ws ∧ (p, c') ∈ ws

theorem foldl_applyWrite_only_conflicts (all : List (Bytes × Bytes)) :
    ∀ (ws : List (Bytes × Bytes)) (acc : FS × List Bytes), (∀ x ∈ ws, x ∈ all) →
      (∀ p c, (p, c) ∈ all → ConsAt all p c → acc.1.get p = some c) →
      (∀ p c, (p, c) ∈ all → ConsAt all p c → (ws.foldl applyWrite acc).1.get p = some c) ∧
      (∀ p ∈ (ws.foldl applyWrite acc).2, p ∈ acc.2 ∨ Conflict all p) := by
  intro ws
  induction ws with
  | nil => intro acc _ hinv; exact ⟨hinv, fun p hp => .inl hp⟩
  | cons x rest ih =>
    intro acc hsub hinv
    obtain ⟨q, d⟩ := x
    have hq : (q, d) ∈ all := hsub _ List.mem_cons_self
    simp only [List.foldl_cons]
    by_cases hget : acc.1.get q = some d
    · have : applyWrite acc (q, d) = acc := by simp [applyWrite, hget]
      rw [this]
      exact ih acc (fun x hx => hsub x (List.mem_cons_of_mem _ hx)) hinv
    · have hstep : applyWrite acc (q, d) = (acc.1.set q d, acc.2 ++ [q]) := by simp [applyWrite, hget]
      rw [hstep]
      have hconf : Conflict all q := by
        apply Classical.byContradiction
        intro hno
        apply hget
        apply hinv q d hq
        intro c' hc'
        apply Classical.byContradiction
        intro hne
        exact hno ⟨c', d, hne, hc', hq⟩
      obtain ⟨h1, h2⟩ := ih (acc.1.set q d, acc.2 ++ [q]) (fun x hx => hsub x (List.mem_cons_of_mem _ hx)) (by
        intro p c hpc hcons
        by_cases hp : p = q
        · subst hp
          have : d = c := hcons d hq
          subst this
          exact FS.get_set_same _ _ _
        · simp only
          rw [FS.get_set_other _ _ _ _ hp]
          exact hinv p c hpc hcons)
      refine ⟨h1, fun p hp => ?_⟩
      rcases h2 p hp with h | h
      · simp only [List.mem_append, List.mem_singleton] at h
        rcases h with h | rfl
        · exact .inl h
        · exact .inr hconf
      · exact .inr h

/-- **a repeated run writes only where the run contradicts itself** (no hypothesis on the requests, any
prior OUT_DIR state) -/
theorem second_run_writes_only_conflicts (fs : FS) (l : Log) :
    ∀ p ∈ (runLog (runLog fs l).fs l).writes, Conflict l.writes p := by
  intro p hp
  have hfirst : ∀ q c, (q, c) ∈ l.writes → ConsAt l.writes q c → (runLog fs l).fs.get q = some c := by
    intro q c hqc hcons
    rw [runLog_get]
    cases h : lastWrite l.writes q with
    | some d =>
      have := lastWrite_mem _ _ _ h
      simp only
      rw [hcons d this]
    | none => exact absurd (List.mem_map_of_mem hqc) ((lastWrite_eq_none_iff _ _).mp h)
  have := (foldl_applyWrite_only_conflicts l.writes l.writes ((runLog fs l).fs, []) (fun x hx => hx) hfirst).2 p
    (by simpa [runLog] using hp)
  rcases this with h | h
  · cases h
  · exact h

/-- `second_run_silent` is the special case without conflicts -/
theorem second_run_silent' (fs : FS) (l : Log) (hc : Consistent l.writes) :
    (runLog (runLog fs l).fs l).writes = [] := by
  apply List.eq_nil_iff_forall_not_mem.mpr
  intro p hp
  obtain ⟨c, c', hne, h1, h2⟩ := second_run_writes_only_conflicts fs l p hp
  exact hne (hc p c c' h1 h2)

/-- the exception is real: two requests for one path with different contents are rewritten by every run -/
example : (runLog (runLog [] { writes := [([1], [10]), ([1], [20])] }).fs { writes := [([1], [10]), ([1], [20])] }).writes = [[1], [1]] := by
  decide

end Ructe.C12
