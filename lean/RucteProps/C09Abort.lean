import RucteProofs.GenLemmas
import RucteModel.Abort

/-!
# C07 / C08 / C09 / C16 / C19 / C20 for the run as the code does it: template calls never touch the statics

The theorems about static files (`C09.statics_complete`, `get_finds_exactly_added`, `C16.getNames_maps`, …) speak about
the statics state after a script.  Here: that state depends on the *static* calls of the script only — erase every
`compile_templates` call (complete, failing, or cut short by an entry that cannot be opened) and the statics state,
hence `get_names()`, `STATICS` and `statics.rs`, is the same.  So those theorems are theorems about the run as the code
does it, whatever the template calls of the script do.
-/
namespace Ructe.C09Abort
open Nom

theorem addFilesFlat_statics_indep (ue ua : Nat → Bool) :
    ∀ (es : List Entry) (o o' : Log) (s : Statics) (indir : Bytes),
      (addFilesFlat ue ua o s indir es).2 = (addFilesFlat ue ua o' s indir es).2 := by
  intro es
  induction es with
  | nil => intro o o' s indir; rw [addFilesFlat, addFilesFlat]
  | cons e rest ih =>
    intro o o' s indir
    cases e with
    | file name content =>
      rw [addFilesFlat, addFilesFlat]
      cases nameAndExt (baseName (joinPath indir name)) with
      | none => exact ih _ _ _ _
      | some _ => exact ih _ _ _ _
    | dir name sub =>
      rw [addFilesFlat, addFilesFlat]
      exact ih _ _ _ _

theorem addFilesAs_statics_indep (ue ua : Nat → Bool) (dl : Bool) :
    ∀ (o : Log) (s : Statics) (indir to : Bytes) (es : List Entry) (o' : Log),
      (addFilesAs ue ua dl o s indir to es).2 = (addFilesAs ue ua dl o' s indir to es).2 := by
  intro o s indir to es
  fun_induction addFilesAs ue ua dl o s indir to es with
  | case1 o s _ _ => intro o'; rw [addFilesAs]
  | case2 o s indir to name c rest to' path o1 ih =>
    intro o'
    rw [addFilesAs]
    exact ih _
  | case3 o s indir to name sub rest to' path o1 o2 o3 s3 hrec ih1 ih2 =>
    intro o'
    rw [addFilesAs]
    have e1 := ih1 (if dl = true then ((o'.read path).print (str "cargo:rerun-if-changed=" ++ path)) else o'.read path)
    rw [hrec] at e1
    cases hrec' : addFilesAs ue ua dl (if dl = true then ((o'.read path).print (str "cargo:rerun-if-changed=" ++ path)) else o'.read path) s path to' sub with
    | mk o3' s3' =>
      rw [hrec'] at e1
      simp only at e1
      subst e1
      have hr := hrec'
      simp only [path, to', dite_eq_ite] at hr
      rw [hr]
      exact ih2 _

theorem withStatics_statics (feat : MimeFeature) (b b' : Build) (h : b.statics = b'.statics) :
    (b.withStatics feat).statics = (b'.withStatics feat).statics := by
  unfold Build.withStatics
  rw [← h]
  cases hb : b.statics with
  | none => rfl
  | some v => simp only; rw [hb, h.symm.trans hb |>.symm] <;> rfl

/-- the statics after a call depend on the statics before it and on the call, on nothing else -/
theorem step_statics_congr (ue ua : Nat → Bool) (feat : MimeFeature) (outdir : Bytes) (b b' : Build)
    (h : b.statics = b'.statics) (op : Op) :
    (Build.step ue ua feat outdir b op).statics = (Build.step ue ua feat outdir b' op).statics := by
  have hw := withStatics_statics feat b b' h
  cases op with
  | compileTemplates indir entries => simpa [Build.step] using h
  | addFile path content =>
    simp only [Build.step]
    rw [← hw]
    cases (b.withStatics feat).statics with
    | none => simpa using hw
    | some s => cases nameAndExt (baseName path) <;> simp [hw]
  | addFiles indir entries =>
    simp only [Build.step]
    rw [← hw]
    cases (b.withStatics feat).statics with
    | none => simpa using hw
    | some s => simp only; rw [addFilesFlat_statics_indep ue ua entries _ (((b'.withStatics feat).out.read indir).print (str "cargo:rerun-if-changed=" ++ indir))]
  | addFileAs path url =>
    simp only [Build.step]
    rw [← hw]
    cases (b.withStatics feat).statics with
    | none => simpa using hw
    | some s => rfl
  | addFilesAs indir to entries =>
    simp only [Build.step]
    rw [← hw]
    cases (b.withStatics feat).statics with
    | none => simpa using hw
    | some s => simp only; rw [addFilesAs_statics_indep ue ua true _ s indir to entries (((b'.withStatics feat).out.read indir).print (str "cargo:rerun-if-changed=" ++ indir))]
  | addFileData path data =>
    simp only [Build.step]
    rw [← hw]
    cases (b.withStatics feat).statics with
    | none => simpa using hw
    | some s => rfl
  | failed st path =>
    simp only [Build.step]
    cases st with
    | false => simpa using h
    | true => simpa using hw

/-- the static part of a call: template calls — complete, failing or cut short — have none -/
def staticPart : OpA → Option Op
  | .plain (.compileTemplates _ _) => none
  | .plain (.failed false _) => none
  | .plain op => some op
  | .compileTemplatesA _ _ => none

theorem foldl_statics (ue ua : Nat → Bool) (feat : MimeFeature) (outdir : Bytes) (ops : List OpA) :
    ∀ (b b' : Build), b.statics = b'.statics →
      (ops.foldl (Build.stepA ue ua feat outdir) b).statics =
      ((ops.filterMap staticPart).foldl (Build.step ue ua feat outdir) b').statics := by
  induction ops with
  | nil => intro b b' h; exact h
  | cons op rest ih =>
    intro b b' h
    rw [List.foldl_cons]
    cases op with
    | compileTemplatesA d es =>
      rw [List.filterMap_cons_none (by rfl)]
      exact ih _ _ h
    | plain op =>
      cases op with
      | compileTemplates d es =>
        rw [List.filterMap_cons_none (by rfl)]
        exact ih _ _ (by simpa [Build.stepA, Build.step] using h)
      | failed st p =>
        cases st with
        | false =>
          rw [List.filterMap_cons_none (by rfl)]
          exact ih _ _ (by simpa [Build.stepA, Build.step] using h)
        | true =>
          rw [List.filterMap_cons_some (by rfl), List.foldl_cons]
          exact ih _ _ (step_statics_congr ue ua feat outdir b b' h _)
      | addFile p c =>
        rw [List.filterMap_cons_some (by rfl), List.foldl_cons]
        exact ih _ _ (step_statics_congr ue ua feat outdir b b' h _)
      | addFiles d es =>
        rw [List.filterMap_cons_some (by rfl), List.foldl_cons]
        exact ih _ _ (step_statics_congr ue ua feat outdir b b' h _)
      | addFileAs p u =>
        rw [List.filterMap_cons_some (by rfl), List.foldl_cons]
        exact ih _ _ (step_statics_congr ue ua feat outdir b b' h _)
      | addFilesAs d to es =>
        rw [List.filterMap_cons_some (by rfl), List.foldl_cons]
        exact ih _ _ (step_statics_congr ue ua feat outdir b b' h _)
      | addFileData p data =>
        rw [List.filterMap_cons_some (by rfl), List.foldl_cons]
        exact ih _ _ (step_statics_congr ue ua feat outdir b b' h _)

/-- **The names (and with them `STATICS`, `get`, `statics.rs`) after a run as the code does it are those of its static
calls alone.** -/
theorem namesAfterA_static_part (ue ua : Nat → Bool) (feat : MimeFeature) (outdir utils : Bytes) (ops : List OpA) :
    namesAfterA ue ua feat outdir utils ops = namesAfter ue ua feat outdir utils (ops.filterMap staticPart) := by
  unfold namesAfterA namesAfter
  rw [foldl_statics ue ua feat outdir ops _ _ rfl]
  generalize (List.foldl (Build.step ue ua feat outdir) (Build.new outdir utils) (ops.filterMap staticPart)).statics = st
  cases st <;> rfl

end Ructe.C09Abort
