import RucteProofs.BTree
import RucteProps.C09
import RucteProps.C16

/-!
# C09 / C16 (continued) — whole histories of additions

A history is a list of `add_static` calls (every `add_*` entry point ends in one).
-/
namespace Ructe.C09
open Nom

/-- one `add_static` call: (path, rust_name as passed, url_name, content, suffix) -/
structure Add where
  path : Bytes
  rustName : Bytes
  urlName : Bytes
  content : Content
  suffix : Bytes

def applyAdds (ue ua : Nat → Bool) (s : Statics) (h : List Add) : Statics :=
  h.foldl (fun s a => s.addStatic ue ua a.path a.rustName a.urlName a.content a.suffix) s

/-- the `names_r` operations of a history, as key/value pairs -/
def opsR (ua : Nat → Bool) (h : List Add) : List (Bytes × Bytes) :=
  h.map (fun a => (a.urlName, mangle ua a.rustName))

/-- the `names` operations of a history, as key/value pairs -/
def opsN (ua : Nat → Bool) (h : List Add) : List (Bytes × Bytes) :=
  h.map (fun a => (mangle ua a.rustName, a.urlName))

theorem applyAdds_namesR (ue ua : Nat → Bool) (s : Statics) (h : List Add) :
    (applyAdds ue ua s h).namesR = (opsR ua h).foldl (fun m kv => btInsert kv.1 kv.2 m) s.namesR := by
  induction h generalizing s with
  | nil => rfl
  | cons a r ih =>
    simp only [applyAdds, List.foldl_cons, opsR, List.map_cons] at ih ⊢
    rw [ih]
    rfl

theorem applyAdds_names (ue ua : Nat → Bool) (s : Statics) (h : List Add) :
    (applyAdds ue ua s h).names = (opsN ua h).foldl (fun m kv => btInsert kv.1 kv.2 m) s.names := by
  induction h generalizing s with
  | nil => rfl
  | cons a r ih =>
    simp only [applyAdds, List.foldl_cons, opsN, List.map_cons] at ih ⊢
    rw [ih]
    rfl

theorem opsR_keys (ua : Nat → Bool) (h : List Add) : (opsR ua h).map (·.1) = h.map (·.urlName) := by
  simp [opsR, List.map_map, Function.comp_def]

theorem opsN_keys (ua : Nat → Bool) (h : List Add) :
    (opsN ua h).map (·.1) = h.map (fun a => mangle ua a.rustName) := by
  simp [opsN, List.map_map, Function.comp_def]

/-- the two maps stay strictly sorted through any history -/
theorem maps_sorted (ue ua : Nat → Bool) (f : MimeFeature) (h : List Add) :
    StrictSorted ((applyAdds ue ua (Statics.new f) h).names.map (·.1)) ∧
    StrictSorted ((applyAdds ue ua (Statics.new f) h).namesR.map (·.1)) := by
  rw [applyAdds_names, applyAdds_namesR]
  exact ⟨btree_insert_sorted _, btree_insert_sorted _⟩

/-- **complete**: the URL names listed by `STATICS` are exactly the URL names added -/
theorem statics_complete (ue ua : Nat → Bool) (f : MimeFeature) (h : List Add) (u : Bytes) :
    u ∈ (applyAdds ue ua (Statics.new f) h).namesR.map (·.1) ↔ u ∈ h.map (·.urlName) := by
  rw [applyAdds_namesR, ← opsR_keys ua h]
  exact btree_keys _ _

/-- **each once, ascending**: no URL name is listed twice and the order is ascending byte order -/
theorem statics_sorted_nodup (ue ua : Nat → Bool) (f : MimeFeature) (h : List Add) :
    StrictSorted ((applyAdds ue ua (Statics.new f) h).namesR.map (·.1)) ∧
    ((applyAdds ue ua (Statics.new f) h).namesR.map (·.1)).Nodup :=
  ⟨(maps_sorted ue ua f h).2, (maps_sorted ue ua f h).2.nodup⟩

/-- **order independent**: two histories that are permutations of each other with pairwise distinct
URL names give the same `STATICS` line -/
theorem statics_order_independent (ue ua : Nat → Bool) (f : MimeFeature) (h₁ h₂ : List Add)
    (hp : h₁.Perm h₂) (hd : (h₁.map (·.urlName)).Nodup) :
    staticsLine (applyAdds ue ua (Statics.new f) h₁).namesR = staticsLine (applyAdds ue ua (Statics.new f) h₂).namesR := by
  rw [applyAdds_namesR, applyAdds_namesR]
  congr 1
  apply foldl_btInsert_perm
  · exact hp.map _
  · rw [opsR_keys]; exact hd

/-- `get`: on the array `STATICS` is compiled to (the URL names in `names_r` order) the search finds
exactly the names that were added -/
theorem get_finds_exactly_added (ue ua : Nat → Bool) (f : MimeFeature) (h : List Add) (n : Bytes) :
    (binarySearch ((applyAdds ue ua (Statics.new f) h).namesR.map (·.1)).toArray n).isSome = true ↔
      n ∈ h.map (·.urlName) := by
  rw [get_exact _ (by simpa using (maps_sorted ue ua f h).2)]
  simpa using statics_complete ue ua f h n

/-- C16: `get_names()` maps the identifier of **every** file added so far (whose identifier was not
re-used by a later file) to its published URL name -/
theorem getNames_maps_all (ue ua : Nat → Bool) (f : MimeFeature) (h : List Add) (a : Add) (ha : a ∈ h)
    (hu : ∀ b ∈ h, mangle ua b.rustName = mangle ua a.rustName → b.urlName = a.urlName) :
    btGet (mangle ua a.rustName) (applyAdds ue ua (Statics.new f) h).names = some a.urlName := by
  rw [applyAdds_names]
  apply btGet_foldl_btInsert
  · rw [opsN_keys]
    exact List.mem_map.mpr ⟨a, ha, rfl⟩
  · intro p hp hk
    obtain ⟨b, hb, rfl⟩ := List.mem_map.mp hp
    exact hu b hb hk

end Ructe.C09
