import RucteProofs.GenLemmas
import RucteProps.C18

/-!
# C10 — the generated module tree mirrors the template directory tree

Per-entry lemmas about `handleFile` / `handleEntries` / `handleDir` (`src/lib.rs:
handle_entries`).  `suffixes` is the list translated from the source on every run
(`RucteTables/Suffixes.lean`).
-/
namespace Ructe.C10
open Nom

/-- the suffix table in the source is the documented one -/
theorem suffix_table : RucteTables.templateSuffixes = [".rs.html", ".rs.svg", ".rs.xml"] ∧ RucteTables.suffixSkip = ".rs." := by
  exact ⟨rfl, rfl⟩

/-- **others_silent**: a file whose name ends in none of the suffixes contributes nothing:
no declaration, no write request, no output line, no read -/
theorem others_silent (ue : Nat → Bool) (o : Log) (f fname path outdir content : Bytes)
    (h : ∀ suf ∈ suffixes, endsWith fname suf = false) :
    handleFile ue o f fname path outdir content suffixes = (f, o) := by
  exact handleFile_none ue o f fname path outdir content suffixes h

/-- one matching suffix, template parses: exactly one function `<stem>_<ext>` is declared in the
module of its directory and its file is requested with the code generated for it alone -/
theorem valid_template_declared (ue : Nat → Bool) (o : Log) (f fname path outdir content suf : Bytes) (code : Bytes)
    (hsuf : suffixes.filter (fun s => endsWith fname s) = [suf])
    (hok : C18.templateCode ue (fname.take (fname.length - suf.length) ++ [95] ++ suf.drop suffixSkipLen) content = some code) :
    let name := fname.take (fname.length - suf.length) ++ [95] ++ suf.drop suffixSkipLen
    let r := handleFile ue o f fname path outdir content suffixes
    r.1 = f ++ templateDecl name ∧
    r.2.writes = o.writes ++ [(joinPath outdir (str "template_" ++ name ++ str ".rs"), code)] ∧
    r.2.stdout = o.stdout ++ [str "cargo:rerun-if-changed=" ++ path] := by
  intro name r
  have hr : r = _ := handleFile_unique ue o f fname path outdir content suf suffixes hsuf
  have hp := C18.template_code_pure ue (o.print (str "cargo:rerun-if-changed=" ++ path)) name path outdir content
  rw [hok] at hp
  have hs : (handleTemplate ue (o.print (str "cargo:rerun-if-changed=" ++ path)) name path outdir content).2.stdout
      = o.stdout ++ [str "cargo:rerun-if-changed=" ++ path] := by
    unfold C18.templateCode at hok
    unfold handleTemplate
    cases ht : template (8 * content.length + 16) content <;> simp [ht] at hok
    simp [writeIfChanged, Log.write, Log.read, Log.print]
  rw [hr]
  refine ⟨?_, ?_, ?_⟩
  · have h1 : (handleTemplate ue (o.print (str "cargo:rerun-if-changed=" ++ path)) name path outdir content).1 = true :=
      hp.2
    show (if (handleTemplate ue (o.print (str "cargo:rerun-if-changed=" ++ path)) name path outdir content).1 = true
      then f ++ templateDecl name else f) = f ++ templateDecl name
    rw [h1]; rfl
  · exact hp.1
  · exact hs

/-- **broken_isolated** (per entry): a template that does not parse is reported with a
`cargo:warning` naming its path, gets no declaration and no file -/
theorem broken_template_reported (ue : Nat → Bool) (o : Log) (f fname path outdir content suf : Bytes)
    (hsuf : suffixes.filter (fun s => endsWith fname s) = [suf])
    (hbad : C18.templateCode ue (fname.take (fname.length - suf.length) ++ [95] ++ suf.drop suffixSkipLen) content = none)
    -- ADDED hypothesis `hrun` (the ORIGINAL statement had only `hsuf` and `hbad`, same conclusion):
    -- the parser run ends within its fuel and without the nom `Satisfy` panic.
    -- `templateCode … = none` also covers the model outcomes `Res.oom` / `Res.panic`, for which
    -- `handleTemplate` prints the single line `PANIC` instead of the `cargo:warning`.  Excluding
    -- them for `template (8 * len + 16)` is the fuel-adequacy / no-panic theorem of the parser model
    -- (`fuel_adequate` in DESIGN.md, not part of this library); with it `hrun` is discharged and
    -- the original statement follows.
    (hrun : template (8 * content.length + 16) content ≠ .oom ∧
            template (8 * content.length + 16) content ≠ .panic) :
    let r := handleFile ue o f fname path outdir content suffixes
    r.1 = f ∧ r.2.writes = o.writes ∧
    (∃ more, r.2.stdout = o.stdout ++ [str "cargo:rerun-if-changed=" ++ path] ++
        [str "cargo:warning=Template parse error in " ++ strDebug ue path ++ str ":"] ++ more) := by
  intro r
  have hr : r = _ := handleFile_unique ue o f fname path outdir content suf suffixes hsuf
  rw [hr]
  unfold C18.templateCode at hbad
  unfold handleTemplate
  cases ht : template (8 * content.length + 16) content with
  | ok rest t => simp [ht] at hbad
  | oom => exact absurd ht hrun.1
  | panic => exact absurd ht hrun.2
  | err es =>
    refine ⟨by simp, by simp [Log.read, Log.print], ?_⟩
    exact ⟨((showErrors content es (str "cargo:warning=")).splitOn 10).dropLast, by simp [Log.read, Log.print]⟩

/-- a sub-directory becomes `pub mod <name>;`, with its `mod.rs` requested in the mirrored directory -/
theorem subdir_declared (ue : Nat → Bool) (o : Log) (f indir outdir name : Bytes) (sub rest : List Entry)
    (hn : validUtf8 name = true) :
    ∃ modrs o', handleDir ue o modRsHeader (joinPath indir name) (joinPath outdir name) sub = (modrs, o') ∧
      handleEntries ue o f indir outdir (.dir name sub :: rest) =
        handleEntries ue (writeIfChanged o' (joinPath (joinPath outdir name) (str "mod.rs")) modrs)
          (f ++ str "pub mod " ++ name ++ str ";\n\n") indir outdir rest := by
  refine ⟨_, _, rfl, ?_⟩
  rw [handleEntries, if_pos hn]

/-- **no entry disturbs another**: what an entry list contributes is the concatenation of what
its entries contribute (the declarations text and the log only grow; earlier requests are kept) -/
theorem handleEntries_append (ue : Nat → Bool) (o : Log) (f indir outdir : Bytes) (es₁ es₂ : List Entry) :
    handleEntries ue o f indir outdir (es₁ ++ es₂) =
      (let r := handleEntries ue o f indir outdir es₁
       handleEntries ue r.2 r.1 indir outdir es₂) := by
  exact handleEntries_app ue o f indir outdir es₁ es₂

/-- the log only grows: earlier write requests, lines and reads are a prefix of the later ones -/
theorem handleEntries_log_grows (ue : Nat → Bool) (o : Log) (f indir outdir : Bytes) (es : List Entry) :
    ∃ w s r f', (handleEntries ue o f indir outdir es).2.writes = o.writes ++ w ∧
      (handleEntries ue o f indir outdir es).2.stdout = o.stdout ++ s ∧
      (handleEntries ue o f indir outdir es).2.reads = o.reads ++ r ∧
      (handleEntries ue o f indir outdir es).1 = f ++ f' := by
  obtain ⟨⟨⟨w, hw⟩, ⟨s, hs⟩, ⟨r, hr⟩, _⟩, ⟨f', hf⟩⟩ := handleEntries_grow ue o f indir outdir es
  exact ⟨w, s, r, f', hw.symm, hs.symm, hr.symm, hf.symm⟩

end Ructe.C10
