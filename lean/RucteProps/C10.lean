import RucteModel

/-! # C10 — placeholder: theorems are added as they are proved. -/
namespace Ructe.C10
theorem placeholder : True := trivial
end Ructe.C10
