import RucteTables.Entities
import RucteTables.Suffixes
import RucteTables.Mime
