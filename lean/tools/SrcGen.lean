import RucteProofs.SrcGen
import Std.Data.HashMap

/-!
`lake env lean --run tools/SrcGen.lean <seed> <count> <size> [show=N]`

Generates `count` candidate templates (`Ructe.Gen.genTemplate`, seeds derived from `seed`), keeps those that
pass `Ructe.Src.templateOkB` (so `templateOkB_sound` applies: the model parses the print to `intended h ns`),
and prints for each accepted case one line

    <hex of printHeader h ++ printNodes ns> <hex of the UTF-8 text of dumpT (intended h ns)>

As a self-test the model parser is run on every accepted print; a line `!MODEL-MISMATCH …` is printed if the
result is not `intended h ns` (this cannot happen).  The last line (stdout, prefixed with `#`) has the counts.
With `show=N` the first `N` accepted templates are also shown (escaped) on stderr.
-/
open Nom Ructe Ructe.Src Ructe.Hdr Ructe.Gen

def hexCharD (n : UInt8) : UInt8 := if n < 10 then n + 48 else n + 87
def hex (b : Bytes) : String :=
  if b.isEmpty then "-" else
  String.fromUTF8! ⟨(b.flatMap (fun x => [hexCharD (x / 16), hexCharD (x % 16)])).toArray⟩

-- `dumpE` / `dumpL` / `dumpA` / `dumpT` of the driver (`Main.lean`), by structural recursion
mutual
def dumpE : TExpr → String
  | .comment => "C"
  | .text t => "X" ++ hex t
  | .expr e => "E" ++ hex e
  | .forLoop n e b => "F(" ++ hex n ++ "," ++ hex e ++ "," ++ "[" ++ ";".intercalate (dumpEs b) ++ "]" ++ ")"
  | .ifBlock e b none => "I(" ++ hex e ++ "," ++ "[" ++ ";".intercalate (dumpEs b) ++ "]" ++ "," ++ "-" ++ ")"
  | .ifBlock e b (some l) =>
    "I(" ++ hex e ++ "," ++ "[" ++ ";".intercalate (dumpEs b) ++ "]" ++ "," ++ "[" ++ ";".intercalate (dumpEs l) ++ "]" ++ ")"
  | .matchBlock e arms => "M(" ++ hex e ++ ",[" ++ ";".intercalate (dumpArms arms) ++ "])"
  | .call n args => "K(" ++ hex n ++ ",[" ++ ";".intercalate (dumpAs args) ++ "])"
def dumpEs : List TExpr → List String
  | [] => []
  | x :: r => dumpE x :: dumpEs r
def dumpArms : List (Bytes × List TExpr) → List String
  | [] => []
  | (p, b) :: r => ("(" ++ hex p ++ "," ++ "[" ++ ";".intercalate (dumpEs b) ++ "]" ++ ")") :: dumpArms r
def dumpA : TArg → String
  | .rust s => "R" ++ hex s
  | .body b => "B" ++ "[" ++ ";".intercalate (dumpEs b) ++ "]"
def dumpAs : List TArg → List String
  | [] => []
  | a :: r => dumpA a :: dumpAs r
end

def dumpL (l : List TExpr) : String := "[" ++ ";".intercalate (dumpEs l) ++ "]"

def dumpT (t : Template) : String :=
  "T([" ++ ";".intercalate (t.preamble.map hex) ++ "]," ++ hex t.typeArgs ++ ",[" ++
    ";".intercalate (t.args.map hex) ++ "]," ++ dumpL t.body ++ ")"

/-- printable rendering of a source text (for `show=N`) -/
def showBytes (b : Bytes) : String :=
  match String.fromUTF8? ⟨b.toArray⟩ with
  | some s => s.foldl (fun acc c =>
      if c == '\n' then acc ++ "\\n" else if c == '\r' then acc ++ "\\r" else if c == '\t' then acc ++ "\\t"
      else if c == '\\' then acc ++ "\\\\"
      else if c.toNat < 32 || c.toNat == 127 then acc ++ "\\x" ++ hex [c.toNat.toUInt8]
      else acc.push c) ""
  | none => "(not UTF-8) " ++ hex b

def argNat (args : List String) (i : Nat) (dflt : Nat) : Nat :=
  match args[i]? with
  | some s => s.toNat?.getD dflt
  | none => dflt

def main (args : List String) : IO UInt32 := do
  let seed := argNat args 0 1
  let count := argNat args 1 100
  let size := argNat args 2 30
  let nShow := match args[3]? with
    | some s => if s.startsWith "show=" then (s.drop 5).toNat?.getD 0 else 0
    | none => 0
  let out ← IO.getStdout
  let err ← IO.getStderr
  let mut accepted := 0
  let mut rejHeader := 0
  let mut rejBody := 0
  let mut rejLead := 0
  let mut mismatches := 0
  let mut bytes := 0
  let mut counts : Std.HashMap String Nat := {}
  for i in [0:count] do
    let (h, ns) := genTemplate (caseSeed seed.toUInt64 i) size
    if templateOkB h ns then
      accepted := accepted + 1
      let src := printHeader h ++ printNodes ns
      let want := C13Header.intended h ns
      bytes := bytes + src.length
      out.putStrLn (hex src ++ " " ++ hex (str (dumpT want)))
      let ok := match template (C13Header.fuelTemplate h ns) src with
        | .ok [] got => C13Header.beqT got want
        | _ => false
      if !ok then
        mismatches := mismatches + 1
        out.putStrLn ("!MODEL-MISMATCH case=" ++ toString i ++ " " ++ hex src)
      if accepted ≤ nShow then
        err.putStrLn ("# sample " ++ toString i ++ ": " ++ showBytes src)
      for t in tagsTemplate h ns do
        counts := counts.insert t (counts.getD t 0 + 1)
    else
      if !wfHeader h then rejHeader := rejHeader + 1
      else if !wfB ns [] then rejBody := rejBody + 1
      else rejLead := rejLead + 1
  let sorted := counts.toArray.qsort (fun a b => a.1 < b.1)
  let cs := ",".intercalate (sorted.toList.map fun (k, v) => k ++ ":" ++ toString v)
  out.putStrLn ("# generated=" ++ toString count ++ " accepted=" ++ toString accepted ++
    " rejected(header=" ++ toString rejHeader ++ ",body=" ++ toString rejBody ++ ",bodyStartsWithLayout=" ++ toString rejLead ++
    ") mismatches=" ++ toString mismatches ++ " bytes=" ++ toString bytes ++ " seed=" ++ toString seed ++ " size=" ++ toString size ++
    " constructors=" ++ cs)
  return (if mismatches == 0 then 0 else 1)
