import RucteModel.Nom
import RucteModel.Expr
import RucteModel.Space
import RucteModel.Tpl
import RucteModel.RustLit
import RucteModel.Emit
import RucteModel.Diag
import RucteModel.Html
