import RucteModel.Space
open Nom

/-! `src/template.rs` + `src/templateexpression.rs` parsers transcribed function for function. -/
namespace Ructe

mutual
inductive TArg where
  | rust (s : Bytes)
  | body (b : List TExpr)
inductive TExpr where
  | comment
  | text (t : Bytes)
  | expr (e : Bytes)
  | forLoop (name expr : Bytes) (body : List TExpr)
  | ifBlock (expr : Bytes) (body : List TExpr) (els : Option (List TExpr))
  | matchBlock (expr : Bytes) (arms : List (Bytes × List TExpr))
  | call (name : Bytes) (args : List TArg)
end

structure Template where
  preamble : List Bytes
  typeArgs : Bytes
  args : List Bytes
  body : List TExpr

def tagS (s : String) : Parser Bytes := tag (str s)

def join (sep : Bytes) : List Bytes → Bytes
  | [] => []
  | [a] => a
  | a :: r => a ++ sep ++ join sep r

def commaExpressions (n : Nat) : Parser Bytes :=
  pmap (sepList0 (preceded (tagS ",") (many0 (tagS " "))) (expression n)) (join (str ", "))

def relOperator : Parser Bytes :=
  mapRes (delimited spacelike
    (context "Expected relational operator"
      (alt [tagS "!=", tagS "&&", tagS "<=", tagS "<", tagS "==", tagS ">=", tagS ">", tagS "||"]))
    spacelike) toStr

def logicExpression : Nat → Nat → Parser Bytes
  | 0, _ => fun _ => .oom
  | k+1, n => mapRes (recognize
      (seq (opt (terminated (char 33) spacelike))
        (seq (expression n)
          (opt (seq relOperator (context "Expected expression" (logicExpression k n))))))) toStr

def condExpression (n : Nat) : Parser Bytes := fun inp =>
  match opt (tagS "let") inp with
  | .ok i (some _) =>
    pmap (seq
      (preceded spacelike (context "Expected LHS expression in let binding" (expression n)))
      (preceded (delimited spacelike (char 61) spacelike)
        (context "Expected RHS expression in let binding" (expression n))))
      (fun (l, r) => str "let " ++ l ++ str " = " ++ r) i
  | .ok i none => context "Expected expression" (logicExpression n n) i
  | .err e => .err e
  | .oom => .oom
  | .panic => .panic

def loopExpression (n : Nat) : Parser Bytes :=
  mapRes (recognize (terminated (expression n)
    (opt (preceded (terminated (tagS "..") (opt (char 61))) (expression n))))) toStr

def forVariable (n : Nat) : Parser Bytes :=
  delimited spacelike
    (context "Expected loop variable name or destructuring tuple"
      (alt [
        mapRes (recognize (preceded rustName (opt (exprInBraces n)))) toStr,
        pmap (seq (opt (char 38)) (delimited (char 40) (commaExpressions n) (char 41)))
          (fun (pre, args) => (match pre with | some _ => str "&" | none => []) ++ str "(" ++ args ++ str ")")]))
    spacelike

mutual
def templateExpression : Nat → Parser TExpr
  | 0 => fun _ => .oom
  | n+1 => fun inp =>
    match opt (preceded (char 64) (alt [
        tagS "*", tagS ":", tagS "@", tagS "{", tagS "}", tagS "(",
        terminated (alt [tagS "if", tagS "for", tagS "match"]) (tagS " "),
        value [] (tag [])])) inp with
    | .oom => .oom
    | .panic => .panic
    | .err e => .err e
    | .ok i (some k) =>
      if k = str ":" then
        pmap (seq rustName (delimited (char 40)
          (sepList0 (terminated (tagS ",") spacelike) (templateArgument n)) (char 41)))
          (fun (name, args) => TExpr.call name args) i
      else if k = str "@" then .ok i (.text (str "@"))
      else if k = str "{" then .ok i (.text (str "{"))
      else if k = str "}" then .ok i (.text (str "}"))
      else if k = str "*" then pmap commentTail (fun _ => TExpr.comment) i
      else if k = str "if" then if2 n i
      else if k = str "for" then
        pmap (seq (forVariable n)
          (seq (delimited (terminated (context "Expected \"in\"" (tagS "in")) spacelike)
                  (context "Expected iterable expression" (loopExpression n)) spacelike)
               (context "Error in loop block:" (templateBlock n))))
          (fun (name, expr, body) => TExpr.forLoop name expr body) i
      else if k = str "match" then
        context "Error in match expression:"
          (pmap (seq (delimited spacelike (expression n) spacelike)
            (preceded (char 123)
              (pmap (manyTill
                (context "Error in match arm starting here:"
                  (seq (delimited spacelike (expression n) spacelike)
                       (preceded (terminated (tagS "=>") spacelike) (templateBlock n))))
                (preceded spacelike (char 125))) (·.1))))
            (fun (expr, arms) => TExpr.matchBlock expr arms)) i
      else if k = str "(" then
        pmap (terminated (exprInsideParens n) (tagS ")"))
          (fun e => TExpr.expr (str "(" ++ e ++ str ")")) i
      else
        pmap (expression n) TExpr.expr i
    | .ok i none =>
      pmap (mapRes (isNot (str "@{}")) toStr) TExpr.text i

def if2 : Nat → Parser TExpr
  | 0 => fun _ => .oom
  | n+1 => context "Error in conditional expression:"
      (pmap (seq (delimited spacelike (condExpression n) spacelike)
        (seq (templateBlock n)
          (opt (preceded (delimited spacelike (tagS "else") spacelike)
            (alt [preceded (tagS "if") (pmap (if2 n) (fun e => [e])), templateBlock n])))))
        (fun (expr, body, els) => TExpr.ifBlock expr body els))

def templateBlock : Nat → Parser (List TExpr)
  | 0 => fun _ => .oom
  | n+1 => preceded (char 123)
      (pmap (manyTill (context "Error in expression starting here:" (templateExpression n)) (char 125)) (·.1))

def templateArgument : Nat → Parser TArg
  | 0 => fun _ => .oom
  | n+1 => alt [
      pmap (delimited (char 123) (many0 (templateExpression n)) (terminated (char 125) spacelike)) TArg.body,
      pmap (expression n) TArg.rust]
end

def endOfFile : Parser Unit := fun inp =>
  match inp with
  | [] => .ok [] ()
  | _ => .err [⟨inp.length, .ctx "end of file"⟩]

def lifetime : Parser Unit := delimited spacelike (value () (tagS "'")) rustName

mutual
def typeExpression : Nat → Parser Unit
  | 0 => fun _ => .oom
  | n+1 => value ()
      (seq (alt [tagS "&", tag []])
        (seq (opt lifetime)
          (seq (delimited spacelike (alt [tagS "impl", tagS "dyn", tag []]) spacelike)
            (seq (context "Expected rust type expression" (alt [
                value () rustName,
                delimited (tagS "[") (value () (typeExpression n)) (tagS "]"),
                delimited (tagS "(") (value () (commaTypeExpressions n)) (tagS ")")]))
              (opt (delimited (tagS "<") (commaTypeExpressions n) (tagS ">")))))))

def commaTypeExpressions : Nat → Parser Unit
  | 0 => fun _ => .oom
  | n+1 => value ()
      (terminated
        (sepList0 (preceded (tagS ",") multispace0) (alt [typeExpression n, lifetime]))
        (opt (preceded (tagS ",") multispace0)))
end

def formalArgument (n : Nat) : Parser Bytes :=
  mapRes (recognize (seq rustName (seq spacelike (seq (char 58) (seq spacelike (typeExpression n)))))) toStr

def template (n : Nat) : Parser Template :=
  pmap
    (seq spacelike
      (seq (many0 (delimited (tagS "@") (mapRes (isNot (str ";()")) toStr) (terminated (tagS ";") spacelike)))
        (seq (context "expected '@('...')' template declaration." (tagS "@"))
          (seq (opt (delimited (terminated (tagS "<") multispace0)
                (context "expected type argument or '>'"
                  (mapRes (recognize (sepList1 (terminated (tagS ",") multispace0)
                    (context "expected lifetime declaration" (preceded (tagS "'") rustName)))) toStr))
                (tagS ">")))
            (seq (delimited
                  (context "expected '('...')' template arguments declaration." (terminated (tagS "(") multispace0))
                  (sepList0 (terminated (tagS ",") multispace0)
                    (context "expected formal argument" (formalArgument n)))
                  (context "expected ',' or ')'." (delimited multispace0 (tagS ")") spacelike)))
              (manyTill (context "Error in expression starting here:" (templateExpression n)) endOfFile))))))
    (fun (_, preamble, _, ta, args, body) =>
      { preamble, typeArgs := ta.getD [], args, body := body.1 })

end Ructe