import RucteModel.RustLit
import RucteTables.Mime
open Nom

/-!
# `src/staticfiles.rs`: names, hashes, identifiers, the printed items, `STATICS`, lookup
-/
namespace Ructe

/-! ## MD5 (RFC 1321) and URL-safe base64 without padding -/

def md5K : Array UInt32 := #[
  0xd76aa478, 0xe8c7b756, 0x242070db, 0xc1bdceee, 0xf57c0faf, 0x4787c62a, 0xa8304613, 0xfd469501,
  0x698098d8, 0x8b44f7af, 0xffff5bb1, 0x895cd7be, 0x6b901122, 0xfd987193, 0xa679438e, 0x49b40821,
  0xf61e2562, 0xc040b340, 0x265e5a51, 0xe9b6c7aa, 0xd62f105d, 0x02441453, 0xd8a1e681, 0xe7d3fbc8,
  0x21e1cde6, 0xc33707d6, 0xf4d50d87, 0x455a14ed, 0xa9e3e905, 0xfcefa3f8, 0x676f02d9, 0x8d2a4c8a,
  0xfffa3942, 0x8771f681, 0x6d9d6122, 0xfde5380c, 0xa4beea44, 0x4bdecfa9, 0xf6bb4b60, 0xbebfbc70,
  0x289b7ec6, 0xeaa127fa, 0xd4ef3085, 0x04881d05, 0xd9d4d039, 0xe6db99e5, 0x1fa27cf8, 0xc4ac5665,
  0xf4292244, 0x432aff97, 0xab9423a7, 0xfc93a039, 0x655b59c3, 0x8f0ccc92, 0xffeff47d, 0x85845dd1,
  0x6fa87e4f, 0xfe2ce6e0, 0xa3014314, 0x4e0811a1, 0xf7537e82, 0xbd3af235, 0x2ad7d2bb, 0xeb86d391]

def md5S : Array UInt32 := #[
  7, 12, 17, 22, 7, 12, 17, 22, 7, 12, 17, 22, 7, 12, 17, 22,
  5, 9, 14, 20, 5, 9, 14, 20, 5, 9, 14, 20, 5, 9, 14, 20,
  4, 11, 16, 23, 4, 11, 16, 23, 4, 11, 16, 23, 4, 11, 16, 23,
  6, 10, 15, 21, 6, 10, 15, 21, 6, 10, 15, 21, 6, 10, 15, 21]

def rotl32 (x : UInt32) (c : UInt32) : UInt32 := (x <<< c) ||| (x >>> (32 - c))

def leWord (a b c d : UInt8) : UInt32 :=
  a.toUInt32 ||| (b.toUInt32 <<< 8) ||| (c.toUInt32 <<< 16) ||| (d.toUInt32 <<< 24)

def wordsOf : Bytes → List UInt32
  | a :: b :: c :: d :: r => leWord a b c d :: wordsOf r
  | _ => []

def wordBytes (w : UInt32) : Bytes :=
  [w.toUInt8, (w >>> 8).toUInt8, (w >>> 16).toUInt8, (w >>> 24).toUInt8]

structure Md5St where
  a : UInt32
  b : UInt32
  c : UInt32
  d : UInt32

def md5Round (m : Array UInt32) (s : Md5St) (i : Nat) : Md5St :=
  let (f, g) :=
    if i < 16 then ((s.b &&& s.c) ||| ((~~~ s.b) &&& s.d), i)
    else if i < 32 then ((s.d &&& s.b) ||| ((~~~ s.d) &&& s.c), (5 * i + 1) % 16)
    else if i < 48 then (s.b ^^^ s.c ^^^ s.d, (3 * i + 5) % 16)
    else (s.c ^^^ (s.b ||| (~~~ s.d)), (7 * i) % 16)
  let f2 := f + s.a + md5K[i]! + m[g]!
  { a := s.d, d := s.c, c := s.b, b := s.b + rotl32 f2 md5S[i]! }

def md5Block (s : Md5St) (block : Bytes) : Md5St :=
  let m := (wordsOf block).toArray
  let r := (List.range 64).foldl (md5Round m) s
  { a := s.a + r.a, b := s.b + r.b, c := s.c + r.c, d := s.d + r.d }

def md5Pad (len : Nat) : Bytes :=
  let padLen := (55 + 64 - len % 64) % 64
  let bits := len * 8
  [0x80] ++ List.replicate padLen 0 ++ (List.range 8).map (fun i => (bits / 256 ^ i % 256).toUInt8)

def md5Blocks : Nat → Md5St → Bytes → Md5St
  | 0, s, _ => s
  | n+1, s, data => if data.length < 64 then s else md5Blocks n (md5Block s (data.take 64)) (data.drop 64)

/-- `md5::compute(data)`: the 16 digest bytes -/
def md5 (data : Bytes) : Bytes :=
  let padded := data ++ md5Pad data.length
  let s := md5Blocks (padded.length / 64 + 1) ⟨0x67452301, 0xefcdab89, 0x98badcfe, 0x10325476⟩ padded
  wordBytes s.a ++ wordBytes s.b ++ wordBytes s.c ++ wordBytes s.d

/-- the URL-safe base64 alphabet -/
def b64Char (n : Nat) : UInt8 :=
  if n < 26 then (65 + n).toUInt8 else if n < 52 then (97 + (n - 26)).toUInt8
  else if n < 62 then (48 + (n - 52)).toUInt8 else if n = 62 then 45 else 95

/-- inverse of `b64Char` -/
def b64Val? (c : UInt8) : Option Nat :=
  if 65 ≤ c && c ≤ 90 then some (c.toNat - 65) else if 97 ≤ c && c ≤ 122 then some (c.toNat - 97 + 26)
  else if 48 ≤ c && c ≤ 57 then some (c.toNat - 48 + 52) else if c = 45 then some 62 else if c = 95 then some 63 else none

/-- `BASE64_URL_SAFE_NO_PAD.encode` -/
def base64Url : Bytes → Bytes
  | a :: b :: c :: r =>
    let n := a.toNat * 65536 + b.toNat * 256 + c.toNat
    [b64Char (n / 262144), b64Char (n / 4096 % 64), b64Char (n / 64 % 64), b64Char (n % 64)] ++ base64Url r
  | [a, b] =>
    let n := a.toNat * 65536 + b.toNat * 256
    [b64Char (n / 262144), b64Char (n / 4096 % 64), b64Char (n / 64 % 64)]
  | [a] =>
    let n := a.toNat * 65536
    [b64Char (n / 262144), b64Char (n / 4096 % 64)]
  | [] => []

/-- decoder for whole 4-character groups (enough for the 8-character slug) -/
def base64UrlDecode : Bytes → Option Bytes
  | w :: x :: y :: z :: r =>
    match b64Val? w, b64Val? x, b64Val? y, b64Val? z, base64UrlDecode r with
    | some a, some b, some c, some d, some rest =>
      let n := a * 262144 + b * 4096 + c * 64 + d
      some ((n / 65536).toUInt8 :: (n / 256 % 256).toUInt8 :: (n % 256).toUInt8 :: rest)
    | _, _, _, _, _ => none
  | [] => some []
  | _ => none

/-- `checksum_slug` for an arbitrary 16-byte hash function -/
def checksumSlugWith (hash : Bytes → Bytes) (data : Bytes) : Bytes := base64Url ((hash data).take 6)

def checksumSlug (data : Bytes) : Bytes := checksumSlugWith md5 data

/-! ## File names -/

/-- index of the last `.` -/
def lastDot (s : Bytes) : Option Nat :=
  let rec go : Bytes → Nat → Option Nat → Option Nat
    | [], _, acc => acc
    | c :: r, i, acc => go r (i + 1) (if c = 46 then some i else acc)
  go s 0 none

/-- `name_and_ext` on the final path component (Rust `Path::file_name` / `extension`):
split at the last dot; no extension for `..`, for names without a dot and for names whose only
dot is the leading one. -/
def nameAndExt (fname : Bytes) : Option (Bytes × Bytes) :=
  if fname = [46, 46] then none else
  match lastDot fname with
  | none => none
  | some 0 => none
  | some i => some (fname.take i, fname.drop (i + 1))

/-- final component of a `/`-separated path (no `.`/`..` normalisation beyond empty components) -/
def baseName (path : Bytes) : Bytes :=
  let rec go : Bytes → Bytes → Bytes → Bytes
    | [], cur, last => if cur = [] then last else cur.reverse
    | c :: r, cur, last => if c = 47 then go r [] (if cur = [] then last else cur.reverse) else go r (c :: cur) last
  go path [] []

/-- is this ASCII byte alphanumeric (`char::is_alphanumeric` restricted to ASCII) -/
def isAlnumAscii (b : UInt8) : Bool := (48 ≤ b && b ≤ 57) || (65 ≤ b && b ≤ 90) || (97 ≤ b && b ≤ 122)

/-- the identifier `add_static` derives: every non-alphanumeric char becomes `_`, and an `n` is
put in front of a leading ASCII digit (or of the empty string). `uniAlnum` decides for non-ASCII
scalars (a Unicode table lookup inside `core`). -/
def mangle (uniAlnum : Nat → Bool) (s : Bytes) : Bytes :=
  let m := (scalars s).flatMap fun (c, raw) =>
    if c < 0x80 then (if isAlnumAscii c.toUInt8 then raw else [95]) else (if uniAlnum c then raw else [95])
  match m with
  | [] => [110]
  | b :: _ => if 48 ≤ b && b ≤ 57 then 110 :: m else m

/-- the pinned (defective) mangling used by the Sass `static_name` lookup: only `-` and `.` (finding #8) -/
def sassManglePinned (s : Bytes) : Bytes := s.map fun b => if b = 45 || b = 46 then 95 else b

/-! ## MIME -/

inductive MimeFeature where
  | off | mime03 | httpTypes
deriving Repr, DecidableEq

def lowerB (b : UInt8) : UInt8 := if 65 ≤ b && b ≤ 90 then b + 32 else b

def asciiLower (s : Bytes) : Bytes := s.map lowerB

def lookupS (rows : List (String × String)) (dflt : String) (k : Bytes) : Bytes :=
  match rows.find? (fun r => str r.1 == k) with
  | some r => str r.2
  | none => str dflt

def mimeFromSuffix (f : MimeFeature) (suffix : Bytes) : Bytes :=
  match f with
  | .off => []
  | .mime03 => lookupS RucteTables.mime03Rows RucteTables.mime03Default
      (if RucteTables.mime03Lowercases then asciiLower suffix else suffix)
  | .httpTypes => lookupS RucteTables.httpTypesRows RucteTables.httpTypesDefault
      (if RucteTables.httpTypesLowercases then asciiLower suffix else suffix)

/-- `mime_arg`: the extracted format string with `{}` replaced -/
def mimeArg (f : MimeFeature) (suffix : Bytes) : Bytes :=
  match f with
  | .off => []
  | _ =>
    match RucteTables.mimeArgFormat.splitOn "{}" with
    | [a, b] => str a ++ mimeFromSuffix f suffix ++ str b
    | _ => str RucteTables.mimeArgFormat

/-! ## The generated module -/

/-- strictly sorted association list = `BTreeMap<String, String>` (byte-lexicographic keys) -/
def bytesLt : Bytes → Bytes → Bool
  | [], [] => false
  | [], _ :: _ => true
  | _ :: _, [] => false
  | a :: r, b :: s => if a < b then true else if b < a then false else bytesLt r s

def btInsert (k v : Bytes) : List (Bytes × Bytes) → List (Bytes × Bytes)
  | [] => [(k, v)]
  | (k', v') :: r =>
    if bytesLt k k' then (k, v) :: (k', v') :: r
    else if k = k' then (k, v) :: r
    else (k', v') :: btInsert k v r

def btGet (k : Bytes) : List (Bytes × Bytes) → Option Bytes
  | [] => none
  | (k', v) :: r => if k = k' then some v else btGet k r

structure Statics where
  feat : MimeFeature
  src : Bytes
  names : List (Bytes × Bytes)      -- identifier → URL name
  namesR : List (Bytes × Bytes)     -- URL name → identifier

def staticsHeader (f : MimeFeature) : Bytes :=
  (match f with
   | .mime03 => str "use mime::Mime;\n\n"
   | .httpTypes => str "use http_types::mime::{self, Mime};\n\n"
   | .off => []) ++
  str "/// A static file has a name (so its url can be recognized) and the
/// actual file contents.
///
/// The name includes a short (48 bits as 8 base64 characters) hash of
/// the content, to enable long-time caching of static resourses in
/// the clients.
#[allow(dead_code)]
pub struct StaticFile {
    pub content: &'static [u8],
    pub name: &'static str,
" ++
  (match f with
   | .off => []
   | _ => str "    pub mime: &'static Mime,\n") ++
  str "}
#[allow(dead_code)]
impl StaticFile {
    /// Get a single `StaticFile` by name, if it exists.
    #[must_use]
    pub fn get(name: &str) -> Option<&'static Self> {
        if let Ok(pos) = STATICS.binary_search_by_key(&name, |s| s.name) {
            Some(STATICS[pos])
        } else {None}
    }
}
"

def Statics.new (f : MimeFeature) : Statics := { feat := f, src := staticsHeader f, names := [], namesR := [] }

/-- how the content of an item is printed -/
inductive Content where
  | file (path : Bytes)        -- `include_bytes!({path:?})`
  | data (bytes : Bytes)       -- `b"…"` with `escape_default` per byte

variable (uniEsc uniAlnum : Nat → Bool)

def printContent : Content → Bytes
  | .file p => str "include_bytes!(" ++ strDebug uniEsc p ++ str ")"
  | .data d => str "b\"" ++ escapeAscii d ++ str "\""

/-- `add_static` -/
def Statics.addStatic (s : Statics) (path rustName urlName : Bytes) (content : Content) (suffix : Bytes) : Statics :=
  let rn := mangle uniAlnum rustName
  { s with
    src := s.src ++ str "\n/// From " ++ strDebug uniEsc path ++
      str "\n#[allow(non_upper_case_globals)]\npub static " ++ rn ++ str ": StaticFile = StaticFile {\n  content: " ++
      printContent uniEsc content ++ str ",\n  name: " ++ strDebug uniEsc urlName ++ str ",\n" ++ mimeArg s.feat suffix ++ str "};\n"
    names := btInsert rn urlName s.names
    namesR := btInsert urlName rn s.namesR }

/-- the text printed for `name:` by the pinned code: the URL name between bare quotes (finding #3) -/
def nameLitPinned (urlName : Bytes) : Bytes := [34] ++ urlName ++ [34]

/-- `add_file` / `add_file_data` (hashed name); `none` content bytes are read from disk by the caller -/
def Statics.addHashed (s : Statics) (path : Bytes) (bytes : Bytes) (content : Content) : Statics :=
  match nameAndExt (baseName path) with
  | some (name, ext) =>
    s.addStatic uniEsc uniAlnum path (name ++ [95] ++ ext) (name ++ [45] ++ checksumSlug bytes ++ [46] ++ ext) content ext
  | none => s

/-- `add_file_as` -/
def Statics.addAs (s : Statics) (path urlName : Bytes) : Statics :=
  let ext := match nameAndExt (baseName path) with | some (_, e) => e | none => []
  s.addStatic uniEsc uniAlnum path urlName urlName (.file path) ext

/-- the `STATICS` line written by `Drop` -/
def staticsLine (namesR : List (Bytes × Bytes)) : Bytes :=
  str "\npub static STATICS: &[&StaticFile] = &[" ++
  (match namesR with
   | [] => []
   | (_, a) :: r => str "&" ++ a ++ r.flatMap (fun p => str ", &" ++ p.2)) ++
  str "];\n"

def Statics.finish (s : Statics) : Bytes := s.src ++ staticsLine s.namesR

/-- the standard halving search on a sorted array of names: `binary_search_by_key` -/
def binarySearch (arr : Array Bytes) (key : Bytes) : Option Nat :=
  let rec go : Nat → Nat → Nat → Option Nat
    | 0, _, _ => none
    | fuel+1, lo, hi =>
      if lo < hi then
        let mid := (lo + hi) / 2
        let k := arr[mid]!
        if k = key then some mid
        else if bytesLt k key then go fuel (mid + 1) hi
        else go fuel lo mid
      else none
  go (arr.size + 1) 0 arr.size

/-- `Path::with_extension(ext)` on the final component: the stem (name up to the last dot, the
whole name if there is no dot or only a leading one) followed by `.ext` -/
def withExtension (path ext : Bytes) : Bytes :=
  let base := baseName path
  let dir := path.take (path.length - base.length)
  let stem := match nameAndExt base with
    | some (n, _) => n
    | none => base
  dir ++ stem ++ [46] ++ ext

/-- `add_sass_file(src)` after rsass produced `css` (rsass itself is opaque): the CSS is added with
`add_file_data(src.with_extension("css"), &css)` -/
def Statics.addSassResult (s : Statics) (src css : Bytes) : Statics :=
  s.addHashed uniEsc uniAlnum (withExtension src (str "css")) css (.data css)

/-- `url = stem ++ "-" ++ h ++ "." ++ ext` with an eight-byte `h` (the strip-prefix / strip-suffix chain of
`published_as`) -/
def hashedForm (stem ext url : Bytes) : Bool :=
  if stem.isPrefixOf url then
    match url.drop stem.length with
    | 45 :: r => r.length == 8 + 1 + ext.length && r.drop 8 == 46 :: ext
    | _ => false
  else false

/-- `published_as(name, url_name)`: is `url` what a file called `name` is published as — `name` itself
(`add_file_as`) or `stem-<8 characters>.ext` where `stem.ext` is the final component of `name`? -/
def publishedAs (name url : Bytes) : Bool :=
  url == name ||
  match nameAndExt (baseName name) with
  | some (stem, ext) => hashedForm stem ext url
  | none => false

/-- the lookup by identifier alone (the tree before the last repair: different file names may share an
identifier, `a.b.css` / `a_b.css`) -/
def staticNameByIdent (names : List (Bytes × Bytes)) (f : Bytes) : Option Bytes := btGet (mangle uniAlnum f) names

/-- Sass `static_name(f)`: look the mangled file name up in `get_names()` (the lookup mangles exactly as
`add_static` does) and accept the entry only if its URL name is what a file called `f` is published as -/
def staticName (names : List (Bytes × Bytes)) (f : Bytes) : Option Bytes :=
  (btGet (mangle uniAlnum f) names).filter (publishedAs f)

def staticNamePinned (names : List (Bytes × Bytes)) (f : Bytes) : Option Bytes := btGet (sassManglePinned f) names

end Ructe
