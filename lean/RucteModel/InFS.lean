import RucteModel.Gen
open Nom

/-!
# The input side of a build script: what the calls *look at*

`Gen.lean` describes a run by calls (`Op`) that already carry the part of the input tree they look
at.  Here the calls are as written in `build.rs` (`SOp`: paths only) and the input tree is what the
operating system shows at a path (`InFS`, an arbitrary function: path resolution — relative paths,
`..`, symbolic links — is the operating system's and stays a parameter).  `resolve` is what
`read_dir` / `File::open` deliver to the call; when the directory cannot be listed or the file cannot
be opened the call fails (`Op.failed`) after printing its line.
-/
namespace Ructe

/-- a directory entry as the operating system shows it: a regular file, a directory, or a symbolic link
(with the bytes of the file it resolves to; empty when it resolves to no file) -/
inductive IEntry where
  | file (name : Bytes) (content : Bytes)
  | dir (name : Bytes) (entries : List IEntry)
  | link (name : Bytes) (content : Bytes)
  /-- an entry that is not a directory (by `lstat`) and that cannot be read: a symbolic link to nothing or to
  a directory.  Nothing looks at it unless its name has a template suffix (`Abort.lean`). -/
  | dead (name : Bytes)

/-- how `handle_entries` sees a listing: `DirEntry::file_type` does not follow links, so a link is "not a
directory" and is treated like a file — opened (through the link) if its name has a template suffix -/
def viewTemplates : List IEntry → List Entry
  | [] => []
  | .file n c :: r => .file n c :: viewTemplates r
  | .link n c :: r => .file n c :: viewTemplates r
  | .dead _ :: r => viewTemplates r     -- faithful when the name has no template suffix; otherwise `viewTemplatesA`
  | .dir n es :: r => .dir n (viewTemplates es) :: viewTemplates r

/-- how `add_files` / `add_files_as` see a listing: a link is neither `is_file()` nor `is_dir()` and is
skipped -/
def viewStatics : List IEntry → List Entry
  | [] => []
  | .file n c :: r => .file n c :: viewStatics r
  | .link _ _ :: r => viewStatics r
  | .dead _ :: r => viewStatics r
  | .dir n es :: r => .dir n (viewStatics es) :: viewStatics r

/-- what is at a path: a file's bytes, or a directory's whole subtree (entries in `read_dir` order) -/
inductive Node where
  | file (content : Bytes)
  | dir (entries : List IEntry)
deriving Inhabited

abbrev InFS := Bytes → Option Node

/-- one call of the public API as written in the build script -/
inductive SOp where
  | compileTemplates (indir : Bytes)
  | addFile (path : Bytes)
  | addFiles (indir : Bytes)
  | addFileAs (path url : Bytes)
  | addFilesAs (indir to : Bytes)
  | addFileData (path data : Bytes)

/-- `StaticFiles::path_for`: a relative path is taken relative to the directory of the crate
(`CARGO_MANIFEST_DIR`); `compile_templates` uses its argument as it is -/
def pathFor (base p : Bytes) : Bytes := if p.head? = some 47 then p else joinPath base p

/-- what `read_dir` / `File::open` hand to a call -/
def SOp.resolve (base : Bytes) (t : InFS) : SOp → Op
  | .compileTemplates d =>
    match t d with
    | some (.dir es) => .compileTemplates d (viewTemplates es)
    | _ => .failed false d
  | .addFile p =>
    let p := pathFor base p
    match nameAndExt (baseName p) with
    | none => .addFile p []           -- skipped without opening anything
    | some _ =>
      match t p with
      | some (.file c) => .addFile p c
      | _ => .failed true p
  | .addFiles d =>
    let d := pathFor base d
    match t d with
    | some (.dir es) => .addFiles d (viewStatics es)
    | _ => .failed true d
  | .addFileAs p u => .addFileAs (pathFor base p) u  -- the file is opened by rustc (`include_bytes!`), not by the run
  | .addFilesAs d to =>
    let d := pathFor base d
    match t d with
    | some (.dir es) => .addFilesAs d to (viewStatics es)
    | _ => .failed true d
  | .addFileData p data => .addFileData (pathFor base p) data

/-- the path whose state a call depends on (`none`: the call looks at nothing) -/
def SOp.root (base : Bytes) : SOp → Option Bytes
  | .compileTemplates d => some d
  | .addFile p => match nameAndExt (baseName (pathFor base p)) with | some _ => some (pathFor base p) | none => none
  | .addFiles d => some (pathFor base d)
  | .addFileAs _ _ => none
  | .addFilesAs d _ => some (pathFor base d)
  | .addFileData _ _ => none

/-- one complete run of a build script on an input tree and a prior OUT_DIR state -/
def runScript (uniEsc uniAlnum : Nat → Bool) (feat : MimeFeature) (fs : FS) (outdir utilsRs base : Bytes)
    (t : InFS) (script : List SOp) : Out :=
  build uniEsc uniAlnum feat fs outdir utilsRs (script.map (SOp.resolve base t))

end Ructe
