import RucteModel.Nom
open Nom

/-! `src/expression.rs` transcribed function for function. Fuel = nesting depth of named recursive calls. -/
namespace Ructe

def isCont (b : UInt8) : Bool := 0x80 ≤ b && b ≤ 0xBF

/-- Rust `str::from_utf8` acceptance (well-formed UTF-8, no surrogates, no overlongs, ≤ U+10FFFF). -/
def validUtf8 : Bytes → Bool
  | [] => true
  | b :: r =>
    if b < 0x80 then validUtf8 r
    else if 0xC2 ≤ b && b ≤ 0xDF then
      match r with
      | c :: r' => isCont c && validUtf8 r'
      | _ => false
    else if 0xE0 ≤ b && b ≤ 0xEF then
      match r with
      | c :: d :: r' =>
        (if b = 0xE0 then 0xA0 ≤ c && c ≤ 0xBF else if b = 0xED then 0x80 ≤ c && c ≤ 0x9F else isCont c)
          && isCont d && validUtf8 r'
      | _ => false
    else if 0xF0 ≤ b && b ≤ 0xF4 then
      match r with
      | c :: d :: e :: r' =>
        (if b = 0xF0 then 0x90 ≤ c && c ≤ 0xBF else if b = 0xF4 then 0x80 ≤ c && c ≤ 0x8F else isCont c)
          && isCont d && isCont e && validUtf8 r'
      | _ => false
    else false

def toStr (b : Bytes) : Option Bytes := if validUtf8 b then some b else none

def nameChars : Bytes := str "_0123456789ABCDEFGHIJKLMNOPQRSTUVWXYZabcdefghijklmnopqrstuvwxyz"

def rustName : Parser Bytes :=
  mapRes (recognize (seq (alt [tag (str "_"), alpha1]) (opt (isA nameChars)))) toStr

def rustComment : Parser Bytes :=
  delimited (tag (str "/*"))
    (recognize (many0 (alt [isNot (str "*"), terminated (tag (str "*")) (pnot (tag (str "/")))])))
    (tag (str "*/"))

def quotedString : Parser Bytes :=
  mapRes (recognize (delimited (char 34)
      (opt (escaped (isNot (str "\"\\")) 92 (oneOf (str "'\"\\nrt0xu"))))
      (char 34))) toStr

mutual
def exprInParens : Nat → Parser Bytes
  | 0 => fun _ => .oom
  | n+1 => mapRes (recognize (delimited (tag (str "(")) (exprInsideParens n) (tag (str ")")))) toStr

def exprInBrackets : Nat → Parser Bytes
  | 0 => fun _ => .oom
  | n+1 => mapRes (recognize (delimited (tag (str "["))
      (many0 (alt [
        value () (isNot (str "[]()\"/")),
        value () (exprInBrackets n),
        value () (exprInBraces n),
        value () (exprInParens n),
        value () quotedString,
        value () rustComment,
        value () (terminated (tag (str "/")) (pnot (tag (str "*"))))]))
      (tag (str "]")))) toStr

def exprInBraces : Nat → Parser Bytes
  | 0 => fun _ => .oom
  | n+1 => mapRes (recognize (delimited (tag (str "{"))
      (many0 (alt [
        value () (isNot (str "{}[]()\"/")),
        value () (exprInBrackets n),
        value () (exprInBraces n),
        value () (exprInParens n),
        value () quotedString,
        value () rustComment,
        value () (terminated (tag (str "/")) (pnot (tag (str "*"))))]))
      (tag (str "}")))) toStr

def exprInsideParens : Nat → Parser Bytes
  | 0 => fun _ => .oom
  | n+1 => mapRes (recognize (many0 (alt [
        value () (isNot (str "{}[]()\"/")),
        value () (exprInBraces n),
        value () (exprInBrackets n),
        value () (exprInParens n),
        value () quotedString,
        value () rustComment,
        value () (terminated (tag (str "/")) (pnot (tag (str "*"))))]))) toStr
end

def foldMany0 {α} (p : Parser α) : Parser Unit := value () (many0 p)  -- same control flow, result dropped

def expression : Nat → Parser Bytes
  | 0 => fun _ => .oom
  | n+1 => mapRes (recognize (context "Expected rust expression"
      (seq (alt [tag (str "&"), tag (str "*"), tag []])
        (seq (alt [rustName, mapRes digit1 toStr, quotedString, exprInParens n, exprInBrackets n])
          (foldMany0 (alt [
            value () (preceded (context "separator" (tag (str "."))) (expression n)),
            value () (preceded (tag (str "::")) (expression n)),
            value () (exprInParens n),
            value () (exprInBraces n),
            value () (exprInBrackets n),
            value () (preceded (tag (str "!")) (exprInParens n)),
            value () (preceded (tag (str "!")) (exprInBrackets n))])))))) toStr

def showRes : Res Bytes → String
  | .ok r v => s!"ok rest={String.fromUTF8! ⟨r.toArray⟩} v={String.fromUTF8! ⟨v.toArray⟩}"
  | .err e => s!"err {repr e}"
  | .oom => "oom"
  | .panic => "panic"


end Ructe