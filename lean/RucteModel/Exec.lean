import RucteModel.Emit
import RucteModel.Html
open Nom

/-!
# Meaning of the emitted code (IR), with user Rust kept abstract

User fragments (expressions, patterns, iterables) are opaque byte strings; their meaning is the
parameter `Sem`, so every theorem holds for all of them.  `exec` runs IR statements against a
scripted sink through the models of `write_all` / `write_fmt` / the escaping writer
(`RucteModel/Html.lean`); every statement ends in `?`, so the first error stops everything.
`render` is the specification: the bytes a rendering denotes, with no sink, no `?`, no chunks.
Both recurse on the same fuel (call depth + statement nesting), so they run out together.
-/
namespace Ructe
open Esc (Sink IoRes Resp writeAllSink toHtmlDisplay toHtmlRaw escape)

/-- run-time values of the mini-Rust used by the end-to-end tie; closures are block arguments -/
inductive Val where
  | int (i : Int)
  | str (s : Bytes)
  | bool (b : Bool)
  | list (l : List Val)
  | tup (l : List Val)
  | opt (o : Option Val)
  | pt (x y : Int)
  | closure (body : List RS) (env : List (Bytes × Val))     -- `|mut _ructe_out_| { body Ok(()) }` with the caller's variables
  | noop                                                     -- `|_| Ok(())`

abbrev Env := List (Bytes × Val)

def Env.get (e : Env) (k : Bytes) : Option Val :=
  match e with
  | [] => none
  | (k', v) :: r => if k' = k then some v else Env.get r k

/-- what `<e>.to_html(out)` does for a fragment: the pieces its `Display` impl hands over,
escaped (the blanket impl) or raw (`Html(..)`, `HtmlBuffer`) -/
inductive HtmlVal where
  | esc (pieces : List Bytes)
  | raw (pieces : List Bytes)

/-- the meaning of user fragments -/
structure Sem where
  html : Bytes → Env → HtmlVal
  cond : Bytes → Env → Option Env                          -- `if c` / `if let p = e`: `some env'` ⇒ taken, with bindings
  iter : Bytes → Bytes → Env → List Env                    -- `for pat in it`: one environment per iteration
  arm : Bytes → List Bytes → Env → Option (Nat × Env)      -- which match arm fires, with bindings
  arg : Bytes → Env → Val                                  -- value of a call argument

/-- a generated function: parameter names (after the sink) and body -/
structure RFn where
  params : List Bytes
  body : List RS

abbrev Prog := List (Bytes × RFn)

def Prog.get (p : Prog) (k : Bytes) : Option RFn :=
  match p with
  | [] => none
  | (k', f) :: r => if k' = k then some f else Prog.get r k

def nthArm (arms : List (Bytes × List RS)) (i : Nat) : List RS :=
  match arms[i]? with
  | some a => a.2
  | none => []

def htmlBytes : HtmlVal → Bytes
  | .esc ps => escape ps.flatten
  | .raw ps => ps.flatten

def bindParams : List Bytes → List Val → Env
  | p :: ps, v :: vs => (p, v) :: bindParams ps vs
  | _, _ => []

variable (sem : Sem) (prog : Prog)

def argVal (env : Env) : RArg → Val
  | .frag e => sem.arg e env
  | .noop => .noop
  | .closure body => .closure body env

/-! ## Specification: the bytes a rendering denotes (`none` = fuel exhausted) -/

mutual
def renderS : Nat → RS → Env → Option Bytes
  | 0, _, _ => none
  | _+1, .writeAll t, _ => some t
  | _+1, .toHtml e, env => some (htmlBytes (sem.html e env))
  | n+1, .forIn pat it body, env => renderIter n body (sem.iter pat it env)
  | n+1, .ifElse c thn els, env =>
    match sem.cond c env with
    | some env' => renderL n thn env'
    | none =>
      match els with
      | .none => some []
      | .elseIf s => renderS n s env
      | .elseBlock b => renderL n b env
  | n+1, .matchOn e arms, env =>
    match sem.arm e (arms.map (·.1)) env with
    | some (i, env') => renderL n (nthArm arms i) env'
    | none => some []
  | n+1, .call f args, env =>
    let vals := args.map (argVal sem env)
    match env.get f with
    | some (.closure body cenv) => renderL n body cenv          -- `@:body()` of a Content parameter
    | some .noop => some []
    | _ =>
      match prog.get f with
      | some fn => renderL n fn.body (bindParams fn.params vals)
      | none => some []
def renderL : Nat → List RS → Env → Option Bytes
  | 0, _, _ => none
  | _+1, [], _ => some []
  | n+1, s :: rest, env =>
    match renderS n s env with
    | some a => match renderL n rest env with
      | some b => some (a ++ b)
      | none => none
    | none => none
def renderIter : Nat → List RS → List Env → Option Bytes
  | 0, _, _ => none
  | _+1, _, [] => some []
  | n+1, body, e :: es =>
    match renderL n body e with
    | some a => match renderIter n body es with
      | some b => some (a ++ b)
      | none => none
    | none => none
end

/-! ## Operational meaning: statements against a scripted sink, `?` after each -/

mutual
def execS : Nat → RS → Env → Sink → Sink × IoRes
  | 0, _, _, s => (s, .err)
  | _+1, .writeAll t, _, s => writeAllSink s t
  | _+1, .toHtml e, env, s =>
    match sem.html e env with
    | .esc ps => toHtmlDisplay ps s
    | .raw ps => toHtmlRaw ps s
  | n+1, .forIn pat it body, env, s => execIter n body (sem.iter pat it env) s
  | n+1, .ifElse c thn els, env, s =>
    match sem.cond c env with
    | some env' => execL n thn env' s
    | none =>
      match els with
      | .none => (s, .ok)
      | .elseIf st => execS n st env s
      | .elseBlock b => execL n b env s
  | n+1, .matchOn e arms, env, s =>
    match sem.arm e (arms.map (·.1)) env with
    | some (i, env') => execL n (nthArm arms i) env' s
    | none => (s, .ok)
  | n+1, .call f args, env, s =>
    let vals := args.map (argVal sem env)
    match env.get f with
    | some (.closure body cenv) => execL n body cenv s
    | some .noop => (s, .ok)
    | _ =>
      match prog.get f with
      | some fn => execL n fn.body (bindParams fn.params vals) s
      | none => (s, .ok)
def execL : Nat → List RS → Env → Sink → Sink × IoRes
  | 0, _, _, s => (s, .err)
  | _+1, [], _, s => (s, .ok)
  | n+1, st :: rest, env, s =>
    match execS n st env s with
    | (s', .ok) => execL n rest env s'
    | (s', .err) => (s', .err)                    -- `?`: the first error is returned at once
def execIter : Nat → List RS → List Env → Sink → Sink × IoRes
  | 0, _, _, s => (s, .err)
  | _+1, _, [], s => (s, .ok)
  | n+1, body, e :: es, s =>
    match execL n body e s with
    | (s', .ok) => execIter n body es s'
    | (s', .err) => (s', .err)
end

/-- a template as the program sees it: lowered body and parameter names -/
def fnOf (t : Template) (paramNames : List Bytes) : RFn := { params := paramNames, body := lowerList t.body }

end Ructe
