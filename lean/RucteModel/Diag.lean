import RucteModel.Tpl
open Nom

/-! `src/parseresult.rs`: `show_errors`, `get_message`, `show_error` -/
namespace Ructe

/-- number of chars in `String::from_utf8_lossy(b)` (`Utf8Chunks`: each maximal invalid
sequence becomes one U+FFFD) -/
def lossyCount : Nat → Bytes → Nat
  | 0, _ => 0
  | _, [] => 0
  | n+1, b :: r =>
    if b < 0x80 then 1 + lossyCount n r
    else if 0xC2 ≤ b && b ≤ 0xDF then
      match r with
      | c :: r' => if isCont c then 1 + lossyCount n r' else 1 + lossyCount n r
      | [] => 1
    else if 0xE0 ≤ b && b ≤ 0xEF then
      match r with
      | c :: r' =>
        if (if b = 0xE0 then 0xA0 ≤ c && c ≤ 0xBF else if b = 0xED then 0x80 ≤ c && c ≤ 0x9F else isCont c) then
          match r' with
          | d :: r'' => if isCont d then 1 + lossyCount n r'' else 1 + lossyCount n r'
          | [] => 1
        else 1 + lossyCount n r
      | [] => 1
    else if 0xF0 ≤ b && b ≤ 0xF4 then
      match r with
      | c :: r' =>
        if (if b = 0xF0 then 0x90 ≤ c && c ≤ 0xBF else if b = 0xF4 then 0x80 ≤ c && c ≤ 0x8F else isCont c) then
          match r' with
          | d :: r'' =>
            if isCont d then
              match r'' with
              | e :: r3 => if isCont e then 1 + lossyCount n r3 else 1 + lossyCount n r''
              | [] => 1
            else 1 + lossyCount n r'
          | [] => 1
        else 1 + lossyCount n r
      | [] => 1
    else 1 + lossyCount n r

/-- index just after the last `\n` in `pre` (0 if none): `rsplitn(2, '\n')` logic of `show_error` -/
def lineStartOf (pre : Bytes) : Nat :=
  pre.length - (pre.reverse.takeWhile (· ≠ 10)).length

/-- One diagnostic as structured data (what `show_error` computes before formatting). -/
structure DiagInfo where
  lineNo : Nat
  col : Nat              -- 1-based caret column (in chars)
  line : Option Bytes    -- the echoed source line; `none` = "(Failed to display line)"
  lineStart : Nat
deriving Repr

def diagInfo (buf : Bytes) (pos : Nat) : DiagInfo :=
  let lineStart := lineStartOf (buf.take pos)
  let lineBytes := (buf.drop lineStart).takeWhile (· ≠ 10)
  let prefixBytes := (buf.drop lineStart).take (pos - lineStart)
  { lineNo := ((buf.take lineStart).filter (· = 10)).length + 1
    col := lossyCount (prefixBytes.length + 1) prefixBytes + 1
    line := if validUtf8 lineBytes then some lineBytes else none
    lineStart := lineStart }

def natStr (n : Nat) : Bytes := (toString n).toUTF8.toList

def showError (buf : Bytes) (pos : Nat) (msg : Bytes) (pfx : Bytes) : Bytes :=
  let d := diagInfo buf pos
  let line := match d.line with | some l => l | none => str "(Failed to display line)"
  let num := natStr d.lineNo
  let padNum := List.replicate (4 - num.length) (32 : UInt8) ++ num
  let caret := List.replicate (d.col - 1) (32 : UInt8) ++ str "^"
  pfx ++ padNum ++ str ":" ++ line ++ str "\n" ++ pfx ++ str "     " ++ caret ++ str " " ++ msg ++ str "\n"

/-- `get_message`: `Expected {ch:?}` — exact for the ASCII characters the grammar uses -/
def msgText : Msg → Bytes
  | .ctx s => str s
  | .chr c => str "Expected '" ++ [c] ++ str "'"

/-- `show_errors`: the visible entries, outermost context first -/
def showErrors (buf : Bytes) (es : Errs) (pfx : Bytes) : Bytes :=
  es.reverse.flatMap (fun e => showError buf (buf.length - e.rem) (msgText e.msg) pfx)

/-- The pinned (defective) column computation: `from_utf8(prefix).unwrap()` panics (finding #4). -/
def showErrorPinnedPanics (buf : Bytes) (pos : Nat) : Bool :=
  let lineStart := lineStartOf (buf.take pos)
  !validUtf8 ((buf.drop lineStart).take (pos - lineStart))

end Ructe
