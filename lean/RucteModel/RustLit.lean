import RucteModel.Expr
open Nom

/-!
# Rust literal syntax, both directions

*Encoders* are what ructe calls when it prints a literal (`<str as Debug>::fmt`,
`<[u8]>::escape_ascii`, `core::ascii::escape_default`); *decoders* are what rustc does when it
lexes the printed text (Rust Reference, "String literals" / "Byte string literals").
`none` from a decoder means "does not lex as one literal" = compile error (or, for the few
forms the decoder does not implement, "not shown to lex"; the encoders never produce those).

For non-ASCII scalars the choice "verbatim or `\u{..}`" made by `char::escape_debug` is a
Unicode-table lookup inside `core`; it is the parameter `uniEsc`, and every theorem holds for
all `uniEsc`.
-/
namespace Ructe

/-- decode UTF-8 (assumed valid) into scalar values paired with their byte sequences -/
def scalars : Bytes → List (Nat × Bytes)
  | [] => []
  | b :: r =>
    if b < 0x80 then (b.toNat, [b]) :: scalars r
    else if b < 0xE0 then
      match r with
      | c :: r' => (((b.toNat - 0xC0) * 64 + (c.toNat - 0x80)), [b, c]) :: scalars r'
      | _ => []
    else if b < 0xF0 then
      match r with
      | c :: d :: r' => (((b.toNat - 0xE0) * 4096 + (c.toNat - 0x80) * 64 + (d.toNat - 0x80)), [b, c, d]) :: scalars r'
      | _ => []
    else
      match r with
      | c :: d :: e :: r' =>
        (((b.toNat - 0xF0) * 262144 + (c.toNat - 0x80) * 4096 + (d.toNat - 0x80) * 64 + (e.toNat - 0x80)), [b, c, d, e]) :: scalars r'
      | _ => []

/-- UTF-8 encoding of a scalar value (as `char::encode_utf8`). -/
def utf8Enc (n : Nat) : Bytes :=
  if n < 0x80 then [n.toUInt8]
  else if n < 0x800 then [(0xC0 + n / 64).toUInt8, (0x80 + n % 64).toUInt8]
  else if n < 0x10000 then [(0xE0 + n / 4096).toUInt8, (0x80 + n / 64 % 64).toUInt8, (0x80 + n % 64).toUInt8]
  else [(0xF0 + n / 262144).toUInt8, (0x80 + n / 4096 % 64).toUInt8, (0x80 + n / 64 % 64).toUInt8, (0x80 + n % 64).toUInt8]

def isScalar (n : Nat) : Bool := n < 0xD800 || (0xE000 ≤ n && n < 0x110000)

/-- lower-case hex digit character of `n < 16` -/
def hexChar (n : Nat) : UInt8 := if n < 10 then (n + 48).toUInt8 else (n + 87).toUInt8

/-- `{:x}` of a number below 2^24: minimal number of lower-case hex digits. -/
def hexDigits (n : Nat) : Bytes :=
  if n < 0x10 then [hexChar n]
  else if n < 0x100 then [hexChar (n / 0x10), hexChar (n % 0x10)]
  else if n < 0x1000 then [hexChar (n / 0x100), hexChar (n / 0x10 % 0x10), hexChar (n % 0x10)]
  else if n < 0x10000 then [hexChar (n / 0x1000), hexChar (n / 0x100 % 0x10), hexChar (n / 0x10 % 0x10), hexChar (n % 0x10)]
  else if n < 0x100000 then
    [hexChar (n / 0x10000), hexChar (n / 0x1000 % 0x10), hexChar (n / 0x100 % 0x10), hexChar (n / 0x10 % 0x10), hexChar (n % 0x10)]
  else
    [hexChar (n / 0x100000 % 0x10), hexChar (n / 0x10000 % 0x10), hexChar (n / 0x1000 % 0x10), hexChar (n / 0x100 % 0x10),
     hexChar (n / 0x10 % 0x10), hexChar (n % 0x10)]

def isAsciiB (b : Bytes) : Bool := b.all (· < 0x80)

/-- the escape `char::escape_debug_ext` (as used by `<str as Debug>`) produces for one scalar -/
def debugEsc (uniEsc : Nat → Bool) (p : Nat × Bytes) : Bytes :=
  let (c, raw) := p
  if c = 0 then [92, 48] else if c = 9 then [92, 116] else if c = 13 then [92, 114]
  else if c = 10 then [92, 110] else if c = 92 then [92, 92] else if c = 34 then [92, 34]
  else if c < 0x80 then
    if 0x20 ≤ c && c ≤ 0x7E then raw else [92, 117, 123] ++ hexDigits c ++ [125]
  else if uniEsc c then [92, 117, 123] ++ hexDigits c ++ [125] else raw

/-- text between the quotes of `format!("{:?}", s)` -/
def strDebugBody (uniEsc : Nat → Bool) (s : Bytes) : Bytes := (scalars s).flatMap (debugEsc uniEsc)

/-- `<str as Debug>::fmt`; `uniEsc` decides for non-ASCII scalars. -/
def strDebug (uniEsc : Nat → Bool) (s : Bytes) : Bytes := [34] ++ strDebugBody uniEsc s ++ [34]

/-- `core::ascii::escape_default(b)` -/
def escapeDefault (b : UInt8) : Bytes :=
  if b = 9 then [92, 116] else if b = 13 then [92, 114] else if b = 10 then [92, 110]
  else if b = 39 then [92, 39] else if b = 34 then [92, 34] else if b = 92 then [92, 92]
  else if 0x20 ≤ b && b ≤ 0x7E then [b] else [92, 120, hexChar (b.toNat / 16), hexChar (b.toNat % 16)]

/-- `<[u8]>::escape_ascii` = `escape_default` per byte -/
def escapeAscii (s : Bytes) : Bytes := s.flatMap escapeDefault

/-! ## Decoders: a byte-at-a-time state machine, so that it is structurally recursive -/

def hexVal? (c : UInt8) : Option Nat :=
  if 48 ≤ c && c ≤ 57 then some (c.toNat - 48)
  else if 97 ≤ c && c ≤ 102 then some (c.toNat - 87)
  else if 65 ≤ c && c ≤ 70 then some (c.toNat - 55)
  else none

inductive LSt where
  | start                       -- before the opening quote
  | normal
  | esc                         -- after `\`
  | x1                          -- after `\x`
  | x2 (h : Nat)                -- after `\xH`
  | u0                          -- after `\u`
  | ud (acc cnt : Nat)          -- inside `\u{…`
  | cont                        -- string continuation: `\` LF, skipping white space
  | done                        -- after the closing quote
deriving Repr, DecidableEq

structure DS where
  st : LSt
  outRev : Bytes
deriving Repr

def DS.push (s : DS) (b : UInt8) : DS := { st := .normal, outRev := b :: s.outRev }
def DS.pushAll (s : DS) (bs : Bytes) : DS := { st := .normal, outRev := bs.reverse ++ s.outRev }

/-- one byte in the `normal` state -/
def stepNormal (byteMode : Bool) (s : DS) (c : UInt8) : Option DS :=
  if c = 92 then some { s with st := .esc }
  else if c = 34 then some { s with st := .done }
  else if c = 13 then none                                  -- bare CR
  else if byteMode && c ≥ 0x80 then none                    -- non-ASCII in a byte string
  else some (s.push c)

def litStep (byteMode : Bool) (s : DS) (c : UInt8) : Option DS :=
  match s.st with
  | .start => if c = 34 then some { s with st := .normal } else none
  | .normal => stepNormal byteMode s c
  | .esc =>
    if c = 110 then some (s.push 10) else if c = 114 then some (s.push 13)
    else if c = 116 then some (s.push 9) else if c = 92 then some (s.push 92)
    else if c = 48 then some (s.push 0) else if c = 39 then some (s.push 39)
    else if c = 34 then some (s.push 34)
    else if c = 120 then some { s with st := .x1 }
    else if c = 117 then (if byteMode then none else some { s with st := .u0 })
    else if c = 10 then some { s with st := .cont }
    else none
  | .x1 =>
    match hexVal? c with
    | some h => if !byteMode && h ≥ 8 then none else some { s with st := .x2 h }
    | none => none
  | .x2 h =>
    match hexVal? c with
    | some l => some (s.push (h * 16 + l).toUInt8)
    | none => none
  | .u0 => if c = 123 then some { s with st := .ud 0 0 } else none
  | .ud acc cnt =>
    if c = 125 then
      if cnt = 0 then none
      else if isScalar acc then some (s.pushAll (utf8Enc acc)) else none
    else match hexVal? c with
      | some d => if cnt ≥ 6 then none else some { s with st := .ud (acc * 16 + d) (cnt + 1) }
      | none => none
  | .cont =>
    if c = 32 || c = 9 || c = 10 || c = 13 then some s
    else stepNormal byteMode { s with st := .normal } c
  | .done => none

def litRun (byteMode : Bool) : DS → Bytes → Option DS
  | s, [] => some s
  | s, c :: r => match litStep byteMode s c with
    | some s' => litRun byteMode s' r
    | none => none

/-- value of the text `"…"` as a Rust string literal (the whole text must be one literal) -/
def decodeStrLit (lit : Bytes) : Option Bytes :=
  match litRun false ⟨.start, []⟩ lit with
  | some ⟨.done, o⟩ => some o.reverse
  | _ => none

/-- value of the text `b"…"` as a Rust byte-string literal -/
def decodeByteStrLit (lit : Bytes) : Option Bytes :=
  match lit with
  | 98 :: r =>
    match litRun true ⟨.start, []⟩ r with
    | some ⟨.done, o⟩ => some o.reverse
    | _ => none
  | _ => none

end Ructe
