import RucteModel.Tpl
import RucteModel.RustLit
open Nom

/-!
# Code generation: `Template::write_rust`, `TemplateExpression::write_code`,
`Display for TemplateArgument`

Modelled in two steps, `lower : AST → IR` and `print : IR → Bytes`.  The IR has one
constructor per *line shape* ructe can print; `print` is the one place where "this text means
this IR" is trusted (validated by compiling and running the text with rustc, DESIGN.md §4.2).
The composition `print ∘ lower` must equal the text the real `write_rust` produces (checked by
the `compile` correspondence suite).
-/
namespace Ructe

mutual
/-- an emitted Rust statement; every statement that can fail ends in `?` -/
inductive RS where
  | writeAll (text : Bytes)                       -- `_ructe_out_.write_all(<literal of text>)?;`
  | toHtml (e : Bytes)                            -- `<e>.to_html(_ructe_out_.by_ref())?;`
  | forIn (pat iter : Bytes) (body : List RS)     -- `for pat in iter { body }`
  | ifElse (cond : Bytes) (thn : List RS) (els : RElse)
  | matchOn (e : Bytes) (arms : List (Bytes × List RS))
  | call (f : Bytes) (args : List RArg)           -- `f(_ructe_out_.by_ref(), args…)?;`
inductive RElse where
  | none
  | elseIf (s : RS)                               -- `} else if …` (s is an `ifElse`)
  | elseBlock (b : List RS)
inductive RArg where
  | frag (e : Bytes)                              -- a Rust expression
  | noop                                          -- `|_| Ok(())`
  | closure (body : List RS)                      -- `|mut _ructe_out_| { body Ok(()) }`
end

mutual
def lower : TExpr → List RS
  | .comment => []
  | .text t => [.writeAll t]
  | .expr e => [.toHtml e]
  | .forLoop name e body => [.forIn name e (lowerList body)]
  | .ifBlock e body els => [.ifElse e (lowerList body) (lowerElse els)]
  | .matchBlock e arms => [.matchOn e (lowerArms arms)]
  | .call name args => [.call name (lowerArgs args)]
def lowerElse : Option (List TExpr) → RElse
  | none => .none
  | some [TExpr.ifBlock e2 b2 els2] => .elseIf (.ifElse e2 (lowerList b2) (lowerElse els2))
  | some b => .elseBlock (lowerList' b)
def lowerList : List TExpr → List RS
  | [] => []
  | x :: r => lower x ++ lowerList r
/-- same as `lowerList` (separate name keeps the recursion structural under `some b`) -/
def lowerList' : List TExpr → List RS
  | [] => []
  | x :: r => lower x ++ lowerList' r
def lowerArms : List (Bytes × List TExpr) → List (Bytes × List RS)
  | [] => []
  | (e, b) :: r => (e, lowerList b) :: lowerArms r
def lowerArgs : List TArg → List RArg
  | [] => []
  | a :: r => lowerArg a :: lowerArgs r
def lowerArg : TArg → RArg
  | .rust s => .frag s
  | .body [] => .noop
  | .body (x :: r) => .closure (lowerList (x :: r))
end

variable (uniEsc : Nat → Bool)

/-- the literal printed for a text node: `b"…"` (escape_ascii) for ASCII text, `"…".as_bytes()` otherwise -/
def textLit (t : Bytes) : Bytes :=
  if isAsciiB t then str "b\"" ++ escapeAscii t ++ str "\""
  else strDebug uniEsc t ++ str ".as_bytes()"

mutual
def printRS : RS → Bytes
  | .writeAll t => str "_ructe_out_.write_all(" ++ textLit uniEsc t ++ str ")?;\n"
  | .toHtml e => e ++ str ".to_html(_ructe_out_.by_ref())?;\n"
  | .forIn name e body => str "for " ++ name ++ str " in " ++ e ++ str " {\n" ++ printList body ++ str "}\n"
  | .ifElse e body els => str "if " ++ e ++ str " {\n" ++ printList body ++ str "}" ++ printElse els
  | .matchOn e arms => str "match " ++ e ++ str " {" ++ printArms arms ++ str "\n}\n"
  | .call name args => name ++ str "(_ructe_out_.by_ref()" ++ printArgs args ++ str ")?;\n"
def printElse : RElse → Bytes
  | .none => str "\n"
  | .elseIf s => str " else " ++ printRS s
  | .elseBlock b => str " else {\n" ++ printList b ++ str "}\n"
def printList : List RS → Bytes
  | [] => []
  | x :: r => printRS x ++ printList r
def printArms : List (Bytes × List RS) → Bytes
  | [] => []
  | (e, b) :: r => str "\n  " ++ e ++ str " => {" ++ printList b ++ str "}" ++ printArms r
def printArgs : List RArg → Bytes
  | [] => []
  | a :: r => str ", " ++ printArg a ++ printArgs r
def printArg : RArg → Bytes
  | .frag s => s
  | .noop => str "|_| Ok(())"
  | .closure b => str "#[allow(clippy::used_underscore_binding)] |mut _ructe_out_| {\n" ++ printList b ++ str "Ok(())\n}\n"
end

/-- `codeOf` = what `write_code` prints for a list of template expressions -/
def codeOfList (b : List TExpr) : Bytes := printList uniEsc (lowerList b)

/-! ### The signature: `Content` parameters -/

def contentType : Bytes := str "Content"
def contentImpl : Bytes := str "impl FnOnce(&mut W) -> io::Result<()>"

/-- `s.strip_suffix(suf)` -/
def stripSuffix (suf s : Bytes) : Option Bytes :=
  if s.length ≥ suf.length ∧ s.drop (s.length - suf.length) = suf then some (s.take (s.length - suf.length)) else none

/-- last byte of `s.trim_end()` for ASCII white space (`char::is_whitespace` on ASCII: 9–13, 32) -/
def isWs (b : UInt8) : Bool := b = 32 || (9 ≤ b && b ≤ 13)
def lastNonWs (s : Bytes) : Option UInt8 := (s.reverse.dropWhile isWs).head?

/-- the printed form of one declared parameter: only a parameter whose declared type is
exactly `Content` (the text after the colon and its white space) becomes a block parameter. -/
def printParam (a : Bytes) : Bytes :=
  match stripSuffix contentType a with
  | some head => if lastNonWs head = some 58 then head ++ contentImpl else a
  | none => a

/-- `String::replace(pat, rep)` (non-empty `pat`), fuel = length -/
def replaceAll (pat rep : Bytes) : Nat → Bytes → Bytes
  | 0, s => s
  | _, [] => []
  | n+1, c :: r =>
    match isPrefix pat (c :: r) with
    | some rest => if pat = [] then c :: r else rep ++ replaceAll pat rep n rest
    | none => c :: replaceAll pat rep n r

/-- the pinned (defective) parameter printing: substring replacement of `" Content"` (finding #5) -/
def printParamPinned (a : Bytes) : Bytes :=
  replaceAll (str " Content") (str " impl FnOnce(&mut W) -> io::Result<()>") (a.length + 1) a

def fnHeader (t : Template) (name : Bytes) : Bytes :=
  str "use std::io::{self, Write};\n#[allow(clippy::useless_attribute, unused)]\nuse super::{Html,ToHtml};\n" ++
  (t.preamble.flatMap (fun l => l ++ str ";\n")) ++
  str "\n#[allow(clippy::used_underscore_binding)]\npub fn " ++ name ++ str "<" ++ t.typeArgs ++
  (if t.typeArgs = [] then [] else str ", ") ++ str "W>(\n  #[allow(unused_mut)] mut _ructe_out_: W,\n" ++
  (t.args.flatMap (fun a => str "  " ++ printParam a ++ str ",\n")) ++
  str ") -> io::Result<()>\nwhere W: Write {\n"

/-- `Template::write_rust` -/
def writeRust (t : Template) (name : Bytes) : Bytes :=
  fnHeader t name ++ codeOfList uniEsc t.body ++ str "Ok(())\n}\n"

end Ructe
