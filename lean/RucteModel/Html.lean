/-!
# `src/templates/utils.rs`: the escaping writer, `Html`, `to_buffer`, `HtmlBuffer`,
and std's `io::Write::write_all` / `write_fmt`, against a *scripted sink*.
-/
namespace Esc

abbrev Bytes := List UInt8

def bstr (s : String) : Bytes := s.toUTF8.toList

inductive Resp where
  | accept (k : Nat)     -- accept min (k+1) len bytes  (at least one)
  | zero                 -- Ok(0)
  | interrupted
  | fail                 -- permanent failure: stays at the head of the schedule
deriving Repr, DecidableEq

structure Sink where
  sched : List Resp
  got : Bytes
deriving Repr

inductive WR where
  | ok (n : Nat)
  | interrupted
  | err
deriving Repr, DecidableEq

def Sink.write (s : Sink) (data : Bytes) : Sink × WR :=
  match s.sched with
  | [] => ({ s with got := s.got ++ data }, .ok data.length)
  | .accept k :: t =>
    let n := min (k+1) data.length
    ({ sched := t, got := s.got ++ data.take n }, .ok n)
  | .zero :: t => ({ s with sched := t }, .ok 0)
  | .interrupted :: t => ({ s with sched := t }, .interrupted)
  | .fail :: _ => (s, .err)

inductive IoRes where
  | ok
  | err          -- any error (WriteZero or the sink's error)
deriving Repr, DecidableEq

/-- std `Write::write_all` over an arbitrary `write` step function, fuel-free by WF recursion. -/
def writeAllSink (s : Sink) (data : Bytes) : Sink × IoRes :=
  if _h : data = [] then (s, .ok) else
  match hs : s.sched with
  | [] => ({ s with got := s.got ++ data }, .ok)
  | .accept k :: t =>
    let n := min (k+1) data.length
    writeAllSink { sched := t, got := s.got ++ data.take n } (data.drop n)
  | .zero :: t => ({ s with sched := t }, .err)
  | .interrupted :: t => writeAllSink { s with sched := t } data
  | .fail :: _ => (s, .err)
termination_by (s.sched.length, data.length)
decreasing_by
  all_goals simp_wf
  · left; simp [hs]
  · left; simp [hs]

def isSpecial (c : UInt8) : Bool := c = 34 || c = 38 || c = 39 || c = 60 || c = 62

def entity (c : UInt8) : Bytes :=
  if c = 34 then [38, 113, 117, 111, 116, 59]      -- &quot;
  else if c = 38 then [38, 97, 109, 112, 59]       -- &amp;
  else if c = 60 then [38, 108, 116, 59]           -- &lt;
  else if c = 62 then [38, 103, 116, 59]           -- &gt;
  else [38, 35, 51, 57, 59]                        -- &#39;

/-- The specification: byte-wise escape. -/
def escape : Bytes → Bytes
  | [] => []
  | c :: r => if isSpecial c then entity c ++ escape r else c :: escape r



/-- number of leading non-special bytes -/
def plainLen : Bytes → Nat
  | [] => 0
  | c :: r => if isSpecial c then 0 else plainLen r + 1

/-- `ToHtmlEscapingWriter::write` (data may be empty: then `Ok(0)` via write_one_byte_escaped). -/
def escWrite (s : Sink) (data : Bytes) : Sink × WR :=
  let n := plainLen data
  if n > 0 then s.write (data.take n)
  else match data with
    | [] => (s, .ok 0)
    | c :: _ =>
      match writeAllSink s (entity c) with
      | (s', .ok) => (s', .ok 1)
      | (s', .err) => (s', .err)

/-- `write_all` over the escaping writer. Fuel = sched.length + data.length + 1 always suffices. -/
def escWriteAllGo : Nat → Sink → Bytes → Sink × IoRes
  | 0, s, _ => (s, .err)
  | fuel+1, s, data =>
    if data = [] then (s, .ok) else
    match escWrite s data with
    | (s', .ok 0) => (s', .err)
    | (s', .ok n) => escWriteAllGo fuel s' (data.drop n)
    | (s', .interrupted) => escWriteAllGo fuel s' data
    | (s', .err) => (s', .err)

def escWriteAll (s : Sink) (data : Bytes) : Sink × IoRes :=
  escWriteAllGo (2 * s.sched.length + data.length + 1) s data




/-- `write!(ToHtmlEscapingWriter(out), "{self}")` where Display hands over `pieces` one by one
and propagates the first fmt::Error. -/
def toHtmlDisplay : List Bytes → Sink → Sink × IoRes
  | [], s => (s, .ok)
  | p :: ps, s =>
    match escWriteAll s p with
    | (s', .ok) => toHtmlDisplay ps s'
    | (s', .err) => (s', .err)

/-- `Html(x).to_html(out)` = `write!(out, "{}", x)`: pieces go to the sink's own write_all. -/
def toHtmlRaw : List Bytes → Sink → Sink × IoRes
  | [], s => (s, .ok)
  | p :: ps, s =>
    match writeAllSink s p with
    | (s', .ok) => toHtmlRaw ps s'
    | (s', .err) => (s', .err)


/-- `to_buffer()`: `to_html` into a `Vec<u8>` (a sink that accepts everything) -/
def perfect (got : Bytes := []) : Sink := ⟨[], got⟩

def toBufferDisplay (ps : List Bytes) : Option Bytes :=
  match toHtmlDisplay ps (perfect) with
  | (s, .ok) => some s.got
  | (_, .err) => none

def toBufferRaw (ps : List Bytes) : Option Bytes :=
  match toHtmlRaw ps (perfect) with
  | (s, .ok) => some s.got
  | (_, .err) => none

/-- `HtmlBuffer::to_html`: `out.write_all(&self.buf)` -/
def bufferToHtml (buf : Bytes) (s : Sink) : Sink × IoRes := writeAllSink s buf

/-- `to_buffer()` of an `HtmlBuffer` -/
def bufferToBuffer (buf : Bytes) : Option Bytes :=
  match bufferToHtml buf perfect with
  | (s, .ok) => some s.got
  | (_, .err) => none

/-- `impl PartialEq<&[u8]> for HtmlBuffer` / `PartialEq<&str>`: byte-wise equality -/
def bufferEq (buf other : Bytes) : Bool := buf == other

/-- HTML-decoding of the five character references (left inverse of `escape`); `none` if a raw
special byte or an unknown reference occurs -/
def unescape : Nat → Bytes → Option Bytes
  | 0, _ => none
  | _, [] => some []
  | n+1, 38 :: 108 :: 116 :: 59 :: r => (unescape n r).map (60 :: ·)
  | n+1, 38 :: 103 :: 116 :: 59 :: r => (unescape n r).map (62 :: ·)
  | n+1, 38 :: 97 :: 109 :: 112 :: 59 :: r => (unescape n r).map (38 :: ·)
  | n+1, 38 :: 113 :: 117 :: 111 :: 116 :: 59 :: r => (unescape n r).map (34 :: ·)
  | n+1, 38 :: 35 :: 51 :: 57 :: 59 :: r => (unescape n r).map (39 :: ·)
  | n+1, c :: r => if isSpecial c then none else (unescape n r).map (c :: ·)

end Esc
