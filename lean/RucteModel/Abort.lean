import RucteModel.InFS
open Nom

/-!
# A walk that is cut short: `?` in `handle_entries`

`handle_entries` opens every entry whose name has a template suffix.  When that fails (`File::open` on a
symbolic link to nothing, `read_to_end` on a link to a directory) the error leaves through `?`: the rest of
the directory is not looked at, the `mod.rs` of every directory on the way up is **not** written and its
`pub mod` line is not added, and `compile_templates` returns `Err`.  What the build script does then is its
business; `Drop` still writes `templates.rs` with what was declared so far.

`Gen.handleEntries` is the walk on trees where everything can be read.  Here is the walk as it is, with a
flag "cut short"; `RucteProps/C10Abort.lean` proves that it is `handleEntries` on readable trees, and that a
walk cut short writes a prefix of what the walk without the unreadable entries writes.
-/
namespace Ructe

/-- an input entry whose bytes may be unavailable -/
inductive EntryA where
  | file (name : Bytes) (content : Option Bytes)
  | dir (name : Bytes) (entries : List EntryA)

/-- how `handle_entries` sees a listing, unreadable entries included -/
def viewTemplatesA : List IEntry → List EntryA
  | [] => []
  | .file n c :: r => .file n (some c) :: viewTemplatesA r
  | .link n c :: r => .file n (some c) :: viewTemplatesA r
  | .dead n :: r => .file n none :: viewTemplatesA r
  | .dir n es :: r => .dir n (viewTemplatesA es) :: viewTemplatesA r

/-- the readable part of a listing -/
def readable : List EntryA → List Entry
  | [] => []
  | .file n (some c) :: r => .file n c :: readable r
  | .file _ none :: r => readable r
  | .dir n es :: r => .dir n (readable es) :: readable r

variable (uniEsc uniAlnum : Nat → Bool)

/-- one directory entry name against the suffix table; the third component: cut short -/
def handleFileA (o : Log) (f : Bytes) (fname path outdir : Bytes) (content : Option Bytes) :
    List Bytes → Bytes × Log × Bool
  | [] => (f, o, false)
  | suf :: rest =>
    if endsWith fname suf then
      let o := o.print (str "cargo:rerun-if-changed=" ++ path)
      match content with
      | none => (f, o.read path, true)
      | some c =>
        let prename := fname.take (fname.length - suf.length)
        let name := prename ++ [95] ++ suf.drop suffixSkipLen
        let (declared, o) := handleTemplate uniEsc o name path outdir c
        let f := if declared then f ++ templateDecl name else f
        handleFileA o f fname path outdir content rest
    else handleFileA o f fname path outdir content rest

mutual
def handleEntriesA (o : Log) (f : Bytes) (indir outdir : Bytes) : List EntryA → Bytes × Log × Bool
  | [] => (f, o, false)
  | .dir name sub :: rest =>
    if validUtf8 name then
      let outdir' := joinPath outdir name
      match handleDirA o modRsHeader (joinPath indir name) outdir' sub with
      | (_, o, true) => (f, o, true)
      | (modrs, o, false) =>
        let o := writeIfChanged o (joinPath outdir' (str "mod.rs")) modrs
        handleEntriesA o (f ++ str "pub mod " ++ name ++ str ";\n\n") indir outdir rest
    else handleEntriesA o f indir outdir rest
  | .file name content :: rest =>
    if validUtf8 name then
      match handleFileA uniEsc o f name (joinPath indir name) outdir content suffixes with
      | (f, o, true) => (f, o, true)
      | (f, o, false) => handleEntriesA o f indir outdir rest
    else handleEntriesA o f indir outdir rest
def handleDirA (o : Log) (f : Bytes) (indir outdir : Bytes) (entries : List EntryA) : Bytes × Log × Bool :=
  let o := (o.read indir).print (str "cargo:rerun-if-changed=" ++ indir)
  handleEntriesA o f indir outdir entries
end

/-- a call with what it looks at, unreadable entries included -/
inductive OpA where
  | plain (op : Op)
  | compileTemplatesA (indir : Bytes) (entries : List EntryA)

def Build.stepA (feat : MimeFeature) (outdir : Bytes) (b : Build) : OpA → Build
  | .plain op => Build.step uniEsc uniAlnum feat outdir b op
  | .compileTemplatesA indir entries =>
    let r := handleDirA uniEsc b.out b.f indir (joinPath outdir (str "templates")) entries
    { b with out := r.2.1, f := r.1 }

def buildLogA (feat : MimeFeature) (outdir utilsRs : Bytes) (ops : List OpA) : Log :=
  (ops.foldl (Build.stepA uniEsc uniAlnum feat outdir) (Build.new outdir utilsRs)).finish outdir

def namesAfterA (feat : MimeFeature) (outdir utilsRs : Bytes) (ops : List OpA) : List (Bytes × Bytes) :=
  match (ops.foldl (Build.stepA uniEsc uniAlnum feat outdir) (Build.new outdir utilsRs)).statics with
  | some s => s.names
  | none => []

/-- what `read_dir` / `File::open` hand to a call, unreadable entries included -/
def SOp.resolveA (base : Bytes) (t : InFS) : SOp → OpA
  | .compileTemplates d =>
    match t d with
    | some (.dir es) => .compileTemplatesA d (viewTemplatesA es)
    | _ => .plain (.failed false d)
  | op => .plain (op.resolve base t)

/-- one complete run of a build script (that goes on after a failing call) on an input tree -/
def runScriptA (feat : MimeFeature) (fs : FS) (outdir utilsRs base : Bytes) (t : InFS) (script : List SOp) : Out :=
  runLog fs (buildLogA uniEsc uniAlnum feat outdir utilsRs (script.map (SOp.resolveA base t)))

end Ructe
