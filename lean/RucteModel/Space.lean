import RucteModel.Expr
open Nom

/-! `src/spacelike.rs` transcribed. -/
namespace Ructe

def commentTail : Parser Unit :=
  preceded
    (many0 (alt [value () (isNot (str "*")), value () (terminated (tag (str "*")) (pnot (tag (str "@"))))]))
    (value () (tag (str "*@")))

def comment : Parser Unit := preceded (tag (str "@*")) commentTail

def spacelike : Parser Unit := value () (many0 (alt [comment, value () multispace1]))


/-- Spec: a comment body is a byte string with no `*@` inside; `*` = 42, `@` = 64. -/
def noStarAt : Bytes → Bool
  | 42 :: 64 :: _ => false
  | _ :: r => noStarAt r
  | [] => true

end Ructe