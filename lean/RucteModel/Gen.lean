import RucteModel.Emit
import RucteModel.Diag
import RucteModel.Statics
import RucteTables.Suffixes
open Nom

/-!
# The build-script side on an abstract file system (`src/lib.rs`, `src/staticfiles.rs`)

`FS` maps output paths to file contents (files only; directories are implicit).  The *input*
tree is a rose tree whose entry lists are in the order `read_dir` yields them (a parameter of
the model: any permutation; the harness records the order the real run saw).
`build` returns the new FS together with the log of **physical writes** and the lines printed
to stdout.
-/
namespace Ructe

inductive Entry where
  | file (name : Bytes) (content : Bytes)
  | dir (name : Bytes) (entries : List Entry)

def Entry.name : Entry → Bytes
  | .file n _ => n
  | .dir n _ => n

abbrev FS := List (Bytes × Bytes)

def FS.get (fs : FS) (p : Bytes) : Option Bytes :=
  match fs with
  | [] => none
  | (q, c) :: r => if q = p then some c else FS.get r p

def FS.set (fs : FS) (p c : Bytes) : FS :=
  match fs with
  | [] => [(p, c)]
  | (q, d) :: r => if q = p then (p, c) :: r else (q, d) :: FS.set r p c

/-- What a run *asks for*, independent of the prior state of OUT_DIR: the sequence of
`write_if_changed(path, content)` requests, the lines printed, the inputs listed / opened.
(Nothing in ructe reads OUT_DIR except `write_if_changed` itself.) -/
structure Log where
  writes : List (Bytes × Bytes) := []   -- write_if_changed requests, in order
  stdout : List Bytes := []             -- lines printed (without the newline)
  reads : List Bytes := []              -- input paths listed / opened

def Log.print (o : Log) (line : Bytes) : Log := { o with stdout := o.stdout ++ [line] }
def Log.read (o : Log) (p : Bytes) : Log := { o with reads := o.reads ++ [p] }
def Log.write (o : Log) (p c : Bytes) : Log := { o with writes := o.writes ++ [(p, c)] }

/-- the request `write_if_changed(p, c)` (kept under its old name in the functions below) -/
def writeIfChanged (o : Log) (p c : Bytes) : Log := o.write p c

/-- the file system after a run, with the log of **physical** writes -/
structure Out where
  fs : FS
  writes : List Bytes := []      -- physical writes, in order
  stdout : List Bytes := []
  reads : List Bytes := []

/-- `write_if_changed` itself: the file is (re)written unless it already holds exactly `c` -/
def applyWrite (o : FS × List Bytes) (pc : Bytes × Bytes) : FS × List Bytes :=
  if o.1.get pc.1 = some pc.2 then o else (o.1.set pc.1 pc.2, o.2 ++ [pc.1])

/-- carry out the requests of a log on a given prior OUT_DIR state -/
def runLog (fs : FS) (l : Log) : Out :=
  let r := l.writes.foldl applyWrite (fs, [])
  { fs := r.1, writes := r.2, stdout := l.stdout, reads := l.reads }

/-- `PathBuf::join` (= `push`) on Unix: an absolute `name` replaces `base`; a separator is added unless
`base` is empty or already ends in one; nothing is normalised -/
def joinPath (base name : Bytes) : Bytes :=
  if name.head? = some 47 then name
  else if base = [] ∨ base.getLast? = some 47 then base ++ name
  else base ++ [47] ++ name

def endsWith (s suf : Bytes) : Bool := s.length ≥ suf.length && s.drop (s.length - suf.length) == suf

def suffixes : List Bytes := RucteTables.templateSuffixes.map str
def suffixSkipLen : Nat := (str RucteTables.suffixSkip).length

def modRsHeader : Bytes := str "#[allow(clippy::useless_attribute, unused)]\nuse super::{Html,ToHtml};\n"

def templateDecl (name : Bytes) : Bytes :=
  str "#[doc(hidden)]\nmod template_" ++ name ++ str ";\n#[doc(inline)]\npub use self::template_" ++ name ++
  str "::" ++ name ++ str ";\n\n"

variable (uniEsc uniAlnum : Nat → Bool)

/-- `handle_template`: (declared?, new state) -/
def handleTemplate (o : Log) (name path outdir content : Bytes) : Bool × Log :=
  let o := o.read path
  match template (8 * content.length + 16) content with
  | .ok _ t =>
    (true, writeIfChanged o (joinPath outdir (str "template_" ++ name ++ str ".rs")) (writeRust uniEsc t name))
  | .err es =>
    let o := o.print (str "cargo:warning=Template parse error in " ++ strDebug uniEsc path ++ str ":")
    let diag := showErrors content es (str "cargo:warning=")
    -- `show_errors` prints whole lines; split them for the line log
    let lines := (diag.splitOn 10).dropLast
    (false, { o with stdout := o.stdout ++ lines })
  | _ => (false, o.print (str "PANIC"))

/-- template-file handling for one directory entry name: all matching suffixes, in table order -/
def handleFile (o : Log) (f : Bytes) (fname path outdir content : Bytes) : List Bytes → Bytes × Log
  | [] => (f, o)
  | suf :: rest =>
    if endsWith fname suf then
      let o := o.print (str "cargo:rerun-if-changed=" ++ path)
      let prename := fname.take (fname.length - suf.length)
      let name := prename ++ [95] ++ suf.drop suffixSkipLen
      let (declared, o) := handleTemplate uniEsc o name path outdir content
      let f := if declared then f ++ templateDecl name else f
      handleFile o f fname path outdir content rest
    else handleFile o f fname path outdir content rest

mutual
/-- `handle_entries` over the entries of one directory, in `read_dir` order -/
def handleEntries (o : Log) (f : Bytes) (indir outdir : Bytes) : List Entry → Bytes × Log
  | [] => (f, o)
  | .dir name sub :: rest =>
    if validUtf8 name then
      let outdir' := joinPath outdir name
      let (modrs, o) := handleDir o modRsHeader (joinPath indir name) outdir' sub
      let o := writeIfChanged o (joinPath outdir' (str "mod.rs")) modrs
      handleEntries o (f ++ str "pub mod " ++ name ++ str ";\n\n") indir outdir rest
    else handleEntries o f indir outdir rest
  | .file name content :: rest =>
    if validUtf8 name then
      let (f, o) := handleFile uniEsc o f name (joinPath indir name) outdir content suffixes
      handleEntries o f indir outdir rest
    else handleEntries o f indir outdir rest
/-- `handle_entries` for a directory: the rerun line, then its entries -/
def handleDir (o : Log) (f : Bytes) (indir outdir : Bytes) (entries : List Entry) : Bytes × Log :=
  let o := (o.read indir).print (str "cargo:rerun-if-changed=" ++ indir)
  handleEntries o f indir outdir entries
end

/-! ## Build scripts -/

/-- One call of the public API, with the part of the input tree it looks at attached
(directory listings in `read_dir` order; file contents where the file is read). -/
inductive Op where
  | compileTemplates (indir : Bytes) (entries : List Entry)
  | addFile (path : Bytes) (content : Bytes)
  | addFiles (indir : Bytes) (entries : List Entry)
  | addFileAs (path url : Bytes)
  | addFilesAs (indir to : Bytes) (entries : List Entry)
  | addFileData (path data : Bytes)
  /-- a call whose directory could not be listed / whose file could not be opened: the line for the path
  is printed first (every call prints before it looks), then the call returns `Err` and adds nothing.
  What the build script does with the error (stop, or go on) is the script's business. -/
  | failed (static : Bool) (path : Bytes)

structure Build where
  out : Log
  f : Bytes                       -- the text of templates.rs so far
  statics : Option Statics        -- `Some` once `statics()` was called

def utilsDecl : Bytes := str "#[doc(hidden)]\nmod _utils;\n#[doc(inline)]\npub use self::_utils::*;\n\n"

/-- `Ructe::new(outdir)` (feature warp03 off) -/
def Build.new (outdir utilsRs : Bytes) : Build :=
  let tdir := joinPath outdir (str "templates")
  let o := writeIfChanged {} (joinPath tdir (str "_utils.rs")) utilsRs
  { out := o, f := str "pub mod templates {\n" ++ utilsDecl, statics := none }

def Build.withStatics (feat : MimeFeature) (b : Build) : Build :=
  match b.statics with
  | some _ => b
  | none => { b with f := b.f ++ str "pub mod statics;", statics := some (Statics.new feat) }

/-- `add_files_as`, recursive over sub-directories -/
def addFilesAs (dirLine : Bool) : Log → Statics → Bytes → Bytes → List Entry → Log × Statics
  | o, s, _, _, [] => (o, s)
  | o, s, indir, to, .file name _ :: rest =>
    let to' := if to = [] then name else to ++ [47] ++ name
    let path := joinPath indir name
    let o := (o.read path).print (str "cargo:rerun-if-changed=" ++ path)
    addFilesAs dirLine o (s.addAs uniEsc uniAlnum path to') indir to rest
  | o, s, indir, to, .dir name sub :: rest =>
    let to' := if to = [] then name else to ++ [47] ++ name
    let path := joinPath indir name
    let o := o.read path
    let o := if dirLine then o.print (str "cargo:rerun-if-changed=" ++ path) else o
    let (o, s) := addFilesAs dirLine o s path to' sub
    addFilesAs dirLine o s indir to rest

def addFilesFlat : Log → Statics → Bytes → List Entry → Log × Statics
  | o, s, _, [] => (o, s)
  | o, s, indir, .file name content :: rest =>
    let path := joinPath indir name
    match nameAndExt (baseName path) with
    | some _ =>
      let o := (o.read path).print (str "cargo:rerun-if-changed=" ++ path)
      addFilesFlat o (s.addHashed uniEsc uniAlnum path content (.file path)) indir rest
    | none => addFilesFlat o s indir rest
  | o, s, indir, .dir _ _ :: rest => addFilesFlat o s indir rest

def Build.step (feat : MimeFeature) (outdir : Bytes) (b : Build) : Op → Build
  | .compileTemplates indir entries =>
    let (f, o) := handleDir uniEsc b.out b.f indir (joinPath outdir (str "templates")) entries
    { b with out := o, f := f }
  | .addFile path content =>
    let b := b.withStatics feat
    match b.statics, nameAndExt (baseName path) with
    | some s, some _ =>
      let o := (b.out.read path).print (str "cargo:rerun-if-changed=" ++ path)
      { b with out := o, statics := some (s.addHashed uniEsc uniAlnum path content (.file path)) }
    | _, _ => b
  | .addFiles indir entries =>
    let b := b.withStatics feat
    match b.statics with
    | some s =>
      let o := (b.out.read indir).print (str "cargo:rerun-if-changed=" ++ indir)
      let (o, s) := addFilesFlat uniEsc uniAlnum o s indir entries
      { b with out := o, statics := some s }
    | none => b
  | .addFileAs path url =>
    let b := b.withStatics feat
    match b.statics with
    | some s =>
      let o := (b.out.read path).print (str "cargo:rerun-if-changed=" ++ path)
      { b with out := o, statics := some (s.addAs uniEsc uniAlnum path url) }
    | none => b
  | .addFilesAs indir to entries =>
    let b := b.withStatics feat
    match b.statics with
    | some s =>
      let o := (b.out.read indir).print (str "cargo:rerun-if-changed=" ++ indir)
      let (o, s) := addFilesAs uniEsc uniAlnum true o s indir to entries
      { b with out := o, statics := some s }
    | none => b
  | .addFileData path data =>
    let b := b.withStatics feat
    match b.statics with
    | some s => { b with statics := some (s.addHashed uniEsc uniAlnum path data (.data data)) }
    | none => b
  | .failed static path =>
    let b := if static then b.withStatics feat else b
    { b with out := (b.out.read path).print (str "cargo:rerun-if-changed=" ++ path) }

/-- the two `Drop`s: `statics.rs` first, then the closing brace and `templates.rs` -/
def Build.finish (outdir : Bytes) (b : Build) : Log :=
  let o := match b.statics with
    | some s => writeIfChanged b.out (joinPath (joinPath outdir (str "templates")) (str "statics.rs")) s.finish
    | none => b.out
  writeIfChanged o (joinPath outdir (str "templates.rs")) (b.f ++ str "}\n")

/-- what one complete run of a build script asks for -/
def buildLog (feat : MimeFeature) (outdir utilsRs : Bytes) (ops : List Op) : Log :=
  (ops.foldl (Build.step uniEsc uniAlnum feat outdir) (Build.new outdir utilsRs)).finish outdir

/-- one complete run of a build script on the prior OUT_DIR state `fs` -/
def build (feat : MimeFeature) (fs : FS) (outdir utilsRs : Bytes) (ops : List Op) : Out :=
  runLog fs (buildLog uniEsc uniAlnum feat outdir utilsRs ops)

/-- identifier → URL name after the script (`get_names()`) -/
def namesAfter (feat : MimeFeature) (outdir utilsRs : Bytes) (ops : List Op) : List (Bytes × Bytes) :=
  match (ops.foldl (Build.step uniEsc uniAlnum feat outdir) (Build.new outdir utilsRs)).statics with
  | some s => s.names
  | none => []

end Ructe
