/-!
# nom 8.0.0 `complete` combinators over `List UInt8`

Transcribed from the nom-8.0.0 crate source (see DESIGN.md §3.1).  Only the *visible* error
entries (`Context`, `Char`) are kept, because `show_errors` prints nothing else.
`Res.panic` is a real outcome of the real code (`Satisfy` on byte input), `Res.oom` is the
model's own "fuel exhausted" outcome (shown unreachable by the fuel-adequacy theorems).
This file imports nothing, so that it links into the `driver` executable.
-/
namespace Nom

abbrev Bytes := List UInt8

inductive Msg where
  | ctx (s : String)
  | chr (c : UInt8)
deriving Repr, DecidableEq

structure EEntry where
  rem : Nat      -- length of the remaining input at the error position (pos = total - rem)
  msg : Msg
deriving Repr, DecidableEq

abbrev Errs := List EEntry

inductive Res (α : Type) where
  | ok (rest : Bytes) (v : α)
  | err (e : Errs)
  | oom
  | panic
deriving Repr

abbrev Parser (α : Type) := Bytes → Res α

def str (s : String) : Bytes := s.toUTF8.toList

def isPrefix : Bytes → Bytes → Option Bytes
  | [], r => some r
  | _ :: _, [] => none
  | a :: as, b :: bs => if a = b then isPrefix as bs else none

def tag (t : Bytes) : Parser Bytes := fun inp =>
  match isPrefix t inp with
  | some r => .ok r t
  | none => .err []

def char (c : UInt8) : Parser UInt8 := fun inp =>
  match inp with
  | b :: r => if b = c then .ok r c else .err [⟨inp.length, .chr c⟩]
  | [] => .err [⟨0, .chr c⟩]

def span (p : UInt8 → Bool) : Bytes → Bytes × Bytes
  | [] => ([], [])
  | b :: r => if p b then let (a, c) := span p r; (b :: a, c) else ([], b :: r)

/-- `is_not(set)`: longest nonempty prefix with no byte in `set`. -/
def isNot (set : Bytes) : Parser Bytes := fun inp =>
  match span (fun b => !set.contains b) inp with
  | ([], _) => .err []
  | (a, r) => .ok r a

def isA (set : Bytes) : Parser Bytes := fun inp =>
  match span (fun b => set.contains b) inp with
  | ([], _) => .err []
  | (a, r) => .ok r a

/-- nom `Satisfy` on `&[u8]`: advances by `char::len_utf8(byte as char)`, i.e. 2 for bytes ≥ 0x80,
and panics (slice index out of range) if fewer bytes remain. -/
def satisfyAdvance (b : UInt8) (r : Bytes) : Res UInt8 :=
  if b < 0x80 then .ok r b else
  match r with
  | _ :: r' => .ok r' b
  | [] => .panic

def oneOf (set : Bytes) : Parser UInt8 := fun inp =>
  match inp with
  | b :: r => if set.contains b then satisfyAdvance b r else .err []
  | [] => .err []

def noneOf (set : Bytes) : Parser UInt8 := fun inp =>
  match inp with
  | b :: r => if set.contains b then .err [] else satisfyAdvance b r
  | [] => .err []

def pmap {α β} (p : Parser α) (f : α → β) : Parser β := fun inp =>
  match p inp with
  | .ok r v => .ok r (f v)
  | .err e => .err e
  | .oom => .oom
  | .panic => .panic

def mapRes {α β} (p : Parser α) (f : α → Option β) : Parser β := fun inp =>
  match p inp with
  | .ok r v => match f v with
    | some w => .ok r w
    | none => .err []
  | .err e => .err e
  | .oom => .oom
  | .panic => .panic

def value {α β} (v : β) (p : Parser α) : Parser β := pmap p (fun _ => v)

def recognize {α} (p : Parser α) : Parser Bytes := fun inp =>
  match p inp with
  | .ok r _ => .ok r (inp.take (inp.length - r.length))
  | .err e => .err e
  | .oom => .oom
  | .panic => .panic

def seq {α β} (p : Parser α) (q : Parser β) : Parser (α × β) := fun inp =>
  match p inp with
  | .ok r a => match q r with
    | .ok r' b => .ok r' (a, b)
    | .err e => .err e
    | .oom => .oom
    | .panic => .panic
  | .err e => .err e
  | .oom => .oom
  | .panic => .panic

def preceded {α β} (p : Parser α) (q : Parser β) : Parser β := pmap (seq p q) (·.2)
def terminated {α β} (p : Parser α) (q : Parser β) : Parser α := pmap (seq p q) (·.1)
def delimited {α β γ} (p : Parser α) (q : Parser β) (s : Parser γ) : Parser β :=
  preceded p (terminated q s)

def orElse {α} (p q : Parser α) : Parser α := fun inp =>
  match p inp with
  | .err _ => q inp
  | r => r

/-- n-ary `alt`: error of the last alternative (VerboseError::or keeps `other`; the Alt entry is invisible). -/
def alt {α} : List (Parser α) → Parser α
  | [] => fun _ => .err []
  | [p] => p
  | p :: ps => orElse p (alt ps)

def opt {α} (p : Parser α) : Parser (Option α) := fun inp =>
  match p inp with
  | .ok r v => .ok r (some v)
  | .err _ => .ok inp none
  | .oom => .oom
  | .panic => .panic

def context {α} (msg : String) (p : Parser α) : Parser α := fun inp =>
  match p inp with
  | .err e => .err (e ++ [⟨inp.length, .ctx msg⟩])
  | r => r

def pnot {α} (p : Parser α) : Parser Unit := fun inp =>
  match p inp with
  | .ok _ _ => .err []
  | .err _ => .ok inp ()
  | .oom => .oom
  | .panic => .panic

def many0Go {α} (p : Parser α) : Nat → Bytes → List α → Res (List α)
  | 0, _, _ => .oom
  | n+1, inp, acc =>
    match p inp with
    | .err _ => .ok inp acc.reverse
    | .oom => .oom
    | .panic => .panic
    | .ok r v => if r.length = inp.length then .err [] else many0Go p n r (v :: acc)

def many0 {α} (p : Parser α) : Parser (List α) := fun inp => many0Go p (inp.length + 1) inp []

def manyTillGo {α β} (f : Parser α) (g : Parser β) : Nat → Bytes → List α → Res (List α × β)
  | 0, _, _ => .oom
  | n+1, inp, acc =>
    match g inp with
    | .ok r o => .ok r (acc.reverse, o)
    | .oom => .oom
    | .panic => .panic
    | .err _ =>
      match f inp with
      | .err e => .err e      -- + invisible ManyTill entry
      | .oom => .oom
      | .panic => .panic
      | .ok r v => if r.length = inp.length then .err [] else manyTillGo f g n r (v :: acc)

def manyTill {α β} (f : Parser α) (g : Parser β) : Parser (List α × β) :=
  fun inp => manyTillGo f g (inp.length + 1) inp []

def sepLoop {α β} (sep : Parser β) (p : Parser α) : Nat → Bytes → List α → Res (List α)
  | 0, _, _ => .oom
  | n+1, inp, acc =>
    match sep inp with
    | .err _ => .ok inp acc.reverse
    | .oom => .oom
    | .panic => .panic
    | .ok r1 _ =>
      match p r1 with
      | .err _ => .ok inp acc.reverse
      | .oom => .oom
      | .panic => .panic
      | .ok r2 v => if r2.length = inp.length then .err [] else sepLoop sep p n r2 (v :: acc)

def sepList0 {α β} (sep : Parser β) (p : Parser α) : Parser (List α) := fun inp =>
  match p inp with
  | .err _ => .ok inp []
  | .oom => .oom
  | .panic => .panic
  | .ok r v => sepLoop sep p (r.length + 1) r [v]

def sepList1 {α β} (sep : Parser β) (p : Parser α) : Parser (List α) := fun inp =>
  match p inp with
  | .err e => .err e
  | .oom => .oom
  | .panic => .panic
  | .ok r v => sepLoop sep p (r.length + 1) r [v]

def isSpace (b : UInt8) : Bool := b = 32 || b = 9 || b = 10 || b = 13
def isAlpha (b : UInt8) : Bool := (65 ≤ b && b ≤ 90) || (97 ≤ b && b ≤ 122)
def isDigit (b : UInt8) : Bool := 48 ≤ b && b ≤ 57

def multispace0 : Parser Bytes := fun inp => let (a, r) := span isSpace inp; .ok r a
def take1 (p : UInt8 → Bool) : Parser Bytes := fun inp =>
  match span p inp with
  | ([], _) => .err []
  | (a, r) => .ok r a
def multispace1 : Parser Bytes := take1 isSpace
def alpha1 : Parser Bytes := take1 isAlpha
def digit1 : Parser Bytes := take1 isDigit

/-- nom `escaped(normal, ctl, escapable)` in complete mode, transcribed loop. -/
def escapedGo {α β} (normal : Parser α) (ctl : UInt8) (escapable : Parser β)
    (input : Bytes) : Nat → Bytes → Res Bytes
  | 0, _ => .oom
  | n+1, i =>
    if i.length = 0 then .ok [] input else
    match normal i with
    | .oom => .oom
    | .panic => .panic
    | .ok i2 _ =>
      if i2.length = 0 then .ok [] input
      else if i2.length = i.length then .ok i2 (input.take (input.length - i2.length))
      else escapedGo normal ctl escapable input n i2
    | .err _ =>
      match i with
      | [] => .oom
      | b :: rest =>
        if b = ctl then
          if 1 ≥ i.length then .err []
          else match escapable rest with
            | .oom => .oom
            | .panic => .panic
            | .err e => .err e
            | .ok i2 _ => if i2.length = 0 then .ok [] input else escapedGo normal ctl escapable input n i2
        else
          let index := input.length - i.length
          if index = 0 then .err [] else .ok i (input.take index)

def escaped {α β} (normal : Parser α) (ctl : UInt8) (escapable : Parser β) : Parser Bytes :=
  fun inp => escapedGo normal ctl escapable inp (inp.length + 1) inp

end Nom