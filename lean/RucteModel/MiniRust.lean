import RucteModel.Exec
open Nom

/-!
# A concrete `Sem`: the mini-Rust of the end-to-end generator

Only used by the driver to compute the expected rendering of *generated, typed* templates for
concrete argument values (the theorems quantify over every `Sem`).  Fragments outside this
little language evaluate to a marker so that a disagreement is visible.
-/
namespace Ructe.Mini

inductive Tok where
  | id (s : Bytes)
  | num (n : Nat)
  | str (s : Bytes)
  | sym (s : String)
deriving Repr, DecidableEq, Inhabited

def isIdStart (b : UInt8) : Bool := isAlpha b || b = 95
def isIdChar (b : UInt8) : Bool := isAlpha b || isDigit b || b = 95

def syms2 : List String := ["==", "!=", "<=", ">=", "&&", "||", ".."]

partial def lex (s : Bytes) (acc : Array Tok) : Array Tok :=
  match s with
  | [] => acc
  | b :: r =>
    if b = 32 || b = 10 || b = 9 || b = 13 then lex r acc
    else if isIdStart b then
      let (a, rest) := span isIdChar s
      lex rest (acc.push (.id a))
    else if isDigit b then
      let (a, rest) := span isDigit s
      lex rest (acc.push (.num (a.foldl (fun n d => n * 10 + (d.toNat - 48)) 0)))
    else if b = 34 then
      -- a string literal: up to the next unescaped quote, decoded with the literal model
      let rec findEnd (t : Bytes) (acc : Bytes) : Bytes × Bytes :=
        match t with
        | 92 :: c :: t' => findEnd t' (c :: 92 :: acc)
        | 34 :: t' => (acc.reverse, t')
        | c :: t' => findEnd t' (c :: acc)
        | [] => (acc.reverse, [])
      let (body, rest) := findEnd r []
      let v := match decodeStrLit ([34] ++ body ++ [34]) with | some v => v | none => body
      lex rest (acc.push (.str v))
    else
      match r with
      | c :: r' =>
        let two := String.fromUTF8! ⟨#[b, c]⟩
        if b < 0x80 && c < 0x80 && syms2.contains two then
          -- `..=`
          if two == ".." then
            match r' with
            | 61 :: r'' => lex r'' (acc.push (.sym "..="))
            | _ => lex r' (acc.push (.sym ".."))
          else lex r' (acc.push (.sym two))
        else lex r (acc.push (.sym (if b < 0x80 then String.fromUTF8! ⟨#[b]⟩ else "?")))
      | [] => acc.push (.sym (if b < 0x80 then String.fromUTF8! ⟨#[b]⟩ else "?"))

def toks (s : Bytes) : List Tok := (lex s #[]).toList

def bad : Val := .str (str "<?unsupported fragment?>")

def natStrB (n : Nat) : Bytes := (toString n).toUTF8.toList

/-- `Display` pieces of a value (`i32` prints a sign separately) -/
def display : Val → List Bytes
  | .int i => if i < 0 then [[45], natStrB i.natAbs] else [natStrB i.natAbs]
  | .str s => [s]
  | .bool b => [str (if b then "true" else "false")]
  | _ => [str "<?not Display?>"]

/-- atoms: identifier paths, literals, `*x`, `x.len()`, `x.0`, `p.x` -/
def evalAtom (env : Env) : List Tok → Option (Val × List Tok)
  | .sym "*" :: r => evalAtom env r
  | .sym "&" :: r => evalAtom env r
  | .num n :: r => some (.int n, r)
  | .sym "-" :: .num n :: r => some (.int (-(n : Int)), r)
  | .str s :: r => some (.str s, r)
  | .id x :: r =>
    if x = str "true" then some (.bool true, r) else if x = str "false" then some (.bool false, r) else
    match env.get x with
    | none => none
    | some v =>
      match r, v with
      | .sym "." :: .id f :: .sym "(" :: .sym ")" :: r', .list l =>
        if f = str "len" then some (.int l.length, r') else some (v, r)
      | .sym "." :: .id f :: .sym "(" :: .sym ")" :: r', .str s =>
        if f = str "len" then some (.int s.length, r')
        else if f = str "clone" || f = str "to_string" || f = str "to_owned" then some (v, r')   -- an owned copy displays alike
        else some (v, r)
      | .sym "." :: .num i :: r', .tup l => (l[i]?).map (·, r')
      | .sym "." :: .id f :: r', .pt x y =>
        if f = str "x" then some (.int x, r') else if f = str "y" then some (.int y, r') else none
      | _, _ => some (v, r)
  | _ => none

def arith (op : String) (a b : Val) : Option Val :=
  match a, b with
  | .int x, .int y =>
    if op == "+" then some (.int (x + y)) else if op == "-" then some (.int (x - y))
    else if op == "*" then some (.int (x * y)) else none
  | _, _ => none

/-- `atom (op atom)*` for `+ - *` left to right (the generator only emits one operator) -/
def evalSum (env : Env) (ts : List Tok) : Option (Val × List Tok) :=
  match evalAtom env ts with
  | none => none
  | some (a, .sym op :: r) =>
    if op == "+" || op == "-" then
      match evalAtom env r with
      | some (b, r') => (arith op a b).map (·, r')
      | none => none
    else some (a, .sym op :: r)
  | some p => some p

def valEq : Val → Val → Bool
  | .int a, .int b => a == b
  | .str a, .str b => a == b
  | .bool a, .bool b => a == b
  | _, _ => false

def cmp (op : String) (a b : Val) : Option Bool :=
  if op == "==" then some (valEq a b) else if op == "!=" then some (!valEq a b) else
  match a, b with
  | .int x, .int y =>
    if op == "<" then some (x < y) else if op == "<=" then some (x ≤ y)
    else if op == ">" then some (x > y) else if op == ">=" then some (x ≥ y) else none
  | _, _ => none

/-- `[!] sum [cmp sum]` -/
def evalCmp (env : Env) (ts : List Tok) : Option (Bool × List Tok) :=
  let (neg, ts) := match ts with | .sym "!" :: r => (true, r) | _ => (false, ts)
  match evalSum env ts with
  | none => none
  | some (a, .sym op :: r) =>
    if ["==", "!=", "<", "<=", ">", ">="].contains op then
      match evalSum env r with
      | some (b, r') => (cmp op a b).map fun v => (if neg then !v else v, r')
      | none => none
    else match a with
      | .bool v => some (if neg then !v else v, .sym op :: r)
      | _ => none
  | some (.bool v, r) => some (if neg then !v else v, r)
  | _ => none

/-- `cmp (&& cmp)* (|| …)*` with Rust precedence (`&&` binds tighter) -/
partial def evalOr (env : Env) (ts : List Tok) : Option Bool :=
  let rec andChain (ts : List Tok) : Option (Bool × List Tok) :=
    match evalCmp env ts with
    | some (a, .sym "&&" :: r) => (andChain r).map fun (b, r') => (a && b, r')
    | x => x
  match andChain ts with
  | some (a, .sym "||" :: r) => (evalOr env r).map (a || ·)
  | some (a, []) => some a
  | _ => none

/-- bind a pattern against a value: names, `_`, `Some(p)`, `None`, `(p, q)`, `&p`, `Pt{x, y}`, literals -/
partial def bindPat (ts : List Tok) (v : Val) : Option (Env × List Tok) :=
  match ts, v with
  | .sym "&" :: r, _ => bindPat r v
  | .sym "_" :: r, _ => some ([], r)
  | .id x :: r, _ =>
    if x = str "None" then (match v with | .opt none => some ([], r) | _ => none)
    else if x = str "Some" then
      match r, v with
      | .sym "(" :: r', .opt (some w) =>
        (bindPat r' w).bind fun (e, r'') => match r'' with | .sym ")" :: r3 => some (e, r3) | _ => none
      | _, _ => none
    else if x = str "Pt" then
      match r, v with
      | .sym "{" :: .id a :: .sym "," :: .id b :: .sym "}" :: r', .pt px py => some ([(a, .int px), (b, .int py)], r')
      | _, _ => none
    else if x = str "_" then some ([], r)
    else some ([(x, v)], r)
  | .num n :: r, .int i => if i = n then some ([], r) else none
  | .str s :: r, .str t => if s = t then some ([], r) else none
  | .sym "(" :: r, .tup l =>
    let rec go (ts : List Tok) (l : List Val) (acc : Env) : Option (Env × List Tok) :=
      match l with
      | [] => (match ts with | .sym ")" :: r => some (acc, r) | _ => none)
      | w :: ws =>
        (bindPat ts w).bind fun (e, r) =>
          match r, ws with
          | .sym "," :: r', _ :: _ => go r' ws (acc ++ e)
          | _, [] => go r ws (acc ++ e)
          | _, _ => none
    go r l []
  | _, _ => none

def iterValues (env : Env) (ts : List Tok) : List Val :=
  -- `a..b`, `a..=b`, `xs`, `xs.iter().enumerate()`
  match evalSum env ts with
  | some (.int a, .sym ".." :: r) =>
    (match evalSum env r with
     | some (.int b, _) => (List.range (b - a).toNat).map fun (i : Nat) => Val.int (a + (i : Int))
     | _ => [])
  | some (.int a, .sym "..=" :: r) =>
    (match evalSum env r with
     | some (.int b, _) => (List.range (b + 1 - a).toNat).map fun (i : Nat) => Val.int (a + (i : Int))
     | _ => [])
  | some (.list l, .sym "." :: .id f :: .sym "(" :: .sym ")" :: .sym "." :: .id g :: _) =>
    if f = str "iter" && g = str "enumerate" then
      (l.zip (List.range l.length)).map fun (v, i) => Val.tup [.int i, v]
    else l
  | some (.list l, _) => l
  | _ => []

/-- the concrete semantics of fragments -/
def sem : Sem where
  html e env :=
    match toks e with
    | .id h :: .sym "(" :: r =>
      if h = str "Html" then
        match evalSum env r with
        | some (v, _) => .raw (display v)
        | none => .esc (display bad)
      else match evalSum env (toks e) with
        | some (v, _) => .esc (display v)
        | none => .esc (display bad)
    | .sym "(" :: r =>
      match evalSum env r with
      | some (v, _) => .esc (display v)
      | none => .esc (display bad)
    | ts => match evalSum env ts with
      | some (v, _) => .esc (display v)
      | none => .esc (display bad)
  cond c env :=
    match toks c with
    | .id l :: r =>
      if l = str "let" then
        -- `let PAT = EXPR`
        let rec splitEq (ts : List Tok) (acc : List Tok) : Option (List Tok × List Tok) :=
          match ts with
          | .sym "=" :: r => some (acc.reverse, r)
          | t :: r => splitEq r (t :: acc)
          | [] => none
        match splitEq r [] with
        | some (pat, rhs) =>
          (match evalSum env rhs with
           | some (v, _) => (bindPat pat v).map fun (e, _) => e ++ env
           | none => none)
        | none => none
      else match evalOr env (toks c) with
        | some true => some env
        | _ => none
    | ts => match evalOr env ts with
      | some true => some env
      | _ => none
  iter pat it env :=
    (iterValues env (toks it)).filterMap fun v => (bindPat (toks pat) v).map fun (e, _) => e ++ env
  arm e pats env :=
    match evalSum env (toks e) with
    | some (v, _) =>
      let rec go (ps : List Bytes) (i : Nat) : Option (Nat × Env) :=
        match ps with
        | [] => none
        | p :: r => match bindPat (toks p) v with
          | some (b, _) => some (i, b ++ env)
          | none => go r (i + 1)
      go pats 0
    | none => none
  arg e env :=
    match evalSum env (toks e) with
    | some (v, _) => v
    | none => bad

end Ructe.Mini
