import RucteModel.Expr
import RucteProofs.Complete

/-!
# Parser-level lemmas for the chain of `expression` (used by `RucteProps/C05Chain.lean`)

* the prefix operator (`prefix_amp`, `prefix_star`, `prefix_none`) and the assembly of `expression`
  from prefix, atom and chain (`expression_of_parts'`);
* each arm of `exprAtom` (`exprAtom_name`, `exprAtom_digits`, `exprAtom_str`, `exprAtom_parens`,
  `exprAtom_brackets`);
* each arm of `chainStep`, taken (`chainStep_dot_ok`, `chainStep_path_ok`, `chainStep_paren`,
  `chainStep_brace`, `chainStep_bracket`, `chainStep_bangParen`, `chainStep_bangBracket`) or refused
  (`chainStep_stop`, `chainStep_dot`, `chainStep_colon`, `chainStep_path`, `chainStep_bang`);
* a decidable sufficient condition for "the chain stops here" (`stopsB`, `chainStep_stopsB`).
-/
namespace Ructe
open Nom

/-! ## UTF-8: concatenation of valid strings -/

theorem validUtf8_append (a b : Bytes) (ha : validUtf8 a = true) (hb : validUtf8 b = true) :
    validUtf8 (a ++ b) = true := by
  fun_induction validUtf8 a with
  | case1 => simpa using hb
  | case2 b0 r h0 ih => 
    rw [List.cons_append, validUtf8_cons_ascii _ _ h0]
    exact ih ha
  | case3 b0 h0 h1 c r' ih => 
    rw [List.cons_append, List.cons_append, validUtf8_cons]
    simp only [h0, h1, if_false, if_true, Bool.and_eq_true] at ha ⊢
    exact ⟨ha.1, ih ha.2⟩
  | case5 b0 h0 h1 h2 c d r' ih =>
    rw [List.cons_append, List.cons_append, List.cons_append, validUtf8_cons]
    simp only [h0, h1, h2, if_false, if_true, Bool.false_eq_true, Bool.and_eq_true] at ha ⊢
    exact ⟨ha.1, ih ha.2⟩
  | case7 b0 h0 h1 h2 h3 c d e r' ih => 
    rw [List.cons_append, List.cons_append, List.cons_append, List.cons_append, validUtf8_cons]
    simp only [h0, h1, h2, h3, if_false, if_true, Bool.false_eq_true, Bool.and_eq_true] at ha ⊢
    exact ⟨ha.1, ih ha.2⟩
  | case4 | case6 | case8 | case9 => exact absurd ha (by simp)
/-! ## prefix operator -/

/-- the optional prefix operator of an expression -/
def exprPrefix : Parser Bytes := alt [tag [38], tag [42], tag []]

theorem prefix_amp (x : Bytes) : exprPrefix (38 :: x) = .ok x [38] := by
  simp only [exprPrefix, alt, orElse, tag_one]

theorem prefix_star (x : Bytes) : exprPrefix (42 :: x) = .ok x [42] := by
  have h1 : tag [38] (42 :: x) = .err [] := tag_cons_ne _ _ _ _ (by decide)
  simp only [exprPrefix, alt, orElse, h1, tag_one]

theorem prefix_none (inp : Bytes) (h : ∀ b x, inp = b :: x → b ≠ 38 ∧ b ≠ 42) :
    exprPrefix inp = .ok inp [] := by
  have h1 : tag [38] inp = .err [] := tag_ne _ _ _ (fun x e => (h 38 x e).1 rfl)
  have h2 : tag [42] inp = .err [] := tag_ne _ _ _ (fun x e => (h 42 x e).2 rfl)
  simp only [exprPrefix, alt, orElse, h1, h2, tag_nil]

/-- from the parts to `expression` -/
theorem expression_of_parts' (n : Nat) (whole rest i1 r1 pv a : Bytes)
    (hpre : exprPrefix (whole ++ rest) = .ok i1 pv)
    (hatom : exprAtom n i1 = .ok r1 a) (hchain : foldMany0 (chainStep n) r1 = .ok rest ())
    (hv : validUtf8 whole = true) :
    expression (n + 1) (whole ++ rest) = .ok rest whole := by
  rw [expression_eq]
  apply mapRes_toStr_of _ hv
  apply recognize_ok_of (v := (pv, a, ()))
  exact context_ok _ (seq_of hpre (seq_of hatom hchain))

/-! ## the atoms -/

theorem exprAtom_name (n : Nat) {inp r v : Bytes} (h : rustName inp = .ok r v) :
    exprAtom n inp = .ok r v :=
  alt_cons_ok h

theorem digit_not_nameStart (d : UInt8) (hd : isDigit d = true) : isAlpha d = false ∧ d ≠ 95 := by
  have := forall_u8 (fun d => !isDigit d || (!isAlpha d && d != 95)) (by decide +kernel) d
  simpa [hd] using this

theorem digit_ascii (d : UInt8) (hd : isDigit d = true) : d < 0x80 := by
  have := forall_u8 (fun d => !isDigit d || decide (d < 0x80)) (by decide +kernel) d
  simpa [hd] using this

/-- a maximal run of digits -/
theorem exprAtom_digits (n : Nat) (d : UInt8) (ds rest : Bytes) (hd : isDigit d = true)
    (hds : ds.all isDigit = true) (hr : ∀ c r, rest = c :: r → isDigit c = false) :
    exprAtom n (d :: ds ++ rest) = .ok rest (d :: ds) := by
  have h1 : rustName (d :: ds ++ rest) = .err [] :=
    rustName_head _ (fun b x e => by
      obtain ⟨rfl, _⟩ := List.cons.inj e
      exact digit_not_nameStart _ hd)
  have hs : span isDigit (ds ++ rest) = (ds, rest) := by
    rw [span_all isDigit ds rest hds, span_stop isDigit rest hr]; simp
  have h2 : digit1 (d :: ds ++ rest) = .ok rest (d :: ds) := by
    show take1 isDigit (d :: (ds ++ rest)) = _
    rw [take1_cons_true isDigit d _ hd, hs]
  have hv : validUtf8 (d :: ds) = true := by
    apply validUtf8_ascii
    intro c hc
    rcases List.mem_cons.mp hc with rfl | hc
    · exact digit_ascii _ hd
    · exact digit_ascii _ (List.all_eq_true.mp hds c hc)
  simp only [exprAtom, alt, orElse, h1, mapRes_toStr_of h2 hv]

theorem exprAtom_str (n : Nat) {x r v : Bytes} (h : quotedString (34 :: x) = .ok r v) :
    exprAtom n (34 :: x) = .ok r v := by
  have h1 : rustName (34 :: x) = .err [] :=
    rustName_head _ (fun b y e => by obtain ⟨rfl, _⟩ := List.cons.inj e; decide)
  have h2 : mapRes digit1 toStr (34 :: x) = .err [] :=
    digit1_head _ (fun b y e => by obtain ⟨rfl, _⟩ := List.cons.inj e; decide)
  simp only [exprAtom, alt, orElse, h1, h2, h]

theorem exprAtom_parens (n : Nat) {x r v : Bytes} (h : exprInParens n (40 :: x) = .ok r v) :
    exprAtom n (40 :: x) = .ok r v := by
  have h1 : rustName (40 :: x) = .err [] :=
    rustName_head _ (fun b y e => by obtain ⟨rfl, _⟩ := List.cons.inj e; decide)
  have h2 : mapRes digit1 toStr (40 :: x) = .err [] :=
    digit1_head _ (fun b y e => by obtain ⟨rfl, _⟩ := List.cons.inj e; decide)
  have h3 := quotedString_cons 40 x (by decide)
  simp only [exprAtom, alt, orElse, h1, h2, h3, h]

theorem exprAtom_brackets (m : Nat) {x r v : Bytes} (h : exprInBrackets (m + 1) (91 :: x) = .ok r v) :
    exprAtom (m + 1) (91 :: x) = .ok r v := by
  have h1 : rustName (91 :: x) = .err [] :=
    rustName_head _ (fun b y e => by obtain ⟨rfl, _⟩ := List.cons.inj e; decide)
  have h2 : mapRes digit1 toStr (91 :: x) = .err [] :=
    digit1_head _ (fun b y e => by obtain ⟨rfl, _⟩ := List.cons.inj e; decide)
  have h3 := quotedString_cons 91 x (by decide)
  have h4 := exprInParens_cons m 91 x (by decide)
  simp only [exprAtom, alt, orElse, h1, h2, h3, h4, h]

/-! ## the chain: arms taken -/

/-- `.` + expression -/
theorem chainStep_dot_ok (n : Nat) (y r v : Bytes) (h : expression n y = .ok r v) :
    chainStep n (46 :: y) = .ok r () := by
  have h1 : context "separator" (tag [46]) (46 :: y) = .ok y [46] := context_ok _ (tag_one 46 y)
  exact alt_cons_ok (value_of () (preceded_of h1 h))

/-- `::` + expression -/
theorem chainStep_path_ok (n : Nat) (y r v : Bytes) (h : expression n y = .ok r v) :
    chainStep n (58 :: 58 :: y) = .ok r () := by
  have h1 : tag [46] (58 :: 58 :: y) = .err [] := tag_cons_ne _ _ _ _ (by decide)
  have h2 : tag [58, 58] (58 :: 58 :: y) = .ok y [58, 58] := tag_append [58, 58] y
  simp only [chainStep, alt, orElse, value_err () (preceded_err_left (context_err _ h1)),
    value_of () (preceded_of h2 h)]

/-- `{..}` -/
theorem chainStep_brace (m : Nat) (y r v : Bytes) (h : exprInBraces (m + 1) (123 :: y) = .ok r v) :
    chainStep (m + 1) (123 :: y) = .ok r () := by
  have h1 : tag [46] (123 :: y) = .err [] := tag_cons_ne _ _ _ _ (by decide)
  have h2 : tag [58, 58] (123 :: y) = .err [] := tag_cons_ne _ _ _ _ (by decide)
  have h3 := exprInParens_cons m 123 y (by decide)
  simp only [chainStep, alt, orElse, value_err () (preceded_err_left (context_err _ h1)),
    value_err () (preceded_err_left h2), value_err () h3, value_of () h]

/-- `[..]` -/
theorem chainStep_bracket (m : Nat) (y r v : Bytes) (h : exprInBrackets (m + 1) (91 :: y) = .ok r v) :
    chainStep (m + 1) (91 :: y) = .ok r () := by
  have h1 : tag [46] (91 :: y) = .err [] := tag_cons_ne _ _ _ _ (by decide)
  have h2 : tag [58, 58] (91 :: y) = .err [] := tag_cons_ne _ _ _ _ (by decide)
  have h3 := exprInParens_cons m 91 y (by decide)
  have h4 := exprInBraces_cons m 91 y (by decide)
  simp only [chainStep, alt, orElse, value_err () (preceded_err_left (context_err _ h1)),
    value_err () (preceded_err_left h2), value_err () h3, value_err () h4, value_of () h]

/-- `!(..)` -/
theorem chainStep_bangParen (m : Nat) (y r v : Bytes) (h : exprInParens (m + 1) (40 :: y) = .ok r v) :
    chainStep (m + 1) (33 :: 40 :: y) = .ok r () := by
  have h1 : tag [46] (33 :: 40 :: y) = .err [] := tag_cons_ne _ _ _ _ (by decide)
  have h2 : tag [58, 58] (33 :: 40 :: y) = .err [] := tag_cons_ne _ _ _ _ (by decide)
  have h3 := exprInParens_cons m 33 (40 :: y) (by decide)
  have h4 := exprInBraces_cons m 33 (40 :: y) (by decide)
  have h5 := exprInBrackets_cons m 33 (40 :: y) (by decide)
  have h6 : tag [33] (33 :: 40 :: y) = .ok (40 :: y) [33] := tag_one 33 _
  simp only [chainStep, alt, orElse, value_err () (preceded_err_left (context_err _ h1)),
    value_err () (preceded_err_left h2), value_err () h3, value_err () h4, value_err () h5,
    value_of () (preceded_of h6 h)]

/-- `![..]` -/
theorem chainStep_bangBracket (m : Nat) (y r v : Bytes) (h : exprInBrackets (m + 1) (91 :: y) = .ok r v) :
    chainStep (m + 1) (33 :: 91 :: y) = .ok r () := by
  have h1 : tag [46] (33 :: 91 :: y) = .err [] := tag_cons_ne _ _ _ _ (by decide)
  have h2 : tag [58, 58] (33 :: 91 :: y) = .err [] := tag_cons_ne _ _ _ _ (by decide)
  have h3 := exprInParens_cons m 33 (91 :: y) (by decide)
  have h4 := exprInBraces_cons m 33 (91 :: y) (by decide)
  have h5 := exprInBrackets_cons m 33 (91 :: y) (by decide)
  have h6 : tag [33] (33 :: 91 :: y) = .ok (91 :: y) [33] := tag_one 33 _
  have h7 := exprInParens_cons m 91 y (by decide)
  simp only [chainStep, alt, orElse, value_err () (preceded_err_left (context_err _ h1)),
    value_err () (preceded_err_left h2), value_err () h3, value_err () h4, value_err () h5,
    value_err () (preceded_err_right h6 h7), value_of () (preceded_of h6 h)]

/-! ## the chain: arms refused -/

/-- a single `:` (not followed by `:`) stops the chain -/
theorem chainStep_colon (m : Nat) (y : Bytes) (hy : ∀ t, y ≠ 58 :: t) :
    chainStep (m + 1) (58 :: y) = .err [] := by
  have h1 : tag [46] (58 :: y) = .err [] := tag_cons_ne _ _ _ _ (by decide)
  have h2 : tag [58, 58] (58 :: y) = .err [] := by
    rw [tag_cons_eq]
    cases y with
    | nil => rfl
    | cons c t =>
      have : (58 : UInt8) ≠ c := fun e => hy t (by rw [e])
      simp [isPrefix, this]
  have h3 := exprInParens_cons m 58 y (by decide)
  have h4 := exprInBraces_cons m 58 y (by decide)
  have h5 := exprInBrackets_cons m 58 y (by decide)
  have h6 : tag [33] (58 :: y) = .err [] := tag_cons_ne _ _ _ _ (by decide)
  simp only [chainStep, alt, orElse, value_err () (preceded_err_left (context_err _ h1)),
    value_err () (preceded_err_left h2), value_err () h3, value_err () h4, value_err () h5,
    value_err () (preceded_err_left h6)]

/-- `::` followed by something that is not an expression: the chain stops before the `::` -/
theorem chainStep_path (m : Nat) (y : Bytes) {e : Errs} (h : expression (m + 1) y = .err e) :
    chainStep (m + 1) (58 :: 58 :: y) = .err [] := by
  have h1 : tag [46] (58 :: 58 :: y) = .err [] := tag_cons_ne _ _ _ _ (by decide)
  have h2 : tag [58, 58] (58 :: 58 :: y) = .ok y [58, 58] := tag_append [58, 58] y
  have h3 := exprInParens_cons m 58 (58 :: y) (by decide)
  have h4 := exprInBraces_cons m 58 (58 :: y) (by decide)
  have h5 := exprInBrackets_cons m 58 (58 :: y) (by decide)
  have h6 : tag [33] (58 :: 58 :: y) = .err [] := tag_cons_ne _ _ _ _ (by decide)
  simp only [chainStep, alt, orElse, value_err () (preceded_err_left (context_err _ h1)),
    value_err () (preceded_err_right h2 h), value_err () h3, value_err () h4, value_err () h5,
    value_err () (preceded_err_left h6)]

/-- `!` not followed by `(` or `[` stops the chain -/
theorem chainStep_bang (m : Nat) (y : Bytes) (hy : ∀ t, y ≠ 40 :: t ∧ y ≠ 91 :: t) :
    chainStep (m + 1) (33 :: y) = .err [] := by
  have h1 : tag [46] (33 :: y) = .err [] := tag_cons_ne _ _ _ _ (by decide)
  have h2 : tag [58, 58] (33 :: y) = .err [] := tag_cons_ne _ _ _ _ (by decide)
  have h3 := exprInParens_cons m 33 y (by decide)
  have h4 := exprInBraces_cons m 33 y (by decide)
  have h5 := exprInBrackets_cons m 33 y (by decide)
  have h6 : tag [33] (33 :: y) = .ok y [33] := tag_one 33 _
  have h7 := exprInParens_head m y (fun t => (hy t).1)
  have h8 := exprInBrackets_head m y (fun t => (hy t).2)
  simp only [chainStep, alt, orElse, value_err () (preceded_err_left (context_err _ h1)),
    value_err () (preceded_err_left h2), value_err () h3, value_err () h4, value_err () h5,
    value_err () (preceded_err_right h6 h7), value_err () (preceded_err_right h6 h8)]

/-! ## the loop of the chain -/

theorem foldMany0_of_gabsorbs {s : Parser Unit} {T t : Bytes} (h : GAbsorbs s T t) :
    foldMany0 s t = .ok T () := by
  obtain ⟨vs, hvs⟩ := gabsorbs_many0 h
  exact value_of () hvs

/-! ## a decidable class of followers -/

/-- what may follow `.` or `::` so that no expression starts there -/
def noExprHead : Bytes → Bool
  | [] => true
  | c :: _ => noExprStart c

theorem head_of_noExprHead (y : Bytes) (h : noExprHead y = true) :
    ∀ b x, y = b :: x → noExprStart b = true := by
  intro b x e
  subst e
  exact h

/-- the first one or two (three after `::`) bytes of the follower show that no link of the chain
can start here -/
def stopsB : Bytes → Bool
  | [] => true
  | b :: r =>
    if b = 46 then noExprHead r
    else if b = 58 then
      (match r with
       | [] => true
       | c :: r' => if c = 58 then noExprHead r' else true)
    else if b = 33 then
      (match r with
       | [] => true
       | c :: _ => c != 40 && c != 91)
    else b != 40 && b != 123 && b != 91

theorem chainStep_stopsB (rest : Bytes) (h : stopsB rest = true) (m : Nat) :
    ∃ e, chainStep (m + 2) rest = .err e := by
  cases rest with
  | nil => exact ⟨_, chainStep_stop (m + 1) [] (fun _ _ e => by simp at e)⟩
  | cons b r =>
    simp only [stopsB] at h
    by_cases h46 : b = 46
    · subst h46
      simp only [if_true] at h
      exact ⟨_, chainStep_dot (m + 1) _ (expression_head m r (head_of_noExprHead r h))⟩
    · by_cases h58 : b = 58
      · subst h58
        simp only [h46, if_false, if_true] at h
        cases r with
        | nil => exact ⟨_, chainStep_colon (m + 1) [] (fun _ e => by simp at e)⟩
        | cons c r' =>
          simp only at h
          by_cases hc : c = 58
          · subst hc
            simp only [if_true] at h
            exact ⟨_, chainStep_path (m + 1) _ (expression_head m r' (head_of_noExprHead r' h))⟩
          · exact ⟨_, chainStep_colon (m + 1) (c :: r') (fun t e => hc (List.cons.inj e).1)⟩
      · by_cases h33 : b = 33
        · subst h33
          simp only [h46, h58, if_false, if_true] at h
          cases r with
          | nil => exact ⟨_, chainStep_bang (m + 1) [] (fun _ => ⟨by simp, by simp⟩)⟩
          | cons c r' =>
            have hc : c ≠ 40 ∧ c ≠ 91 := by simpa using h
            exact ⟨_, chainStep_bang (m + 1) (c :: r')
              (fun t => ⟨fun e => hc.1 (List.cons.inj e).1, fun e => hc.2 (List.cons.inj e).1⟩)⟩
        · simp only [h46, h58, h33, if_false] at h
          have hb : b ≠ 40 ∧ b ≠ 123 ∧ b ≠ 91 := by simpa [and_assoc] using h
          refine ⟨_, chainStep_stop (m + 1) (b :: r) ?_⟩
          intro b' x e
          obtain ⟨rfl, _⟩ := List.cons.inj e
          exact ⟨h46, h58, hb.1, hb.2.1, hb.2.2, h33⟩

end Ructe
