import RucteModel.Tpl
import RucteProps.C15
import RucteProps.C15Directives
import RucteProps.C15Calls
import RucteProps.C05Chain

/-!
# Rust fragments of the directives, as documented expressions

The Rust fragments that occur inside the directives of a template, built from the documented
`@expression` grammar `C05.DExpr` (`RucteProps/C05Chain.lean`):

* `LoopExpr` — the iterable of `@for`: an expression, or a range `lo..hi` / `lo..=hi`;
* `ForPat`   — the loop variable of `@for`: a name with optional `{..}`, or an optional `&` and a
  parenthesised comma-separated list of expressions;
* `Cond`     — the condition of `@if`: `let` LHS `=` RHS, or a logic expression
  `!`? expression (operator logic-expression)?.

For each: `print` (the source text), `value` (the text stored in the tree by the parser), `wf`
(decidable side conditions), `fuel`, and the completeness lemma `…_complete` that the induction over a
source tree (`SrcTreeInduction.lean`) uses.
-/
namespace Ructe.Src
open Nom Ructe.C15

abbrev Layout := List Item

/-- every item of a layout slot is admissible -/
abbrev LayoutOk (l : Layout) : Prop := ∀ i ∈ l, i.ok = true

/-! ## one round of the loops of `nom` -/

theorem manyTillGo_done {α β} {f : Parser α} {g : Parser β} {inp r : Bytes} {o : β} (h : g inp = .ok r o)
    (k : Nat) (acc : List α) : manyTillGo f g (k + 1) inp acc = .ok r (acc.reverse, o) := by
  simp [manyTillGo, h]

theorem manyTillGo_step {α β} {f : Parser α} {g : Parser β} {inp r : Bytes} {v : α} {e : Errs}
    (hg : g inp = .err e) (hf : f inp = .ok r v) (hl : r.length < inp.length) (k : Nat) (acc : List α) :
    manyTillGo f g (k + 1) inp acc = manyTillGo f g k r (v :: acc) := by
  have : r.length ≠ inp.length := by omega
  simp [manyTillGo, hg, hf, this]

theorem sepLoop_done {α β} {sep : Parser β} {p : Parser α} {inp : Bytes} {e : Errs} (h : sep inp = .err e)
    (k : Nat) (acc : List α) : sepLoop sep p (k + 1) inp acc = .ok inp acc.reverse := by
  simp [sepLoop, h]

theorem sepLoop_step {α β} {sep : Parser β} {p : Parser α} {inp r1 r2 : Bytes} {u : β} {v : α}
    (hs : sep inp = .ok r1 u) (hp : p r1 = .ok r2 v) (hl : r2.length < inp.length) (k : Nat) (acc : List α) :
    sepLoop sep p (k + 1) inp acc = sepLoop sep p k r2 (v :: acc) := by
  have : r2.length ≠ inp.length := by omega
  simp [sepLoop, hs, hp, this]

/-! ## the first byte of a documented expression -/

theorem atom_head (a : C05.Atom) (hw : a.wf = true) : ∃ b x, a.print = b :: x ∧ noExprStart b = false := by
  cases a with
  | name b cs =>
    simp only [C05.Atom.wf, Bool.and_eq_true] at hw
    refine ⟨b, cs, rfl, ?_⟩
    have h := (C05.nameStart_facts b hw.1).1
    rcases h with h | rfl
    · simp [noExprStart, h]
    · decide
  | digits d ds =>
    simp only [C05.Atom.wf, Bool.and_eq_true] at hw
    exact ⟨d, ds, rfl, by simp [noExprStart, hw.1]⟩
  | str items => exact ⟨34, C05.strBody items ++ [34], by simp [C05.Atom.print, C05.printStr_eq], by decide⟩
  | parens g => exact ⟨40, C05.Grp.printL g ++ [41], by simp [C05.Atom.print], by decide⟩
  | brackets g => exact ⟨91, C05.Grp.printL g ++ [93], by simp [C05.Atom.print], by decide⟩

/-- a documented expression starts with a byte that starts an expression -/
theorem dexpr_head (e : C05.DExpr) (hw : e.wf = true) : ∃ b x, e.print = b :: x ∧ noExprStart b = false := by
  have key : ∀ (p : C05.Pre) (a : C05.Atom) (Y : Bytes), a.wf = true →
      ∃ b x, p.print ++ a.print ++ Y = b :: x ∧ noExprStart b = false := by
    intro p a Y ha
    cases p with
    | none =>
      obtain ⟨b, x, hbx, hb⟩ := atom_head a ha
      exact ⟨b, x ++ Y, by simp [C05.Pre.print, hbx], hb⟩
    | amp => exact ⟨38, a.print ++ Y, by simp [C05.Pre.print], by decide⟩
    | star => exact ⟨42, a.print ++ Y, by simp [C05.Pre.print], by decide⟩
  cases e with
  | last p a ps =>
    simp only [C05.DExpr.wf, Bool.and_eq_true] at hw
    simpa [C05.DExpr.print] using key p a (C05.printPosts ps) hw.1
  | link p a ps s next =>
    simp only [C05.DExpr.wf, Bool.and_eq_true] at hw
    obtain ⟨b, x, hbx, hb⟩ := key p a (C05.printPosts ps ++ s.print ++ next.print) hw.1.1
    exact ⟨b, x, by simpa [C05.DExpr.print] using hbx, hb⟩

/-- what the first byte of an expression is not -/
theorem exprStart_facts (b : UInt8) (h : noExprStart b = false) :
    isSpace b = false ∧ b ≠ 64 ∧ b ≠ 123 ∧ b ≠ 125 ∧ b ≠ 58 ∧ b ≠ 61 ∧ b ≠ 33 ∧ b ≠ 44 ∧ b ≠ 41 ∧ b ≠ 46 := by
  have := forall_u8 (fun b => noExprStart b || (!isSpace b && b != 64 && b != 123 && b != 125 && b != 58 && b != 61 &&
    b != 33 && b != 44 && b != 41 && b != 46)) (by decide +kernel) b
  simpa [h, and_assoc] using this

/-- a piece of source text that starts with a byte that is neither layout nor `@` -/
def FragHead (t : Bytes) : Prop := ∃ b x, t = b :: x ∧ isSpace b = false ∧ b ≠ 64

theorem FragHead.stops {t : Bytes} (h : FragHead t) (X : Bytes) : StopsLayout (t ++ X) := by
  obtain ⟨b, x, rfl, hs, h64⟩ := h
  exact stopsLayout_cons b (x ++ X) hs h64

theorem FragHead.ne_nil {t : Bytes} (h : FragHead t) : t ≠ [] := by
  obtain ⟨b, x, rfl, _, _⟩ := h
  simp

theorem FragHead.append {t : Bytes} (h : FragHead t) (X : Bytes) : FragHead (t ++ X) := by
  obtain ⟨b, x, rfl, hs, h64⟩ := h
  exact ⟨b, x ++ X, rfl, hs, h64⟩

theorem dexpr_fragHead (e : C05.DExpr) (hw : e.wf = true) : FragHead e.print := by
  obtain ⟨b, x, hbx, hb⟩ := dexpr_head e hw
  have hf := exprStart_facts b hb
  exact ⟨b, x, hbx, hf.1, hf.2.1⟩

/-! ## bytes that end every expression -/

/-- a byte that ends a name or number and continues no expression chain -/
def exprEndB (c : UInt8) : Bool :=
  !C05.isNameChar c && c != 46 && c != 58 && c != 40 && c != 123 && c != 91 && c != 33

theorem exprEndB_spec {c : UInt8} (h : exprEndB c = true) :
    C05.isNameChar c = false ∧ c ≠ 46 ∧ c ≠ 58 ∧ c ≠ 40 ∧ c ≠ 123 ∧ c ≠ 91 ∧ c ≠ 33 := by
  simpa [exprEndB, and_assoc] using h

theorem stops_of_exprEnd (c : UInt8) (x : Bytes) (h : exprEndB c = true) : C05.Stops (c :: x) := by
  obtain ⟨_, h46, h58, h40, h123, h91, h33⟩ := exprEndB_spec h
  rw [C05.stops_iff]
  intro m hm
  obtain ⟨m, rfl⟩ : ∃ m', m = m' + 1 := ⟨m - 1, by omega⟩
  refine ⟨_, chainStep_stop m _ ?_⟩
  intro b' x' e
  obtain ⟨rfl, _⟩ := List.cons.inj e
  exact ⟨h46, h58, h40, h123, h91, h33⟩

theorem follows_of_exprEnd (e : C05.DExpr) (c : UInt8) (x : Bytes) (h : exprEndB c = true) :
    e.follows (c :: x) = true :=
  e.follows_of_not_nameChar _ (fun c' r' h' => by
    obtain ⟨rfl, _⟩ := List.cons.inj h'
    exact (exprEndB_spec h).1)

/-- **a documented expression in front of a byte that ends every expression** -/
theorem dexpr_end (e : C05.DExpr) (hw : e.wf = true) (n : Nat) (hn : e.fuel ≤ n) (c : UInt8) (x : Bytes)
    (hc : exprEndB c = true) : expression n (e.print ++ c :: x) = .ok (c :: x) e.print :=
  C05.expression_complete e (c :: x) hw (stops_of_exprEnd c x hc) (follows_of_exprEnd e c x hc) n hn

theorem exprEndB_layoutHead (c : UInt8) (h : isSpace c = true ∨ c = 64) : exprEndB c = true := by
  obtain ⟨a1, a2, a3, a4, a5, a6, a7, _⟩ := layoutHead_facts c h
  simp [exprEndB, a1, a2, a3, a4, a5, a6, a7]

/-- … in particular in front of layout -/
theorem dexpr_layout (e : C05.DExpr) (hw : e.wf = true) (n : Nat) (hn : e.fuel ≤ n) (tail : Bytes)
    (ht : StartsLayout tail) : expression n (e.print ++ tail) = .ok tail e.print := by
  obtain ⟨c, x, rfl, hc⟩ := startsLayout_head ht
  exact dexpr_end e hw n hn c x (exprEndB_layoutHead c hc)

/-- the head of `layout ++ c :: x` ends every expression when `c` does -/
theorem layout_then_end (l : Layout) (hl : LayoutOk l) (c : UInt8) (x : Bytes) (hc : exprEndB c = true) :
    ∃ c' x', printLayout l ++ c :: x = c' :: x' ∧ exprEndB c' = true := by
  cases l with
  | nil => exact ⟨c, x, by simp [printLayout], hc⟩
  | cons i l =>
    obtain ⟨c', x', e, hc'⟩ := startsLayout_head (printLayout_starts (i :: l) hl (by simp) (c :: x))
    exact ⟨c', x', e, exprEndB_layoutHead c' hc'⟩

theorem fuel_pos (e : C05.DExpr) : 3 ≤ e.fuel := by
  cases e <;> simp only [C05.DExpr.fuel] <;> omega

/-! ## the iterable of `@for` -/

/-- `loop_expression`: an expression, optionally followed by `..` / `..=` and another expression -/
inductive LoopExpr where
  | single (e : C05.DExpr)
  | range (lo : C05.DExpr) (incl : Bool) (hi : C05.DExpr)

/-- `..` or `..=` -/
def dots (incl : Bool) : Bytes := if incl then [46, 46, 61] else [46, 46]

def LoopExpr.print : LoopExpr → Bytes
  | .single e => e.print
  | .range lo incl hi => lo.print ++ dots incl ++ hi.print

/-- the tree stores the recognised text verbatim -/
def LoopExpr.value (it : LoopExpr) : Bytes := it.print

def LoopExpr.wf : LoopExpr → Bool
  | .single e => e.wf
  | .range lo _ hi => lo.wf && hi.wf

def LoopExpr.fuel : LoopExpr → Nat
  | .single e => e.fuel
  | .range lo _ hi => max lo.fuel hi.fuel

theorem LoopExpr.fragHead (it : LoopExpr) (hw : it.wf = true) : FragHead it.print := by
  cases it with
  | single e => exact dexpr_fragHead e hw
  | range lo incl hi =>
    simp only [LoopExpr.wf, Bool.and_eq_true] at hw
    simpa [LoopExpr.print] using (dexpr_fragHead lo hw.1).append (dots incl ++ hi.print)

theorem str_dotdot : str ".." = [46, 46] := by decide +kernel

theorem dots_valid (incl : Bool) : validUtf8 (dots incl) = true := by cases incl <;> decide

/-- **the iterable**: taken in full in front of layout -/
theorem LoopExpr.complete (it : LoopExpr) (hw : it.wf = true) (n : Nat) (hn : it.fuel ≤ n) (tail : Bytes)
    (ht : StartsLayout tail) : loopExpression n (it.print ++ tail) = .ok tail it.value := by
  obtain ⟨c, x, rfl, hc⟩ := startsLayout_head ht
  have h46 : c ≠ 46 := (layoutHead_facts c hc).2.1
  unfold loopExpression LoopExpr.value
  cases it with
  | single e =>
    simp only [LoopExpr.wf] at hw
    simp only [LoopExpr.fuel] at hn
    have hexpr := dexpr_end e hw n hn c x (exprEndB_layoutHead c hc)
    have hdd : tagS ".." (c :: x) = .err [] := by
      rw [tagS, str_dotdot]; exact tag_cons_ne _ _ _ _ (Ne.symm h46)
    apply mapRes_toStr_of _ (C05.DExpr.valid e hw)
    simp only [LoopExpr.print]
    apply recognize_ok_of (v := e.print)
    exact terminated_of hexpr (opt_err (preceded_err_left (terminated_err_left hdd)))
  | range lo incl hi =>
    simp only [LoopExpr.wf, Bool.and_eq_true] at hw
    simp only [LoopExpr.fuel] at hn
    have hhi := dexpr_end hi hw.2 n (by omega) c x (exprEndB_layoutHead c hc)
    have hv : validUtf8 (lo.print ++ dots incl ++ hi.print) = true :=
      validUtf8_append _ _ (validUtf8_append _ _ (C05.DExpr.valid lo hw.1) (dots_valid incl)) (C05.DExpr.valid hi hw.2)
    apply mapRes_toStr_of _ hv
    simp only [LoopExpr.print]
    apply recognize_ok_of (v := lo.print)
    -- what follows `lo`
    have hlo : ∀ Y, expression n (lo.print ++ 46 :: 46 :: Y) = .ok (46 :: 46 :: Y) lo.print := by
      intro Y
      exact C05.expression_complete lo _ hw.1 (C05.stops_dot 46 Y (by decide))
        (lo.follows_of_not_nameChar _ (fun c' r' h' => by obtain ⟨rfl, _⟩ := List.cons.inj h'; decide)) n (by omega)
    have htag : ∀ Y, tagS ".." (46 :: 46 :: Y) = .ok Y [46, 46] := by
      intro Y; rw [tagS, str_dotdot]; exact tag_append [46, 46] Y
    cases incl with
    | true =>
      have e1 : lo.print ++ dots true ++ hi.print ++ c :: x = lo.print ++ 46 :: 46 :: 61 :: (hi.print ++ c :: x) := by
        simp [dots]
      rw [e1]
      exact terminated_of (hlo _) (opt_of (preceded_of
        (terminated_of (htag _) (opt_of (char_cons 61 _))) hhi))
    | false =>
      have e1 : lo.print ++ dots false ++ hi.print ++ c :: x = lo.print ++ 46 :: 46 :: (hi.print ++ c :: x) := by
        simp [dots]
      rw [e1]
      obtain ⟨b, y, hby, hb⟩ := dexpr_head hi hw.2
      have h61 : b ≠ 61 := (exprStart_facts b hb).2.2.2.2.2.1
      have hno : opt (char 61) (hi.print ++ c :: x) = .ok (hi.print ++ c :: x) none := by
        apply opt_err
        apply char_ne
        intro t ht
        rw [hby] at ht
        exact h61 (List.cons.inj ht).1
      exact terminated_of (hlo _) (opt_of (preceded_of (terminated_of (htag _) hno) hhi))

/-! ## the loop variable of `@for` -/

/-- the loop variable: a name with an optional `{..}` group, or an optional `&` and `(` expressions `)`.
Every item of the tuple carries the number of spaces written in front of it (after the comma; the
first item must have none). -/
inductive ForPat where
  | name (b : UInt8) (cs : Bytes) (fields : Option (List C05.Grp))
  | tuple (amp : Bool) (items : List (Nat × C05.DExpr))

def spaces (k : Nat) : Bytes := List.replicate k 32

/-- the items after the first one, each with its comma -/
def printItemsMore : List (Nat × C05.DExpr) → Bytes
  | [] => []
  | (k, e) :: r => 44 :: (spaces k ++ e.print ++ printItemsMore r)

def printItems : List (Nat × C05.DExpr) → Bytes
  | [] => []
  | (k, e) :: r => spaces k ++ e.print ++ printItemsMore r

def ampB (amp : Bool) : Bytes := if amp then [38] else []

def ForPat.print : ForPat → Bytes
  | .name b cs none => b :: cs
  | .name b cs (some g) => b :: cs ++ [123] ++ C05.Grp.printL g ++ [125]
  | .tuple amp items => ampB amp ++ [40] ++ printItems items ++ [41]

/-- the tree stores a name pattern verbatim and a tuple *normalised*: items joined by `", "` -/
def ForPat.value : ForPat → Bytes
  | .name b cs none => b :: cs
  | .name b cs (some g) => b :: cs ++ [123] ++ C05.Grp.printL g ++ [125]
  | .tuple amp items => ampB amp ++ [40] ++ join [44, 32] (items.map (·.2.print)) ++ [41]

def itemsWf : List (Nat × C05.DExpr) → Bool
  | [] => true
  | (_, e) :: r => e.wf && itemsWf r

def firstTight : List (Nat × C05.DExpr) → Bool
  | [] => true
  | (k, _) :: _ => k == 0

def ForPat.wf : ForPat → Bool
  | .name b cs none => C05.isNameStart b && cs.all C05.isNameChar
  | .name b cs (some g) => C05.isNameStart b && cs.all C05.isNameChar && C05.grpOk g
  | .tuple _ items => itemsWf items && firstTight items

def itemsFuel : List (Nat × C05.DExpr) → Nat
  | [] => 0
  | (_, e) :: r => max e.fuel (itemsFuel r)

def ForPat.fuel : ForPat → Nat
  | .name _ _ none => 1
  | .name _ _ (some g) => C05.Grp.fuelL g + 2
  | .tuple _ items => max 2 (itemsFuel items)

/-- a bare name: what follows must end the name and must not be `{` -/
def ForPat.bare : ForPat → Bool
  | .name _ _ none => true
  | _ => false

/-- the spaces after the commas of a tuple are not in the tree -/
def eraseItems : List (Nat × C05.DExpr) → List (Nat × C05.DExpr)
  | [] => []
  | (_, e) :: r => (0, e) :: eraseItems r

def ForPat.erase : ForPat → ForPat
  | .tuple amp items => .tuple amp (eraseItems items)
  | p => p

theorem eraseItems_prints (items : List (Nat × C05.DExpr)) :
    (eraseItems items).map (·.2.print) = items.map (·.2.print) := by
  induction items with
  | nil => rfl
  | cons p r ih => obtain ⟨k, e⟩ := p; simp [eraseItems, ih]

theorem eraseItems_fuel (items : List (Nat × C05.DExpr)) : itemsFuel (eraseItems items) = itemsFuel items := by
  induction items with
  | nil => rfl
  | cons p r ih => obtain ⟨k, e⟩ := p; simp [eraseItems, itemsFuel, ih]

theorem ForPat.value_erase (p : ForPat) : p.erase.value = p.value := by
  cases p with
  | name b cs f => rfl
  | tuple amp items => simp [ForPat.erase, ForPat.value, eraseItems_prints]

theorem ForPat.fuel_erase (p : ForPat) : p.erase.fuel = p.fuel := by
  cases p with
  | name b cs f => rfl
  | tuple amp items => simp [ForPat.erase, ForPat.fuel, eraseItems_fuel]

theorem nameStart_frag (b : UInt8) (hb : C05.isNameStart b = true) : isSpace b = false ∧ b ≠ 64 := by
  have := forall_u8 (fun b => !C05.isNameStart b || (!isSpace b && b != 64)) (by decide +kernel) b
  simpa [hb] using this

theorem ForPat.fragHead (p : ForPat) (hw : p.wf = true) : FragHead p.print := by
  cases p with
  | name b cs f =>
    cases f with
    | none =>
      simp only [ForPat.wf, Bool.and_eq_true] at hw
      exact ⟨b, cs, rfl, nameStart_frag b hw.1⟩
    | some g =>
      simp only [ForPat.wf, Bool.and_eq_true] at hw
      exact ⟨b, cs ++ [123] ++ C05.Grp.printL g ++ [125], by simp [ForPat.print], nameStart_frag b hw.1.1⟩
  | tuple amp items =>
    cases amp with
    | true => exact ⟨38, [40] ++ printItems items ++ [41], by simp [ForPat.print, ampB], by decide, by decide⟩
    | false => exact ⟨40, printItems items ++ [41], by simp [ForPat.print, ampB], by decide, by decide⟩

/-! ### the parser of the loop variable -/

/-- the middle part of `for_variable` (between the two `spacelike`) -/
def forPatP (n : Nat) : Parser Bytes :=
  context "Expected loop variable name or destructuring tuple"
    (alt [
      mapRes (recognize (preceded rustName (opt (exprInBraces n)))) toStr,
      pmap (seq (opt (char 38)) (delimited (char 40) (commaExpressions n) (char 41)))
        (fun (pre, args) => (match pre with | some _ => str "&" | none => []) ++ str "(" ++ args ++ str ")")])

theorem forVariable_eq (n : Nat) : forVariable n = delimited spacelike (forPatP n) spacelike := rfl

theorem str_space : str " " = [32] := by decide +kernel
theorem str_commaSpace : str ", " = [44, 32] := by decide +kernel

/-- the separator of the items of a tuple pattern: `,` and any number of spaces -/
def itemSep : Parser (List Bytes) := preceded (tagS ",") (many0 (tagS " "))

theorem many0Go_spaces (Y : Bytes) (hY : ∀ r, Y ≠ 32 :: r) :
    ∀ k fuel acc, (spaces k ++ Y).length < fuel → ∃ vs, many0Go (tagS " ") fuel (spaces k ++ Y) acc = .ok Y vs := by
  intro k
  induction k with
  | zero =>
    intro fuel acc hf
    cases fuel with
    | zero => omega
    | succ f =>
      have : tagS " " Y = .err [] := by rw [tagS, str_space]; exact tag_one_ne 32 Y hY
      exact ⟨_, by simpa [spaces] using many0Go_err this f acc⟩
  | succ k ih =>
    intro fuel acc hf
    cases fuel with
    | zero => omega
    | succ f =>
      have e : spaces (k + 1) ++ Y = 32 :: (spaces k ++ Y) := by simp [spaces, List.replicate_succ]
      rw [e] at hf ⊢
      have h1 : tagS " " (32 :: (spaces k ++ Y)) = .ok (spaces k ++ Y) [32] := by
        rw [tagS, str_space]; exact tag_one 32 _
      rw [many0Go_ok h1 (by simp)]
      exact ih f _ (by simp only [List.length_cons] at hf; omega)

theorem itemSep_ok (k : Nat) (Y : Bytes) (hY : ∀ r, Y ≠ 32 :: r) :
    ∃ vs, itemSep (44 :: (spaces k ++ Y)) = .ok Y vs := by
  obtain ⟨vs, hvs⟩ := many0Go_spaces Y hY k _ [] (Nat.lt_succ_self _)
  exact ⟨vs, preceded_of (CallL.tagS_comma _) hvs⟩

theorem itemSep_close (r : Bytes) : itemSep (41 :: r) = .err [] :=
  preceded_err_left (CallL.tagS_comma_ne 41 r (by decide))

/-- what follows an item of a tuple: `,` or `)` -/
theorem itemsMore_head (r : List (Nat × C05.DExpr)) (tail : Bytes) :
    ∃ c x, printItemsMore r ++ 41 :: tail = c :: x ∧ exprEndB c = true := by
  cases r with
  | nil => exact ⟨41, tail, rfl, by decide⟩
  | cons p r => obtain ⟨k, e⟩ := p; exact ⟨44, _, rfl, by decide⟩

theorem dexpr_notSpace (e : C05.DExpr) (hw : e.wf = true) (X : Bytes) : ∀ r, e.print ++ X ≠ 32 :: r := by
  intro r h
  obtain ⟨b, x, hbx, hs, _⟩ := dexpr_fragHead e hw
  rw [hbx] at h
  obtain ⟨rfl, _⟩ := List.cons.inj h
  revert hs; decide

theorem sepLoop_items (n : Nat) (tail : Bytes) :
    ∀ r, itemsWf r = true → itemsFuel r ≤ n → ∀ fuel acc, (printItemsMore r ++ 41 :: tail).length < fuel →
      sepLoop itemSep (expression n) fuel (printItemsMore r ++ 41 :: tail) acc
        = .ok (41 :: tail) (acc.reverse ++ r.map (·.2.print)) := by
  intro r
  induction r with
  | nil =>
    intro _ _ fuel acc hf
    cases fuel with
    | zero => omega
    | succ f => simp [printItemsMore, sepLoop_done (itemSep_close tail)]
  | cons p r ih =>
    obtain ⟨k, e⟩ := p
    intro hw hn fuel acc hf
    simp only [itemsWf, Bool.and_eq_true] at hw
    simp only [itemsFuel] at hn
    cases fuel with
    | zero => omega
    | succ f =>
      have e1 : printItemsMore ((k, e) :: r) ++ 41 :: tail =
          44 :: (spaces k ++ (e.print ++ (printItemsMore r ++ 41 :: tail))) := by
        simp [printItemsMore]
      rw [e1] at hf ⊢
      obtain ⟨vs, hsep⟩ := itemSep_ok k (e.print ++ (printItemsMore r ++ 41 :: tail)) (dexpr_notSpace e hw.1 _)
      obtain ⟨c, x, hcx, hc⟩ := itemsMore_head r tail
      have hexpr : expression n (e.print ++ (printItemsMore r ++ 41 :: tail)) =
          .ok (printItemsMore r ++ 41 :: tail) e.print := by
        rw [hcx]; exact dexpr_end e hw.1 n (by omega) c x hc
      have hlen : (printItemsMore r ++ 41 :: tail).length <
          (44 :: (spaces k ++ (e.print ++ (printItemsMore r ++ 41 :: tail)))).length := by
        simp only [List.length_cons, List.length_append]; omega
      rw [sepLoop_step hsep hexpr hlen, ih hw.2 (by omega) f _ (by
        simp only [List.length_cons, List.length_append] at hf ⊢; omega)]
      simp

/-- the items of a tuple pattern, up to the closing parenthesis -/
theorem commaExpressions_items (n : Nat) (items : List (Nat × C05.DExpr)) (hw : itemsWf items = true)
    (hf : firstTight items = true) (hn : max 2 (itemsFuel items) ≤ n) (tail : Bytes) :
    commaExpressions n (printItems items ++ 41 :: tail) = .ok (41 :: tail) (join [44, 32] (items.map (·.2.print))) := by
  unfold commaExpressions
  rw [str_commaSpace]
  refine pmap_of (f := join [44, 32]) ?_
  show sepList0 itemSep (expression n) _ = _
  cases items with
  | nil =>
    obtain ⟨m, rfl⟩ : ∃ m, n = m + 2 := ⟨n - 2, by omega⟩
    have := expression_head m (41 :: tail) (fun b x h => by obtain ⟨rfl, _⟩ := List.cons.inj h; decide)
    simpa [printItems] using CallL.sepList0_none itemSep _ (41 :: tail) this
  | cons p r =>
    obtain ⟨k, e⟩ := p
    simp only [itemsWf, Bool.and_eq_true] at hw
    simp only [itemsFuel] at hn
    have hk : k = 0 := by simpa [firstTight] using hf
    subst hk
    have e1 : printItems ((0, e) :: r) ++ 41 :: tail = e.print ++ (printItemsMore r ++ 41 :: tail) := by
      simp [printItems, spaces]
    obtain ⟨c, x, hcx, hc⟩ := itemsMore_head r tail
    have hexpr : expression n (e.print ++ (printItemsMore r ++ 41 :: tail)) =
        .ok (printItemsMore r ++ 41 :: tail) e.print := by
      rw [hcx]; exact dexpr_end e hw.1 n (by omega) c x hc
    rw [e1]
    simp only [sepList0, hexpr]
    rw [sepLoop_items n tail r hw.2 (by omega) _ _ (Nat.lt_succ_self _)]
    simp

/-- what may follow the loop variable: after a bare name, a byte that ends the name and is not `{` -/
def ForPat.tailOk (p : ForPat) (tail : Bytes) : Prop :=
  p.bare = true → ∀ c r, tail = c :: r → C05.isNameChar c = false ∧ c ≠ 123

/-- **the loop variable** -/
theorem ForPat.complete (p : ForPat) (hw : p.wf = true) (n : Nat) (hn : p.fuel ≤ n) (tail : Bytes)
    (ht : p.tailOk tail) : forPatP n (p.print ++ tail) = .ok tail p.value := by
  unfold forPatP
  cases p with
  | name b cs f =>
    cases f with
    | none =>
      simp only [ForPat.wf, Bool.and_eq_true] at hw
      simp only [ForPat.fuel] at hn
      obtain ⟨m, rfl⟩ : ∃ m, n = m + 1 := ⟨n - 1, by omega⟩
      have ht' := ht rfl
      have hname := C05.rustName_complete b cs tail hw.1 hw.2 (fun c r e => (ht' c r e).1)
      have hbr : exprInBraces (m + 1) tail = .err [] :=
        exprInBraces_head m tail (fun x e => (ht' 123 x e).2 rfl)
      refine context_ok _ (alt_cons_ok ?_)
      apply mapRes_toStr_of _ (rustName_valid hname)
      simp only [ForPat.print]
      apply recognize_ok_of (v := none)
      exact preceded_of hname (opt_err hbr)
    | some g =>
      simp only [ForPat.wf, Bool.and_eq_true] at hw
      simp only [ForPat.fuel] at hn
      obtain ⟨hg1, hg2⟩ := (C05.grpOk_iff g).mp hw.2
      have hname := C05.rustName_complete b cs (123 :: (C05.Grp.printL g ++ 125 :: tail)) hw.1.1 hw.1.2
        (fun c r e => by obtain ⟨rfl, _⟩ := List.cons.inj e; decide)
      have hbr := C05.exprInBraces_complete_fuel g hg1 hg2 tail n (by omega)
      have hv : validUtf8 (b :: cs ++ [123] ++ C05.Grp.printL g ++ [125]) = true := by
        have := validUtf8_append _ _ (rustName_valid hname) (C05.validUtf8_group 123 125 g (by decide) (by decide) hw.2)
        simpa using this
      refine context_ok _ (alt_cons_ok ?_)
      apply mapRes_toStr_of _ hv
      simp only [ForPat.print]
      apply recognize_ok_of (v := some (123 :: (C05.Grp.printL g ++ [125])))
      have e1 : b :: cs ++ [123] ++ C05.Grp.printL g ++ [125] ++ tail =
          b :: cs ++ 123 :: (C05.Grp.printL g ++ 125 :: tail) := by simp
      rw [e1]
      exact preceded_of hname (opt_of hbr)
  | tuple amp items =>
    simp only [ForPat.wf, Bool.and_eq_true] at hw
    simp only [ForPat.fuel] at hn
    have hitems := commaExpressions_items n items hw.1 hw.2 hn tail
    have hA : ∀ X, mapRes (recognize (preceded rustName (opt (exprInBraces n)))) toStr
        (ampB amp ++ [40] ++ X) = .err [] := by
      intro X
      apply mapRes_err; apply recognize_err; apply preceded_err_left
      apply rustName_head
      intro b x e
      cases amp with
      | true => obtain ⟨rfl, _⟩ := List.cons.inj (show 38 :: ([40] ++ X) = b :: x from e); decide
      | false => obtain ⟨rfl, _⟩ := List.cons.inj (show 40 :: X = b :: x from e); decide
    have e1 : (ForPat.tuple amp items).print ++ tail = ampB amp ++ [40] ++ (printItems items ++ 41 :: tail) := by
      simp [ForPat.print]
    rw [e1]
    refine context_ok _ ?_
    rw [alt_cons_err (hA _), alt_one]
    have hdel : delimited (char 40) (commaExpressions n) (char 41) (40 :: (printItems items ++ 41 :: tail)) =
        .ok tail (join [44, 32] (items.map (·.2.print))) :=
      delimited_of (char_cons 40 _) hitems (char_cons 41 _)
    cases amp with
    | true =>
      have := pmap_of (f := fun (x : Option UInt8 × Bytes) =>
          (match x.1 with | some _ => str "&" | none => []) ++ str "(" ++ x.2 ++ str ")")
        (seq_of (opt_of (char_cons 38 _)) hdel)
      simpa [ampB, ForPat.value, str_amp, str_lpar, str_rpar] using this
    | false =>
      have hno : opt (char 38) (40 :: (printItems items ++ 41 :: tail)) = .ok (40 :: (printItems items ++ 41 :: tail)) none :=
        opt_err (char_ne 38 _ (fun x e => by obtain ⟨h, _⟩ := List.cons.inj e; revert h; decide))
      have := pmap_of (f := fun (x : Option UInt8 × Bytes) =>
          (match x.1 with | some _ => str "&" | none => []) ++ str "(" ++ x.2 ++ str ")")
        (seq_of hno hdel)
      simpa [ampB, ForPat.value, str_amp, str_lpar, str_rpar] using this

/-! ## the condition of `@if` -/

/-- the relational / logic operators, in the order in which the parser tries them -/
inductive RelOp where
  | ne | and | le | lt | eq | ge | gt | or
deriving DecidableEq, Repr

def RelOp.print : RelOp → Bytes
  | .ne => [33, 61]
  | .and => [38, 38]
  | .le => [60, 61]
  | .lt => [60]
  | .eq => [61, 61]
  | .ge => [62, 61]
  | .gt => [62]
  | .or => [124, 124]

/-- `logic_expression`: an optional `!` (followed by layout), an expression, and optionally layout,
an operator, layout and a further logic expression.  The layout slots are *inside* the recognised
span: the tree stores them. -/
inductive Logic where
  | last (neg : Option Layout) (e : C05.DExpr)
  | op (neg : Option Layout) (e : C05.DExpr) (l₁ : Layout) (o : RelOp) (l₂ : Layout) (next : Logic)

def negPrint : Option Layout → Bytes
  | none => []
  | some l => 33 :: printLayout l

def Logic.print : Logic → Bytes
  | .last neg e => negPrint neg ++ e.print
  | .op neg e l₁ o l₂ next =>
    negPrint neg ++ e.print ++ printLayout l₁ ++ o.print ++ printLayout l₂ ++ next.print

def layoutB (l : Layout) : Bool := l.all Item.ok

theorem layoutB_ok {l : Layout} (h : layoutB l = true) : LayoutOk l := by
  simpa [layoutB] using h

/-- a layout slot inside a recognised span: admissible, and valid UTF-8 (comment bodies are arbitrary
bytes, but the span is stored as a Rust string) -/
def innerB (l : Layout) : Bool := layoutB l && validUtf8 (printLayout l)

def negWf : Option Layout → Bool
  | none => true
  | some l => innerB l

def Logic.wf : Logic → Bool
  | .last neg e => negWf neg && e.wf
  | .op neg e l₁ _ l₂ next => negWf neg && e.wf && innerB l₁ && innerB l₂ && next.wf

/-- fuel of `expression` -/
def Logic.fuel : Logic → Nat
  | .last _ e => e.fuel
  | .op _ e _ _ _ next => max e.fuel next.fuel

/-- recursion depth of `logic_expression` -/
def Logic.depth : Logic → Nat
  | .last _ _ => 1
  | .op _ _ _ _ _ next => next.depth + 1

/-- `cond_expression` -/
inductive Cond where
  | letBind (la : Layout) (lhs : C05.DExpr) (lb lc : Layout) (rhs : C05.DExpr)
                                            -- `let` La lhs Lb `=` Lc rhs
  | logic (g : Logic)

def Cond.print : Cond → Bytes
  | .letBind la lhs lb lc rhs =>
    [108, 101, 116] ++ printLayout la ++ lhs.print ++ printLayout lb ++ [61] ++ printLayout lc ++ rhs.print
  | .logic g => g.print

/-- the tree stores a `let` binding *normalised* (`let ` lhs ` = ` rhs) and a logic expression verbatim -/
def Cond.value : Cond → Bytes
  | .letBind _ lhs _ _ rhs => [108, 101, 116, 32] ++ lhs.print ++ [32, 61, 32] ++ rhs.print
  | .logic g => g.print

/-- the text does not start with `let` -/
def noLetB : Bytes → Bool
  | 108 :: 101 :: 116 :: _ => false
  | _ => true

def Cond.wf : Cond → Bool
  | .letBind la lhs lb lc rhs => layoutB la && lhs.wf && layoutB lb && layoutB lc && rhs.wf
  | .logic g => g.wf && noLetB g.print

def Cond.fuel : Cond → Nat
  | .letBind _ lhs _ _ rhs => max lhs.fuel rhs.fuel
  | .logic g => max g.fuel g.depth

/-- the layout slots of a `let` binding are not in the tree (those of a logic expression are) -/
def Cond.erase : Cond → Cond
  | .letBind _ lhs _ _ rhs => .letBind [] lhs [] [] rhs
  | c => c

theorem Cond.value_erase (c : Cond) : c.erase.value = c.value := by cases c <;> rfl
theorem Cond.fuel_erase (c : Cond) : c.erase.fuel = c.fuel := by cases c <;> rfl

end Ructe.Src
