import RucteProofs.ParserSound
open Nom

/-!
# Fuel monotonicity

`Refines p p'`: wherever `p` does not run out of fuel, `p'` gives the same result.
Every combinator is monotone w.r.t. `Refines`; hence each fuel-indexed grammar function `f`
satisfies `Refines (f n) (f (n+1))`.
-/
namespace Nom

variable {α β γ : Type}

def Refines (p p' : Parser α) : Prop := ∀ inp, p inp ≠ .oom → p' inp = p inp

theorem Refines.refl (p : Parser α) : Refines p p := fun _ _ => rfl

theorem Refines.trans {p p' p'' : Parser α} (h1 : Refines p p') (h2 : Refines p' p'') : Refines p p'' := by
  intro inp h
  have e1 := h1 inp h
  rw [h2 inp (by rw [e1]; exact h), e1]

theorem refines_oom (p : Parser α) : Refines (fun _ => Res.oom) p := fun _ h => absurd rfl h

theorem refines_pmap {p p' : Parser α} {f : α → β} (hp : Refines p p') : Refines (pmap p f) (pmap p' f) := by
  intro inp h
  have h0 : p inp ≠ .oom := by intro h0; simp [pmap, h0] at h
  simp only [pmap, hp inp h0]

theorem refines_value {p p' : Parser α} {v : β} (hp : Refines p p') : Refines (value v p) (value v p') :=
  refines_pmap hp

theorem refines_mapRes {p p' : Parser α} {f : α → Option β} (hp : Refines p p') :
    Refines (mapRes p f) (mapRes p' f) := by
  intro inp h
  have h0 : p inp ≠ .oom := by intro h0; simp [mapRes, h0] at h
  simp only [mapRes, hp inp h0]

theorem refines_recognize {p p' : Parser α} (hp : Refines p p') : Refines (recognize p) (recognize p') := by
  intro inp h
  have h0 : p inp ≠ .oom := by intro h0; simp [recognize, h0] at h
  simp only [recognize, hp inp h0]

theorem refines_seq {p p' : Parser α} {q q' : Parser β} (hp : Refines p p') (hq : Refines q q') :
    Refines (seq p q) (seq p' q') := by
  intro inp h
  have h0 : p inp ≠ .oom := by intro h0; simp [seq, h0] at h
  simp only [seq, hp inp h0] at h ⊢
  cases hpi : p inp with
  | ok r a =>
    simp only [hpi] at h ⊢
    have h1 : q r ≠ .oom := by intro h1; simp [h1] at h
    rw [hq r h1]
  | _ => rfl

theorem refines_preceded {p p' : Parser α} {q q' : Parser β} (hp : Refines p p') (hq : Refines q q') :
    Refines (preceded p q) (preceded p' q') := refines_pmap (refines_seq hp hq)
theorem refines_terminated {p p' : Parser α} {q q' : Parser β} (hp : Refines p p') (hq : Refines q q') :
    Refines (terminated p q) (terminated p' q') := refines_pmap (refines_seq hp hq)
theorem refines_delimited {p p' : Parser α} {q q' : Parser β} {s s' : Parser γ}
    (hp : Refines p p') (hq : Refines q q') (hs : Refines s s') :
    Refines (delimited p q s) (delimited p' q' s') :=
  refines_preceded hp (refines_terminated hq hs)

theorem refines_orElse {p p' q q' : Parser α} (hp : Refines p p') (hq : Refines q q') :
    Refines (orElse p q) (orElse p' q') := by
  intro inp h
  have h0 : p inp ≠ .oom := by intro h0; simp [orElse, h0] at h
  simp only [orElse, hp inp h0] at h ⊢
  cases hpi : p inp with
  | err e =>
    simp only [hpi] at h ⊢
    exact hq inp h
  | _ => rfl

theorem refines_alt_one {p p' : Parser α} (hp : Refines p p') : Refines (alt [p]) (alt [p']) := hp

theorem refines_alt_cons {p p' q q' : Parser α} {ps ps' : List (Parser α)} (hp : Refines p p')
    (hq : Refines (alt (q :: ps)) (alt (q' :: ps'))) :
    Refines (alt (p :: q :: ps)) (alt (p' :: q' :: ps')) := refines_orElse hp hq

theorem refines_opt {p p' : Parser α} (hp : Refines p p') : Refines (opt p) (opt p') := by
  intro inp h
  have h0 : p inp ≠ .oom := by intro h0; simp [opt, h0] at h
  simp only [opt, hp inp h0]

theorem refines_context {p p' : Parser α} {msg : String} (hp : Refines p p') :
    Refines (context msg p) (context msg p') := by
  intro inp h
  have h0 : p inp ≠ .oom := by intro h0; simp [context, h0] at h
  simp only [context, hp inp h0]

theorem refines_pnot {p p' : Parser α} (hp : Refines p p') : Refines (pnot p) (pnot p') := by
  intro inp h
  have h0 : p inp ≠ .oom := by intro h0; simp [pnot, h0] at h
  simp only [pnot, hp inp h0]

theorem many0Go_refines {p p' : Parser α} (hp : Refines p p') :
    ∀ n inp acc, many0Go p n inp acc ≠ .oom → many0Go p' n inp acc = many0Go p n inp acc := by
  intro n
  induction n with
  | zero => intro inp acc h; simp [many0Go] at h
  | succ n ih =>
    intro inp acc h
    have h0 : p inp ≠ .oom := by intro h0; simp [many0Go, h0] at h
    simp only [many0Go, hp inp h0] at h ⊢
    cases hpi : p inp with
    | ok r v =>
      simp only [hpi] at h ⊢
      split
      · rfl
      · next hne => simp only [hne, if_false] at h; exact ih _ _ h
    | _ => rfl

theorem refines_many0 {p p' : Parser α} (hp : Refines p p') : Refines (many0 p) (many0 p') :=
  fun inp h => many0Go_refines hp _ inp [] h

theorem manyTillGo_refines {f f' : Parser α} {g g' : Parser β} (hf : Refines f f') (hg : Refines g g') :
    ∀ n inp acc, manyTillGo f g n inp acc ≠ .oom → manyTillGo f' g' n inp acc = manyTillGo f g n inp acc := by
  intro n
  induction n with
  | zero => intro inp acc h; simp [manyTillGo] at h
  | succ n ih =>
    intro inp acc h
    have h0 : g inp ≠ .oom := by intro h0; simp [manyTillGo, h0] at h
    simp only [manyTillGo, hg inp h0] at h ⊢
    cases hgi : g inp with
    | err e =>
      simp only [hgi] at h ⊢
      have h1 : f inp ≠ .oom := by intro h1; simp [h1] at h
      rw [hf inp h1]
      cases hfi : f inp with
      | ok r v =>
        simp only [hfi] at h ⊢
        split
        · rfl
        · next hne => simp only [hne, if_false] at h; exact ih _ _ h
      | _ => rfl
    | _ => rfl

theorem refines_manyTill {f f' : Parser α} {g g' : Parser β} (hf : Refines f f') (hg : Refines g g') :
    Refines (manyTill f g) (manyTill f' g') :=
  fun inp h => manyTillGo_refines hf hg _ inp [] h

theorem sepLoop_refines {sep sep' : Parser β} {p p' : Parser α} (hs : Refines sep sep') (hp : Refines p p') :
    ∀ n inp acc, sepLoop sep p n inp acc ≠ .oom → sepLoop sep' p' n inp acc = sepLoop sep p n inp acc := by
  intro n
  induction n with
  | zero => intro inp acc h; simp [sepLoop] at h
  | succ n ih =>
    intro inp acc h
    have h0 : sep inp ≠ .oom := by intro h0; simp [sepLoop, h0] at h
    simp only [sepLoop, hs inp h0] at h ⊢
    cases hsi : sep inp with
    | ok r1 w =>
      simp only [hsi] at h ⊢
      have h1 : p r1 ≠ .oom := by intro h1; simp [h1] at h
      rw [hp r1 h1]
      cases hpi : p r1 with
      | ok r2 v =>
        simp only [hpi] at h ⊢
        split
        · rfl
        · next hne => simp only [hne, if_false] at h; exact ih _ _ h
      | _ => rfl
    | _ => rfl

theorem refines_sepList0 {sep sep' : Parser β} {p p' : Parser α} (hs : Refines sep sep') (hp : Refines p p') :
    Refines (sepList0 sep p) (sepList0 sep' p') := by
  intro inp h
  have h0 : p inp ≠ .oom := by intro h0; simp [sepList0, h0] at h
  simp only [sepList0, hp inp h0] at h ⊢
  cases hpi : p inp with
  | ok r v =>
    simp only [hpi] at h ⊢
    exact sepLoop_refines hs hp _ _ _ h
  | _ => rfl

theorem refines_sepList1 {sep sep' : Parser β} {p p' : Parser α} (hs : Refines sep sep') (hp : Refines p p') :
    Refines (sepList1 sep p) (sepList1 sep' p') := by
  intro inp h
  have h0 : p inp ≠ .oom := by intro h0; simp [sepList1, h0] at h
  simp only [sepList1, hp inp h0] at h ⊢
  cases hpi : p inp with
  | ok r v =>
    simp only [hpi] at h ⊢
    exact sepLoop_refines hs hp _ _ _ h
  | _ => rfl

theorem refines_pbind {p p' : Parser α} {f f' : α → Parser β} (hp : Refines p p')
    (hf : ∀ a, Refines (f a) (f' a)) : Refines (pbind p f) (pbind p' f') := by
  intro inp h
  have h0 : p inp ≠ .oom := by intro h0; simp [pbind, h0] at h
  simp only [pbind, hp inp h0] at h ⊢
  cases hpi : p inp with
  | ok r a =>
    simp only [hpi] at h ⊢
    exact hf a r h
  | _ => rfl

theorem refines_ite_fun {c : Prop} [Decidable c] {p p' q q' : Parser α} (hp : Refines p p') (hq : Refines q q') :
    Refines (fun i => if c then p i else q i) (fun i => if c then p' i else q' i) := by
  by_cases h : c
  · simp only [h, if_true]; exact hp
  · simp only [h, if_false]; exact hq

macro "refines_step" : tactic => `(tactic| with_reducible first
  | exact Refines.refl _
  | assumption
  | exact refines_oom _
  | apply refines_alt_cons | apply refines_alt_one | apply refines_orElse
  | apply refines_ite_fun
  | apply refines_value | apply refines_preceded | apply refines_terminated | apply refines_delimited
  | apply refines_pmap | apply refines_mapRes | apply refines_recognize | apply refines_seq
  | apply refines_opt | apply refines_context | apply refines_pnot
  | apply refines_many0 | apply refines_manyTill | apply refines_sepList0 | apply refines_sepList1
  | apply refines_pbind)

macro "refines" : tactic => `(tactic| repeat' refines_step)

/-- fuel monotonicity of a fuel-indexed parser -/
@[reducible] def Mono (f : Nat → Parser α) : Prop := ∀ n, Refines (f n) (f (n + 1))

theorem Mono.le {f : Nat → Parser α} (hf : Mono f) {n m : Nat} (h : n ≤ m) : Refines (f n) (f m) := by
  induction h with
  | refl => exact Refines.refl _
  | step _ ih => exact ih.trans (hf _)

end Nom

namespace Ructe

theorem refines_foldMany0 {α} {p p' : Parser α} (hp : Refines p p') : Refines (foldMany0 p) (foldMany0 p') :=
  refines_value (refines_many0 hp)
macro_rules | `(tactic| refines_step) => `(tactic| with_reducible apply refines_foldMany0)

theorem mono_exprs : ∀ n, Refines (exprInParens n) (exprInParens (n+1)) ∧
    Refines (exprInBrackets n) (exprInBrackets (n+1)) ∧
    Refines (exprInBraces n) (exprInBraces (n+1)) ∧
    Refines (exprInsideParens n) (exprInsideParens (n+1)) := by
  intro n
  induction n with
  | zero =>
    refine ⟨?_, ?_, ?_, ?_⟩
    · rw [exprInParens]; exact refines_oom _
    · rw [exprInBrackets]; exact refines_oom _
    · rw [exprInBraces]; exact refines_oom _
    · rw [exprInsideParens]; exact refines_oom _
  | succ n ih =>
    obtain ⟨h1, h2, h3, h4⟩ := ih
    refine ⟨?_, ?_, ?_, ?_⟩
    · rw [exprInParens, exprInParens]; refines
    · rw [exprInBrackets, exprInBrackets]; refines
    · rw [exprInBraces, exprInBraces]; refines
    · rw [exprInsideParens, exprInsideParens]; refines

theorem mono_exprInParens : Mono exprInParens := fun n => (mono_exprs n).1
theorem mono_exprInBrackets : Mono exprInBrackets := fun n => (mono_exprs n).2.1
theorem mono_exprInBraces : Mono exprInBraces := fun n => (mono_exprs n).2.2.1
theorem mono_exprInsideParens : Mono exprInsideParens := fun n => (mono_exprs n).2.2.2
macro_rules | `(tactic| refines_step) => `(tactic| with_reducible exact mono_exprInParens _)
macro_rules | `(tactic| refines_step) => `(tactic| with_reducible exact mono_exprInBrackets _)
macro_rules | `(tactic| refines_step) => `(tactic| with_reducible exact mono_exprInBraces _)
macro_rules | `(tactic| refines_step) => `(tactic| with_reducible exact mono_exprInsideParens _)

theorem mono_expression : Mono expression := by
  intro n
  induction n with
  | zero => rw [expression]; exact refines_oom _
  | succ n ih => rw [expression, expression]; refines
macro_rules | `(tactic| refines_step) => `(tactic| with_reducible exact mono_expression _)

theorem mono_commaExpressions : Mono commaExpressions := by
  intro n; unfold commaExpressions; refines
macro_rules | `(tactic| refines_step) => `(tactic| with_reducible exact mono_commaExpressions _)

/-- `logic_expression` is monotone in the expression fuel … -/
theorem mono_logicExpression_n (k n : Nat) : Refines (logicExpression k n) (logicExpression k (n+1)) := by
  induction k with
  | zero => rw [logicExpression]; exact refines_oom _
  | succ k ih => rw [logicExpression, logicExpression]; refines

/-- … and in its own chain-length fuel -/
theorem mono_logicExpression_k (k n : Nat) : Refines (logicExpression k n) (logicExpression (k+1) n) := by
  induction k with
  | zero => rw [logicExpression]; exact refines_oom _
  | succ k ih => rw [logicExpression, logicExpression]; refines

theorem mono_logicExpression (n : Nat) : Refines (logicExpression n n) (logicExpression (n+1) (n+1)) :=
  (mono_logicExpression_n n n).trans (mono_logicExpression_k n (n+1))
macro_rules | `(tactic| refines_step) => `(tactic| with_reducible exact mono_logicExpression _)

theorem mono_condExpression : Mono condExpression := by
  intro n
  rw [condExpression_eq, condExpression_eq]
  apply refines_pbind (Refines.refl _)
  intro o
  cases o with
  | none => simp only []; refines
  | some k => simp only []; refines
macro_rules | `(tactic| refines_step) => `(tactic| with_reducible exact mono_condExpression _)

theorem mono_loopExpression : Mono loopExpression := by
  intro n; unfold loopExpression; refines
macro_rules | `(tactic| refines_step) => `(tactic| with_reducible exact mono_loopExpression _)

theorem mono_forVariable : Mono forVariable := by
  intro n; unfold forVariable; refines
macro_rules | `(tactic| refines_step) => `(tactic| with_reducible exact mono_forVariable _)

theorem mono_tpl : ∀ n, Refines (templateExpression n) (templateExpression (n+1)) ∧
    Refines (if2 n) (if2 (n+1)) ∧
    Refines (templateBlock n) (templateBlock (n+1)) ∧
    Refines (templateArgument n) (templateArgument (n+1)) := by
  intro n
  induction n with
  | zero =>
    refine ⟨?_, ?_, ?_, ?_⟩
    · rw [templateExpression]; exact refines_oom _
    · rw [if2]; exact refines_oom _
    · rw [templateBlock]; exact refines_oom _
    · rw [templateArgument]; exact refines_oom _
  | succ n ih =>
    obtain ⟨h1, h2, h3, h4⟩ := ih
    refine ⟨?_, ?_, ?_, ?_⟩
    · rw [templateExpression_eq n, templateExpression_eq (n+1)]
      apply refines_pbind (Refines.refl _)
      intro o
      cases o with
      | none => simp only []; refines
      | some k => simp only []; refines
    · rw [if2, if2]; refines
    · rw [templateBlock, templateBlock]; refines
    · rw [templateArgument, templateArgument]; refines

theorem mono_templateExpression : Mono templateExpression := fun n => (mono_tpl n).1
theorem mono_if2 : Mono if2 := fun n => (mono_tpl n).2.1
theorem mono_templateBlock : Mono templateBlock := fun n => (mono_tpl n).2.2.1
theorem mono_templateArgument : Mono templateArgument := fun n => (mono_tpl n).2.2.2
macro_rules | `(tactic| refines_step) => `(tactic| with_reducible exact mono_templateExpression _)

theorem mono_types : ∀ n, Refines (typeExpression n) (typeExpression (n+1)) ∧
    Refines (commaTypeExpressions n) (commaTypeExpressions (n+1)) := by
  intro n
  induction n with
  | zero =>
    refine ⟨?_, ?_⟩
    · rw [typeExpression]; exact refines_oom _
    · rw [commaTypeExpressions]; exact refines_oom _
  | succ n ih =>
    obtain ⟨h1, h2⟩ := ih
    refine ⟨?_, ?_⟩
    · rw [typeExpression, typeExpression]; refines
    · rw [commaTypeExpressions, commaTypeExpressions]; refines

theorem mono_typeExpression : Mono typeExpression := fun n => (mono_types n).1
theorem mono_commaTypeExpressions : Mono commaTypeExpressions := fun n => (mono_types n).2
macro_rules | `(tactic| refines_step) => `(tactic| with_reducible exact mono_typeExpression _)

theorem mono_formalArgument : Mono formalArgument := by
  intro n; unfold formalArgument; refines
macro_rules | `(tactic| refines_step) => `(tactic| with_reducible exact mono_formalArgument _)

theorem mono_template : Mono template := by
  intro n; unfold template; refines

end Ructe
