import RucteModel.Diag
open Nom

/-! Lemmas about `lineStartOf` and `lossyCount` (for C11 `diag_in_range`). -/
namespace Ructe

theorem takeWhile_all {α} (p : α → Bool) : ∀ l : List α, ∀ b ∈ l.takeWhile p, p b = true := by
  intro l
  induction l with
  | nil => intro b hb; simp at hb
  | cons a l ih =>
    intro b hb
    simp only [List.takeWhile_cons] at hb
    split at hb
    · next ha =>
      rcases List.mem_cons.mp hb with h | h
      · exact h ▸ ha
      · exact ih b h
    · simp at hb

theorem dropWhile_head {α} (p : α → Bool) : ∀ l : List α,
    l.dropWhile p = [] ∨ ∃ x t, l.dropWhile p = x :: t ∧ p x = false := by
  intro l
  induction l with
  | nil => left; rfl
  | cons a l ih =>
    simp only [List.dropWhile_cons]
    split
    · exact ih
    · next ha => right; exact ⟨a, l, rfl, by simpa using ha⟩

/-- `pre` splits at `lineStartOf pre` into a part that is empty or ends in `\n` and a `\n`-free part. -/
theorem lineStart_split (pre : Bytes) : ∃ A B : Bytes, pre = A ++ B ∧ A.length = lineStartOf pre ∧
    (∀ b ∈ B, b ≠ 10) ∧ (A = [] ∨ A.getLast? = some 10) := by
  have hsplit : pre.reverse.takeWhile (· ≠ 10) ++ pre.reverse.dropWhile (· ≠ 10) = pre.reverse :=
    List.takeWhile_append_dropWhile
  refine ⟨(pre.reverse.dropWhile (· ≠ 10)).reverse, (pre.reverse.takeWhile (· ≠ 10)).reverse, ?_, ?_, ?_, ?_⟩
  · have := congrArg List.reverse hsplit
    rw [List.reverse_append, List.reverse_reverse] at this
    exact this.symm
  · have := congrArg List.length hsplit
    simp only [List.length_append, List.length_reverse] at this
    simp only [lineStartOf, List.length_reverse]
    omega
  · intro b hb
    have := takeWhile_all (fun x : UInt8 => decide (x ≠ 10)) pre.reverse b (List.mem_reverse.mp hb)
    simpa using this
  · rcases dropWhile_head (fun x : UInt8 => decide (x ≠ 10)) pre.reverse with h | ⟨x, t, h, hx⟩
    · left; rw [h]; rfl
    · right
      rw [h]
      have : x = 10 := by simpa using hx
      simp [this]

theorem lossyCount_le : ∀ n (l : Bytes), lossyCount n l ≤ l.length := by
  intro n
  induction n with
  | zero => intro l; simp [lossyCount]
  | succ n ih =>
    intro l
    cases l with
    | nil => simp [lossyCount]
    | cons b r =>
      simp only [lossyCount]
      repeat' split
      all_goals first
        | (simp only [List.length_cons]; omega)
        | (refine Nat.le_trans (Nat.add_le_add_left (ih _) 1) ?_; simp only [List.length_cons]; omega)

end Ructe
