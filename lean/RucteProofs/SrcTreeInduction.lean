import RucteProofs.SrcTreeLoops

/-!
# The induction over a source tree

`node_ok` / `nodes_ok` / `chain_ok` / `arm_ok` / `arms_ok` / `arg_ok` / `more_ok`: by mutual structural
recursion over `Node` / `List Node` / `IfChain` / `Arm` / `List Arm` / `Arg` / `List Arg`, every
well-formed node is taken by `templateExpression n` as itself for every `n ≥ fuelNode`.
-/
namespace Ructe.Src
open Nom Ructe.C15 Ructe.Nodes

/-! ## the directive nodes from the result of their blocks -/

theorem block_lift {k m : Nat} (h : k + 1 ≤ m) {inp rest : Bytes} {v : List TExpr}
    (hb : templateBlock (k + 1) inp = .ok rest v) : templateBlock m inp = .ok rest v :=
  (mono_templateBlock.le h).ok hb

/-- what follows the loop variable: layout (non-empty after a bare name) and `in` -/
theorem forPat_tailOk (pat : ForPat) (l₂ : Layout) (h₂ : LayoutOk l₂) (hne : pat.bare = true → l₂ ≠ []) (X : Bytes) :
    pat.tailOk (printLayout l₂ ++ X) := by
  intro hb c r e
  obtain ⟨c', x', e', hc'⟩ := startsLayout_head (printLayout_starts l₂ h₂ (hne hb) X)
  rw [e'] at e
  obtain ⟨rfl, _⟩ := List.cons.inj e
  have := layoutHead_facts c' hc'
  exact ⟨this.1, this.2.2.2.2.1⟩

/-- **`@for`** -/
theorem for_node (m : Nat) (l₁ : Layout) (pat : ForPat) (l₂ l₃ : Layout) (iter : LoopExpr) (l₄ : Layout)
    (body : List Node) (follow : Bytes)
    (h₁ : LayoutOk l₁) (h₂ : LayoutOk l₂) (h₃ : LayoutOk l₃) (h₄ : LayoutOk l₄) (hne₂ : pat.bare = true → l₂ ≠ [])
    (hne₄ : l₄ ≠ []) (hp : pat.wf = true) (hi : iter.wf = true) (hpm : pat.fuel ≤ m) (him : iter.fuel ≤ m)
    (hb : templateBlock m (123 :: (printNodes body ++ 125 :: follow)) = .ok follow (astNodes body)) :
    templateExpression (m + 1) (printNode (.forIn l₁ pat l₂ l₃ iter l₄ body) ++ follow)
      = .ok follow (astNode (.forIn l₁ pat l₂ l₃ iter l₄ body)) := by
  have e : printNode (.forIn l₁ pat l₂ l₃ iter l₄ body) ++ follow =
      64 :: 102 :: 111 :: 114 :: 32 :: (printLayout l₁ ++ (pat.print ++ (printLayout l₂ ++ ([105, 110] ++
        (printLayout l₃ ++ (iter.print ++ (printLayout l₄ ++ 123 :: (printNodes body ++ 125 :: follow)))))))) := by
    simp [printNode]
  rw [e, astNode]
  exact for_of_parts m
    (spacelike_complete l₁ h₁ _ ((ForPat.fragHead pat hp).stops _))
    (ForPat.complete pat hp m hpm _ (forPat_tailOk pat l₂ h₂ hne₂ _))
    (spacelike_complete l₂ h₂ _ (stopsLayout_cons 105 _ (by decide) (by decide)))
    (spacelike_complete l₃ h₃ _ ((LoopExpr.fragHead iter hi).stops _))
    (LoopExpr.complete iter hi m him _ (printLayout_starts l₄ h₄ hne₄ _))
    (spacelike_complete l₄ h₄ _ (stopsLayout_cons 123 _ (by decide) (by decide))) hb

/-- **`@if c {…}`** without `else` -/
theorem chain_last_ok (m : Nat) (l₁ : Layout) (c : Cond) (l₂ : Layout) (body : List Node)
    (follow : Bytes) (h₁ : LayoutOk l₁) (h₂ : LayoutOk l₂) (hne : l₂ ≠ []) (hc : c.wf = true) (hm : c.fuel ≤ m) (h1 : 1 ≤ m)
    (hno : noElseB follow = true)
    (hb : templateBlock m (123 :: (printNodes body ++ 125 :: follow)) = .ok follow (astNodes body)) :
    if2 (m + 1) (printChain (.last l₁ c l₂ body) ++ follow) = .ok follow (astChain (.last l₁ c l₂ body)) := by
  have e : printChain (.last l₁ c l₂ body) ++ follow =
      printLayout l₁ ++ (c.print ++ (printLayout l₂ ++ 123 :: (printNodes body ++ 125 :: follow))) := by
    simp [printChain]
  rw [e, astChain]
  obtain ⟨k, rfl⟩ : ∃ k, m = k + 1 := ⟨m - 1, by omega⟩
  exact if2_cond (k + 1) l₁ l₂ h₁ h₂ hne c hc hm _ follow follow _ none hb (noElse_opt k follow hno)

/-- **`@if c {…} else {…}`** -/
theorem chain_els_ok (m : Nat) (l₁ : Layout) (c : Cond) (l₂ : Layout) (body : List Node)
    (l₃ l₄ : Layout) (body2 : List Node) (follow : Bytes)
    (h₁ : LayoutOk l₁) (h₂ : LayoutOk l₂) (hne : l₂ ≠ []) (hc : c.wf = true) (hm : c.fuel ≤ m) (h₃ : LayoutOk l₃)
    (h₄ : LayoutOk l₄)
    (hb : templateBlock m (123 :: (printNodes body ++ 125 ::
        (printLayout l₃ ++ 101 :: 108 :: 115 :: 101 :: (printLayout l₄ ++ 123 :: (printNodes body2 ++ 125 :: follow)))))
      = .ok (printLayout l₃ ++ 101 :: 108 :: 115 :: 101 :: (printLayout l₄ ++ 123 :: (printNodes body2 ++ 125 :: follow)))
          (astNodes body))
    (hb2 : templateBlock m (123 :: (printNodes body2 ++ 125 :: follow)) = .ok follow (astNodes body2)) :
    if2 (m + 1) (printChain (.els l₁ c l₂ body l₃ l₄ body2) ++ follow)
      = .ok follow (astChain (.els l₁ c l₂ body l₃ l₄ body2)) := by
  have e : printChain (.els l₁ c l₂ body l₃ l₄ body2) ++ follow =
      printLayout l₁ ++ (c.print ++ (printLayout l₂ ++ 123 :: (printNodes body ++ 125 ::
        (printLayout l₃ ++ 101 :: 108 :: 115 :: 101 :: (printLayout l₄ ++ 123 :: (printNodes body2 ++ 125 :: follow)))))) := by
    simp [printChain]
  rw [e, astChain]
  refine if2_cond m l₁ l₂ h₁ h₂ hne c hc hm _ _ follow _ _ hb ?_
  exact else_of_parts m
    (spacelike_complete l₃ h₃ _ (stopsLayout_cons 101 _ (by decide) (by decide)))
    (spacelike_complete l₄ h₄ _ (stopsLayout_cons 123 _ (by decide) (by decide))) hb2

/-- **`@if c {…} else if …`** -/
theorem chain_elif_ok (m : Nat) (l₁ : Layout) (c : Cond) (l₂ : Layout) (body : List Node)
    (l₃ l₄ : Layout) (next : IfChain) (follow : Bytes)
    (h₁ : LayoutOk l₁) (h₂ : LayoutOk l₂) (hne : l₂ ≠ []) (hc : c.wf = true) (hm : c.fuel ≤ m) (h₃ : LayoutOk l₃)
    (h₄ : LayoutOk l₄)
    (hb : templateBlock m (123 :: (printNodes body ++ 125 ::
        (printLayout l₃ ++ 101 :: 108 :: 115 :: 101 :: (printLayout l₄ ++ 105 :: 102 :: (printChain next ++ follow)))))
      = .ok (printLayout l₃ ++ 101 :: 108 :: 115 :: 101 :: (printLayout l₄ ++ 105 :: 102 :: (printChain next ++ follow)))
          (astNodes body))
    (hnext : if2 m (printChain next ++ follow) = .ok follow (astChain next)) :
    if2 (m + 1) (printChain (.elif l₁ c l₂ body l₃ l₄ next) ++ follow)
      = .ok follow (astChain (.elif l₁ c l₂ body l₃ l₄ next)) := by
  have e : printChain (.elif l₁ c l₂ body l₃ l₄ next) ++ follow =
      printLayout l₁ ++ (c.print ++ (printLayout l₂ ++ 123 :: (printNodes body ++ 125 ::
        (printLayout l₃ ++ 101 :: 108 :: 115 :: 101 :: (printLayout l₄ ++ 105 :: 102 :: (printChain next ++ follow)))))) := by
    simp [printChain]
  rw [e, astChain]
  refine if2_cond m l₁ l₂ h₁ h₂ hne c hc hm _ _ follow _ _ hb ?_
  exact elif_of_parts m
    (spacelike_complete l₃ h₃ _ (stopsLayout_cons 101 _ (by decide) (by decide)))
    (spacelike_complete l₄ h₄ _ (stopsLayout_cons 105 _ (by decide) (by decide))) hnext

theorem argTail_more (r : List Arg) (rest : Bytes) : CallL.ArgTail (printMore r ++ 41 :: rest) := by
  cases r with
  | nil => exact .inr ⟨rest, by simp [printMore]⟩
  | cons a r => exact .inl ⟨_, by rw [printMore_cons]; rfl⟩

/-! ## the induction -/

mutual
theorem node_ok : (x : Node) → ∀ follow n, WFNode x follow → fuelNode x ≤ n →
    templateExpression n (printNode x ++ follow) = .ok follow (astNode x)
  | .text t, follow, n, h, hn => by
    simp only [WFNode] at h
    simp only [fuelNode] at hn
    obtain ⟨m, rfl⟩ : ∃ m, n = m + 1 := ⟨n - 1, by omega⟩
    rw [printNode, astNode]
    exact C01.text_complete m t follow h.1 h.2.1 h.2.2.1 (textEndB_spec h.2.2.2)
  | .escAt, follow, n, _, hn => by
    simp only [fuelNode] at hn
    obtain ⟨m, rfl⟩ : ∃ m, n = m + 1 := ⟨n - 1, by omega⟩
    rw [printNode, astNode]
    exact (C01.escapes_complete m follow).1
  | .escOpen, follow, n, _, hn => by
    simp only [fuelNode] at hn
    obtain ⟨m, rfl⟩ : ∃ m, n = m + 1 := ⟨n - 1, by omega⟩
    rw [printNode, astNode]
    exact (C01.escapes_complete m follow).2.1
  | .escClose, follow, n, _, hn => by
    simp only [fuelNode] at hn
    obtain ⟨m, rfl⟩ : ∃ m, n = m + 1 := ⟨n - 1, by omega⟩
    rw [printNode, astNode]
    exact (C01.escapes_complete m follow).2.2
  | .comment body, follow, n, h, hn => by
    simp only [WFNode] at h
    simp only [fuelNode] at hn
    obtain ⟨m, rfl⟩ : ∃ m, n = m + 1 := ⟨n - 1, by omega⟩
    rw [printNode, astNode]
    have := comment_node_complete m body follow h
    simpa using this
  | .expr e, follow, n, h, hn => by
    simp only [WFNode] at h
    simp only [fuelNode] at hn
    obtain ⟨m, rfl⟩ : ∃ m, n = m + 1 := ⟨n - 1, by omega⟩
    rw [printNode, astNode]
    exact expr_node_complete m e follow h.1 h.2.1 h.2.2.1 h.2.2.2 (by omega)
  | .paren g, follow, n, h, hn => by
    simp only [WFNode] at h
    simp only [fuelNode] at hn
    obtain ⟨m, rfl⟩ : ∃ m, n = m + 1 := ⟨n - 1, by omega⟩
    rw [printNode, astNode]
    exact paren_node_complete m g follow h (by omega)
  | .ifNode c, follow, n, h, hn => by
    simp only [WFNode] at h
    simp only [fuelNode] at hn
    obtain ⟨m, rfl⟩ : ∃ m, n = m + 1 := ⟨n - 1, by omega⟩
    have := chain_ok c follow m h (by omega)
    rw [printNode, astNode]
    show templateExpression (m + 1) (64 :: 105 :: 102 :: 32 :: (printChain c ++ follow)) = _
    rw [templateExpression_if]
    exact this
  | .forIn l₁ pat l₂ l₃ iter l₄ body, follow, n, h, hn => by
    simp only [WFNode] at h
    simp only [fuelNode] at hn
    obtain ⟨h₁, h₂, h₃, h₄, hne₂, hne₄, hp, hi, hwf⟩ := h
    obtain ⟨k, rfl⟩ : ∃ k, n = k + 2 := ⟨n - 2, by omega⟩
    have hpar := nodes_ok body (125 :: follow) k hwf (by omega)
    exact for_node (k + 1) l₁ pat l₂ l₃ iter l₄ body follow h₁ h₂ h₃ h₄ hne₂ hne₄ hp hi (by omega) (by omega)
      (block_of_parses k body follow hwf hpar)
  | .matchOn l₀ e l₁ arms lEnd, follow, n, h, hn => by
    simp only [WFNode] at h
    simp only [fuelNode] at hn
    obtain ⟨h₀, h₁, hEnd, hne, hok, hwf⟩ := h
    obtain ⟨m, rfl⟩ : ∃ m, n = m + 1 := ⟨n - 1, by omega⟩
    rw [astNode]
    exact match_node m l₀ l₁ lEnd h₀ h₁ hEnd hne e hok (by omega) arms follow
      (arms_ok arms _ m hwf (by omega))
  | .call nb ncs args, follow, n, h, hn => by
    simp only [WFNode] at h
    simp only [fuelNode] at hn
    obtain ⟨hok, hwf⟩ := h
    obtain ⟨m, rfl⟩ : ∃ m, n = m + 2 := ⟨n - 2, by omega⟩
    rw [astNode]
    exact call_node m nb ncs hok args follow (args_ok args follow m hwf (by omega) (by omega))
theorem nodes_ok : (ns : List Node) → ∀ follow n, WF ns follow → fuelNodes ns ≤ n → Parses n ns follow
  | [], _, _, _, _ => trivial
  | x :: r, follow, n, h, hn => by
    simp only [WF] at h
    simp only [fuelNodes] at hn
    exact ⟨node_ok x _ n h.1 (by omega), nodes_ok r follow n h.2 (by omega)⟩
theorem chain_ok : (c : IfChain) → ∀ follow n, WFChain c follow → fuelChain c ≤ n →
    if2 n (printChain c ++ follow) = .ok follow (astChain c)
  | .last l₁ c l₂ body, follow, n, h, hn => by
    simp only [WFChain] at h
    simp only [fuelChain] at hn
    obtain ⟨h₁, h₂, hne, hc, hwf, hno⟩ := h
    obtain ⟨k, rfl⟩ : ∃ k, n = k + 2 := ⟨n - 2, by omega⟩
    have hpar := nodes_ok body (125 :: follow) k hwf (by omega)
    exact chain_last_ok (k + 1) l₁ c l₂ body follow h₁ h₂ hne hc (by omega) (by omega) hno
      (block_of_parses k body follow hwf hpar)
  | .els l₁ c l₂ body l₃ l₄ body2, follow, n, h, hn => by
    simp only [WFChain] at h
    simp only [fuelChain] at hn
    obtain ⟨h₁, h₂, hne, hc, h₃, h₄, hwf, hwf2⟩ := h
    obtain ⟨k, rfl⟩ : ∃ k, n = k + 2 := ⟨n - 2, by omega⟩
    have hpar := nodes_ok body _ k hwf (by omega)
    have hpar2 := nodes_ok body2 (125 :: follow) k hwf2 (by omega)
    exact chain_els_ok (k + 1) l₁ c l₂ body l₃ l₄ body2 follow h₁ h₂ hne hc (by omega) h₃ h₄
      (block_of_parses k body _ hwf hpar) (block_of_parses k body2 follow hwf2 hpar2)
  | .elif l₁ c l₂ body l₃ l₄ next, follow, n, h, hn => by
    simp only [WFChain] at h
    simp only [fuelChain] at hn
    obtain ⟨h₁, h₂, hne, hc, h₃, h₄, hwf, hwfn⟩ := h
    obtain ⟨k, rfl⟩ : ∃ k, n = k + 2 := ⟨n - 2, by omega⟩
    have hpar := nodes_ok body _ k hwf (by omega)
    have hnext := chain_ok next follow (k + 1) hwfn (by omega)
    exact chain_elif_ok (k + 1) l₁ c l₂ body l₃ l₄ next follow h₁ h₂ hne hc (by omega) h₃ h₄
      (block_of_parses k body _ hwf hpar) hnext
theorem arm_ok : (a : Arm) → ∀ R n, WFArm a R → fuelArm a ≤ n →
    (∃ e, CallL.armEnd (printArm a ++ R) = .err e) ∧ CallL.armP n (printArm a ++ R) = .ok R (astArm a)
  | .mk l₁ pat l₂ l₃ body, R, n, h, hn => by
    simp only [WFArm] at h
    simp only [fuelArm] at hn
    obtain ⟨h₁, h₂, h₃, hok, hwf⟩ := h
    obtain ⟨k, rfl⟩ : ∃ k, n = k + 1 := ⟨n - 1, by omega⟩
    have hpar := nodes_ok body (125 :: R) k hwf (by omega)
    exact arm_dexpr (k + 1) l₁ l₂ l₃ h₁ h₂ h₃ pat hok (by omega) body R (block_of_parses k body R hwf hpar)
theorem arms_ok : (as : List Arm) → ∀ F n, WFArms as F → fuelArms as ≤ n → ArmsParse n as F
  | [], _, _, _, _ => trivial
  | a :: r, F, n, h, hn => by
    simp only [WFArms] at h
    simp only [fuelArms] at hn
    exact ⟨arm_ok a _ n h.1 (by omega), arms_ok r F n h.2 (by omega)⟩
theorem arg_ok : (a : Arg) → ∀ X n, WFArg a X → CallL.ArgTail X → fuelArg a ≤ n → ArgP n a X
  | .rust pre e, X, n, h, hX, hn => by
    simp only [WFArg] at h
    simp only [fuelArg] at hn
    exact argP_rust n pre e h.2 hn X hX
  | .block pre body after, X, n, h, hX, hn => by
    simp only [WFArg] at h
    simp only [fuelArg] at hn
    obtain ⟨_, hafter, hwf⟩ := h
    obtain ⟨k, rfl⟩ : ∃ k, n = k + 1 := ⟨n - 1, by omega⟩
    have hpar := nodes_ok body _ (k + 1) hwf (by omega)
    exact argP_block (k + 1) pre body after hafter X hX (many0_nodes k _ body hwf hpar)
theorem more_ok : (r : List Arg) → ∀ rest n, WFMore r (41 :: rest) → fuelArgs r ≤ n → MoreParse n r (41 :: rest)
  | [], _, _, _, _ => trivial
  | a :: r, rest, n, h, hn => by
    simp only [WFMore] at h
    simp only [fuelArgs] at hn
    have hpre : LayoutOk a.pre := by
      cases a with
      | rust pre e => simp only [WFArg] at h; exact h.1.1
      | block pre body after => simp only [WFArg] at h; exact h.1.1
    exact ⟨⟨hpre, arg_ok a _ n h.1 (argTail_more r rest) (by omega)⟩, more_ok r rest n h.2 (by omega)⟩
theorem args_ok : (args : List Arg) → ∀ rest n, WFArgs args (41 :: rest) → fuelArgs args ≤ n → 2 ≤ n →
    sepList0 CallL.argSep (templateArgument (n + 1)) (printArgs args ++ 41 :: rest) = .ok (41 :: rest) (astArgs args)
  | [], rest, n, _, _, h2 => sepList0_noargs n h2 rest
  | a :: r, rest, n, h, hn, _ => by
    simp only [WFArgs] at h
    simp only [fuelArgs] at hn
    exact sepList0_args n rest a r h.1 (arg_ok a _ n h.2.1 (argTail_more r rest) (by omega))
      (more_ok r rest n h.2.2 (by omega))
end

/-- discharges `WF ns follow` for a concrete tree (after unfolding its definition): every side
condition is decided by evaluation; `C05.Stops` through the sufficient test `stopsB` -/
macro "src_wf" : tactic => `(tactic| (
  simp only [WF, WFNode, WFChain, WFArm, WFArms, WFArg, WFMore, WFArgs]
  and_intros
  all_goals first | exact trivial | exact stopsB_sound _ (by decide +kernel) | decide +kernel))

end Ructe.Src
