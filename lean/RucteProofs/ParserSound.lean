import RucteModel.Tpl
import RucteProofs.NomSound
open Nom

/-!
# Grammar-level soundness: every parser of `expression.rs`, `spacelike.rs`, `template.rs`,
`templateexpression.rs` is `Good` (suffix-respecting, panic-free, error entries in range).
-/
namespace Ructe

theorem good_tagS (s : String) : Good (tagS s) := good_tag _
macro_rules | `(tactic| good_step) => `(tactic| with_reducible exact good_tagS _)

theorem esc_ascii : ∀ b ∈ str "'\"\\nrt0xu", b < 0x80 := by decide +kernel
theorem good_oneOf_esc : Good (oneOf (str "'\"\\nrt0xu")) := good_oneOf esc_ascii
macro_rules | `(tactic| good_step) => `(tactic| with_reducible exact good_oneOf_esc)

theorem good_rustName : Good rustName := by unfold rustName; good
macro_rules | `(tactic| good_step) => `(tactic| with_reducible exact good_rustName)

theorem good_rustComment : Good rustComment := by unfold rustComment; good
macro_rules | `(tactic| good_step) => `(tactic| with_reducible exact good_rustComment)

theorem good_quotedString : Good quotedString := by unfold quotedString; good
macro_rules | `(tactic| good_step) => `(tactic| with_reducible exact good_quotedString)

theorem good_exprs : ∀ n, Good (exprInParens n) ∧ Good (exprInBrackets n) ∧
    Good (exprInBraces n) ∧ Good (exprInsideParens n) := by
  intro n
  induction n with
  | zero =>
    refine ⟨?_, ?_, ?_, ?_⟩
    · rw [exprInParens]; exact good_oom
    · rw [exprInBrackets]; exact good_oom
    · rw [exprInBraces]; exact good_oom
    · rw [exprInsideParens]; exact good_oom
  | succ n ih =>
    obtain ⟨h1, h2, h3, h4⟩ := ih
    refine ⟨?_, ?_, ?_, ?_⟩
    · rw [exprInParens]; good
    · rw [exprInBrackets]; good
    · rw [exprInBraces]; good
    · rw [exprInsideParens]; good

theorem good_exprInParens (n : Nat) : Good (exprInParens n) := (good_exprs n).1
theorem good_exprInBrackets (n : Nat) : Good (exprInBrackets n) := (good_exprs n).2.1
theorem good_exprInBraces (n : Nat) : Good (exprInBraces n) := (good_exprs n).2.2.1
theorem good_exprInsideParens (n : Nat) : Good (exprInsideParens n) := (good_exprs n).2.2.2
macro_rules | `(tactic| good_step) => `(tactic| with_reducible exact good_exprInParens _)
macro_rules | `(tactic| good_step) => `(tactic| with_reducible exact good_exprInBrackets _)
macro_rules | `(tactic| good_step) => `(tactic| with_reducible exact good_exprInBraces _)
macro_rules | `(tactic| good_step) => `(tactic| with_reducible exact good_exprInsideParens _)

theorem good_foldMany0 {α} {p : Parser α} (hp : Good p) : Good (foldMany0 p) :=
  good_value (good_many0 hp)
macro_rules | `(tactic| good_step) => `(tactic| with_reducible apply good_foldMany0)

theorem good_expression : ∀ n, Good (expression n) := by
  intro n
  induction n with
  | zero => rw [expression]; exact good_oom
  | succ n ih => rw [expression]; good
macro_rules | `(tactic| good_step) => `(tactic| with_reducible exact good_expression _)

theorem good_commentTail : Good commentTail := by unfold commentTail; good
macro_rules | `(tactic| good_step) => `(tactic| with_reducible exact good_commentTail)
theorem good_comment : Good comment := by unfold comment; good
macro_rules | `(tactic| good_step) => `(tactic| with_reducible exact good_comment)
theorem good_spacelike : Good spacelike := by unfold spacelike; good
macro_rules | `(tactic| good_step) => `(tactic| with_reducible exact good_spacelike)

theorem good_commaExpressions (n : Nat) : Good (commaExpressions n) := by
  unfold commaExpressions; good
macro_rules | `(tactic| good_step) => `(tactic| with_reducible exact good_commaExpressions _)

theorem good_relOperator : Good relOperator := by unfold relOperator; good
macro_rules | `(tactic| good_step) => `(tactic| with_reducible exact good_relOperator)

theorem good_logicExpression (k n : Nat) : Good (logicExpression k n) := by
  induction k with
  | zero => rw [logicExpression]; exact good_oom
  | succ k ih => rw [logicExpression]; good
macro_rules | `(tactic| good_step) => `(tactic| with_reducible exact good_logicExpression _ _)

theorem condExpression_eq (n : Nat) : condExpression n =
    pbind (opt (tagS "let")) (fun o i => match o with
      | some _ =>
        pmap (seq
          (preceded spacelike (context "Expected LHS expression in let binding" (expression n)))
          (preceded (delimited spacelike (char 61) spacelike)
            (context "Expected RHS expression in let binding" (expression n))))
          (fun (l, r) => str "let " ++ l ++ str " = " ++ r) i
      | none => context "Expected expression" (logicExpression n n) i) := by
  funext inp
  simp only [condExpression, pbind]
  split <;> simp_all

theorem good_condExpression (n : Nat) : Good (condExpression n) := by
  rw [condExpression_eq]
  apply good_pbind
  · good
  · intro o
    cases o with
    | none => simp only []; good
    | some k => simp only []; good
macro_rules | `(tactic| good_step) => `(tactic| with_reducible exact good_condExpression _)

theorem good_loopExpression (n : Nat) : Good (loopExpression n) := by
  unfold loopExpression; good
macro_rules | `(tactic| good_step) => `(tactic| with_reducible exact good_loopExpression _)

theorem good_forVariable (n : Nat) : Good (forVariable n) := by
  unfold forVariable; good
macro_rules | `(tactic| good_step) => `(tactic| with_reducible exact good_forVariable _)

theorem templateExpression_eq (n : Nat) : templateExpression (n+1) =
    pbind (opt (preceded (char 64) (alt [
        tagS "*", tagS ":", tagS "@", tagS "{", tagS "}", tagS "(",
        terminated (alt [tagS "if", tagS "for", tagS "match"]) (tagS " "),
        value [] (tag [])]))) (fun o i => match o with
    | some k =>
      if k = str ":" then
        pmap (seq rustName (delimited (char 40)
          (sepList0 (terminated (tagS ",") spacelike) (templateArgument n)) (char 41)))
          (fun (name, args) => TExpr.call name args) i
      else if k = str "@" then .ok i (.text (str "@"))
      else if k = str "{" then .ok i (.text (str "{"))
      else if k = str "}" then .ok i (.text (str "}"))
      else if k = str "*" then pmap commentTail (fun _ => TExpr.comment) i
      else if k = str "if" then if2 n i
      else if k = str "for" then
        pmap (seq (forVariable n)
          (seq (delimited (terminated (context "Expected \"in\"" (tagS "in")) spacelike)
                  (context "Expected iterable expression" (loopExpression n)) spacelike)
               (context "Error in loop block:" (templateBlock n))))
          (fun (name, expr, body) => TExpr.forLoop name expr body) i
      else if k = str "match" then
        context "Error in match expression:"
          (pmap (seq (delimited spacelike (expression n) spacelike)
            (preceded (char 123)
              (pmap (manyTill
                (context "Error in match arm starting here:"
                  (seq (delimited spacelike (expression n) spacelike)
                       (preceded (terminated (tagS "=>") spacelike) (templateBlock n))))
                (preceded spacelike (char 125))) (·.1))))
            (fun (expr, arms) => TExpr.matchBlock expr arms)) i
      else if k = str "(" then
        pmap (terminated (exprInsideParens n) (tagS ")"))
          (fun e => TExpr.expr (str "(" ++ e ++ str ")")) i
      else
        pmap (expression n) TExpr.expr i
    | none =>
      pmap (mapRes (isNot (str "@{}")) toStr) TExpr.text i) := by
  funext inp
  rw [templateExpression]
  simp only [pbind]
  split <;> simp_all

theorem good_tpl : ∀ n, Good (templateExpression n) ∧ Good (if2 n) ∧
    Good (templateBlock n) ∧ Good (templateArgument n) := by
  intro n
  induction n with
  | zero =>
    refine ⟨?_, ?_, ?_, ?_⟩
    · rw [templateExpression]; exact good_oom
    · rw [if2]; exact good_oom
    · rw [templateBlock]; exact good_oom
    · rw [templateArgument]; exact good_oom
  | succ n ih =>
    obtain ⟨h1, h2, h3, h4⟩ := ih
    refine ⟨?_, ?_, ?_, ?_⟩
    · rw [templateExpression_eq]
      apply good_pbind
      · good
      · intro o
        cases o with
        | none => simp only []; good
        | some k => simp only []; good
    · rw [if2]; good
    · rw [templateBlock]; good
    · rw [templateArgument]; good

theorem good_templateExpression (n : Nat) : Good (templateExpression n) := (good_tpl n).1
theorem good_if2 (n : Nat) : Good (if2 n) := (good_tpl n).2.1
theorem good_templateBlock (n : Nat) : Good (templateBlock n) := (good_tpl n).2.2.1
theorem good_templateArgument (n : Nat) : Good (templateArgument n) := (good_tpl n).2.2.2
macro_rules | `(tactic| good_step) => `(tactic| with_reducible exact good_templateExpression _)

theorem endOfFile_ok {inp r v} (h : endOfFile inp = .ok r v) : r = [] := by
  unfold endOfFile at h
  split at h
  · injection h with h1 h2; exact h1.symm
  · simp at h

theorem good_endOfFile : Good endOfFile where
  sfx := by intro inp r v h; rw [endOfFile_ok h]; exact List.nil_suffix
  np := by intro inp h; unfold endOfFile at h; split at h <;> simp at h
  ei := by
    intro inp es h; unfold endOfFile at h
    split at h
    · simp at h
    · simp at h; subst h; simp
macro_rules | `(tactic| good_step) => `(tactic| with_reducible exact good_endOfFile)

theorem good_lifetime : Good lifetime := by unfold lifetime; good
macro_rules | `(tactic| good_step) => `(tactic| with_reducible exact good_lifetime)

theorem good_types : ∀ n, Good (typeExpression n) ∧ Good (commaTypeExpressions n) := by
  intro n
  induction n with
  | zero =>
    refine ⟨?_, ?_⟩
    · rw [typeExpression]; exact good_oom
    · rw [commaTypeExpressions]; exact good_oom
  | succ n ih =>
    obtain ⟨h1, h2⟩ := ih
    refine ⟨?_, ?_⟩
    · rw [typeExpression]; good
    · rw [commaTypeExpressions]; good

theorem good_typeExpression (n : Nat) : Good (typeExpression n) := (good_types n).1
macro_rules | `(tactic| good_step) => `(tactic| with_reducible exact good_typeExpression _)

theorem good_formalArgument (n : Nat) : Good (formalArgument n) := by
  unfold formalArgument; good
macro_rules | `(tactic| good_step) => `(tactic| with_reducible exact good_formalArgument _)

theorem good_template (n : Nat) : Good (template n) := by
  unfold template; good

theorem endsEmpty_template (n : Nat) : EndsEmpty (template n) := by
  unfold template
  apply endsEmpty_pmap
  repeat apply endsEmpty_seq_right
  apply endsEmpty_manyTill
  intro inp r v h; exact endOfFile_ok h

/-! ### exact shape of what the expression scanners return (C05) -/

theorem toStr_some {w v : Bytes} (h : toStr w = some v) : w = v ∧ validUtf8 v = true := by
  unfold toStr at h
  split at h
  · next hv => injection h with h; subst h; exact ⟨rfl, hv⟩
  · simp at h

/-- `map_res(recognize(p), from_utf8)`: the value is exactly the consumed prefix, and valid UTF-8 -/
theorem recognized_sound {α} {p : Parser α} (hp : Good p) {inp rest v : Bytes}
    (h : mapRes (recognize p) toStr inp = .ok rest v) :
    inp = v ++ rest ∧ validUtf8 v = true ∧ ∃ w, p inp = .ok rest w := by
  obtain ⟨w, hw, hv⟩ := mapRes_ok h
  obtain ⟨rfl, hvalid⟩ := toStr_some hv
  obtain ⟨h1, h2⟩ := recognize_ok hp.sfx hw
  exact ⟨h1, hvalid, h2⟩

/-- the consumed prefix of `delimited(open, q, close)` is `a ++ mid ++ b` when `open` / `close`
consume exactly `a` / `b` -/
theorem delimited_shape {α β γ} {p : Parser α} {q : Parser β} {s : Parser γ} {a b : Bytes}
    (hp : ∀ i r x, p i = .ok r x → i = a ++ r) (hq : Sfx q) (hs : ∀ i r x, s i = .ok r x → i = b ++ r)
    {inp r v} (h : delimited p q s inp = .ok r v) : ∃ mid, inp = a ++ mid ++ b ++ r := by
  obtain ⟨r1, r2, x, c, h1, h2, h3⟩ := delimited_ok h
  obtain ⟨mid, hmid⟩ := hq _ _ _ h2
  refine ⟨mid, ?_⟩
  rw [hp _ _ _ h1, ← hmid, hs _ _ _ h3]
  simp

theorem tag_shape (t : Bytes) : ∀ i r x, tag t i = .ok r x → i = t ++ r :=
  fun _ _ _ h => (tag_ok h).1
theorem char_shape (c : UInt8) : ∀ i r x, char c i = .ok r x → i = [c] ++ r :=
  fun _ _ _ h => (char_ok h).1

theorem consumes_rustName : Consumes rustName := by
  unfold rustName
  apply consumes_mapRes; apply consumes_recognize; apply consumes_seq_left
  · apply consumes_alt_cons (consumes_tag (by decide +kernel)); apply consumes_alt_one; exact consumes_take1 _
  · exact Good.sfx (by good)

theorem consumes_quotedString : Consumes quotedString := by
  unfold quotedString
  apply consumes_mapRes; apply consumes_recognize; apply consumes_delimited_left (consumes_char _)
  · exact Good.sfx (by good)
  · exact Good.sfx (by good)

theorem consumes_exprInParens (n : Nat) : Consumes (exprInParens n) := by
  cases n with
  | zero => rw [exprInParens]; exact consumes_oom
  | succ n =>
    rw [exprInParens]
    apply consumes_mapRes; apply consumes_recognize
    apply consumes_delimited_left (consumes_tag (by decide +kernel))
    · exact Good.sfx (by good)
    · exact Good.sfx (by good)

theorem consumes_exprInBrackets (n : Nat) : Consumes (exprInBrackets n) := by
  cases n with
  | zero => rw [exprInBrackets]; exact consumes_oom
  | succ n =>
    rw [exprInBrackets]
    apply consumes_mapRes; apply consumes_recognize
    apply consumes_delimited_left (consumes_tag (by decide +kernel))
    · exact Good.sfx (by good)
    · exact Good.sfx (by good)

end Ructe
