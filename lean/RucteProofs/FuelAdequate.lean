import RucteProofs.ParserSound
open Nom

/-!
# Fuel adequacy

`Tot L p`: on every input of length at most `L` the parser `p` does not run out of fuel.
The loops' own counters (`input.length + 1`) never run out because an iteration either consumes
or ends the loop; the named recursive parsers get by with fuel `2 * L + c` because every cycle in the
call graph passes through a step that consumes a byte (`tot_seq_c`), and calls on the *same* input
only go to parsers that are strictly lower in a fixed rank order.
-/
namespace Nom

variable {α β γ : Type}

def Tot (L : Nat) (p : Parser α) : Prop := ∀ inp, inp.length ≤ L → p inp ≠ .oom

theorem Tot.anti {L L' : Nat} {p : Parser α} (h : Tot L p) (hle : L' ≤ L) : Tot L' p :=
  fun inp hi => h inp (Nat.le_trans hi hle)

/-! ### primitives -/

theorem tot_tag (L : Nat) (t : Bytes) : Tot L (tag t) := by
  intro inp _ h; unfold tag at h; split at h <;> simp at h

theorem tot_char (L : Nat) (c : UInt8) : Tot L (char c) := by
  intro inp _ h; unfold char at h
  split at h
  · split at h <;> simp at h
  · simp at h

theorem tot_take1 (L : Nat) (p : UInt8 → Bool) : Tot L (take1 p) := by
  intro inp _ h; unfold take1 at h; split at h <;> simp at h

theorem tot_isNot (L : Nat) (s : Bytes) : Tot L (isNot s) := isNot_eq s ▸ tot_take1 L _
theorem tot_isA (L : Nat) (s : Bytes) : Tot L (isA s) := isA_eq s ▸ tot_take1 L _
theorem tot_multispace1 (L : Nat) : Tot L multispace1 := tot_take1 L _
theorem tot_alpha1 (L : Nat) : Tot L alpha1 := tot_take1 L _
theorem tot_digit1 (L : Nat) : Tot L digit1 := tot_take1 L _

theorem tot_multispace0 (L : Nat) : Tot L multispace0 := by
  intro inp _ h; simp [multispace0] at h

theorem tot_oneOf (L : Nat) (set : Bytes) : Tot L (oneOf set) := by
  intro inp _ h; unfold oneOf at h
  split at h
  · split at h
    · unfold satisfyAdvance at h
      split at h
      · simp at h
      · split at h <;> simp at h
    · simp at h
  · simp at h

theorem tot_ret (L : Nat) (v : α) : Tot L (fun i => Res.ok i v : Parser α) := by
  intro inp _ h; simp at h

/-! ### first-order combinators -/

theorem tot_pmap {L : Nat} {p : Parser α} {f : α → β} (hp : Tot L p) : Tot L (pmap p f) := by
  intro inp hi h; unfold pmap at h
  split at h <;> try simp at h
  next h0 => exact hp inp hi h0

theorem tot_value {L : Nat} {p : Parser α} {v : β} (hp : Tot L p) : Tot L (value v p) := tot_pmap hp

theorem tot_mapRes {L : Nat} {p : Parser α} {f : α → Option β} (hp : Tot L p) : Tot L (mapRes p f) := by
  intro inp hi h; unfold mapRes at h
  split at h <;> try simp at h
  · split at h <;> simp at h
  · next h0 => exact hp inp hi h0

theorem tot_recognize {L : Nat} {p : Parser α} (hp : Tot L p) : Tot L (recognize p) := by
  intro inp hi h; unfold recognize at h
  split at h <;> try simp at h
  next h0 => exact hp inp hi h0

theorem tot_seq {L : Nat} {p : Parser α} {q : Parser β} (hg : Good p) (hp : Tot L p) (hq : Tot L q) :
    Tot L (seq p q) := by
  intro inp hi h; unfold seq at h
  split at h <;> try simp at h
  · next r1 a h1 =>
    split at h <;> try simp at h
    next h2 => exact hq r1 (Nat.le_trans (hg.sfx.len h1) hi) h2
  · next h0 => exact hp inp hi h0

/-- after a consuming first component, the second one only has to be total on strictly shorter inputs -/
theorem tot_seq_c {L : Nat} {p : Parser α} {q : Parser β} (hc : Consumes p) (hp : Tot L p)
    (hq : ∀ L', L' < L → Tot L' q) : Tot L (seq p q) := by
  intro inp hi h; unfold seq at h
  split at h <;> try simp at h
  · next r1 a h1 =>
    split at h <;> try simp at h
    next h2 =>
      have := hc _ _ _ h1
      exact hq r1.length (by omega) r1 (Nat.le_refl _) h2
  · next h0 => exact hp inp hi h0

theorem tot_preceded {L : Nat} {p : Parser α} {q : Parser β} (hg : Good p) (hp : Tot L p) (hq : Tot L q) :
    Tot L (preceded p q) := tot_pmap (tot_seq hg hp hq)
theorem tot_terminated {L : Nat} {p : Parser α} {q : Parser β} (hg : Good p) (hp : Tot L p) (hq : Tot L q) :
    Tot L (terminated p q) := tot_pmap (tot_seq hg hp hq)
theorem tot_delimited {L : Nat} {p : Parser α} {q : Parser β} {s : Parser γ}
    (hgp : Good p) (hgq : Good q) (hp : Tot L p) (hq : Tot L q) (hs : Tot L s) : Tot L (delimited p q s) :=
  tot_preceded hgp hp (tot_terminated hgq hq hs)

theorem tot_preceded_c {L : Nat} {p : Parser α} {q : Parser β} (hc : Consumes p) (hp : Tot L p)
    (hq : ∀ L', L' < L → Tot L' q) : Tot L (preceded p q) := tot_pmap (tot_seq_c hc hp hq)
theorem tot_terminated_c {L : Nat} {p : Parser α} {q : Parser β} (hc : Consumes p) (hp : Tot L p)
    (hq : ∀ L', L' < L → Tot L' q) : Tot L (terminated p q) := tot_pmap (tot_seq_c hc hp hq)

theorem tot_orElse {L : Nat} {p q : Parser α} (hp : Tot L p) (hq : Tot L q) : Tot L (orElse p q) := by
  intro inp hi h; unfold orElse at h
  split at h
  · exact hq inp hi h
  · exact hp inp hi h

theorem tot_alt_nil {L : Nat} : Tot L (alt ([] : List (Parser α))) := by
  intro inp _ h; simp [alt] at h
theorem tot_alt_one {L : Nat} {p : Parser α} (hp : Tot L p) : Tot L (alt [p]) := hp
theorem tot_alt_cons {L : Nat} {p q : Parser α} {ps : List (Parser α)} (hp : Tot L p)
    (hq : Tot L (alt (q :: ps))) : Tot L (alt (p :: q :: ps)) := tot_orElse hp hq

theorem tot_opt {L : Nat} {p : Parser α} (hp : Tot L p) : Tot L (opt p) := by
  intro inp hi h; unfold opt at h
  split at h <;> try simp at h
  next h0 => exact hp inp hi h0

theorem tot_context {L : Nat} {p : Parser α} {msg : String} (hp : Tot L p) : Tot L (context msg p) := by
  intro inp hi h; unfold context at h
  split at h
  · simp at h
  · exact hp inp hi h

theorem tot_pnot {L : Nat} {p : Parser α} (hp : Tot L p) : Tot L (pnot p) := by
  intro inp hi h; unfold pnot at h
  split at h <;> try simp at h
  next h0 => exact hp inp hi h0

/-! ### loops: the counter `input.length + 1` never runs out -/

theorem many0Go_tot {L : Nat} {p : Parser α} (hg : Good p) (hp : Tot L p) :
    ∀ n inp acc, inp.length < n → inp.length ≤ L → many0Go p n inp acc ≠ .oom := by
  intro n
  induction n with
  | zero => intro inp acc hn; omega
  | succ n ih =>
    intro inp acc hn hi h
    simp only [many0Go] at h
    split at h
    · simp at h
    · next h0 => exact hp inp hi h0
    · simp at h
    · next r v h1 =>
      have := hg.sfx.len h1
      split at h
      · simp at h
      · exact ih _ _ (by omega) (by omega) h

theorem tot_many0 {L : Nat} {p : Parser α} (hg : Good p) (hp : Tot L p) : Tot L (many0 p) :=
  fun inp hi => many0Go_tot hg hp _ inp [] (Nat.lt_succ_self _) hi

theorem manyTillGo_tot {L : Nat} {f : Parser α} {g : Parser β} (hgf : Good f) (hf : Tot L f) (hg : Tot L g) :
    ∀ n inp acc, inp.length < n → inp.length ≤ L → manyTillGo f g n inp acc ≠ .oom := by
  intro n
  induction n with
  | zero => intro inp acc hn; omega
  | succ n ih =>
    intro inp acc hn hi h
    simp only [manyTillGo] at h
    split at h
    · simp at h
    · next h0 => exact hg inp hi h0
    · simp at h
    · split at h
      · simp at h
      · next h0 => exact hf inp hi h0
      · simp at h
      · next r v h1 =>
        have := hgf.sfx.len h1
        split at h
        · simp at h
        · exact ih _ _ (by omega) (by omega) h

theorem tot_manyTill {L : Nat} {f : Parser α} {g : Parser β} (hgf : Good f) (hf : Tot L f) (hg : Tot L g) :
    Tot L (manyTill f g) :=
  fun inp hi => manyTillGo_tot hgf hf hg _ inp [] (Nat.lt_succ_self _) hi

theorem sepLoop_tot {L : Nat} {sep : Parser β} {p : Parser α} (hgs : Good sep) (hgp : Good p)
    (hs : Tot L sep) (hp : Tot L p) :
    ∀ n inp acc, inp.length < n → inp.length ≤ L → sepLoop sep p n inp acc ≠ .oom := by
  intro n
  induction n with
  | zero => intro inp acc hn; omega
  | succ n ih =>
    intro inp acc hn hi h
    simp only [sepLoop] at h
    split at h
    · simp at h
    · next h0 => exact hs inp hi h0
    · simp at h
    · next r1 v1 h1 =>
      have := hgs.sfx.len h1
      split at h
      · simp at h
      · next h0 => exact hp r1 (by omega) h0
      · simp at h
      · next r2 v2 h2 =>
        have := hgp.sfx.len h2
        split at h
        · simp at h
        · exact ih _ _ (by omega) (by omega) h

theorem tot_sepList0 {L : Nat} {sep : Parser β} {p : Parser α} (hgs : Good sep) (hgp : Good p)
    (hs : Tot L sep) (hp : Tot L p) : Tot L (sepList0 sep p) := by
  intro inp hi h; unfold sepList0 at h
  split at h
  · simp at h
  · next h0 => exact hp inp hi h0
  · simp at h
  · next r v h1 =>
    have := hgp.sfx.len h1
    exact sepLoop_tot hgs hgp hs hp _ _ _ (Nat.lt_succ_self _) (by omega) h

theorem tot_sepList1 {L : Nat} {sep : Parser β} {p : Parser α} (hgs : Good sep) (hgp : Good p)
    (hs : Tot L sep) (hp : Tot L p) : Tot L (sepList1 sep p) := by
  intro inp hi h; unfold sepList1 at h
  split at h
  · simp at h
  · next h0 => exact hp inp hi h0
  · simp at h
  · next r v h1 =>
    have := hgp.sfx.len h1
    exact sepLoop_tot hgs hgp hs hp _ _ _ (Nat.lt_succ_self _) (by omega) h

theorem escapedGo_tot {L : Nat} {normal : Parser α} {ctl : UInt8} {esc : Parser β} {input : Bytes}
    (hgn : Good normal) (hge : Good esc) (hn : Tot L normal) (he : Tot L esc) :
    ∀ n i, i.length < n → i.length ≤ L → escapedGo normal ctl esc input n i ≠ .oom := by
  intro n
  induction n with
  | zero => intro i hlt; omega
  | succ n ih =>
    intro i hlt hi h
    simp only [escapedGo] at h
    split at h
    · simp at h
    · next hne =>
      split at h
      · next h0 => exact hn i hi h0
      · simp at h
      · next i2 v2 h1 =>
        have := hgn.sfx.len h1
        split at h
        · simp at h
        · split at h
          · simp at h
          · exact ih _ (by omega) (by omega) h
      · split at h
        · simp at hne
        · next b rest _ =>
          simp only [List.length_cons] at hlt hi
          split at h
          · split at h
            · simp at h
            · split at h
              · next h0 => exact he rest (by omega) h0
              · simp at h
              · simp at h
              · next i2 v2 h2 =>
                have := hge.sfx.len h2
                split at h
                · simp at h
                · exact ih _ (by omega) (by omega) h
          · split at h <;> simp at h

theorem tot_escaped {L : Nat} {normal : Parser α} {ctl : UInt8} {esc : Parser β}
    (hgn : Good normal) (hge : Good esc) (hn : Tot L normal) (he : Tot L esc) :
    Tot L (escaped normal ctl esc) :=
  fun inp hi => escapedGo_tot hgn hge hn he _ inp (Nat.lt_succ_self _) hi

/-! ### `pbind` -/

theorem tot_pbind {L : Nat} {p : Parser α} {f : α → Parser β} (hg : Good p) (hp : Tot L p)
    (hf : ∀ a, Tot L (f a)) : Tot L (pbind p f) := by
  intro inp hi h; unfold pbind at h
  split at h <;> try simp at h
  · next r1 a h1 => exact hf a r1 (Nat.le_trans (hg.sfx.len h1) hi) h
  · next h0 => exact hp inp hi h0

/-- an optional consuming prefix: the continuation after a match runs on a strictly shorter input -/
theorem tot_pbind_opt {L : Nat} {p : Parser α} {f : Option α → Parser β} (hc : Consumes p) (hp : Tot L p)
    (hs : ∀ k, ∀ L', L' < L → Tot L' (f (some k))) (hn : Tot L (f none)) : Tot L (pbind (opt p) f) := by
  intro inp hi h; unfold pbind opt at h
  split at h <;> try simp at h
  · next r1 a h1 =>
    split at h1 <;> try simp at h1
    · next r2 v2 h2 =>
      obtain ⟨e1, e2⟩ := h1
      subst e1 e2
      have := hc _ _ _ h2
      exact hs _ r2.length (by omega) r2 (Nat.le_refl _) h
    · obtain ⟨e1, e2⟩ := h1
      subst e1 e2
      exact hn _ hi h
  · next h0 =>
    split at h0 <;> try simp at h0
    next h1 => exact hp inp hi h1

theorem tot_ite_fun {L : Nat} {c : Prop} [Decidable c] {p q : Parser α} (hp : Tot L p) (hq : Tot L q) :
    Tot L (fun i => if c then p i else q i) := by
  by_cases h : c
  · simp only [h, if_true]; exact hp
  · simp only [h, if_false]; exact hq

theorem consumes_delimited_mid {p : Parser α} {q : Parser β} {s : Parser γ}
    (hp : Sfx p) (hq : Consumes q) (hs : Sfx s) : Consumes (delimited p q s) := by
  intro inp r v h
  obtain ⟨r1, r2, a, c, h1, h2, h3⟩ := delimited_ok h
  have := hp.len h1; have := hq _ _ _ h2; have := hs.len h3
  omega

/-- one syntactic step of a `Tot` derivation (side goals `Good _` are left to `good_step`) -/
macro "tot_step" : tactic => `(tactic| with_reducible first
  | assumption
  | exact tot_tag _ _ | exact tot_char _ _ | exact tot_isNot _ _ | exact tot_isA _ _
  | exact tot_multispace0 _ | exact tot_multispace1 _ | exact tot_alpha1 _ | exact tot_digit1 _
  | exact tot_take1 _ _ | exact tot_oneOf _ _
  | exact tot_ret _ _
  | apply tot_alt_cons | apply tot_alt_one | apply tot_alt_nil | apply tot_orElse
  | apply tot_ite_fun
  | apply tot_value | apply tot_preceded | apply tot_terminated | apply tot_delimited
  | apply tot_pmap | apply tot_mapRes | apply tot_recognize | apply tot_seq
  | apply tot_opt | apply tot_context | apply tot_pnot
  | apply tot_many0 | apply tot_manyTill | apply tot_sepList0 | apply tot_sepList1
  | apply tot_escaped | apply tot_pbind)

macro "tot" : tactic => `(tactic| repeat' (first | tot_step | good_step))

end Nom

namespace Ructe

macro_rules | `(tactic| good_step) => `(tactic| with_reducible exact good_if2 _)
macro_rules | `(tactic| good_step) => `(tactic| with_reducible exact good_templateBlock _)
macro_rules | `(tactic| good_step) => `(tactic| with_reducible exact good_templateArgument _)
macro_rules | `(tactic| good_step) => `(tactic| with_reducible exact (good_types _).2)

theorem tot_tagS (L : Nat) (s : String) : Tot L (tagS s) := tot_tag L _
macro_rules | `(tactic| tot_step) => `(tactic| with_reducible exact tot_tagS _ _)

theorem tot_foldMany0 {α} {L : Nat} {p : Parser α} (hg : Good p) (hp : Tot L p) : Tot L (foldMany0 p) :=
  tot_value (tot_many0 hg hp)
macro_rules | `(tactic| tot_step) => `(tactic| with_reducible apply tot_foldMany0)

/-! ### parsers without fuel -/

theorem tot_rustName (L : Nat) : Tot L rustName := by unfold rustName; tot
macro_rules | `(tactic| tot_step) => `(tactic| with_reducible exact tot_rustName _)
theorem tot_rustComment (L : Nat) : Tot L rustComment := by unfold rustComment; tot
macro_rules | `(tactic| tot_step) => `(tactic| with_reducible exact tot_rustComment _)
theorem tot_quotedString (L : Nat) : Tot L quotedString := by unfold quotedString; tot
macro_rules | `(tactic| tot_step) => `(tactic| with_reducible exact tot_quotedString _)
theorem tot_commentTail (L : Nat) : Tot L commentTail := by unfold commentTail; tot
macro_rules | `(tactic| tot_step) => `(tactic| with_reducible exact tot_commentTail _)
theorem tot_comment (L : Nat) : Tot L comment := by unfold comment; tot
macro_rules | `(tactic| tot_step) => `(tactic| with_reducible exact tot_comment _)
theorem tot_spacelike (L : Nat) : Tot L spacelike := by unfold spacelike; tot
macro_rules | `(tactic| tot_step) => `(tactic| with_reducible exact tot_spacelike _)
theorem tot_relOperator (L : Nat) : Tot L relOperator := by unfold relOperator; tot
macro_rules | `(tactic| tot_step) => `(tactic| with_reducible exact tot_relOperator _)
theorem tot_lifetime (L : Nat) : Tot L lifetime := by unfold lifetime; tot
macro_rules | `(tactic| tot_step) => `(tactic| with_reducible exact tot_lifetime _)
theorem tot_endOfFile (L : Nat) : Tot L endOfFile := by
  intro inp _ h; unfold endOfFile at h; split at h <;> simp at h
macro_rules | `(tactic| tot_step) => `(tactic| with_reducible exact tot_endOfFile _)

/-! ### the group scanners of `expression.rs`: fuel `2 * L + 1` (`+ 2` for `expr_inside_parens`) -/

theorem exprInParens_step {L m : Nat} (hlt : ∀ L', L' < L → Tot L' (exprInsideParens m)) :
    Tot L (exprInParens (m + 1)) := by
  rw [exprInParens]
  apply tot_mapRes; apply tot_recognize
  apply tot_preceded_c (consumes_tag (by decide +kernel)) (tot_tag _ _)
  intro L' hL'
  have := hlt L' hL'
  tot

theorem exprInBrackets_step {L m : Nat}
    (hlt : ∀ L', L' < L → Tot L' (exprInParens m) ∧ Tot L' (exprInBrackets m) ∧ Tot L' (exprInBraces m)) :
    Tot L (exprInBrackets (m + 1)) := by
  rw [exprInBrackets]
  apply tot_mapRes; apply tot_recognize
  apply tot_preceded_c (consumes_tag (by decide +kernel)) (tot_tag _ _)
  intro L' hL'
  obtain ⟨h1, h2, h3⟩ := hlt L' hL'
  tot

theorem exprInBraces_step {L m : Nat}
    (hlt : ∀ L', L' < L → Tot L' (exprInParens m) ∧ Tot L' (exprInBrackets m) ∧ Tot L' (exprInBraces m)) :
    Tot L (exprInBraces (m + 1)) := by
  rw [exprInBraces]
  apply tot_mapRes; apply tot_recognize
  apply tot_preceded_c (consumes_tag (by decide +kernel)) (tot_tag _ _)
  intro L' hL'
  obtain ⟨h1, h2, h3⟩ := hlt L' hL'
  tot

theorem exprInsideParens_step {L m : Nat}
    (h1 : Tot L (exprInParens m)) (h2 : Tot L (exprInBrackets m)) (h3 : Tot L (exprInBraces m)) :
    Tot L (exprInsideParens (m + 1)) := by
  rw [exprInsideParens]; tot

theorem tot_exprs : ∀ L n,
    (2 * L + 1 ≤ n → Tot L (exprInParens n) ∧ Tot L (exprInBrackets n) ∧ Tot L (exprInBraces n)) ∧
    (2 * L + 2 ≤ n → Tot L (exprInsideParens n)) := by
  intro L
  induction L using Nat.strongRecOn with
  | _ L ih =>
    have A : ∀ n, 2 * L + 1 ≤ n →
        Tot L (exprInParens n) ∧ Tot L (exprInBrackets n) ∧ Tot L (exprInBraces n) := by
      intro n hn
      obtain ⟨m, rfl⟩ : ∃ m, n = m + 1 := ⟨n - 1, by omega⟩
      have hlt : ∀ L', L' < L → Tot L' (exprInParens m) ∧ Tot L' (exprInBrackets m) ∧ Tot L' (exprInBraces m) :=
        fun L' hL' => (ih L' hL' m).1 (by omega)
      exact ⟨exprInParens_step (fun L' hL' => (ih L' hL' m).2 (by omega)),
        exprInBrackets_step hlt, exprInBraces_step hlt⟩
    intro n
    refine ⟨A n, ?_⟩
    intro hn
    obtain ⟨m, rfl⟩ : ∃ m, n = m + 1 := ⟨n - 1, by omega⟩
    obtain ⟨h1, h2, h3⟩ := A m (by omega)
    exact exprInsideParens_step h1 h2 h3

theorem tot_exprInParens {L n : Nat} (h : 2 * L + 1 ≤ n) : Tot L (exprInParens n) := ((tot_exprs L n).1 h).1
theorem tot_exprInBrackets {L n : Nat} (h : 2 * L + 1 ≤ n) : Tot L (exprInBrackets n) := ((tot_exprs L n).1 h).2.1
theorem tot_exprInBraces {L n : Nat} (h : 2 * L + 1 ≤ n) : Tot L (exprInBraces n) := ((tot_exprs L n).1 h).2.2
theorem tot_exprInsideParens {L n : Nat} (h : 2 * L + 2 ≤ n) : Tot L (exprInsideParens n) := (tot_exprs L n).2 h

/-! ### `expression`: fuel `2 * L + 2` -/

theorem consumes_expression (n : Nat) : Consumes (expression n) := by
  cases n with
  | zero => rw [expression]; exact consumes_oom
  | succ n =>
    rw [expression]
    apply consumes_mapRes; apply consumes_recognize; apply consumes_context
    apply consumes_seq_right (Good.sfx (by good))
    apply consumes_seq_left _ (Good.sfx (by good))
    apply consumes_alt_cons consumes_rustName
    apply consumes_alt_cons (consumes_mapRes (consumes_take1 _))
    apply consumes_alt_cons consumes_quotedString
    apply consumes_alt_cons (consumes_exprInParens n)
    exact consumes_alt_one (consumes_exprInBrackets n)

theorem expression_step {L m : Nat} (h1 : Tot L (exprInParens m)) (h2 : Tot L (exprInBrackets m))
    (hlt : ∀ L', L' < L → Tot L' (expression m) ∧ Tot L' (exprInParens m) ∧ Tot L' (exprInBrackets m) ∧
      Tot L' (exprInBraces m)) :
    Tot L (expression (m + 1)) := by
  rw [expression]
  apply tot_mapRes; apply tot_recognize; apply tot_context
  apply tot_seq (by good) (by tot)
  apply tot_seq_c
  · apply consumes_alt_cons consumes_rustName
    apply consumes_alt_cons (consumes_mapRes (consumes_take1 _))
    apply consumes_alt_cons consumes_quotedString
    apply consumes_alt_cons (consumes_exprInParens m)
    exact consumes_alt_one (consumes_exprInBrackets m)
  · tot
  · intro L' hL'
    obtain ⟨g1, g2, g3, g4⟩ := hlt L' hL'
    tot

theorem tot_expression : ∀ L n, 2 * L + 2 ≤ n → Tot L (expression n) := by
  intro L
  induction L using Nat.strongRecOn with
  | _ L ih =>
    intro n hn
    obtain ⟨m, rfl⟩ : ∃ m, n = m + 1 := ⟨n - 1, by omega⟩
    apply expression_step (tot_exprInParens (by omega)) (tot_exprInBrackets (by omega))
    intro L' hL'
    exact ⟨ih L' hL' m (by omega), tot_exprInParens (by omega), tot_exprInBrackets (by omega),
      tot_exprInBraces (by omega)⟩

/-! ### helpers of `templateexpression.rs` (they pass their fuel on unchanged) -/

theorem tot_commaExpressions {L n : Nat} (h : 2 * L + 2 ≤ n) : Tot L (commaExpressions n) := by
  have := tot_expression L n h
  unfold commaExpressions; tot

theorem tot_logicExpression : ∀ k L n, L + 1 ≤ k → 2 * L + 2 ≤ n → Tot L (logicExpression k n) := by
  intro k
  induction k with
  | zero => intro L n hk; omega
  | succ k ih =>
    intro L n hk hn
    have he := tot_expression L n hn
    rw [logicExpression]
    apply tot_mapRes; apply tot_recognize
    apply tot_seq (by good) (by tot)
    apply tot_seq_c (consumes_expression n) he
    intro L' hL'
    have := ih L' n (by omega) (by omega)
    tot

theorem tot_condExpression {L n : Nat} (h : 2 * L + 2 ≤ n) : Tot L (condExpression n) := by
  have he := tot_expression L n h
  have hl := tot_logicExpression n L n (by omega) h
  rw [condExpression_eq]
  apply tot_pbind (by good) (by tot)
  intro o
  cases o with
  | none => simp only []; tot
  | some k => simp only []; tot

theorem tot_loopExpression {L n : Nat} (h : 2 * L + 2 ≤ n) : Tot L (loopExpression n) := by
  have := tot_expression L n h
  unfold loopExpression; tot

theorem tot_forVariable {L n : Nat} (h : 2 * L + 2 ≤ n) : Tot L (forVariable n) := by
  have := tot_commaExpressions h
  have := tot_exprInBraces (L := L) (n := n) (by omega)
  unfold forVariable; tot

/-! ### `template_expression`, `if2`, `template_block`, `template_argument` -/

theorem templateBlock_step {L m : Nat} (hlt : ∀ L', L' < L → Tot L' (templateExpression m)) :
    Tot L (templateBlock (m + 1)) := by
  rw [templateBlock]
  apply tot_preceded_c (consumes_char _) (tot_char _ _)
  intro L' hL'
  have := hlt L' hL'
  tot

theorem templateArgument_step {L m : Nat} (he : Tot L (expression m))
    (hlt : ∀ L', L' < L → Tot L' (templateExpression m)) :
    Tot L (templateArgument (m + 1)) := by
  rw [templateArgument]
  apply tot_alt_cons
  · apply tot_pmap
    apply tot_preceded_c (consumes_char _) (tot_char _ _)
    intro L' hL'
    have := hlt L' hL'
    tot
  · tot

theorem if2_step {L m : Nat} (hc : Tot L (condExpression m)) (hb : Tot L (templateBlock m))
    (hlt : ∀ L', L' < L → Tot L' (if2 m)) :
    Tot L (if2 (m + 1)) := by
  rw [if2]
  apply tot_context; apply tot_pmap
  apply tot_seq (by good) (by tot)
  apply tot_seq (by good) hb
  apply tot_opt
  apply tot_preceded_c
  · exact consumes_delimited_mid good_spacelike.sfx (consumes_tag (by decide +kernel)) good_spacelike.sfx
  · tot
  · intro L' hL'
    have := hlt L' hL'
    have := hb.anti (Nat.le_of_lt hL')
    tot

theorem templateExpression_step {L m : Nat}
    (hlt : ∀ L', L' < L → Tot L' (templateArgument m) ∧ Tot L' (if2 m) ∧ Tot L' (templateBlock m) ∧
      Tot L' (forVariable m) ∧ Tot L' (loopExpression m) ∧ Tot L' (expression m) ∧
      Tot L' (exprInsideParens m)) :
    Tot L (templateExpression (m + 1)) := by
  rw [templateExpression_eq]
  apply tot_pbind_opt
  · exact consumes_pmap (consumes_seq_left (consumes_char _) (Good.sfx (by good)))
  · tot
  · intro k L' hL'
    obtain ⟨g1, g2, g3, g4, g5, g6, g7⟩ := hlt L' hL'
    simp only []
    tot
  · simp only []
    tot

theorem tot_tpl : ∀ L n,
    (2 * L + 2 ≤ n → Tot L (templateBlock n)) ∧
    (2 * L + 3 ≤ n → Tot L (templateExpression n) ∧ Tot L (if2 n) ∧ Tot L (templateArgument n)) := by
  intro L
  induction L using Nat.strongRecOn with
  | _ L ih =>
    have A : ∀ n, 2 * L + 2 ≤ n → Tot L (templateBlock n) := by
      intro n hn
      obtain ⟨m, rfl⟩ : ∃ m, n = m + 1 := ⟨n - 1, by omega⟩
      exact templateBlock_step (fun L' hL' => ((ih L' hL' m).2 (by omega)).1)
    intro n
    refine ⟨A n, ?_⟩
    intro hn
    obtain ⟨m, rfl⟩ : ∃ m, n = m + 1 := ⟨n - 1, by omega⟩
    refine ⟨?_, ?_, ?_⟩
    · apply templateExpression_step
      intro L' hL'
      obtain ⟨g1, g2, g3⟩ := (ih L' hL' m).2 (by omega)
      exact ⟨g3, g2, (ih L' hL' m).1 (by omega), tot_forVariable (by omega), tot_loopExpression (by omega),
        tot_expression _ _ (by omega), tot_exprInsideParens (by omega)⟩
    · exact if2_step (tot_condExpression (by omega)) (A m (by omega))
        (fun L' hL' => ((ih L' hL' m).2 (by omega)).2.1)
    · exact templateArgument_step (tot_expression _ _ (by omega))
        (fun L' hL' => ((ih L' hL' m).2 (by omega)).1)

theorem tot_templateExpression {L n : Nat} (h : 2 * L + 3 ≤ n) : Tot L (templateExpression n) :=
  ((tot_tpl L n).2 h).1

/-! ### `type_expression`, `comma_type_expressions` -/

theorem typeExpression_step {L m : Nat}
    (hlt : ∀ L', L' < L → Tot L' (typeExpression m) ∧ Tot L' (commaTypeExpressions m)) :
    Tot L (typeExpression (m + 1)) := by
  rw [typeExpression]
  apply tot_value
  apply tot_seq (by good) (by tot)
  apply tot_seq (by good) (by tot)
  apply tot_seq (by good) (by tot)
  apply tot_seq (by good)
  · apply tot_context
    apply tot_alt_cons (by tot)
    apply tot_alt_cons
    · apply tot_preceded_c (consumes_tag (by decide +kernel)) (tot_tag _ _)
      intro L' hL'
      obtain ⟨g1, g2⟩ := hlt L' hL'
      tot
    · apply tot_alt_one
      apply tot_preceded_c (consumes_tag (by decide +kernel)) (tot_tag _ _)
      intro L' hL'
      obtain ⟨g1, g2⟩ := hlt L' hL'
      tot
  · apply tot_opt
    apply tot_preceded_c (consumes_tag (by decide +kernel)) (tot_tag _ _)
    intro L' hL'
    obtain ⟨g1, g2⟩ := hlt L' hL'
    tot

theorem commaTypeExpressions_step {L m : Nat} (h : Tot L (typeExpression m)) :
    Tot L (commaTypeExpressions (m + 1)) := by
  rw [commaTypeExpressions]; tot

theorem tot_types : ∀ L n,
    (2 * L + 1 ≤ n → Tot L (typeExpression n)) ∧ (2 * L + 2 ≤ n → Tot L (commaTypeExpressions n)) := by
  intro L
  induction L using Nat.strongRecOn with
  | _ L ih =>
    have A : ∀ n, 2 * L + 1 ≤ n → Tot L (typeExpression n) := by
      intro n hn
      obtain ⟨m, rfl⟩ : ∃ m, n = m + 1 := ⟨n - 1, by omega⟩
      exact typeExpression_step (fun L' hL' => ⟨(ih L' hL' m).1 (by omega), (ih L' hL' m).2 (by omega)⟩)
    intro n
    refine ⟨A n, ?_⟩
    intro hn
    obtain ⟨m, rfl⟩ : ∃ m, n = m + 1 := ⟨n - 1, by omega⟩
    exact commaTypeExpressions_step (A m (by omega))

theorem tot_formalArgument {L n : Nat} (h : 2 * L + 1 ≤ n) : Tot L (formalArgument n) := by
  have := (tot_types L n).1 h
  unfold formalArgument; tot

/-- fuel `2 * L + 3` is enough for `template` on inputs of length at most `L` -/
theorem tot_template {L n : Nat} (h : 2 * L + 3 ≤ n) : Tot L (template n) := by
  have := tot_formalArgument (L := L) (n := n) (by omega)
  have := tot_templateExpression h
  unfold template; tot

end Ructe
