import RucteProofs.SrcFrag

/-!
# The condition of `@if`: completeness of `cond_expression` on documented conditions

`Cond.complete`: a well-formed `Cond` followed by a non-empty layout and `{` is taken in full by
`condExpression`, and the value is `Cond.value` (a `let` binding normalised, a logic expression verbatim).
-/
namespace Ructe.Src
open Nom Ructe.C15

/-! ## heads -/

/-- a piece of text that starts with a byte that is neither layout, nor `@`, nor `=` -/
def OpHead (t : Bytes) : Prop := ∃ b x, t = b :: x ∧ isSpace b = false ∧ b ≠ 64 ∧ b ≠ 61

theorem OpHead.frag {t : Bytes} (h : OpHead t) : FragHead t := by
  obtain ⟨b, x, e, h1, h2, _⟩ := h
  exact ⟨b, x, e, h1, h2⟩

theorem OpHead.append {t : Bytes} (h : OpHead t) (X : Bytes) : OpHead (t ++ X) := by
  obtain ⟨b, x, rfl, h1, h2, h3⟩ := h
  exact ⟨b, x ++ X, rfl, h1, h2, h3⟩

theorem dexpr_opHead (e : C05.DExpr) (hw : e.wf = true) : OpHead e.print := by
  obtain ⟨b, x, hbx, hb⟩ := dexpr_head e hw
  have hf := exprStart_facts b hb
  exact ⟨b, x, hbx, hf.1, hf.2.1, hf.2.2.2.2.2.1⟩

theorem Logic.opHead (g : Logic) (hw : g.wf = true) : OpHead g.print := by
  have key : ∀ (neg : Option Layout) (e : C05.DExpr) (Y : Bytes), e.wf = true → OpHead (negPrint neg ++ e.print ++ Y) := by
    intro neg e Y he
    cases neg with
    | none => simpa [negPrint] using (dexpr_opHead e he).append Y
    | some l => exact ⟨33, printLayout l ++ e.print ++ Y, by simp [negPrint], by decide, by decide, by decide⟩
  cases g with
  | last neg e =>
    simp only [Logic.wf, Bool.and_eq_true] at hw
    simpa [Logic.print] using key neg e [] hw.2
  | op neg e l₁ o l₂ next =>
    simp only [Logic.wf, Bool.and_eq_true] at hw
    simpa [Logic.print] using key neg e (printLayout l₁ ++ o.print ++ printLayout l₂ ++ next.print) hw.1.1.1.2

theorem FragHead.stops0 {t : Bytes} (h : FragHead t) : StopsLayout t := by
  simpa using h.stops []

/-! ## UTF-8 -/

theorem RelOp.valid (o : RelOp) : validUtf8 o.print = true := by cases o <;> decide

theorem negPrint_valid (neg : Option Layout) (h : negWf neg = true) : validUtf8 (negPrint neg) = true := by
  cases neg with
  | none => rfl
  | some l =>
    simp only [negWf, innerB, Bool.and_eq_true] at h
    rw [negPrint, validUtf8_cons_ascii _ _ (by decide)]
    exact h.2

theorem Logic.valid (g : Logic) (hw : g.wf = true) : validUtf8 g.print = true := by
  induction g with
  | last neg e =>
    simp only [Logic.wf, Bool.and_eq_true] at hw
    exact validUtf8_append _ _ (negPrint_valid neg hw.1) (C05.DExpr.valid e hw.2)
  | op neg e l₁ o l₂ next ih =>
    simp only [Logic.wf, innerB, Bool.and_eq_true] at hw
    obtain ⟨⟨⟨⟨h1, h2⟩, h3⟩, h4⟩, h5⟩ := hw
    exact validUtf8_append _ _ (validUtf8_append _ _ (validUtf8_append _ _ (validUtf8_append _ _
      (validUtf8_append _ _ (negPrint_valid neg h1) (C05.DExpr.valid e h2)) h3.2) (RelOp.valid o)) h4.2) (ih h5)

/-! ## the operator -/

/-- the alternatives of `rel_operator` -/
def relAlt : Parser Bytes :=
  alt [tagS "!=", tagS "&&", tagS "<=", tagS "<", tagS "==", tagS ">=", tagS ">", tagS "||"]

theorem relAlt_ok (o : RelOp) (Y : Bytes) (hY : ∀ r, Y ≠ 61 :: r) : relAlt (o.print ++ Y) = .ok Y o.print := by
  have h61 : ∀ c : UInt8, tag [c, 61] (c :: Y) = .err [] := by
    intro c
    cases Y with
    | nil => simp [tag, isPrefix]
    | cons d t =>
      have : (61 : UInt8) ≠ d := fun e => hY t (by rw [e])
      simp [tag, isPrefix, this]
  cases o
  · simp [relAlt, tagS, str_ne, alt, orElse, RelOp.print, tag, isPrefix]
  · simp [relAlt, tagS, str_ne, str_andand, alt, orElse, RelOp.print, tag, isPrefix]
  · simp [relAlt, tagS, str_ne, str_andand, str_le, alt, orElse, RelOp.print, tag, isPrefix]
  · have h1 : tag [33, 61] (60 :: Y) = .err [] := tag_cons_ne _ _ _ _ (by decide)
    have h2 : tag [38, 38] (60 :: Y) = .err [] := tag_cons_ne _ _ _ _ (by decide)
    simp only [relAlt, tagS, str_ne, str_andand, str_le, str_lt, alt, orElse, RelOp.print, List.cons_append,
      List.nil_append, h1, h2, h61 60, tag_one]
  · simp [relAlt, tagS, str_ne, str_andand, str_le, str_lt, str_eqeq, alt, orElse, RelOp.print, tag, isPrefix]
  · simp [relAlt, tagS, str_ne, str_andand, str_le, str_lt, str_eqeq, str_ge, alt, orElse, RelOp.print, tag, isPrefix]
  · have h1 : tag [33, 61] (62 :: Y) = .err [] := tag_cons_ne _ _ _ _ (by decide)
    have h2 : tag [38, 38] (62 :: Y) = .err [] := tag_cons_ne _ _ _ _ (by decide)
    have h3 : tag [60, 61] (62 :: Y) = .err [] := tag_cons_ne _ _ _ _ (by decide)
    have h4 : tag [60] (62 :: Y) = .err [] := tag_cons_ne _ _ _ _ (by decide)
    have h5 : tag [61, 61] (62 :: Y) = .err [] := tag_cons_ne _ _ _ _ (by decide)
    simp only [relAlt, tagS, str_ne, str_andand, str_le, str_lt, str_eqeq, str_ge, str_gt, alt, orElse, RelOp.print,
      List.cons_append, List.nil_append, h1, h2, h3, h4, h5, h61 62, tag_one]
  · simp [relAlt, tagS, str_ne, str_andand, str_le, str_lt, str_eqeq, str_ge, str_gt, str_oror, alt, orElse,
      RelOp.print, tag, isPrefix]

theorem RelOp.frag (o : RelOp) (X : Bytes) : FragHead (o.print ++ X) := by
  cases o <;> exact ⟨_, _, rfl, by decide, by decide⟩

/-- the head of `layout ++ Z` is not `=` when the head of `Z` is not -/
theorem layout_opHead (l : Layout) (hl : LayoutOk l) (Z : Bytes) (hZ : OpHead Z) : ∀ r, printLayout l ++ Z ≠ 61 :: r := by
  intro r h
  cases l with
  | nil =>
    obtain ⟨b, x, rfl, _, _, h61⟩ := hZ
    exact h61 (List.cons.inj (by simpa [printLayout] using h)).1
  | cons i l =>
    obtain ⟨c, x, e, hc⟩ := startsLayout_head (printLayout_starts (i :: l) hl (by simp) Z)
    rw [e] at h
    obtain ⟨rfl, _⟩ := List.cons.inj h
    rcases hc with hc | hc <;> revert hc <;> decide

/-- **`rel_operator`**: layout, operator, layout -/
theorem relOperator_ok (l₁ l₂ : Layout) (h₁ : LayoutOk l₁) (h₂ : LayoutOk l₂) (o : RelOp) (Z : Bytes) (hZ : OpHead Z) :
    relOperator (printLayout l₁ ++ (o.print ++ (printLayout l₂ ++ Z))) = .ok Z o.print := by
  unfold relOperator
  apply mapRes_toStr_of _ (RelOp.valid o)
  exact delimited_of (spacelike_complete l₁ h₁ _ (RelOp.frag o _).stops0)
    (context_ok _ (relAlt_ok o _ (layout_opHead l₂ h₂ Z hZ)))
    (spacelike_complete l₂ h₂ Z hZ.frag.stops0)

/-! ## the parts of a logic expression -/

/-- the optional `!` -/
theorem neg_ok (neg : Option Layout) (hw : negWf neg = true) (Z : Bytes) (hZ : FragHead Z)
    (h33 : neg = none → ∀ r, Z ≠ 33 :: r) :
    ∃ v, opt (terminated (char 33) spacelike) (negPrint neg ++ Z) = .ok Z v := by
  cases neg with
  | none => exact ⟨none, opt_err (terminated_err_left (char_ne 33 Z (h33 rfl)))⟩
  | some l =>
    simp only [negWf, innerB, Bool.and_eq_true] at hw
    exact ⟨some 33, opt_of (terminated_of (char_cons 33 _) (spacelike_complete l (layoutB_ok hw.1) Z hZ.stops0))⟩

theorem dexpr_not33 (e : C05.DExpr) (hw : e.wf = true) (X : Bytes) : ∀ r, e.print ++ X ≠ 33 :: r := by
  intro r h
  obtain ⟨b, x, hbx, hb⟩ := dexpr_head e hw
  rw [hbx] at h
  obtain ⟨rfl, _⟩ := List.cons.inj h
  revert hb; decide

/-- an expression in front of layout and an operator -/
theorem dexpr_before_op (e : C05.DExpr) (hw : e.wf = true) (n : Nat) (hn : e.fuel ≤ n) (l : Layout) (hl : LayoutOk l)
    (o : RelOp) (W : Bytes) :
    expression n (e.print ++ (printLayout l ++ (o.print ++ W))) = .ok (printLayout l ++ (o.print ++ W)) e.print := by
  cases l with
  | cons i l => exact dexpr_layout e hw n hn _ (printLayout_starts (i :: l) hl (by simp) _)
  | nil =>
    simp only [printLayout, List.map_nil, List.flatten_nil, List.nil_append]
    cases o with
    | ne =>
      exact C05.expression_complete e _ hw (C05.stops_bang 61 W (by decide))
        (e.follows_of_not_nameChar _ (fun c r h => by obtain ⟨rfl, _⟩ := List.cons.inj h; decide)) n hn
    | and => exact dexpr_end e hw n hn 38 _ (by decide)
    | le => exact dexpr_end e hw n hn 60 _ (by decide)
    | lt => exact dexpr_end e hw n hn 60 _ (by decide)
    | eq => exact dexpr_end e hw n hn 61 _ (by decide)
    | ge => exact dexpr_end e hw n hn 62 _ (by decide)
    | gt => exact dexpr_end e hw n hn 62 _ (by decide)
    | or => exact dexpr_end e hw n hn 124 _ (by decide)

/-- **`logic_expression`** on a documented logic expression followed by a non-empty layout and `{` -/
theorem Logic.complete (g : Logic) (hw : g.wf = true) (n : Nat) (hn : g.fuel ≤ n) :
    ∀ k, g.depth ≤ k → ∀ (l : Layout) (r : Bytes), LayoutOk l → l ≠ [] →
      logicExpression k n (g.print ++ (printLayout l ++ 123 :: r)) = .ok (printLayout l ++ 123 :: r) g.print := by
  induction g with
  | last neg e =>
    intro k hk l r hl hne
    simp only [Logic.wf, Bool.and_eq_true] at hw
    simp only [Logic.fuel] at hn
    simp only [Logic.depth] at hk
    obtain ⟨k, rfl⟩ : ∃ k', k = k' + 1 := ⟨k - 1, by omega⟩
    obtain ⟨v, h1⟩ := neg_ok neg hw.1 (e.print ++ (printLayout l ++ 123 :: r)) ((dexpr_fragHead e hw.2).append _)
      (fun _ => dexpr_not33 e hw.2 _)
    have h2 := dexpr_layout e hw.2 n hn _ (printLayout_starts l hl hne (123 :: r))
    obtain ⟨er, hrel⟩ := relOperator_err 123 r
      (spacelike_complete l hl _ (stopsLayout_cons 123 _ (by decide) (by decide))) (by decide)
    have h3 : opt (seq relOperator (context "Expected expression" (logicExpression k n))) (printLayout l ++ 123 :: r) =
        .ok (printLayout l ++ 123 :: r) none := opt_err (seq_err_left hrel)
    rw [logicExpression]
    apply mapRes_toStr_of _ (Logic.valid _ (by simp [Logic.wf, hw.1, hw.2]))
    apply recognize_ok_of (v := (v, e.print, none))
    have e1 : (Logic.last neg e).print ++ (printLayout l ++ 123 :: r) =
        negPrint neg ++ (e.print ++ (printLayout l ++ 123 :: r)) := by simp [Logic.print]
    rw [e1]
    exact seq_of h1 (seq_of h2 h3)
  | op neg e l₁ o l₂ next ih =>
    intro k hk l r hl hne
    have hv := Logic.valid _ hw
    simp only [Logic.wf, innerB, Bool.and_eq_true] at hw
    obtain ⟨⟨⟨⟨hw1, hw2⟩, hw3⟩, hw4⟩, hw5⟩ := hw
    simp only [Logic.fuel] at hn
    simp only [Logic.depth] at hk
    obtain ⟨k, rfl⟩ : ∃ k', k = k' + 1 := ⟨k - 1, by omega⟩
    have hnext := ih hw5 (by omega) k (by omega) l r hl hne
    have hl₁ := layoutB_ok hw3.1
    have hl₂ := layoutB_ok hw4.1
    obtain ⟨v, h1⟩ := neg_ok neg hw1
      (e.print ++ (printLayout l₁ ++ (o.print ++ (printLayout l₂ ++ (next.print ++ (printLayout l ++ 123 :: r))))))
      ((dexpr_fragHead e hw2).append _) (fun _ => dexpr_not33 e hw2 _)
    have h2 := dexpr_before_op e hw2 n (by omega) l₁ hl₁ o (printLayout l₂ ++ (next.print ++ (printLayout l ++ 123 :: r)))
    have hrel := relOperator_ok l₁ l₂ hl₁ hl₂ o (next.print ++ (printLayout l ++ 123 :: r))
      ((Logic.opHead next hw5).append _)
    have h3 : opt (seq relOperator (context "Expected expression" (logicExpression k n)))
        (printLayout l₁ ++ (o.print ++ (printLayout l₂ ++ (next.print ++ (printLayout l ++ 123 :: r))))) =
        .ok (printLayout l ++ 123 :: r) (some (o.print, next.print)) :=
      opt_of (seq_of hrel (context_ok _ hnext))
    rw [logicExpression]
    apply mapRes_toStr_of _ hv
    apply recognize_ok_of (v := (v, e.print, some (o.print, next.print)))
    have e1 : (Logic.op neg e l₁ o l₂ next).print ++ (printLayout l ++ 123 :: r) =
        negPrint neg ++ (e.print ++ (printLayout l₁ ++ (o.print ++ (printLayout l₂ ++
          (next.print ++ (printLayout l ++ 123 :: r)))))) := by simp [Logic.print]
    rw [e1]
    exact seq_of h1 (seq_of h2 h3)

/-! ## `cond_expression` -/

theorem str_letSp : str "let " = [108, 101, 116, 32] := by decide +kernel
theorem str_spEqSp : str " = " = [32, 61, 32] := by decide +kernel

/-- a text that does not start with `let`, followed by layout, is not taken by `tag "let"` -/
theorem noLet_tag (P T : Bytes) (hP : noLetB P = true) (hne : P ≠ []) (hT : StartsLayout T) :
    tag [108, 101, 116] (P ++ T) = .err [] := by
  obtain ⟨c, x, rfl, hc⟩ := startsLayout_head hT
  obtain ⟨_, _, _, _, _, _, _, h101, h116, _⟩ := layoutHead_facts c hc
  unfold tag
  cases hp : isPrefix [108, 101, 116] (P ++ c :: x) with
  | none => rfl
  | some r =>
    exfalso
    have e := isPrefix_some hp
    match P, hP, hne, e with
    | [b], _, _, e =>
      simp only [List.nil_append, List.cons_append, List.cons.injEq] at e
      exact h101 e.2.1
    | [b, c1], _, _, e =>
      simp only [List.nil_append, List.cons_append, List.cons.injEq] at e
      exact h116 e.2.2.1
    | b :: c1 :: c2 :: P', hP, _, e =>
      simp only [List.nil_append, List.cons_append, List.cons.injEq] at e
      obtain ⟨rfl, rfl, rfl, _⟩ := e
      simp [noLetB] at hP

/-- **the condition of `@if`**, in front of a non-empty layout and `{` -/
theorem Cond.complete (c : Cond) (hw : c.wf = true) (n : Nat) (hn : c.fuel ≤ n) (l : Layout) (r : Bytes)
    (hl : LayoutOk l) (hne : l ≠ []) :
    condExpression n (c.print ++ (printLayout l ++ 123 :: r)) = .ok (printLayout l ++ 123 :: r) c.value := by
  cases c with
  | logic g =>
    simp only [Cond.wf, Bool.and_eq_true] at hw
    simp only [Cond.fuel] at hn
    have hlet : opt (tagS "let") (g.print ++ (printLayout l ++ 123 :: r)) = .ok (g.print ++ (printLayout l ++ 123 :: r)) none := by
      apply opt_err (e := [])
      rw [tagS, str_let]
      exact noLet_tag _ _ hw.2 (Logic.opHead g hw.1).frag.ne_nil (printLayout_starts l hl hne _)
    rw [condExpression_eq]
    simp only [pbind, Cond.print, Cond.value, hlet]
    exact context_ok _ (Logic.complete g hw.1 n (by omega) n (by omega) l r hl hne)
  | letBind la lhs lb lc rhs =>
    simp only [Cond.wf, Bool.and_eq_true] at hw
    obtain ⟨⟨⟨⟨ha, hlhs⟩, hb⟩, hc⟩, hrhs⟩ := hw
    simp only [Cond.fuel] at hn
    have e1 : (Cond.letBind la lhs lb lc rhs).print ++ (printLayout l ++ 123 :: r) =
        [108, 101, 116] ++ (printLayout la ++ (lhs.print ++ (printLayout lb ++ 61 :: (printLayout lc ++
          (rhs.print ++ (printLayout l ++ 123 :: r)))))) := by simp [Cond.print]
    have hlet : opt (tagS "let") ([108, 101, 116] ++ (printLayout la ++ (lhs.print ++ (printLayout lb ++ 61 :: (printLayout lc ++
          (rhs.print ++ (printLayout l ++ 123 :: r))))))) =
        .ok (printLayout la ++ (lhs.print ++ (printLayout lb ++ 61 :: (printLayout lc ++
          (rhs.print ++ (printLayout l ++ 123 :: r)))))) (some [108, 101, 116]) := by
      rw [tagS, str_let]; exact opt_of (tag_append _ _)
    have hs1 := spacelike_complete la (layoutB_ok ha) _
      ((dexpr_fragHead lhs hlhs).stops (printLayout lb ++ 61 :: (printLayout lc ++ (rhs.print ++ (printLayout l ++ 123 :: r)))))
    obtain ⟨c', x', hcx, hc'⟩ := layout_then_end lb (layoutB_ok hb) 61
      (printLayout lc ++ (rhs.print ++ (printLayout l ++ 123 :: r))) (by decide)
    have hl1 : expression n (lhs.print ++ (printLayout lb ++ 61 :: (printLayout lc ++ (rhs.print ++ (printLayout l ++ 123 :: r))))) =
        .ok (printLayout lb ++ 61 :: (printLayout lc ++ (rhs.print ++ (printLayout l ++ 123 :: r)))) lhs.print := by
      rw [hcx]; exact dexpr_end lhs hlhs n (by omega) c' x' hc'
    have hs2 := spacelike_complete lb (layoutB_ok hb) (61 :: (printLayout lc ++ (rhs.print ++ (printLayout l ++ 123 :: r))))
      (stopsLayout_cons 61 _ (by decide) (by decide))
    have hs3 := spacelike_complete lc (layoutB_ok hc) _ ((dexpr_fragHead rhs hrhs).stops (printLayout l ++ 123 :: r))
    have hr1 := dexpr_layout rhs hrhs n (by omega) _ (printLayout_starts l hl hne (123 :: r))
    rw [e1, condExpression_eq]
    simp only [pbind, hlet, Cond.value]
    have := pmap_of (f := fun (x : Bytes × Bytes) => str "let " ++ x.1 ++ str " = " ++ x.2)
      (seq_of (preceded_of hs1 (context_ok "Expected LHS expression in let binding" hl1))
        (preceded_of (delimited_of hs2 (char_cons 61 _) hs3)
          (context_ok "Expected RHS expression in let binding" hr1)))
    simpa [str_letSp, str_spEqSp] using this

theorem Cond.fragHead (c : Cond) (hw : c.wf = true) : FragHead c.print := by
  cases c with
  | logic g =>
    simp only [Cond.wf, Bool.and_eq_true] at hw
    exact (Logic.opHead g hw.1).frag
  | letBind la lhs lb lc rhs => exact ⟨108, _, by simp [Cond.print]; rfl, by decide, by decide⟩

/-! ## the layout inside a logic expression

The tree stores a logic expression verbatim, with its inner layout.  `tokens` are the pieces of the
stored text that are not layout, `gaps` the layout slots between them: the stored text is the tokens
with the gaps woven in (`Logic.print_weave`); `strip` empties the gaps. -/

def negTokens : Option Layout → List Bytes
  | none => []
  | some _ => [[33]]

def negGaps : Option Layout → List Layout
  | none => []
  | some l => [l]

def Logic.tokens : Logic → List Bytes
  | .last neg e => negTokens neg ++ [e.print]
  | .op neg e _ o _ next => negTokens neg ++ [e.print, o.print] ++ next.tokens

def Logic.gaps : Logic → List Layout
  | .last neg _ => negGaps neg
  | .op neg _ l₁ _ l₂ next => negGaps neg ++ [l₁, l₂] ++ next.gaps

/-- `t₀ g₀ t₁ g₁ … tₙ` -/
def weave : List Bytes → List Layout → Bytes
  | t :: t' :: ts, g :: gs => t ++ printLayout g ++ weave (t' :: ts) gs
  | ts, _ => ts.flatten

def Logic.strip : Logic → Logic
  | .last neg e => .last (neg.map fun _ => []) e
  | .op neg e _ o _ next => .op (neg.map fun _ => []) e [] o [] next.strip

theorem Logic.tokens_ne_nil (g : Logic) : g.tokens ≠ [] := by
  cases g with
  | last neg e => cases neg <;> simp [Logic.tokens, negTokens]
  | op neg e l₁ o l₂ next => cases neg <;> simp [Logic.tokens, negTokens]

theorem weave_cons (t : Bytes) (ts : List Bytes) (hne : ts ≠ []) (g : Layout) (gs : List Layout) :
    weave (t :: ts) (g :: gs) = t ++ printLayout g ++ weave ts gs := by
  cases ts with
  | nil => exact absurd rfl hne
  | cons t' ts => rfl

/-- the stored text is the tokens with the layout slots woven in -/
theorem Logic.print_weave (g : Logic) : g.print = weave g.tokens g.gaps := by
  induction g with
  | last neg e =>
    cases neg with
    | none => simp [Logic.print, Logic.tokens, Logic.gaps, negTokens, negGaps, negPrint, weave]
    | some l => simp [Logic.print, Logic.tokens, Logic.gaps, negTokens, negGaps, negPrint, weave]
  | op neg e l₁ o l₂ next ih =>
    have hne := next.tokens_ne_nil
    cases neg with
    | none =>
      simp only [Logic.print, Logic.tokens, Logic.gaps, negTokens, negGaps, negPrint, List.nil_append, List.cons_append]
      rw [weave_cons _ _ (by simp), weave_cons _ _ hne, ← ih]
      simp
    | some l =>
      simp only [Logic.print, Logic.tokens, Logic.gaps, negTokens, negGaps, negPrint, List.nil_append, List.cons_append]
      rw [weave_cons _ _ (by simp), weave_cons _ _ (by simp), weave_cons _ _ hne, ← ih]
      simp

theorem Logic.tokens_strip (g : Logic) : g.strip.tokens = g.tokens := by
  induction g with
  | last neg e => cases neg <;> simp [Logic.strip, Logic.tokens, negTokens]
  | op neg e l₁ o l₂ next ih => cases neg <;> simp [Logic.strip, Logic.tokens, negTokens, ih]

/-- without inner layout the stored text is the concatenation of the tokens -/
theorem Logic.print_strip (g : Logic) : g.strip.print = g.tokens.flatten := by
  induction g with
  | last neg e => cases neg <;> simp [Logic.strip, Logic.print, Logic.tokens, negTokens, negPrint, printLayout]
  | op neg e l₁ o l₂ next ih =>
    cases neg <;> simp [Logic.strip, Logic.print, Logic.tokens, negTokens, negPrint, printLayout, ih]

/-- two logic expressions that differ only in their inner layout have the same tokens -/
theorem Logic.tokens_of_strip {g₁ g₂ : Logic} (h : g₁.strip = g₂.strip) : g₁.tokens = g₂.tokens := by
  rw [← g₁.tokens_strip, ← g₂.tokens_strip, h]

/-- emptying every layout slot of a condition (for a `let` binding this changes nothing in the tree) -/
def Cond.strip : Cond → Cond
  | .letBind _ lhs _ _ rhs => .letBind [] lhs [] [] rhs
  | .logic g => .logic g.strip

def Cond.tokens : Cond → List Bytes
  | .letBind _ lhs _ _ rhs => [[108, 101, 116, 32] ++ lhs.print ++ [32, 61, 32] ++ rhs.print]
  | .logic g => g.tokens

def Cond.gaps : Cond → List Layout
  | .letBind _ _ _ _ _ => []
  | .logic g => g.gaps

theorem Cond.value_weave (c : Cond) : c.value = weave c.tokens c.gaps := by
  cases c with
  | letBind la lhs lb lc rhs => simp [Cond.value, Cond.tokens, Cond.gaps, weave]
  | logic g => exact g.print_weave

theorem Cond.tokens_of_strip {c₁ c₂ : Cond} (h : c₁.strip = c₂.strip) : c₁.tokens = c₂.tokens := by
  cases c₁ with
  | letBind la lhs lb lc rhs =>
    cases c₂ with
    | letBind la' lhs' lb' lc' rhs' =>
      simp only [Cond.strip, Cond.letBind.injEq] at h
      simp [Cond.tokens, h.2.1, h.2.2.2.2]
    | logic g => simp [Cond.strip] at h
  | logic g =>
    cases c₂ with
    | letBind la' lhs' lb' lc' rhs' => simp [Cond.strip] at h
    | logic g' =>
      simp only [Cond.strip, Cond.logic.injEq] at h
      exact Logic.tokens_of_strip h

theorem Logic.fuel_strip (g : Logic) : g.strip.fuel = g.fuel ∧ g.strip.depth = g.depth := by
  induction g with
  | last neg e => exact ⟨rfl, rfl⟩
  | op neg e l₁ o l₂ next ih => simp [Logic.strip, Logic.fuel, Logic.depth, ih.1, ih.2]

theorem Cond.fuel_strip (c : Cond) : c.strip.fuel = c.fuel := by
  cases c with
  | letBind la lhs lb lc rhs => rfl
  | logic g => simp [Cond.strip, Cond.fuel, (Logic.fuel_strip g).1, (Logic.fuel_strip g).2]

theorem Cond.fuel_of_strip {c₁ c₂ : Cond} (h : c₁.strip = c₂.strip) : c₁.fuel = c₂.fuel := by
  rw [← c₁.fuel_strip, ← c₂.fuel_strip, h]

end Ructe.Src
