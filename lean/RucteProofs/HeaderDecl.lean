import RucteProofs.HeaderTy

/-!
# The declaration part of a template as a source tree

`Header` = leading layout, `@use …;` lines, `@`, optional `<'a, 'b>`, `(` parameters `)`, layout.
This file has the source types with their printers and well-formedness tests, and the completeness of
each part of the model parser `template` on the print (over raw bytes, with the specific text that
follows); `RucteProps/C13Header.lean` puts the parts together.
-/
namespace Ructe.Hdr
open Nom Ructe.C15
open Ructe.CallL (All2)

/-! ## generic -/

theorem all2_map {α β γ : Type} (f : α → β) (g : α → γ) {R : β → γ → Prop} :
    ∀ l : List α, (∀ x ∈ l, R (f x) (g x)) → All2 R (l.map f) (l.map g)
  | [], _ => .nil
  | x :: l, h => .cons (h x List.mem_cons_self) (all2_map f g l (fun y hy => h y (List.mem_cons_of_mem _ hy)))

/-- `many0` over a list of chunks, each taken by `p` as one element when followed by something
satisfying `P`; the loop stops at `fin` -/
theorem many0Go_chunks {α : Type} (p : Parser α) (P : Bytes → Prop) (fin : Bytes) (hP : P fin)
    (hfin : ∃ e, p fin = .err e) :
    ∀ {chunks : List Bytes} {vals : List α},
      All2 (fun c v => c ≠ [] ∧ (∀ X, P (c ++ X)) ∧ ∀ X, P X → p (c ++ X) = .ok X v) chunks vals →
      P (chunks.flatten ++ fin) ∧
      ∀ fuel acc, (chunks.flatten ++ fin).length < fuel →
        many0Go p fuel (chunks.flatten ++ fin) acc = .ok fin (acc.reverse ++ vals) := by
  intro chunks vals h
  induction h with
  | nil =>
    refine ⟨hP, ?_⟩
    intro fuel acc hf
    obtain ⟨e, he⟩ := hfin
    cases fuel with
    | zero => omega
    | succ k => simpa using Ructe.many0Go_err he k acc
  | @cons c v cs vs hcv _ ih =>
    obtain ⟨hne, hPc, hstep⟩ := hcv
    obtain ⟨ihP, ih⟩ := ih
    rw [List.flatten_cons, List.append_assoc]
    refine ⟨hPc _, ?_⟩
    intro fuel acc hf
    cases fuel with
    | zero => omega
    | succ k =>
      have hlen : (cs.flatten ++ fin).length < (c ++ (cs.flatten ++ fin)).length := by
        cases c with
        | nil => exact absurd rfl hne
        | cons x c => simp; omega
      rw [Ructe.many0Go_ok (hstep _ ihP) hlen, ih k (v :: acc) (by omega)]
      simp

theorem many0_chunks {α : Type} (p : Parser α) (P : Bytes → Prop) (fin : Bytes) (hP : P fin)
    (hfin : ∃ e, p fin = .err e) {chunks : List Bytes} {vals : List α}
    (h : All2 (fun c v => c ≠ [] ∧ (∀ X, P (c ++ X)) ∧ ∀ X, P X → p (c ++ X) = .ok X v) chunks vals) :
    P (chunks.flatten ++ fin) ∧ many0 p (chunks.flatten ++ fin) = .ok fin vals := by
  obtain ⟨h1, h2⟩ := many0Go_chunks p P fin hP hfin h
  exact ⟨h1, by simpa [many0] using h2 _ [] (Nat.lt_succ_self _)⟩

theorem nameStart_nameChar {b : UInt8} (h : C05.isNameStart b = true) : C05.isNameChar b = true := by
  have : (Nom.isAlpha b || b = 95) = true := by simpa [C05.isNameStart] using h
  simp only [C05.isNameChar]
  rcases Bool.or_eq_true _ _ |>.mp this with h | h <;> simp [h]

theorem nameChar_lt {c : UInt8} (h : C05.isNameChar c = true) : c < 0x80 := by
  apply nameChar_ascii
  rw [nameChars_contains]
  simpa [C05.isNameChar] using h

theorem space_lt {c : UInt8} (h : isSpace c = true) : c < 0x80 := by
  have : c = 32 ∨ c = 9 ∨ c = 10 ∨ c = 13 := by simpa [isSpace, or_assoc] using h
  rcases this with rfl | rfl | rfl | rfl <;> decide

theorem space_not_nameChar {c : UInt8} (h : isSpace c = true) : C05.isNameChar c = false := by
  have : c = 32 ∨ c = 9 ∨ c = 10 ∨ c = 13 := by simpa [isSpace, or_assoc] using h
  rcases this with rfl | rfl | rfl | rfl <;> decide

/-- a layout in front of something that does not continue a name does not continue a name -/
theorem layout_nameEnd (l : Layout) (hl : ∀ i ∈ l, i.ok = true) (X : Bytes)
    (hX : ∀ c r, X = c :: r → C05.isNameChar c = false) :
    ∀ c r, printLayout l ++ X = c :: r → C05.isNameChar c = false := by
  intro c r e
  rcases layout_head l hl X with h | ⟨b, r', h, hb⟩ | ⟨r', h⟩
  · subst h; exact hX c r (by simpa [printLayout] using e)
  · rw [h] at e; injection e with e _; subst e; exact space_not_nameChar hb
  · rw [h] at e; injection e with e _; subst e; decide

/-! ## one declared parameter: `name L1 : L2 type` -/

structure Param where
  /-- the white space in front of it (after `(` or after the comma) -/
  pre : Bytes
  b : UInt8
  cs : Bytes
  l1 : Layout
  l2 : Layout
  ty : Ty

/-- the source span of the parameter: what `formal_argument` recognises -/
def Param.span (p : Param) : Bytes :=
  p.b :: p.cs ++ printLayout p.l1 ++ [58] ++ printLayout p.l2 ++ printTy p.ty

/-- name, layouts and type are well-formed, and the span is valid UTF-8 (it may contain comments) -/
def Param.declOk (p : Param) : Bool :=
  nameOkB p.b p.cs && layoutOkB p.l1 && layoutOkB p.l2 && wfTy p.ty && validUtf8 p.span

def Param.wfB (p : Param) : Bool := p.pre.all isSpace && p.declOk

theorem formalArgument_span (p : Param) (n : Nat) (rest : Bytes) (hwf : p.declOk = true)
    (hfol : tyFollowB p.ty rest = true) (hfuel : fuelTy p.ty ≤ n) :
    formalArgument n (p.span ++ rest) = .ok rest p.span := by
  simp only [Param.declOk, Bool.and_eq_true] at hwf
  obtain ⟨⟨⟨⟨hname, hl1⟩, hl2⟩, hty⟩, hvalid⟩ := hwf
  obtain ⟨hb, hc⟩ := nameOk_of hname
  have hl1 := layoutOk_of hl1
  have hl2 := layoutOk_of hl2
  obtain ⟨c0, r0, hb0, hs0, h640⟩ := body_head p.ty hty
  have hst : StopsLayout (p.ty.body ++ rest) := by rw [hb0]; exact stopsLayout_cons c0 _ hs0 h640
  have e : p.span ++ rest =
      p.b :: p.cs ++ (printLayout p.l1 ++ 58 :: (printLayout (p.l2 ++ p.ty.lead) ++ (p.ty.body ++ rest))) := by
    simp [Param.span, printTy_eq, printLayout_append]
  have h1 := C05.rustName_complete p.b p.cs
    (printLayout p.l1 ++ 58 :: (printLayout (p.l2 ++ p.ty.lead) ++ (p.ty.body ++ rest))) hb hc
    (layout_nameEnd p.l1 hl1 _ (fun c r e => by injection e with e _; subst e; decide))
  have h2 := spacelike_slot p.l1 hl1 (58 :: (printLayout (p.l2 ++ p.ty.lead) ++ (p.ty.body ++ rest)))
    (stopsLayout_cons 58 _ (by decide) (by decide))
  have h4 := spacelike_slot (p.l2 ++ p.ty.lead)
    (fun i hi => by
      rcases List.mem_append.mp hi with h | h
      · exact hl2 i h
      · exact wfTy_lead p.ty hty i h) (p.ty.body ++ rest) hst
  have h5 := ty_ok p.ty n rest [] hty hfol hfuel (by simp) (fun _ => rfl)
  simp only [printLayout_nil, List.nil_append] at h5
  unfold formalArgument
  apply mapRes_toStr_of _ hvalid
  apply recognize_ok_of (v := (p.b :: p.cs, (), 58, (), ()))
  rw [e]
  exact seq_of h1 (seq_of h2 (seq_of (char_cons 58 _) (seq_of h4 h5)))

/-! ## the lifetime list `<'a, 'b>` -/

structure LtItem where
  /-- the white space in front of it (after `<` or after the comma) -/
  pre : Bytes
  b : UInt8
  cs : Bytes

def LtItem.wfB (x : LtItem) : Bool := x.pre.all isSpace && nameOkB x.b x.cs

/-- `'name` -/
def LtItem.core (x : LtItem) : Bytes := 39 :: x.b :: x.cs

/-- the items after the first one, each with its comma and white space -/
def ltMore (r : List LtItem) : Bytes := (r.map (fun y => 44 :: (y.pre ++ y.core))).flatten

/-- the recognised span: from the first `'` to the end of the last name (this is `typeArgs`) -/
def ltSpan : List LtItem → Bytes
  | [] => []
  | x :: r => x.core ++ ltMore r

/-- nothing at all for the empty list -/
def printLts : List LtItem → Bytes
  | [] => []
  | x :: r => 60 :: (x.pre ++ ltSpan (x :: r) ++ [62])

/-- the lifetime list of `template`, constants evaluated -/
def ltItemP : Parser Bytes := context "expected lifetime declaration" (preceded (tag [39]) rustName)
def commaWs : Parser Bytes := terminated (tag [44]) multispace0
def ltListP : Parser (Option Bytes) :=
  opt (delimited (terminated (tag [60]) multispace0)
    (context "expected type argument or '>'" (mapRes (recognize (sepList1 commaWs ltItemP)) toStr))
    (tag [62]))

theorem ltItem_ascii (x : LtItem) (h : x.wfB = true) : ∀ c ∈ x.pre ++ x.core, c < 0x80 := by
  simp only [LtItem.wfB, Bool.and_eq_true] at h
  obtain ⟨hb, hc⟩ := nameOk_of h.2
  intro c hcm
  simp only [LtItem.core, List.mem_append, List.mem_cons] at hcm
  rcases hcm with hcm | rfl | rfl | hcm
  · exact space_lt (List.all_eq_true.mp h.1 c hcm)
  · decide
  · exact nameChar_lt (nameStart_nameChar hb)
  · exact nameChar_lt (List.all_eq_true.mp hc c hcm)

theorem ltMore_ascii (r : List LtItem) (h : ∀ y ∈ r, y.wfB = true) : ∀ c ∈ ltMore r, c < 0x80 := by
  induction r with
  | nil => simp [ltMore]
  | cons y r ih =>
    intro c hc
    simp only [ltMore, List.map_cons, List.flatten_cons, List.mem_append, List.mem_cons] at hc
    rcases hc with (rfl | hc) | hc
    · decide
    · exact ltItem_ascii y (h y List.mem_cons_self) c (by simpa using hc)
    · exact ih (fun z hz => h z (List.mem_cons_of_mem _ hz)) c (by simpa [ltMore] using hc)

/-- what follows a lifetime in the list: a comma or `>` -/
def LF (X : Bytes) : Prop := ∃ c r, X = c :: r ∧ (c = 44 ∨ c = 62)

theorem lf_nameEnd {X : Bytes} (h : LF X) : ∀ c r, X = c :: r → C05.isNameChar c = false := by
  obtain ⟨c, r, rfl, hc⟩ := h
  intro c' r' e; injection e with e _; subst e
  rcases hc with rfl | rfl <;> decide

theorem ltItemP_ok (x : LtItem) (h : x.wfB = true) (X : Bytes) (hX : LF X) :
    ltItemP (x.core ++ X) = .ok X (x.b :: x.cs) := by
  simp only [LtItem.wfB, Bool.and_eq_true] at h
  obtain ⟨hb, hc⟩ := nameOk_of h.2
  exact context_ok _ (preceded_of (tag_one 39 _) (C05.rustName_complete x.b x.cs X hb hc (lf_nameEnd hX)))

theorem commaWs_ok (ws X : Bytes) (hw : ws.all isSpace = true) (hX : ∀ b r, X = b :: r → isSpace b = false) :
    commaWs (44 :: (ws ++ X)) = .ok X [44] :=
  terminated_of (tag_one 44 _) (multispace0_complete ws X hw hX)

theorem commaWs_stop (X : Bytes) (h : ∀ r, X ≠ 44 :: r) : commaWs X = .err [] :=
  terminated_err_left (tag_one_ne 44 X h)

theorem ltListP_none (Y : Bytes) : ltListP (40 :: Y) = .ok (40 :: Y) none :=
  opt_err (delimited_err_left (terminated_err_left (tag_cons_ne 60 40 [] Y (by decide))))

theorem ltListP_some (x : LtItem) (r : List LtItem) (hx : x.wfB = true) (hr : ∀ y ∈ r, y.wfB = true) (Z : Bytes) :
    ltListP (printLts (x :: r) ++ Z) = .ok Z (some (ltSpan (x :: r))) := by
  have hvalid : validUtf8 (ltSpan (x :: r)) = true := by
    apply validUtf8_ascii
    intro c hc
    simp only [ltSpan, List.mem_append] at hc
    rcases hc with hc | hc
    · exact ltItem_ascii x hx c (List.mem_append_right _ hc)
    · exact ltMore_ascii r hr c hc
  have hxw : x.pre.all isSpace = true := by
    simp only [LtItem.wfB, Bool.and_eq_true] at hx; exact hx.1
  -- the loop over the items after the first
  have hchunks : All2 (fun c v => c ≠ [] ∧ (∀ X, LF (c ++ X)) ∧
      ∀ X, LF X → ∃ r1 u, commaWs (c ++ X) = .ok r1 u ∧ ltItemP r1 = .ok X v)
      (r.map (fun y => 44 :: (y.pre ++ y.core))) (r.map (fun y => y.b :: y.cs)) := by
    apply all2_map
    intro y hy
    have hyw := hr y hy
    refine ⟨by simp, fun X => ⟨44, _, rfl, .inl rfl⟩, ?_⟩
    intro X hX
    refine ⟨y.core ++ X, [44], ?_, ltItemP_ok y hyw X hX⟩
    have hyp : y.pre.all isSpace = true := by
      simp only [LtItem.wfB, Bool.and_eq_true] at hyw; exact hyw.1
    have e : 44 :: (y.pre ++ y.core) ++ X = 44 :: (y.pre ++ (y.core ++ X)) := by simp
    rw [e]
    exact commaWs_ok y.pre _ hyp (fun b r' e => by
      simp only [LtItem.core, List.cons_append] at e
      injection e with e _; subst e; decide)
  obtain ⟨hLF, hloop⟩ := CallL.sepLoop_chunks commaWs ltItemP LF (62 :: Z) ⟨62, Z, rfl, .inr rfl⟩
    ⟨_, commaWs_stop _ (fun r e => by injection e with e _; cases e)⟩ hchunks
  have hsep : sepList1 commaWs ltItemP (ltSpan (x :: r) ++ 62 :: Z) =
      .ok (62 :: Z) ((x.b :: x.cs) :: r.map (fun y => y.b :: y.cs)) := by
    simp only [ltSpan, List.append_assoc, sepList1]
    rw [show ltMore r = (r.map (fun y => 44 :: (y.pre ++ y.core))).flatten from rfl]
    rw [ltItemP_ok x hx _ hLF]
    simp only []
    rw [hloop _ [x.b :: x.cs] (Nat.lt_succ_self _)]
    simp
  have e : printLts (x :: r) ++ Z = 60 :: (x.pre ++ (ltSpan (x :: r) ++ 62 :: Z)) := by
    simp [printLts]
  rw [e]
  refine opt_of (delimited_of (terminated_of (tag_one 60 _) (multispace0_complete x.pre _ hxw ?_))
    (context_ok _ (mapRes_toStr_of (recognize_ok_of hsep) hvalid)) (tag_one 62 _))
  intro b r' e
  simp only [ltSpan, LtItem.core, List.cons_append] at e
  injection e with e _; subst e; decide

/-- in both cases the list is followed by `(` and `typeArgs` is the recognised span -/
theorem ltListP_ok (lts : List LtItem) (h : ∀ y ∈ lts, y.wfB = true) (Y : Bytes) :
    ∃ o, ltListP (printLts lts ++ 40 :: Y) = .ok (40 :: Y) o ∧ o.getD [] = ltSpan lts := by
  cases lts with
  | nil => exact ⟨none, by simpa [printLts] using ltListP_none Y, rfl⟩
  | cons x r =>
    exact ⟨some (ltSpan (x :: r)),
      ltListP_some x r (h x List.mem_cons_self) (fun y hy => h y (List.mem_cons_of_mem _ hy)) _, rfl⟩

/-! ## `@use …;` lines -/

structure UseLine where
  /-- the text between `@` and `;` -/
  text : Bytes
  /-- the layout after the `;` -/
  after : Layout

def UseLine.print (u : UseLine) : Bytes := 64 :: (u.text ++ 59 :: printLayout u.after)

/-- a byte that may occur in the text of a use line: none of `;`, `(`, `)` -/
def useByte (b : UInt8) : Bool := b != 59 && b != 40 && b != 41

def notStarHead : Bytes → Bool
  | 42 :: _ => false
  | _ => true

/-- non-empty, free of `;()`, valid UTF-8, not starting with `*` (`@*` opens a comment) -/
def UseLine.wfB (u : UseLine) : Bool :=
  !u.text.isEmpty && u.text.all useByte && validUtf8 u.text && notStarHead u.text && layoutOkB u.after

/-- one use line, constants evaluated -/
def useP : Parser Bytes :=
  delimited (tag [64]) (mapRes (isNot [59, 40, 41]) toStr) (terminated (tag [59]) spacelike)

theorem useSet_eq : (fun b : UInt8 => !([59, 40, 41] : Bytes).contains b) = useByte := by
  funext b
  rw [Bool.eq_iff_iff]
  simp [useByte, bne, and_assoc]

theorem isNot_use (t rest : Bytes) (ht : t ≠ []) (hp : t.all useByte = true)
    (hr : ∀ b r, rest = b :: r → useByte b = false) : isNot [59, 40, 41] (t ++ rest) = .ok rest t := by
  rw [isNot_eq_take1, useSet_eq]
  exact Nodes.take1_complete _ t rest ht hp hr

theorem useP_ok (u : UseLine) (h : u.wfB = true) (X : Bytes) (hX : StopsLayout X) :
    useP (u.print ++ X) = .ok X u.text := by
  simp only [UseLine.wfB, Bool.and_eq_true, Bool.not_eq_true', List.isEmpty_eq_false_iff] at h
  obtain ⟨⟨⟨⟨hne, hall⟩, hv⟩, _⟩, hl⟩ := h
  have e : u.print ++ X = 64 :: (u.text ++ 59 :: (printLayout u.after ++ X)) := by simp [UseLine.print]
  rw [e]
  exact delimited_of (tag_one 64 _)
    (mapRes_toStr_of (isNot_use u.text _ hne hall (fun b r e => by injection e with e _; subst e; decide)) hv)
    (terminated_of (tag_one 59 _) (spacelike_slot u.after (layoutOk_of hl) X hX))

/-- `@` followed by something other than `*` does not start a piece of layout -/
theorem stops_at (c : UInt8) (X : Bytes) (hc : c ≠ 42) : StopsLayout (64 :: c :: X) := by
  refine ⟨fun b r e => by injection e with e _; subst e; decide, ?_⟩
  intro ⟨r, e⟩
  injection e with _ e
  injection e with e _
  exact hc e

theorem usePrint_stops (u : UseLine) (h : u.wfB = true) (X : Bytes) : StopsLayout (u.print ++ X) := by
  simp only [UseLine.wfB, Bool.and_eq_true, Bool.not_eq_true', List.isEmpty_eq_false_iff] at h
  obtain ⟨⟨⟨⟨hne, _⟩, _⟩, hstar⟩, _⟩ := h
  cases ht : u.text with
  | nil => exact absurd ht hne
  | cons c t =>
    have hc : c ≠ 42 := by
      rintro rfl
      rw [ht] at hstar
      simp [notStarHead] at hstar
    have e : u.print ++ X = 64 :: c :: (t ++ 59 :: (printLayout u.after ++ X)) := by simp [UseLine.print, ht]
    rw [e]
    exact stops_at c _ hc

/-- the use-line parser fails on `@` … `(` when … contains none of `;()` (the declaration itself) -/
theorem useP_decl_err (D Y : Bytes) (hD : D.all useByte = true) : ∃ e, useP (64 :: (D ++ 40 :: Y)) = .err e := by
  cases D with
  | nil =>
    have h : isNot [59, 40, 41] (40 :: Y) = .err [] := isNot_cons_false _ _ _ (by decide)
    exact ⟨_, delimited_err_mid (tag_one 64 _) (mapRes_err h)⟩
  | cons d D =>
    have h := isNot_use (d :: D) (40 :: Y) (by simp) hD (fun b r e => by injection e with e _; subst e; decide)
    cases hv : validUtf8 (d :: D) with
    | true =>
      have hm := mapRes_toStr_of h hv
      exact ⟨_, preceded_err_right (tag_one 64 _)
        (terminated_err_right hm (terminated_err_left (tag_cons_ne 59 40 [] Y (by decide))))⟩
    | false =>
      have hm : mapRes (isNot [59, 40, 41]) toStr (d :: D ++ 40 :: Y) = .err [] := by
        simp only [mapRes]
        rw [h]
        simp [toStr, hv]
      exact ⟨_, delimited_err_mid (tag_one 64 _) hm⟩

def printUses (us : List UseLine) : Bytes := (us.map UseLine.print).flatten

/-- **the loop over the use lines** stops at `fin` (the declaration) -/
theorem uses_ok (us : List UseLine) (h : ∀ u ∈ us, u.wfB = true) (fin : Bytes) (hfin : StopsLayout fin)
    (herr : ∃ e, useP fin = .err e) :
    StopsLayout (printUses us ++ fin) ∧ many0 useP (printUses us ++ fin) = .ok fin (us.map UseLine.text) := by
  apply many0_chunks useP StopsLayout fin hfin herr
  apply all2_map
  intro u hu
  refine ⟨by simp [UseLine.print], usePrint_stops u (h u hu), useP_ok u (h u hu)⟩

/-! ## the parameter list -/

def paramsMore (r : List Param) : Bytes := (r.map (fun q => 44 :: (q.pre ++ q.span))).flatten

def printParams : List Param → Bytes
  | [] => []
  | p :: r => p.pre ++ p.span ++ paramsMore r

/-- one parameter of `template`, constants evaluated -/
def argP (n : Nat) : Parser Bytes := context "expected formal argument" (formalArgument n)
def openP : Parser Bytes :=
  context "expected '('...')' template arguments declaration." (terminated (tag [40]) multispace0)
def closeP : Parser Bytes := context "expected ',' or ')'." (delimited multispace0 (tag [41]) spacelike)
def paramsP (n : Nat) : Parser (List Bytes) := delimited openP (sepList0 commaWs (argP n)) closeP

/-- what follows a parameter: a comma, `)`, or white space (before `)`) -/
def PF (X : Bytes) : Prop := ∃ c r, X = c :: r ∧ (c = 44 ∨ c = 41 ∨ isSpace c = true)

theorem pf_follow (t : Ty) {X : Bytes} (h : PF X) : tyFollowB t X = true := by
  obtain ⟨c, r, rfl, hc⟩ := h
  have h1 : Src.nameEndB (c :: r) = true := by
    show (!C05.isNameChar c) = true
    rcases hc with rfl | rfl | hc
    · decide
    · decide
    · rw [space_not_nameChar hc]; rfl
  have h2 : notLtB (c :: r) = true := by
    rcases hc with rfl | rfl | hc
    · rfl
    · rfl
    · have : c = 32 ∨ c = 9 ∨ c = 10 ∨ c = 13 := by simpa [isSpace, or_assoc] using hc
      rcases this with rfl | rfl | rfl | rfl <;> rfl
  simp [tyFollowB, h1, h2]

theorem span_cons (p : Param) : ∃ r, p.span = p.b :: r :=
  ⟨p.cs ++ (printLayout p.l1 ++ 58 :: (printLayout p.l2 ++ printTy p.ty)), by simp [Param.span]⟩

theorem span_head_noSpace (p : Param) (h : p.wfB = true) (X : Bytes) :
    ∀ b r, p.span ++ X = b :: r → isSpace b = false := by
  simp only [Param.wfB, Param.declOk, Bool.and_eq_true] at h
  obtain ⟨hb, _⟩ := nameOk_of h.2.1.1.1.1
  obtain ⟨r0, e0⟩ := span_cons p
  intro b r e
  rw [e0] at e
  injection e with e _; subst e
  exact (nameStart_stops p.b [] hb).1 p.b [] rfl

theorem closeP_ok (ws : Bytes) (hw : ws.all isSpace = true) (after : Layout) (ha : ∀ i ∈ after, i.ok = true)
    (Z : Bytes) (hZ : StopsLayout Z) : closeP (ws ++ 41 :: (printLayout after ++ Z)) = .ok Z [41] :=
  context_ok _ (delimited_of
    (multispace0_complete ws _ hw (fun b r e => by injection e with e _; subst e; decide))
    (tag_one 41 _) (spacelike_slot after ha Z hZ))

theorem argP_close (n : Nat) (Y : Bytes) : ∃ e, argP n (41 :: Y) = .err e := by
  have h : rustName (41 :: Y) = .err [] := rustName_fail _ _ (by decide)
  have h2 : formalArgument n (41 :: Y) = .err [] := by
    unfold formalArgument
    exact mapRes_err (recognize_err (seq_err_left h))
  exact ⟨_, context_err _ h2⟩

/-- **the parameter list** between its parentheses, up to the body `Z` -/
theorem paramsP_ok (n : Nat) (ps : List Param) (hwf : ∀ p ∈ ps, p.wfB = true) (hfuel : ∀ p ∈ ps, fuelTy p.ty ≤ n)
    (ws : Bytes) (hw : ws.all isSpace = true) (after : Layout) (ha : ∀ i ∈ after, i.ok = true)
    (Z : Bytes) (hZ : StopsLayout Z) :
    paramsP n (40 :: (printParams ps ++ (ws ++ 41 :: (printLayout after ++ Z)))) = .ok Z (ps.map Param.span) := by
  cases ps with
  | nil =>
    obtain ⟨e, he⟩ := argP_close n (printLayout after ++ Z)
    have hopen : openP (40 :: (ws ++ 41 :: (printLayout after ++ Z))) = .ok (41 :: (printLayout after ++ Z)) [40] :=
      context_ok _ (terminated_of (tag_one 40 _)
        (multispace0_complete ws _ hw (fun b r e => by injection e with e _; subst e; decide)))
    have hclose := closeP_ok [] (by simp) after ha Z hZ
    simp only [printParams, List.nil_append, List.map_nil]
    exact delimited_of hopen (CallL.sepList0_none commaWs (argP n) _ he) hclose
  | cons p r =>
    have hp := hwf p List.mem_cons_self
    have hpw : p.pre.all isSpace = true := by
      simp only [Param.wfB, Bool.and_eq_true] at hp; exact hp.1
    have hpd : p.declOk = true := by
      simp only [Param.wfB, Bool.and_eq_true] at hp; exact hp.2
    let fin := ws ++ 41 :: (printLayout after ++ Z)
    have hfinHead : ∃ c r', ws ++ 41 :: (printLayout after ++ Z) = c :: r' ∧ (c = 41 ∨ isSpace c = true) := by
      cases ws with
      | nil => exact ⟨41, _, rfl, .inl rfl⟩
      | cons c ws' =>
        simp only [List.all_cons, Bool.and_eq_true] at hw
        exact ⟨c, _, rfl, .inr hw.1⟩
    have hPF : PF fin := by
      obtain ⟨c, r', e, hc⟩ := hfinHead
      exact ⟨c, r', e, .inr hc⟩
    have hstop : ∃ e, commaWs fin = .err e := by
      obtain ⟨c, r', e, hc⟩ := hfinHead
      refine ⟨_, commaWs_stop fin ?_⟩
      intro r'' e'
      have e'' : c :: r' = 44 :: r'' := e.symm.trans e'
      injection e'' with e'' _; subst e''
      rcases hc with hc | hc <;> simp [isSpace] at hc
    have h0 : ∀ X, PF X → argP n (p.span ++ X) = .ok X p.span := fun X hX =>
      context_ok _ (formalArgument_span p n X hpd (pf_follow p.ty hX) (hfuel p List.mem_cons_self))
    have hchunks : All2 (fun c v => c ≠ [] ∧ (∀ X, PF (c ++ X)) ∧
        ∀ X, PF X → ∃ r1 u, commaWs (c ++ X) = .ok r1 u ∧ argP n r1 = .ok X v)
        (r.map (fun q => 44 :: (q.pre ++ q.span))) (r.map Param.span) := by
      apply all2_map
      intro q hq
      have hqw := hwf q (List.mem_cons_of_mem _ hq)
      have hqp : q.pre.all isSpace = true := by
        simp only [Param.wfB, Bool.and_eq_true] at hqw; exact hqw.1
      have hqd : q.declOk = true := by
        simp only [Param.wfB, Bool.and_eq_true] at hqw; exact hqw.2
      refine ⟨by simp, fun X => ⟨44, _, rfl, .inl rfl⟩, ?_⟩
      intro X hX
      refine ⟨q.span ++ X, [44], ?_, context_ok _
        (formalArgument_span q n X hqd (pf_follow q.ty hX) (hfuel q (List.mem_cons_of_mem _ hq)))⟩
      have e : 44 :: (q.pre ++ q.span) ++ X = 44 :: (q.pre ++ (q.span ++ X)) := by simp
      rw [e]
      exact commaWs_ok q.pre _ hqp (span_head_noSpace q hqw X)
    have hlist := CallL.sepList0_chunks commaWs (argP n) PF fin hPF hstop p.span p.span h0 hchunks
    have hopen : openP (40 :: (p.pre ++ (p.span ++ ((r.map (fun q => 44 :: (q.pre ++ q.span))).flatten ++ fin)))) =
        .ok (p.span ++ ((r.map (fun q => 44 :: (q.pre ++ q.span))).flatten ++ fin)) [40] :=
      context_ok _ (terminated_of (tag_one 40 _) (multispace0_complete p.pre _ hpw (span_head_noSpace p hp _)))
    have e : 40 :: (printParams (p :: r) ++ (ws ++ 41 :: (printLayout after ++ Z))) =
        40 :: (p.pre ++ (p.span ++ ((r.map (fun q => 44 :: (q.pre ++ q.span))).flatten ++ fin))) := by
      simp [printParams, paramsMore, fin]
    rw [e]
    exact delimited_of hopen hlist (closeP_ok ws hw after ha Z hZ)

/-! ## the whole header -/

structure Header where
  /-- layout before anything else -/
  lead : Layout
  uses : List UseLine
  /-- `<'a, 'b>`; nothing is printed for the empty list -/
  lts : List LtItem
  params : List Param
  /-- white space before `)` -/
  wsClose : Bytes
  /-- layout after `)`: the run of white space and comments in front of the body -/
  after : Layout

/-- the declaration proper, followed by `tail` (the template body) -/
def printDecl (h : Header) (tail : Bytes) : Bytes :=
  64 :: (printLts h.lts ++ 40 :: (printParams h.params ++ (h.wsClose ++ 41 :: (printLayout h.after ++ tail))))

def printHeader (h : Header) : Bytes :=
  printLayout h.lead ++ printUses h.uses ++ [64] ++ printLts h.lts ++ [40] ++ printParams h.params ++ h.wsClose ++
    [41] ++ printLayout h.after

theorem printHeader_append (h : Header) (tail : Bytes) :
    printHeader h ++ tail = printLayout h.lead ++ (printUses h.uses ++ printDecl h tail) := by
  simp [printHeader, printDecl]

def wfHeader (h : Header) : Bool :=
  layoutOkB h.lead && h.uses.all UseLine.wfB && h.lts.all LtItem.wfB && h.params.all Param.wfB &&
    h.wsClose.all isSpace && layoutOkB h.after

/-- the fuel the declared types need -/
def fuelParams : List Param → Nat
  | [] => 0
  | p :: r => max (fuelTy p.ty) (fuelParams r)

theorem fuelParams_le {ps : List Param} {n : Nat} (h : fuelParams ps ≤ n) : ∀ p ∈ ps, fuelTy p.ty ≤ n := by
  induction ps with
  | nil => simp
  | cons q r ih =>
    simp only [fuelParams] at h
    intro p hp
    rcases List.mem_cons.mp hp with rfl | hp
    · omega
    · exact ih (by omega) p hp

/-- the fields of the `Template` the header is documented to produce -/
def Header.preamble (h : Header) : List Bytes := h.uses.map UseLine.text
def Header.typeArgs (h : Header) : Bytes := ltSpan h.lts
def Header.args (h : Header) : List Bytes := h.params.map Param.span

/-! ## `template` with the constants evaluated -/

def declAtP : Parser Bytes := context "expected '@('...')' template declaration." (tag [64])
def bodyP (n : Nat) : Parser (List TExpr × Unit) :=
  manyTill (context "Error in expression starting here:" (templateExpression n)) endOfFile

theorem template_eq (n : Nat) : template n =
    pmap (seq spacelike (seq (many0 useP) (seq declAtP (seq ltListP (seq (paramsP n) (bodyP n))))))
      (fun (_, preamble, _, ta, args, body) => { preamble, typeArgs := ta.getD [], args, body := body.1 }) := by
  unfold template
  simp only [useP, declAtP, ltListP, ltItemP, commaWs, paramsP, openP, closeP, argP, bodyP, tagS, str_at, str_useSet,
    str_semi, str_lt, str_gt, CallL.str_comma, str_apos, str_lpar, str_rpar]

theorem lt_useBytes (lts : List LtItem) (h : ∀ y ∈ lts, y.wfB = true) : (printLts lts).all useByte = true := by
  cases lts with
  | nil => rfl
  | cons x r =>
    have item : ∀ y : LtItem, y.wfB = true → ∀ c ∈ y.pre ++ y.core, useByte c = true := by
      intro y hy c hc
      simp only [LtItem.wfB, Bool.and_eq_true] at hy
      obtain ⟨hb, hcs⟩ := nameOk_of hy.2
      have nc : ∀ d, C05.isNameChar d = true → useByte d = true := by
        intro d hd
        have := forall_u8 (fun d => !C05.isNameChar d || useByte d) (by decide +kernel) d
        simpa [hd] using this
      simp only [LtItem.core, List.mem_append, List.mem_cons] at hc
      rcases hc with hc | rfl | rfl | hc
      · have hsp := List.all_eq_true.mp hy.1 c hc
        have : c = 32 ∨ c = 9 ∨ c = 10 ∨ c = 13 := by simpa [isSpace, or_assoc] using hsp
        rcases this with rfl | rfl | rfl | rfl <;> decide
      · decide
      · exact nc _ (nameStart_nameChar hb)
      · exact nc _ (List.all_eq_true.mp hcs c hc)
    have more : ∀ l : List LtItem, (∀ y ∈ l, y.wfB = true) → ∀ c ∈ ltMore l, useByte c = true := by
      intro l
      induction l with
      | nil => simp [ltMore]
      | cons y l ih =>
        intro hl c hc
        simp only [ltMore, List.map_cons, List.flatten_cons, List.mem_append, List.mem_cons] at hc
        rcases hc with (rfl | hc) | hc
        · decide
        · exact item y (hl y List.mem_cons_self) c (by simpa using hc)
        · exact ih (fun z hz => hl z (List.mem_cons_of_mem _ hz)) c (by simpa [ltMore] using hc)
    rw [List.all_eq_true]
    intro c hc
    simp only [printLts, ltSpan, List.mem_cons, List.mem_append] at hc
    rcases hc with rfl | (hc | hc | hc) | hc
    · decide
    · exact item x (h x List.mem_cons_self) c (List.mem_append_left _ hc)
    · exact item x (h x List.mem_cons_self) c (List.mem_append_right _ hc)
    · exact more r (fun y hy => h y (List.mem_cons_of_mem _ hy)) c hc
    · have : c = 62 := by simpa using hc
      subst this; decide

/-- the declaration does not start a piece of layout, and is not a use line -/
theorem decl_stops (h : Header) (hl : ∀ y ∈ h.lts, y.wfB = true) (tail : Bytes) :
    StopsLayout (printDecl h tail) ∧ ∃ e, useP (printDecl h tail) = .err e := by
  refine ⟨?_, useP_decl_err (printLts h.lts) _ (lt_useBytes h.lts hl)⟩
  cases hlts : h.lts with
  | nil => simpa [printDecl, hlts, printLts] using stops_at 40 _ (by decide)
  | cons x r => simpa [printDecl, hlts, printLts] using stops_at 60 _ (by decide)

/-- **from the parts to `template`** -/
theorem template_of_header (n : Nat) (h : Header) (hwf : wfHeader h = true) (hfuel : fuelParams h.params ≤ n)
    (tail : Bytes) (hst : StopsLayout tail) (nodes : List TExpr) (hbody : bodyP n tail = .ok [] (nodes, ())) :
    template n (printHeader h ++ tail) =
      .ok [] { preamble := h.preamble, typeArgs := h.typeArgs, args := h.args, body := nodes } := by
  simp only [wfHeader, Bool.and_eq_true, List.all_eq_true] at hwf
  obtain ⟨⟨⟨⟨⟨hlead, huses⟩, hlts⟩, hparams⟩, hws⟩, hafter⟩ := hwf
  obtain ⟨hdst, hderr⟩ := decl_stops h hlts tail
  obtain ⟨hust, hmany⟩ := uses_ok h.uses huses (printDecl h tail) hdst hderr
  have h1 := spacelike_slot h.lead (layoutOk_of hlead) _ hust
  obtain ⟨o, hlt, ho⟩ := ltListP_ok h.lts hlts
    (printParams h.params ++ (h.wsClose ++ 41 :: (printLayout h.after ++ tail)))
  have hp := paramsP_ok n h.params hparams (fuelParams_le hfuel) h.wsClose (List.all_eq_true.mpr hws) h.after
    (layoutOk_of hafter) tail hst
  have hat : declAtP (printDecl h tail) =
      .ok (printLts h.lts ++ 40 :: (printParams h.params ++ (h.wsClose ++ 41 :: (printLayout h.after ++ tail)))) [64] :=
    context_ok _ (tag_one 64 _)
  rw [template_eq, printHeader_append]
  have := CallL.pmap_of (f := fun (x : Unit × List Bytes × Bytes × Option Bytes × List Bytes × (List TExpr × Unit)) =>
      match x with
      | (_, preamble, _, ta, args, body) =>
        ({ preamble := preamble, typeArgs := ta.getD [], args := args, body := body.1 } : Template))
    (seq_of h1 (seq_of hmany (seq_of hat (seq_of hlt (seq_of hp hbody)))))
  rw [this]
  simp only [ho, Header.preamble, Header.typeArgs, Header.args]

end Ructe.Hdr
