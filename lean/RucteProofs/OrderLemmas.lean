import RucteProofs.GenLemmas

/-! Parametricity of the build-script model in the log / text accumulated so far: `handleTemplate`,
`handleFile`, `handleEntries`, `handleDir` only *append*, and what they append does not depend on
what is already there. -/
namespace Ructe
open Nom

/-- `b` with everything of `a` prepended -/
def Log.pre (a b : Log) : Log :=
  { writes := a.writes ++ b.writes, stdout := a.stdout ++ b.stdout, reads := a.reads ++ b.reads }

@[simp] theorem Log.pre_writes (a b : Log) : (a.pre b).writes = a.writes ++ b.writes := rfl
@[simp] theorem Log.pre_stdout (a b : Log) : (a.pre b).stdout = a.stdout ++ b.stdout := rfl
@[simp] theorem Log.pre_reads (a b : Log) : (a.pre b).reads = a.reads ++ b.reads := rfl

theorem Log.pre_empty (a : Log) : a.pre {} = a := by
  cases a; simp [Log.pre]

theorem Log.empty_pre (a : Log) : Log.pre {} a = a := by
  cases a; simp [Log.pre]

theorem Log.pre_print (a b : Log) (l : Bytes) : (a.pre b).print l = a.pre (b.print l) := by
  simp [Log.pre, Log.print, List.append_assoc]

theorem Log.pre_read (a b : Log) (p : Bytes) : (a.pre b).read p = a.pre (b.read p) := by
  simp [Log.pre, Log.read, List.append_assoc]

theorem Log.pre_write (a b : Log) (p c : Bytes) : (a.pre b).write p c = a.pre (b.write p c) := by
  simp [Log.pre, Log.write, List.append_assoc]

theorem Log.pre_writeIfChanged (a b : Log) (p c : Bytes) :
    writeIfChanged (a.pre b) p c = a.pre (writeIfChanged b p c) := Log.pre_write a b p c

theorem Log.pre_lines (a b : Log) (ls : List Bytes) :
    { a.pre b with stdout := (a.pre b).stdout ++ ls } = a.pre { b with stdout := b.stdout ++ ls } := by
  simp [Log.pre, List.append_assoc]

theorem handleTemplate_pre (ue : Nat → Bool) (o' o : Log) (name path outdir content : Bytes) :
    handleTemplate ue (o'.pre o) name path outdir content =
      ((handleTemplate ue o name path outdir content).1, o'.pre (handleTemplate ue o name path outdir content).2) := by
  unfold handleTemplate
  cases template (8 * content.length + 16) content with
  | ok _ t => simp only [Log.pre_read, Log.pre_writeIfChanged]
  | err es => simp only [Log.pre_read, Log.pre_print, Log.pre_lines]
  | oom => simp only [Log.pre_read, Log.pre_print]
  | panic => simp only [Log.pre_read, Log.pre_print]

theorem handleFile_pre (ue : Nat → Bool) (o' o : Log) (f' f fname path outdir content : Bytes) (l : List Bytes) :
    handleFile ue (o'.pre o) (f' ++ f) fname path outdir content l =
      (f' ++ (handleFile ue o f fname path outdir content l).1,
        o'.pre (handleFile ue o f fname path outdir content l).2) := by
  induction l generalizing o f with
  | nil => simp [handleFile]
  | cons s rest ih =>
    rw [handleFile, handleFile]
    split
    · simp only [Log.pre_print, handleTemplate_pre]
      split
      · rw [List.append_assoc f' f]; exact ih _ _
      · exact ih _ _
    · exact ih o f

theorem handleEntries_handleDir_pre (ue : Nat → Bool) :
    (∀ (o : Log) (f indir outdir : Bytes) (es : List Entry) (o' : Log) (f' : Bytes),
      handleEntries ue (o'.pre o) (f' ++ f) indir outdir es =
        (f' ++ (handleEntries ue o f indir outdir es).1, o'.pre (handleEntries ue o f indir outdir es).2)) ∧
    (∀ (o : Log) (f indir outdir : Bytes) (es : List Entry) (o' : Log) (f' : Bytes),
      handleDir ue (o'.pre o) (f' ++ f) indir outdir es =
        (f' ++ (handleDir ue o f indir outdir es).1, o'.pre (handleDir ue o f indir outdir es).2)) := by
  apply handleEntries.mutual_induct ue
    (motive1 := fun o f indir outdir es => ∀ (o' : Log) (f' : Bytes),
      handleEntries ue (o'.pre o) (f' ++ f) indir outdir es =
        (f' ++ (handleEntries ue o f indir outdir es).1, o'.pre (handleEntries ue o f indir outdir es).2))
    (motive2 := fun o f indir outdir es => ∀ (o' : Log) (f' : Bytes),
      handleDir ue (o'.pre o) (f' ++ f) indir outdir es =
        (f' ++ (handleDir ue o f indir outdir es).1, o'.pre (handleDir ue o f indir outdir es).2))
  · intro o f indir outdir o' f'
    simp [handleEntries]
  · intro o f indir outdir name sub rest hv outdir' modrs o1 hd o2 ih2 ih1 o' f'
    subst o2 outdir'
    have h2 := ih2 o' []
    simp only [List.nil_append, hd] at h2
    rw [handleEntries, if_pos hv, handleEntries, if_pos hv]
    simp only [hd, h2, Log.pre_writeIfChanged]
    have h1 := ih1 o' f'
    simp only [← List.append_assoc] at h1 ⊢
    exact h1
  · intro o f indir outdir name sub rest hv ih o' f'
    rw [handleEntries, if_neg hv, handleEntries, if_neg hv]
    exact ih o' f'
  · intro o f indir outdir name content rest hv f1 o1 hf ih o' f'
    rw [handleEntries, if_pos hv, handleEntries, if_pos hv]
    simp only [handleFile_pre, hf]
    exact ih o' f'
  · intro o f indir outdir name content rest hv ih o' f'
    rw [handleEntries, if_neg hv, handleEntries, if_neg hv]
    exact ih o' f'
  · intro o f indir outdir es o1 ih o' f'
    subst o1
    rw [handleDir, handleDir]
    simp only [Log.pre_read, Log.pre_print]
    exact ih o' f'

theorem handleEntries_pre (ue : Nat → Bool) (o' o : Log) (f' f indir outdir : Bytes) (es : List Entry) :
    handleEntries ue (o'.pre o) (f' ++ f) indir outdir es =
      (f' ++ (handleEntries ue o f indir outdir es).1, o'.pre (handleEntries ue o f indir outdir es).2) :=
  (handleEntries_handleDir_pre ue).1 o f indir outdir es o' f'

theorem handleDir_pre (ue : Nat → Bool) (o' o : Log) (f' f indir outdir : Bytes) (es : List Entry) :
    handleDir ue (o'.pre o) (f' ++ f) indir outdir es =
      (f' ++ (handleDir ue o f indir outdir es).1, o'.pre (handleDir ue o f indir outdir es).2) :=
  (handleEntries_handleDir_pre ue).2 o f indir outdir es o' f'

/-- the result from an arbitrary `(o, f)` is the result from `({}, [])` with `f` / `o` prepended -/
theorem handleEntries_from_empty (ue : Nat → Bool) (o : Log) (f indir outdir : Bytes) (es : List Entry) :
    handleEntries ue o f indir outdir es =
      (f ++ (handleEntries ue {} [] indir outdir es).1, o.pre (handleEntries ue {} [] indir outdir es).2) := by
  have := handleEntries_pre ue o {} f [] indir outdir es
  rwa [Log.pre_empty, List.append_nil] at this

/-- what one entry contributes, from nothing -/
def entryOut (ue : Nat → Bool) (indir outdir : Bytes) (e : Entry) : Bytes × Log :=
  handleEntries ue {} [] indir outdir [e]

theorem handleEntries_cons_empty (ue : Nat → Bool) (indir outdir : Bytes) (e : Entry) (es : List Entry) :
    handleEntries ue {} [] indir outdir (e :: es) =
      ((entryOut ue indir outdir e).1 ++ (handleEntries ue {} [] indir outdir es).1,
        (entryOut ue indir outdir e).2.pre (handleEntries ue {} [] indir outdir es).2) := by
  have h := handleEntries_app ue {} [] indir outdir [e] es
  rw [List.singleton_append] at h
  rw [h, handleEntries_from_empty]
  rfl

/-- declarations of a listing: concatenation of the per-entry blocks -/
theorem handleEntries_decls_flatten (ue : Nat → Bool) (indir outdir : Bytes) (es : List Entry) :
    (handleEntries ue {} [] indir outdir es).1 = (es.map (fun e => (entryOut ue indir outdir e).1)).flatten := by
  induction es with
  | nil => simp [handleEntries]
  | cons e rest ih => rw [handleEntries_cons_empty]; simp [ih]

theorem handleEntries_writes_flatten (ue : Nat → Bool) (indir outdir : Bytes) (es : List Entry) :
    (handleEntries ue {} [] indir outdir es).2.writes =
      (es.map (fun e => (entryOut ue indir outdir e).2.writes)).flatten := by
  induction es with
  | nil => simp [handleEntries]
  | cons e rest ih => rw [handleEntries_cons_empty]; simp [ih]

theorem handleEntries_stdout_flatten (ue : Nat → Bool) (indir outdir : Bytes) (es : List Entry) :
    (handleEntries ue {} [] indir outdir es).2.stdout =
      (es.map (fun e => (entryOut ue indir outdir e).2.stdout)).flatten := by
  induction es with
  | nil => simp [handleEntries]
  | cons e rest ih => rw [handleEntries_cons_empty]; simp [ih]

theorem handleEntries_reads_flatten (ue : Nat → Bool) (indir outdir : Bytes) (es : List Entry) :
    (handleEntries ue {} [] indir outdir es).2.reads =
      (es.map (fun e => (entryOut ue indir outdir e).2.reads)).flatten := by
  induction es with
  | nil => simp [handleEntries]
  | cons e rest ih => rw [handleEntries_cons_empty]; simp [ih]

end Ructe
