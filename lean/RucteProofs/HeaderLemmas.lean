import RucteModel.Tpl
import RucteProofs.Complete
import RucteProofs.Layout
import RucteProofs.CallLemmas
import RucteProofs.DirectiveLemmas
import RucteProofs.SrcTreeLoops
import RucteProps.C15
import RucteProps.C05Complete

/-!
# Lemmas for `RucteProps/C13Header.lean`: the declaration part of a template

Parser-level facts (no source trees yet): the grammar of `type_expression` / `comma_type_expressions`
/ `formal_argument` / `template` with the string constants evaluated, "from the parts to the whole"
lemmas for each of them, layout slots (`spacelike`, `multispace0`), the keyword alternative
(`impl` / `dyn` / nothing) in front of a name, and the loops (`many0` over use lines, `sepLoop` with a
trailing separator).
-/
namespace Ructe.Src
/-- what follows does not continue a name -/
def nameEndB : List UInt8 → Bool
  | [] => true
  | c :: _ => !C05.isNameChar c
end Ructe.Src

namespace Ructe.Hdr
open Nom Ructe.C15

/-! ## string constants -/

theorem str_apos : str "'" = [39] := by decide +kernel
theorem str_impl : str "impl" = [105, 109, 112, 108] := by decide +kernel
theorem str_dyn : str "dyn" = [100, 121, 110] := by decide +kernel
theorem str_semi : str ";" = [59] := by decide +kernel
theorem str_useSet : str ";()" = [59, 40, 41] := by decide +kernel

/-! ## the grammar with the constants evaluated -/

/-- optional `&` -/
def ampP : Parser Bytes := alt [tag [38], tag []]
/-- `impl` | `dyn` | nothing -/
def kwAlt : Parser Bytes := alt [tag [105, 109, 112, 108], tag [100, 121, 110], tag []]
/-- name | `[` type `]` | `(` types `)` -/
def baseP (n : Nat) : Parser Unit :=
  context "Expected rust type expression" (alt [
    value () rustName,
    delimited (tag [91]) (value () (typeExpression n)) (tag [93]),
    delimited (tag [40]) (value () (commaTypeExpressions n)) (tag [41])])
/-- optional `<` types `>` -/
def genP (n : Nat) : Parser (Option Unit) := opt (delimited (tag [60]) (commaTypeExpressions n) (tag [62]))
/-- `,` white space -/
def tySep : Parser Bytes := preceded (tag [44]) multispace0
/-- one element of a type list: a type or a lifetime -/
def elemP (n : Nat) : Parser Unit := alt [typeExpression n, lifetime]

theorem lifetime_eq : lifetime = delimited spacelike (value () (tag [39])) rustName := by
  simp only [lifetime, tagS, str_apos]

theorem typeExpression_eq (n : Nat) : typeExpression (n + 1) =
    value () (seq ampP (seq (opt lifetime) (seq (delimited spacelike kwAlt spacelike) (seq (baseP n) (genP n))))) := by
  rw [typeExpression]
  simp only [ampP, kwAlt, baseP, genP, tagS, str_amp, str_impl, str_dyn, str_lbrk, str_rbrk, str_lpar, str_rpar,
    str_lt, str_gt]

theorem commaTypeExpressions_eq (n : Nat) : commaTypeExpressions (n + 1) =
    value () (terminated (sepList0 tySep (elemP n)) (opt tySep)) := by
  rw [commaTypeExpressions]
  simp only [tySep, elemP, tagS, CallL.str_comma]

/-- from the parts to `type_expression` -/
theorem typeExpression_of_parts (n : Nat) {Y Y1 Y2 Y3 Y4 rest : Bytes} {a k : Bytes} {o : Option Unit} {g : Option Unit}
    (h1 : ampP Y = .ok Y1 a) (h2 : opt lifetime Y1 = .ok Y2 o)
    (h3 : delimited spacelike kwAlt spacelike Y2 = .ok Y3 k)
    (h4 : baseP n Y3 = .ok Y4 ()) (h5 : genP n Y4 = .ok rest g) :
    typeExpression (n + 1) Y = .ok rest () := by
  rw [typeExpression_eq]
  exact value_of () (seq_of h1 (seq_of h2 (seq_of h3 (seq_of h4 h5))))

/-! ## small facts -/

theorem ampP_amp (Y : Bytes) : ampP (38 :: Y) = .ok Y [38] := by
  simp only [ampP]; exact alt_cons_ok (tag_one 38 Y)

theorem ampP_none (Y : Bytes) (h : ∀ r, Y ≠ 38 :: r) : ampP Y = .ok Y [] := by
  have h1 : tag [38] Y = .err [] := tag_one_ne 38 Y h
  simp only [ampP, alt_cons_err h1, alt_one, tag_nil]

/-- what a printed, non-empty layout starts with -/
theorem layout_head (l : List Item) (hl : ∀ i ∈ l, i.ok = true) (X : Bytes) :
    l = [] ∨ (∃ b r, printLayout l ++ X = b :: r ∧ isSpace b = true) ∨ ∃ r, printLayout l ++ X = 64 :: 42 :: r := by
  cases l with
  | nil => exact .inl rfl
  | cons i l =>
    right
    have hi := hl i List.mem_cons_self
    cases i with
    | ws b =>
      simp only [Item.ok, Bool.and_eq_true, Bool.not_eq_true', List.isEmpty_eq_false_iff] at hi
      cases b with
      | nil => exact absurd rfl hi.1
      | cons c b =>
        simp only [List.all_cons, Bool.and_eq_true] at hi
        exact .inl ⟨c, b ++ (printLayout l ++ X), by simp [printLayout, Item.print], hi.2.1⟩
    | comment b =>
      exact .inr ⟨b ++ [42, 64] ++ (printLayout l ++ X), by simp [printLayout, Item.print]⟩

/-- a layout in front of `X` does not start with the byte `c`, if `X` does not, `c` is no white space and not `@` -/
theorem layout_head_ne (l : List Item) (hl : ∀ i ∈ l, i.ok = true) (X : Bytes) (c : UInt8)
    (hs : isSpace c = false) (h64 : c ≠ 64) (hX : ∀ r, X ≠ c :: r) : ∀ r, printLayout l ++ X ≠ c :: r := by
  intro r hr
  rcases layout_head l hl X with h | ⟨b, r', h, hb⟩ | ⟨r', h⟩
  · subst h; exact hX r (by simpa [printLayout] using hr)
  · rw [h] at hr; injection hr with e _; subst e; rw [hs] at hb; exact absurd hb (by simp)
  · rw [h] at hr; injection hr with e _; exact h64 e.symm

theorem printLayout_append (l₁ l₂ : List Item) : printLayout (l₁ ++ l₂) = printLayout l₁ ++ printLayout l₂ := by
  simp [printLayout]

theorem printLayout_nil : printLayout [] = [] := rfl

/-- `StopsLayout` from the first byte -/
theorem stopsLayout_cons (b : UInt8) (r : Bytes) (hs : isSpace b = false) (h64 : b ≠ 64) : StopsLayout (b :: r) := by
  refine ⟨?_, ?_⟩
  · intro b' r' h; injection h with h1 _; subst h1; exact hs
  · intro ⟨r', h⟩; injection h with h1 _; exact h64 h1

/-- decidable form of `StopsLayout` -/
def stopsLayoutB : Bytes → Bool
  | [] => true
  | [b] => !isSpace b
  | b :: c :: _ => !isSpace b && !(b == 64 && c == 42)

theorem stopsLayoutB_sound (X : Bytes) (h : stopsLayoutB X = true) : StopsLayout X := by
  match X, h with
  | [], _ => exact ⟨fun _ _ e => (by cases e), fun ⟨_, e⟩ => (by cases e)⟩
  | [b], h =>
    refine ⟨fun b' r' e => ?_, fun ⟨_, e⟩ => (by cases e)⟩
    injection e with e1 _; subst e1; simpa [stopsLayoutB] using h
  | b :: c :: x, h =>
    simp only [stopsLayoutB, Bool.and_eq_true, Bool.not_eq_true', Bool.and_eq_false_iff] at h
    refine ⟨fun b' r' e => ?_, fun ⟨r, e⟩ => ?_⟩
    · injection e with e1 _; subst e1; exact h.1
    · injection e with e1 e2; injection e2 with e2 _
      subst e1 e2
      rcases h.2 with h2 | h2 <;> simp at h2

/-- white-space items at the front of a layout are what `multispace0` takes -/
def dropWs : List Item → List Item
  | .ws _ :: l => dropWs l
  | l => l

theorem dropWs_ok (l : List Item) (hl : ∀ i ∈ l, i.ok = true) : ∀ i ∈ dropWs l, i.ok = true := by
  induction l with
  | nil => simp [dropWs]
  | cons i l ih =>
    cases i with
    | ws b => simp only [dropWs]; exact ih (fun j hj => hl j (List.mem_cons_of_mem _ hj))
    | comment b => simpa [dropWs] using hl

/-- **the white-space slot after a comma, in front of an element that may start with layout**:
`multispace0` takes the leading white-space items, the rest is again an admissible layout -/
theorem multispace0_layout (l : List Item) (hl : ∀ i ∈ l, i.ok = true) (Z : Bytes)
    (hZ : ∀ b r, Z = b :: r → isSpace b = false) :
    ∃ w, multispace0 (printLayout l ++ Z) = .ok (printLayout (dropWs l) ++ Z) w := by
  have key : (span isSpace (printLayout l ++ Z)).2 = printLayout (dropWs l) ++ Z := by
    induction l with
    | nil => simp [printLayout, dropWs, span_stop _ _ hZ]
    | cons i l ih =>
      have hi := hl i List.mem_cons_self
      cases i with
      | ws b =>
        simp only [Item.ok, Bool.and_eq_true, Bool.not_eq_true', List.isEmpty_eq_false_iff] at hi
        have e : printLayout (Item.ws b :: l) ++ Z = b ++ (printLayout l ++ Z) := by simp [printLayout, Item.print]
        rw [e, span_all _ _ _ hi.2]
        simp only [dropWs]
        exact ih (fun j hj => hl j (List.mem_cons_of_mem _ hj))
      | comment b =>
        have e : printLayout (Item.comment b :: l) ++ Z = 64 :: 42 :: (b ++ 42 :: 64 :: (printLayout l ++ Z)) := by
          simp [printLayout, Item.print]
        rw [e, span_cons_false _ _ _ (by decide)]
        simp [dropWs, printLayout, Item.print]
  refine ⟨(span isSpace (printLayout l ++ Z)).1, ?_⟩
  simp only [multispace0]
  rw [← key]

/-- what follows does not continue a name (Prop form of `Src.nameEndB`) -/
theorem nameEnd_of (X : Bytes) (h : Src.nameEndB X = true) : ∀ c r, X = c :: r → C05.isNameChar c = false := by
  intro c r e; subst e; simpa [Src.nameEndB] using h

theorem nameEndB_append (A X : Bytes) (hA : A ≠ []) : Src.nameEndB (A ++ X) = Src.nameEndB A := by
  cases A with
  | nil => exact absurd rfl hA
  | cons a A => rfl

/-! ## layout slots seen by the parser -/

theorem spacelike_stop (Z : Bytes) (hZ : StopsLayout Z) : spacelike Z = .ok Z () := by
  have := spacelike_complete [] (by simp) Z hZ
  simpa [printLayout] using this

/-- a slot in front of `Z`: any admissible layout -/
theorem spacelike_slot (l : List Item) (hl : ∀ i ∈ l, i.ok = true) (Z : Bytes) (hZ : StopsLayout Z) :
    spacelike (printLayout l ++ Z) = .ok Z () := spacelike_complete l hl Z hZ

/-! ## lifetimes -/

theorem lifetime_ok {Y W : Bytes} (b : UInt8) (cs : Bytes) (hs : spacelike Y = .ok (39 :: (b :: cs ++ W)) ())
    (hb : C05.isNameStart b = true) (hc : cs.all C05.isNameChar = true)
    (hW : ∀ c r, W = c :: r → C05.isNameChar c = false) : lifetime Y = .ok W () := by
  rw [lifetime_eq]
  exact delimited_of hs (value_of () (tag_one 39 _)) (C05.rustName_complete b cs W hb hc hW)

theorem lifetime_err {Y Z : Bytes} (hs : spacelike Y = .ok Z ()) (hZ : ∀ r, Z ≠ 39 :: r) : lifetime Y = .err [] := by
  rw [lifetime_eq]
  exact preceded_err_right hs (terminated_err_left (value_err () (tag_one_ne 39 Z hZ)))

/-! ## the keyword alternative in front of a name -/

def startsName : Bytes → Bool
  | c :: _ => C05.isNameStart c
  | [] => false

/-- a type name is not `impl` / `dyn` followed by nothing or by a digit (the parser takes such a prefix
as the keyword, whatever follows) -/
def kwSafe : Bytes → Bool
  | 105 :: 109 :: 112 :: 108 :: r => startsName r
  | 100 :: 121 :: 110 :: r => startsName r
  | _ => true

/-- a run of name characters at the start of `N ++ R` lies inside `N`, if `R` does not continue a name -/
theorem name_prefix (t : Bytes) (ht : t.all C05.isNameChar = true) (R : Bytes)
    (hR : ∀ c r, R = c :: r → C05.isNameChar c = false) :
    ∀ (N r : Bytes), N ++ R = t ++ r → ∃ s, N = t ++ s ∧ r = s ++ R := by
  induction t with
  | nil => intro N r h; exact ⟨N, rfl, by simpa using h.symm⟩
  | cons c t ih =>
    intro N r h
    simp only [List.all_cons, Bool.and_eq_true] at ht
    cases N with
    | nil =>
      have := hR c (t ++ r) (by simpa using h)
      rw [ht.1] at this; exact absurd this (by simp)
    | cons d N =>
      rw [List.cons_append, List.cons_append] at h
      injection h with h1 h2
      obtain ⟨s, hs, hr⟩ := ih ht.2 N r h2
      exact ⟨s, by rw [h1, hs]; rfl, hr⟩

theorem all_of_append_right {p : UInt8 → Bool} {a b : Bytes} (h : (a ++ b).all p = true) : b.all p = true := by
  simp only [List.all_append, Bool.and_eq_true] at h; exact h.2

/-- **the keyword alternative never spoils a safe name**: on a name `N` (followed by something that
does not continue it) `impl | dyn | ε` leaves a non-empty suffix of `N` that is again a name -/
theorem kwAlt_name (b : UInt8) (cs R : Bytes) (hc : cs.all C05.isNameChar = true)
    (hb : C05.isNameStart b = true) (hk : kwSafe (b :: cs) = true)
    (hR : ∀ c r, R = c :: r → C05.isNameChar c = false) :
    ∃ b' cs' k, C05.isNameStart b' = true ∧ cs'.all C05.isNameChar = true ∧
      kwAlt (b :: cs ++ R) = .ok (b' :: cs' ++ R) k := by
  have hbc : C05.isNameChar b = true := by
    have : (Nom.isAlpha b || b = 95) = true := by simpa [C05.isNameStart] using hb
    simp only [C05.isNameChar]
    rcases Bool.or_eq_true _ _ |>.mp this with h | h
    · simp [h]
    · simp [h]
  have hN : (b :: cs).all C05.isNameChar = true := by simp [hbc, hc]
  have fin' : ∀ t s, (b :: cs) = t ++ s → startsName s = true →
      ∃ b' cs', C05.isNameStart b' = true ∧ cs'.all C05.isNameChar = true ∧ s = b' :: cs' := by
    intro t s ht hs
    cases s with
    | nil => simp [startsName] at hs
    | cons c s =>
      refine ⟨c, s, by simpa [startsName] using hs, ?_, rfl⟩
      rw [ht] at hN
      have := all_of_append_right hN
      simp only [List.all_cons, Bool.and_eq_true] at this
      exact this.2
  rcases Src.tag_res [105, 109, 112, 108] (b :: cs ++ R) with ⟨r, h1, he⟩ | h1
  · obtain ⟨s, hs, hr⟩ := name_prefix [105, 109, 112, 108] (by decide) R hR (b :: cs) r he
    rw [hs] at hk
    obtain ⟨b', cs', hb', hc', rfl⟩ := fin' _ s hs (by simpa [kwSafe] using hk)
    exact ⟨b', cs', _, hb', hc', by rw [← hr]; exact alt_cons_ok h1⟩
  rcases Src.tag_res [100, 121, 110] (b :: cs ++ R) with ⟨r, h2, he⟩ | h2
  · obtain ⟨s, hs, hr⟩ := name_prefix [100, 121, 110] (by decide) R hR (b :: cs) r he
    rw [hs] at hk
    obtain ⟨b', cs', hb', hc', rfl⟩ := fin' _ s hs (by simpa [kwSafe] using hk)
    refine ⟨b', cs', [100, 121, 110], hb', hc', ?_⟩
    rw [← hr]
    simp only [kwAlt]
    rw [alt_cons_err h1]
    exact alt_cons_ok h2
  · refine ⟨b, cs, [], hb, hc, ?_⟩
    simp only [kwAlt]
    rw [alt_cons_err h1, alt_cons_err h2, alt_one, tag_nil]

/-- the keyword alternative in front of `[` or `(` takes nothing -/
theorem kwAlt_open (c : UInt8) (X : Bytes) (hc : c = 91 ∨ c = 40) : kwAlt (c :: X) = .ok (c :: X) [] := by
  have h1 : tag [105, 109, 112, 108] (c :: X) = .err [] :=
    tag_cons_ne _ _ _ _ (by rcases hc with rfl | rfl <;> decide)
  have h2 : tag [100, 121, 110] (c :: X) = .err [] :=
    tag_cons_ne _ _ _ _ (by rcases hc with rfl | rfl <;> decide)
  simp only [kwAlt]
  rw [alt_cons_err h1, alt_cons_err h2, alt_one, tag_nil]

theorem kwAlt_impl (X : Bytes) : kwAlt (105 :: 109 :: 112 :: 108 :: X) = .ok X [105, 109, 112, 108] := by
  simp only [kwAlt]; exact alt_cons_ok (tag_append [105, 109, 112, 108] X)

theorem kwAlt_dyn (X : Bytes) : kwAlt (100 :: 121 :: 110 :: X) = .ok X [100, 121, 110] := by
  have h1 : tag [105, 109, 112, 108] (100 :: 121 :: 110 :: X) = .err [] := tag_cons_ne _ _ _ _ (by decide)
  simp only [kwAlt]
  rw [alt_cons_err h1]
  exact alt_cons_ok (tag_append [100, 121, 110] X)

theorem nameStart_stops (b : UInt8) (X : Bytes) (hb : C05.isNameStart b = true) : StopsLayout (b :: X) := by
  apply stopsLayout_cons
  · cases h : isSpace b with
    | false => rfl
    | true =>
      have : b = 32 ∨ b = 9 ∨ b = 10 ∨ b = 13 := by simpa [isSpace, or_assoc] using h
      rcases this with rfl | rfl | rfl | rfl <;> simp [C05.isNameStart, isAlpha] at hb
  · rintro rfl; simp [C05.isNameStart, isAlpha] at hb

/-! ## the base of a type and its generic arguments -/

theorem rustName_fail (c : UInt8) (X : Bytes) (hc : C05.isNameStart c = false) : rustName (c :: X) = .err [] := by
  apply rustName_head
  intro b x e
  injection e with e _; subst e
  simp only [C05.isNameStart, Bool.or_eq_false_iff, decide_eq_false_iff_not] at hc
  exact hc

theorem baseP_name (n : Nat) (b : UInt8) (cs R : Bytes) (hb : C05.isNameStart b = true)
    (hc : cs.all C05.isNameChar = true) (hR : ∀ c r, R = c :: r → C05.isNameChar c = false) :
    baseP n (b :: cs ++ R) = .ok R () :=
  context_ok _ (alt_cons_ok (value_of () (C05.rustName_complete b cs R hb hc hR)))

theorem baseP_slice (n : Nat) (T R : Bytes) (h : typeExpression n (T ++ 93 :: R) = .ok (93 :: R) ()) :
    baseP n (91 :: (T ++ 93 :: R)) = .ok R () := by
  have h1 : rustName (91 :: (T ++ 93 :: R)) = .err [] := rustName_fail _ _ (by decide)
  simp only [baseP]
  apply context_ok
  rw [alt_cons_err (value_err () h1)]
  exact alt_cons_ok (delimited_of (tag_one 91 _) (value_of () h) (tag_one 93 _))

theorem baseP_tuple (n : Nat) (E R : Bytes) (h : commaTypeExpressions n (E ++ 41 :: R) = .ok (41 :: R) ()) :
    baseP n (40 :: (E ++ 41 :: R)) = .ok R () := by
  have h1 : rustName (40 :: (E ++ 41 :: R)) = .err [] := rustName_fail _ _ (by decide)
  have h2 : tag [91] (40 :: (E ++ 41 :: R)) = .err [] := tag_cons_ne _ _ _ _ (by decide)
  simp only [baseP]
  apply context_ok
  rw [alt_cons_err (value_err () h1), alt_cons_err (delimited_err_left h2), alt_one]
  exact delimited_of (tag_one 40 _) (value_of () h) (tag_one 41 _)

/-- no base starts with a byte that is neither a name start nor `[` nor `(` -/
theorem baseP_fail (n : Nat) (c : UInt8) (X : Bytes) (hc : C05.isNameStart c = false) (h91 : c ≠ 91) (h40 : c ≠ 40) :
    ∃ e, baseP n (c :: X) = .err e := by
  have h1 : rustName (c :: X) = .err [] := rustName_fail _ _ hc
  have h2 : tag [91] (c :: X) = .err [] := tag_cons_ne _ _ _ _ (fun e => h91 e.symm)
  have h3 : tag [40] (c :: X) = .err [] := tag_cons_ne _ _ _ _ (fun e => h40 e.symm)
  have h4 : alt [value () rustName, delimited (tag [91]) (value () (typeExpression n)) (tag [93]),
      delimited (tag [40]) (value () (commaTypeExpressions n)) (tag [41])] (c :: X) = .err [] := by
    rw [alt_cons_err (value_err () h1), alt_cons_err (delimited_err_left h2), alt_one]
    exact delimited_err_left h3
  exact ⟨_, context_err _ h4⟩

theorem genP_none (n : Nat) (R : Bytes) (h : ∀ r, R ≠ 60 :: r) : genP n R = .ok R none :=
  opt_err (delimited_err_left (tag_one_ne 60 R h))

theorem genP_args (n : Nat) (E R : Bytes) (h : commaTypeExpressions n (E ++ 62 :: R) = .ok (62 :: R) ()) :
    genP n (60 :: (E ++ 62 :: R)) = .ok R (some ()) :=
  opt_of (delimited_of (tag_one 60 _) h (tag_one 62 _))

/-! ## the keyword slot and the base -/

/-- with the text `Z` after the layout slot, the keyword slot and the base take everything up to `R` -/
def KwBase (n : Nat) (Z R : Bytes) : Prop :=
  ∀ Y, spacelike Y = .ok Z () →
    ∃ k Y3, delimited spacelike kwAlt spacelike Y = .ok Y3 k ∧ baseP n Y3 = .ok R ()

/-- no keyword, a (safe) name -/
theorem kwBase_name (n : Nat) (b : UInt8) (cs R : Bytes) (hb : C05.isNameStart b = true)
    (hc : cs.all C05.isNameChar = true) (hk : kwSafe (b :: cs) = true)
    (hR : ∀ c r, R = c :: r → C05.isNameChar c = false) : KwBase n (b :: cs ++ R) R := by
  intro Y hY
  obtain ⟨b', cs', k, hb', hc', hkw⟩ := kwAlt_name b cs R hc hb hk hR
  exact ⟨k, _, delimited_of hY hkw (spacelike_stop _ (nameStart_stops b' _ hb')), baseP_name n b' cs' R hb' hc' hR⟩

theorem kwAlt_other (c : UInt8) (X : Bytes) (h1 : c ≠ 105) (h2 : c ≠ 100) : kwAlt (c :: X) = .ok (c :: X) [] := by
  have e1 : tag [105, 109, 112, 108] (c :: X) = .err [] := tag_cons_ne _ _ _ _ (fun e => h1 e.symm)
  have e2 : tag [100, 121, 110] (c :: X) = .err [] := tag_cons_ne _ _ _ _ (fun e => h2 e.symm)
  simp only [kwAlt]
  rw [alt_cons_err e1, alt_cons_err e2, alt_one, tag_nil]

/-- no keyword, in front of something that starts with neither `i` nor `d` -/
theorem kwSlot_other {Y : Bytes} (c : UInt8) (X : Bytes) (hY : spacelike Y = .ok (c :: X) ())
    (h1 : c ≠ 105) (h2 : c ≠ 100) (hs : StopsLayout (c :: X)) :
    delimited spacelike kwAlt spacelike Y = .ok (c :: X) [] :=
  delimited_of hY (kwAlt_other c X h1 h2) (spacelike_stop _ hs)

/-- no keyword, `[ … ]` or `( … )` -/
theorem kwBase_open (n : Nat) (c : UInt8) (X R : Bytes) (hc : c = 91 ∨ c = 40) (h : baseP n (c :: X) = .ok R ()) :
    KwBase n (c :: X) R := by
  intro Y hY
  refine ⟨[], _, kwSlot_other c X hY ?_ ?_ (stopsLayout_cons _ _ ?_ ?_), h⟩ <;>
    rcases hc with rfl | rfl <;> decide

/-- `impl` layout base -/
theorem kwBase_impl (n : Nat) (l : List Item) (hl : ∀ i ∈ l, i.ok = true) (B R : Bytes) (hB : StopsLayout B)
    (h : baseP n B = .ok R ()) : KwBase n (105 :: 109 :: 112 :: 108 :: (printLayout l ++ B)) R := by
  intro Y hY
  exact ⟨_, _, delimited_of hY (kwAlt_impl _) (spacelike_slot l hl B hB), h⟩

/-- `dyn` layout base -/
theorem kwBase_dyn (n : Nat) (l : List Item) (hl : ∀ i ∈ l, i.ok = true) (B R : Bytes) (hB : StopsLayout B)
    (h : baseP n B = .ok R ()) : KwBase n (100 :: 121 :: 110 :: (printLayout l ++ B)) R := by
  intro Y hY
  exact ⟨_, _, delimited_of hY (kwAlt_dyn _) (spacelike_slot l hl B hB), h⟩

/-! ## everything after the optional `&` -/

def TyTail (n : Nat) (Y1 rest : Bytes) : Prop :=
  ∃ Y2 o Y3 k Y4 g, opt lifetime Y1 = .ok Y2 o ∧ delimited spacelike kwAlt spacelike Y2 = .ok Y3 k ∧
    baseP n Y3 = .ok Y4 () ∧ genP n Y4 = .ok rest g

theorem typeExpression_of_tail (n : Nat) {Y Y1 rest a : Bytes} (h1 : ampP Y = .ok Y1 a) (h : TyTail n Y1 rest) :
    typeExpression (n + 1) Y = .ok rest () := by
  obtain ⟨Y2, o, Y3, k, Y4, g, h2, h3, h4, h5⟩ := h
  exact typeExpression_of_parts n h1 h2 h3 h4 h5

/-- no lifetime -/
theorem tyTail_plain (n : Nat) {Y1 Z R rest : Bytes} {g : Option Unit} (hs : spacelike Y1 = .ok Z ())
    (hZ : ∀ r, Z ≠ 39 :: r) (hkb : KwBase n Z R) (hg : genP n R = .ok rest g) : TyTail n Y1 rest := by
  obtain ⟨k, Y3, h3, h4⟩ := hkb Y1 hs
  exact ⟨Y1, none, Y3, k, R, g, opt_err (lifetime_err hs hZ), h3, h4, hg⟩

/-- with a lifetime -/
theorem tyTail_lt (n : Nat) {Y1 W Z R rest : Bytes} {g : Option Unit} (b : UInt8) (cs : Bytes)
    (hs : spacelike Y1 = .ok (39 :: (b :: cs ++ W)) ())
    (hb : C05.isNameStart b = true) (hc : cs.all C05.isNameChar = true)
    (hW : ∀ c r, W = c :: r → C05.isNameChar c = false) (hsW : spacelike W = .ok Z ())
    (hkb : KwBase n Z R) (hg : genP n R = .ok rest g) : TyTail n Y1 rest := by
  obtain ⟨k, Y3, h3, h4⟩ := hkb W hsW
  exact ⟨W, some (), Y3, k, R, g, opt_of (lifetime_ok b cs hs hb hc hW), h3, h4, hg⟩

/-- a type expression fails (does not run out of fuel) in front of `,`, `)`, `>` -/
theorem typeExpression_close (n : Nat) (c : UInt8) (X : Bytes) (hc : c = 44 ∨ c = 41 ∨ c = 62) :
    ∃ e, typeExpression (n + 1) (c :: X) = .err e := by
  have hst : StopsLayout (c :: X) := by
    apply stopsLayout_cons <;> rcases hc with rfl | rfl | rfl <;> decide
  have hs := spacelike_stop _ hst
  have h1 : ampP (c :: X) = .ok (c :: X) [] :=
    ampP_none _ (fun r e => by injection e with e _; subst e; rcases hc with h | h | h <;> cases h)
  have h2 : opt lifetime (c :: X) = .ok (c :: X) none :=
    opt_err (lifetime_err hs (fun r e => by injection e with e _; subst e; rcases hc with h | h | h <;> cases h))
  have h3 : delimited spacelike kwAlt spacelike (c :: X) = .ok (c :: X) [] :=
    kwSlot_other c X hs (by rcases hc with rfl | rfl | rfl <;> decide) (by rcases hc with rfl | rfl | rfl <;> decide) hst
  obtain ⟨e, h4⟩ := baseP_fail n c X (by rcases hc with rfl | rfl | rfl <;> decide)
    (by rcases hc with rfl | rfl | rfl <;> decide) (by rcases hc with rfl | rfl | rfl <;> decide)
  refine ⟨e, ?_⟩
  rw [typeExpression_eq]
  exact value_err () (seq_err_right h1 (seq_err_right h2 (seq_err_right h3 (seq_err_left h4))))

/-- the element parser fails in front of `,`, `)`, `>` -/
theorem elemP_close (n : Nat) (c : UInt8) (X : Bytes) (hc : c = 44 ∨ c = 41 ∨ c = 62) :
    ∃ e, elemP (n + 1) (c :: X) = .err e := by
  obtain ⟨e, h⟩ := typeExpression_close n c X hc
  have hst : StopsLayout (c :: X) := by
    apply stopsLayout_cons <;> rcases hc with rfl | rfl | rfl <;> decide
  refine ⟨[], ?_⟩
  simp only [elemP]
  rw [alt_cons_err h, alt_one]
  exact lifetime_err (spacelike_stop _ hst)
    (fun r e => by injection e with e _; subst e; rcases hc with h | h | h <;> cases h)

/-! ## lists of types: `elem (, ws elem)* (, ws)?` in front of a closing `)` or `>` -/

/-- what follows an element of a type list: a comma or the closing delimiter -/
def EF (X : Bytes) : Prop := ∃ c r, X = c :: r ∧ (c = 44 ∨ c = 41 ∨ c = 62)

theorem ef_stops {X : Bytes} (h : EF X) : StopsLayout X := by
  obtain ⟨c, r, rfl, hc⟩ := h
  apply stopsLayout_cons <;> rcases hc with rfl | rfl | rfl <;> decide

theorem ef_nameEnd {X : Bytes} (h : EF X) : ∀ c r, X = c :: r → C05.isNameChar c = false := by
  obtain ⟨c, r, rfl, hc⟩ := h
  intro c' r' e; injection e with e _; subst e
  rcases hc with rfl | rfl | rfl <;> decide

theorem ef_notLt {X : Bytes} (h : EF X) : ∀ r, X ≠ 60 :: r := by
  obtain ⟨c, r, rfl, hc⟩ := h
  intro r' e; injection e with e _; subst e
  rcases hc with h | h | h <;> cases h

/-- the optional trailing comma with its white space -/
def printTrailing : Option Bytes → Bytes
  | none => []
  | some ws => 44 :: ws

def trailingOk : Option Bytes → Bool
  | none => true
  | some ws => ws.all isSpace

theorem tySep_ok (ws X : Bytes) (hw : ws.all isSpace = true) (hX : ∀ b r, X = b :: r → isSpace b = false) :
    tySep (44 :: (ws ++ X)) = .ok X ws :=
  preceded_of (tag_one 44 _) (multispace0_complete ws X hw hX)

theorem tySep_stop (c : UInt8) (X : Bytes) (hc : c ≠ 44) : tySep (c :: X) = .err [] :=
  preceded_err_left (tag_cons_ne _ _ _ _ (fun e => hc e.symm))

/-- the text `lead ++ body` is an element of a type list, whatever admissible layout replaces `lead` -/
structure ElemParses (k : Nat) (lead : List Item) (body : Bytes) : Prop where
  leadOk : ∀ i ∈ lead, i.ok = true
  head : ∃ c r, body = c :: r ∧ isSpace c = false
  parses : ∀ L', (∀ i ∈ L', i.ok = true) → (lead = [] → L' = []) → ∀ X, EF X →
    elemP k (printLayout L' ++ (body ++ X)) = .ok X ()

theorem dropWs_nil_of {l : List Item} (h : l = []) : dropWs l = [] := by subst h; rfl

/-- the rest of the separated list, from `inp` on, ends at `fin` -/
def LoopOk (k : Nat) (inp fin : Bytes) : Prop :=
  EF inp ∧ ∀ fuel acc, inp.length < fuel → ∃ vs, sepLoop tySep (elemP k) fuel inp acc = .ok fin vs

theorem loop_fin_none (k : Nat) (c : UInt8) (rest : Bytes) (hc : c = 41 ∨ c = 62) :
    LoopOk k (c :: rest) (c :: rest) := by
  refine ⟨⟨c, rest, rfl, .inr hc⟩, ?_⟩
  intro fuel acc hf
  cases fuel with
  | zero => omega
  | succ f => exact ⟨_, Src.sepLoop_done (tySep_stop c rest (by rcases hc with rfl | rfl <;> decide)) f acc⟩

theorem sepLoop_done' {α β} {sep : Parser β} {p : Parser α} {inp r1 : Bytes} {u : β} {e : Errs}
    (hs : sep inp = .ok r1 u) (hp : p r1 = .err e) (k : Nat) (acc : List α) :
    sepLoop sep p (k + 1) inp acc = .ok inp acc.reverse := by
  simp [sepLoop, hs, hp]

theorem loop_fin_trailing (k : Nat) (ws : Bytes) (hw : ws.all isSpace = true) (c : UInt8) (rest : Bytes)
    (hc : c = 41 ∨ c = 62) : LoopOk (k + 1) (44 :: (ws ++ c :: rest)) (44 :: (ws ++ c :: rest)) := by
  refine ⟨⟨44, _, rfl, .inl rfl⟩, ?_⟩
  intro fuel acc hf
  cases fuel with
  | zero => omega
  | succ f =>
    obtain ⟨e, he⟩ := elemP_close k c rest (.inr hc)
    have hs := tySep_ok ws (c :: rest) hw (fun b r e => by
      injection e with e _; subst e; rcases hc with rfl | rfl <;> decide)
    exact ⟨_, sepLoop_done' hs he f acc⟩

theorem loop_fin (k : Nat) (tr : Option Bytes) (ht : trailingOk tr = true) (c : UInt8) (rest : Bytes)
    (hc : c = 41 ∨ c = 62) :
    LoopOk (k + 1) (printTrailing tr ++ c :: rest) (printTrailing tr ++ c :: rest) := by
  cases tr with
  | none => exact loop_fin_none _ c rest hc
  | some ws => exact loop_fin_trailing k ws ht c rest hc

/-- one more element in front: `,` element -/
theorem loop_step (k : Nat) (lead : List Item) (body M fin : Bytes) (he : ElemParses k lead body)
    (hM : LoopOk k M fin) : LoopOk k (44 :: (printLayout lead ++ body ++ M)) fin := by
  refine ⟨⟨44, _, rfl, .inl rfl⟩, ?_⟩
  intro fuel acc hf
  cases fuel with
  | zero => omega
  | succ f =>
    obtain ⟨c, r, hb, hcs⟩ := he.head
    have hZ : ∀ b' r', body ++ M = b' :: r' → isSpace b' = false := by
      intro b' r' e; rw [hb] at e; injection e with e _; subst e; exact hcs
    obtain ⟨w, hw⟩ := multispace0_layout lead he.leadOk (body ++ M) hZ
    have hs : tySep (44 :: (printLayout lead ++ body ++ M)) = .ok (printLayout (dropWs lead) ++ (body ++ M)) w := by
      rw [List.append_assoc]
      exact preceded_of (tag_one 44 _) hw
    have hp := he.parses (dropWs lead) (dropWs_ok lead he.leadOk) dropWs_nil_of M hM.1
    have hl : M.length < (44 :: (printLayout lead ++ body ++ M)).length := by simp; omega
    rw [Src.sepLoop_step hs hp hl]
    exact hM.2 f _ (by simp at hf ⊢; omega)

theorem optSep_fin (tr : Option Bytes) (ht : trailingOk tr = true) (c : UInt8) (rest : Bytes) (hc : c = 41 ∨ c = 62) :
    ∃ o, opt tySep (printTrailing tr ++ c :: rest) = .ok (c :: rest) o := by
  cases tr with
  | none => exact ⟨none, opt_err (tySep_stop c rest (by rcases hc with rfl | rfl <;> decide))⟩
  | some ws =>
    exact ⟨some ws, opt_of (tySep_ok ws (c :: rest) ht (fun b r e => by
      injection e with e _; subst e; rcases hc with rfl | rfl <;> decide))⟩

/-- **a non-empty type list** -/
theorem commaTypes_cons (k : Nat) (lead : List Item) (body M : Bytes) (tr : Option Bytes) (c : UInt8) (rest : Bytes)
    (he : ElemParses k lead body) (ht : trailingOk tr = true) (hc : c = 41 ∨ c = 62)
    (hM : LoopOk k M (printTrailing tr ++ c :: rest)) :
    commaTypeExpressions (k + 1) (printLayout lead ++ body ++ M) = .ok (c :: rest) () := by
  rw [commaTypeExpressions_eq]
  have h0 := he.parses lead he.leadOk (fun h => h) M hM.1
  obtain ⟨vs, hvs⟩ := hM.2 (M.length + 1) [()] (Nat.lt_succ_self _)
  have hl : sepList0 tySep (elemP k) (printLayout lead ++ body ++ M) = .ok (printTrailing tr ++ c :: rest) vs := by
    rw [List.append_assoc]
    simp only [sepList0, h0]
    exact hvs
  obtain ⟨o, ho⟩ := optSep_fin tr ht c rest hc
  exact value_of () (terminated_of hl ho)

/-- **the empty type list** (possibly with a lone comma) -/
theorem commaTypes_nil (k : Nat) (tr : Option Bytes) (c : UInt8) (rest : Bytes)
    (ht : trailingOk tr = true) (hc : c = 41 ∨ c = 62) :
    commaTypeExpressions (k + 2) (printTrailing tr ++ c :: rest) = .ok (c :: rest) () := by
  rw [commaTypeExpressions_eq]
  have hfail : ∃ e, elemP (k + 1) (printTrailing tr ++ c :: rest) = .err e := by
    cases tr with
    | none => exact elemP_close k c rest (.inr hc)
    | some ws => exact elemP_close k 44 _ (.inl rfl)
  obtain ⟨e, he⟩ := hfail
  obtain ⟨o, ho⟩ := optSep_fin tr ht c rest hc
  exact value_of () (terminated_of (CallL.sepList0_none tySep _ _ he) ho)

end Ructe.Hdr
