import RucteModel.RustLit

/-! Lemma library: the literal decoders (`litRun`, `litStep`) invert the encoders. -/
namespace Ructe
open Nom

deriving instance DecidableEq for DS

/-- running the decoder over a concatenation -/
theorem litRun_append (bm : Bool) (s : DS) (a b : Bytes) :
    litRun bm s (a ++ b) = (litRun bm s a).bind (fun s' => litRun bm s' b) := by
  induction a generalizing s with
  | nil => simp [litRun]
  | cons c a ih =>
    simp only [List.cons_append, litRun]
    cases litStep bm s c with
    | none => simp
    | some s' => simp [ih]

/-! ## Frame property: the decoder never inspects what it has already output -/

/-- append `o` below the output accumulated so far -/
def DS.app (s : DS) (o : Bytes) : DS := ⟨s.st, s.outRev ++ o⟩

theorem litStep_frame (bm : Bool) (st : LSt) (o o' : Bytes) (c : UInt8) :
    litStep bm ⟨st, o ++ o'⟩ c = (litStep bm ⟨st, o⟩ c).map (·.app o') := by
  cases st <;> simp only [litStep, stepNormal, DS.push, DS.pushAll, DS.app] <;>
    (repeat' split) <;> simp_all

theorem litRun_frame (bm : Bool) (st : LSt) (o o' : Bytes) (bs : Bytes) :
    litRun bm ⟨st, o ++ o'⟩ bs = (litRun bm ⟨st, o⟩ bs).map (·.app o') := by
  induction bs generalizing st o with
  | nil => simp [litRun, DS.app]
  | cons c r ih =>
    simp only [litRun, litStep_frame]
    cases litStep bm ⟨st, o⟩ c with
    | none => simp
    | some s' =>
      obtain ⟨st', o1⟩ := s'
      simp only [Option.map_some, DS.app]
      exact ih st' o1

theorem litRun_frame_nil (bm : Bool) (st : LSt) (o' : Bytes) (bs : Bytes) :
    litRun bm ⟨st, o'⟩ bs = (litRun bm ⟨st, []⟩ bs).map (·.app o') := by
  simpa using litRun_frame bm st [] o' bs

/-! ## Byte strings -/

theorem escapeDefault_run_nil :
    ∀ n, n < 256 → litRun true ⟨.normal, []⟩ (escapeDefault n.toUInt8) = some ⟨.normal, [n.toUInt8]⟩ := by
  decide +kernel

theorem escapeDefault_run (b : UInt8) (o : Bytes) :
    litRun true ⟨.normal, o⟩ (escapeDefault b) = some ⟨.normal, b :: o⟩ := by
  rw [litRun_frame_nil]
  have := escapeDefault_run_nil b.toNat b.toNat_lt
  have e : b.toNat.toUInt8 = b := UInt8.ofNat_toNat
  rw [e] at this
  rw [this]; rfl

theorem escapeAscii_run (d : Bytes) (o : Bytes) :
    litRun true ⟨.normal, o⟩ (escapeAscii d) = some ⟨.normal, d.reverse ++ o⟩ := by
  induction d generalizing o with
  | nil => simp [escapeAscii, litRun]
  | cons b r ih =>
    have : escapeAscii (b :: r) = escapeDefault b ++ escapeAscii r := by simp [escapeAscii]
    rw [this, litRun_append, escapeDefault_run]
    simp [ih]

theorem decodeByteStrLit_escapeAscii (d : Bytes) :
    decodeByteStrLit ([98, 34] ++ escapeAscii d ++ [34]) = some d := by
  have h : litRun true ⟨.start, []⟩ ([34] ++ (escapeAscii d ++ [34])) = some ⟨.done, d.reverse⟩ := by
    rw [litRun_append]
    have h1 : litRun true ⟨.start, []⟩ [34] = some ⟨.normal, []⟩ := by decide
    rw [h1]; simp only [Option.bind_some]
    rw [litRun_append, escapeAscii_run]
    simp [litRun, litStep, stepNormal]
  simp only [List.cons_append, List.nil_append, decodeByteStrLit] 
  simp only [List.cons_append, List.nil_append] at h
  rw [h]; simp

/-! ## Strings: `\u{…}` escapes -/

theorem hexChar_facts : ∀ d, d < 16 → hexVal? (hexChar d) = some d ∧ hexChar d ≠ 125 := by
  decide +kernel

theorem ud_step (acc cnt d : Nat) (o : Bytes) (hd : d < 16) (hc : cnt < 6) :
    litStep false ⟨.ud acc cnt, o⟩ (hexChar d) = some ⟨.ud (acc * 16 + d) (cnt + 1), o⟩ := by
  obtain ⟨h1, h2⟩ := hexChar_facts d hd
  simp only [litStep, h1, h2, if_false]
  rw [if_neg (by omega)]

theorem ud_run (ds : List Nat) (acc cnt : Nat) (o : Bytes) (hd : ∀ d ∈ ds, d < 16)
    (hc : cnt + ds.length ≤ 6) :
    litRun false ⟨.ud acc cnt, o⟩ (ds.map hexChar) =
      some ⟨.ud (ds.foldl (fun a d => a * 16 + d) acc) (cnt + ds.length), o⟩ := by
  induction ds generalizing acc cnt with
  | nil => simp [litRun]
  | cons d r ih =>
    simp only [List.map_cons, litRun, List.foldl_cons, List.length_cons] at hc ⊢
    rw [ud_step acc cnt d o (hd d (by simp)) (by omega)]
    simp only
    rw [ih _ _ (fun x hx => hd x (by simp [hx])) (by omega)]
    congr 3; omega

theorem hexDigits_run (c : Nat) (o : Bytes) (hc : c < 0x1000000) :
    ∃ k, litRun false ⟨.ud 0 0, o⟩ (hexDigits c) = some ⟨.ud c (k + 1), o⟩ := by
  unfold hexDigits
  split
  · refine ⟨0, ?_⟩
    have := ud_run [c] 0 0 o (by simp; omega) (by simp)
    simpa using this
  split
  · refine ⟨1, ?_⟩
    have := ud_run [c / 0x10, c % 0x10] 0 0 o (by simp; omega) (by simp)
    simp only [List.map_cons, List.map_nil, List.foldl_cons, List.foldl_nil, List.length_cons, List.length_nil] at this
    rw [this]; congr 3; omega
  split
  · refine ⟨2, ?_⟩
    have := ud_run [c / 0x100, c / 0x10 % 0x10, c % 0x10] 0 0 o (by simp; omega) (by simp)
    simp only [List.map_cons, List.map_nil, List.foldl_cons, List.foldl_nil, List.length_cons, List.length_nil] at this
    rw [this]; congr 3; omega
  split
  · refine ⟨3, ?_⟩
    have := ud_run [c / 0x1000, c / 0x100 % 0x10, c / 0x10 % 0x10, c % 0x10] 0 0 o (by simp; omega) (by simp)
    simp only [List.map_cons, List.map_nil, List.foldl_cons, List.foldl_nil, List.length_cons, List.length_nil] at this
    rw [this]; congr 3; omega
  split
  · refine ⟨4, ?_⟩
    have := ud_run [c / 0x10000, c / 0x1000 % 0x10, c / 0x100 % 0x10, c / 0x10 % 0x10, c % 0x10] 0 0 o
      (by simp; omega) (by simp)
    simp only [List.map_cons, List.map_nil, List.foldl_cons, List.foldl_nil, List.length_cons, List.length_nil] at this
    rw [this]; congr 3; omega
  · refine ⟨5, ?_⟩
    have := ud_run [c / 0x100000 % 0x10, c / 0x10000 % 0x10, c / 0x1000 % 0x10, c / 0x100 % 0x10,
      c / 0x10 % 0x10, c % 0x10] 0 0 o (by simp; omega) (by simp)
    simp only [List.map_cons, List.map_nil, List.foldl_cons, List.foldl_nil, List.length_cons, List.length_nil] at this
    rw [this]; congr 3; omega

theorem isScalar_lt {c : Nat} (h : isScalar c = true) : c < 0x110000 := by
  simp [isScalar] at h; omega

/-- a `\u{h…}` escape of a scalar value decodes to its UTF-8 encoding -/
theorem uniEscape_run (c : Nat) (o : Bytes) (h : isScalar c = true) :
    litRun false ⟨.normal, o⟩ ([92, 117, 123] ++ hexDigits c ++ [125]) =
      some ⟨.normal, (utf8Enc c).reverse ++ o⟩ := by
  have h0 : litRun false ⟨.normal, o⟩ [92, 117, 123] = some ⟨.ud 0 0, o⟩ := by
    rw [litRun_frame_nil]
    have : litRun false ⟨.normal, []⟩ [92, 117, 123] = some ⟨.ud 0 0, []⟩ := by decide
    rw [this]; rfl
  obtain ⟨k, hk⟩ := hexDigits_run c o (by have := isScalar_lt h; omega)
  rw [List.append_assoc, litRun_append, h0]
  simp only [Option.bind_some]
  rw [litRun_append, hk]
  simp [litRun, litStep, h, DS.pushAll]

/-! ## Strings: raw bytes and the per-scalar lemma -/

theorem stepNormal_hi (o : Bytes) (x : UInt8) (hx : 0x80 ≤ x) :
    litStep false ⟨.normal, o⟩ x = some ⟨.normal, x :: o⟩ := by
  have h := UInt8.le_iff_toNat_le.mp hx
  have h1 : x ≠ 92 := by intro e; subst e; simp at h
  have h2 : x ≠ 34 := by intro e; subst e; simp at h
  have h3 : x ≠ 13 := by intro e; subst e; simp at h
  simp [litStep, stepNormal, h1, h2, h3, DS.push]

theorem raw_run (bs : Bytes) (o : Bytes) (h : ∀ x ∈ bs, 0x80 ≤ x) :
    litRun false ⟨.normal, o⟩ bs = some ⟨.normal, bs.reverse ++ o⟩ := by
  induction bs generalizing o with
  | nil => simp [litRun]
  | cons x r ih =>
    simp only [litRun]
    rw [stepNormal_hi o x (h x (by simp))]
    simp only
    rw [ih _ (fun y hy => h y (by simp [hy]))]
    simp

theorem debugEsc_ascii_nil :
    ∀ n, n < 128 → litRun false ⟨.normal, []⟩ (debugEsc (fun _ => false) (n, [n.toUInt8])) =
      some ⟨.normal, [n.toUInt8]⟩ := by
  decide +kernel

theorem debugEsc_ascii_ue (ue : Nat → Bool) (c : Nat) (raw : Bytes) (h : c < 0x80) :
    debugEsc ue (c, raw) = debugEsc (fun _ => false) (c, raw) := by
  simp [debugEsc, h]

theorem debugEsc_ascii_run (ue : Nat → Bool) (b : UInt8) (o : Bytes) (h : b < 0x80) :
    litRun false ⟨.normal, o⟩ (debugEsc ue (b.toNat, [b])) = some ⟨.normal, b :: o⟩ := by
  have hb : b.toNat < 128 := UInt8.lt_iff_toNat_lt.mp h
  rw [debugEsc_ascii_ue ue _ _ hb, litRun_frame_nil]
  have := debugEsc_ascii_nil b.toNat hb
  have e : b.toNat.toUInt8 = b := UInt8.ofNat_toNat
  rw [e] at this
  rw [this]; rfl

theorem debugEsc_nonascii_run (ue : Nat → Bool) (c : Nat) (raw o : Bytes) (hc : 0x80 ≤ c)
    (hs : isScalar c = true) (he : utf8Enc c = raw) (hr : ∀ x ∈ raw, 0x80 ≤ x) :
    litRun false ⟨.normal, o⟩ (debugEsc ue (c, raw)) = some ⟨.normal, raw.reverse ++ o⟩ := by
  have e : debugEsc ue (c, raw) = if ue c then [92, 117, 123] ++ hexDigits c ++ [125] else raw := by
    simp only [debugEsc]
    rw [if_neg (by omega), if_neg (by omega), if_neg (by omega), if_neg (by omega), if_neg (by omega),
      if_neg (by omega), if_neg (by omega)]
  rw [e]
  split
  · rw [uniEscape_run c o hs, he]
  · exact raw_run raw o hr

/-! ## UTF-8 decode/encode arithmetic: `utf8Enc` inverts `scalars` on well-formed sequences -/

theorem toUInt8_eq (n : Nat) (b : UInt8) (h : n = b.toNat) : n.toUInt8 = b := by
  subst h; exact UInt8.ofNat_toNat

theorem u8_eq_iff (b k : UInt8) : b = k ↔ b.toNat = k.toNat := UInt8.toNat_inj.symm

theorem enc2 (b c : UInt8)
    (hb : (decide (194 ≤ b) && decide (b ≤ 223)) = true) (hc : isCont c = true) :
    0x80 ≤ (b.toNat - 0xC0) * 64 + (c.toNat - 0x80) ∧
    isScalar ((b.toNat - 0xC0) * 64 + (c.toNat - 0x80)) = true ∧
    utf8Enc ((b.toNat - 0xC0) * 64 + (c.toNat - 0x80)) = [b, c] ∧
    ∀ x ∈ [b, c], 0x80 ≤ x := by
  simp only [Bool.and_eq_true, decide_eq_true_eq, isCont, UInt8.le_iff_toNat_le, UInt8.toNat_ofNat,
    Nat.reducePow, Nat.reduceMod] at hb hc
  refine ⟨by omega, ?_, ?_, ?_⟩
  · simp only [isScalar, Bool.or_eq_true, decide_eq_true_eq]; omega
  · simp only [utf8Enc]
    rw [if_neg (by omega), if_pos (by omega), toUInt8_eq _ b (by omega), toUInt8_eq _ c (by omega)]
  · simp only [List.mem_cons, List.not_mem_nil, or_false, UInt8.le_iff_toNat_le, UInt8.toNat_ofNat,
      Nat.reducePow, Nat.reduceMod]
    rintro x (rfl | rfl) <;> omega

theorem isCont_nat {d : UInt8} (h : isCont d = true) : 128 ≤ d.toNat ∧ d.toNat ≤ 191 := by
  simpa only [isCont, Bool.and_eq_true, decide_eq_true_eq, UInt8.le_iff_toNat_le, UInt8.toNat_ofNat,
    Nat.reducePow, Nat.reduceMod] using h

/-- the second byte of a 3- or 4-byte sequence: restricted range after the lead bytes `k1`, `k2` -/
theorem second_nat (b c k1 k2 lo hi : UInt8)
    (h : (if b = k1 then decide (lo ≤ c) && decide (c ≤ 191)
        else if b = k2 then decide (128 ≤ c) && decide (c ≤ hi) else isCont c) = true)
    (hlo : 128 ≤ lo.toNat) (hhi : hi.toNat ≤ 191) (hk : k1.toNat ≠ k2.toNat) :
    (b.toNat = k1.toNat → lo.toNat ≤ c.toNat) ∧ (b.toNat = k2.toNat → c.toNat ≤ hi.toNat) ∧
      128 ≤ c.toNat ∧ c.toNat ≤ 191 := by
  split at h
  · simp only [Bool.and_eq_true, decide_eq_true_eq, UInt8.le_iff_toNat_le, UInt8.toNat_ofNat,
      Nat.reducePow, Nat.reduceMod] at h
    subst b; omega
  · split at h
    · rename_i n1 _
      simp only [u8_eq_iff] at n1
      simp only [Bool.and_eq_true, decide_eq_true_eq, UInt8.le_iff_toNat_le, UInt8.toNat_ofNat,
        Nat.reducePow, Nat.reduceMod] at h
      subst b; omega
    · rename_i n1 n2
      simp only [u8_eq_iff] at n1 n2
      have := isCont_nat h
      omega

theorem enc3 (b c d : UInt8)
    (hb : (decide (224 ≤ b) && decide (b ≤ 239)) = true)
    (h : ((if b = 224 then decide (160 ≤ c) && decide (c ≤ 191)
        else if b = 237 then decide (128 ≤ c) && decide (c ≤ 159) else isCont c) && isCont d) = true) :
    0x80 ≤ (b.toNat - 0xE0) * 4096 + (c.toNat - 0x80) * 64 + (d.toNat - 0x80) ∧
    isScalar ((b.toNat - 0xE0) * 4096 + (c.toNat - 0x80) * 64 + (d.toNat - 0x80)) = true ∧
    utf8Enc ((b.toNat - 0xE0) * 4096 + (c.toNat - 0x80) * 64 + (d.toNat - 0x80)) = [b, c, d] ∧
    ∀ x ∈ [b, c, d], 0x80 ≤ x := by
  rw [Bool.and_eq_true] at h
  have hc := second_nat b c 224 237 160 159 h.1 (by decide) (by decide) (by decide)
  simp only [UInt8.toNat_ofNat, Nat.reducePow, Nat.reduceMod] at hc
  have hd := isCont_nat h.2
  clear h
  simp only [Bool.and_eq_true, decide_eq_true_eq, UInt8.le_iff_toNat_le, UInt8.toNat_ofNat,
    Nat.reducePow, Nat.reduceMod] at hb
  refine ⟨by omega, ?_, ?_, ?_⟩
  · simp only [isScalar, Bool.or_eq_true, Bool.and_eq_true, decide_eq_true_eq]; omega
  · simp only [utf8Enc]
    rw [if_neg (by omega), if_neg (by omega), if_pos (by omega),
      toUInt8_eq _ b (by omega), toUInt8_eq _ c (by omega), toUInt8_eq _ d (by omega)]
  · simp only [List.mem_cons, List.not_mem_nil, or_false, UInt8.le_iff_toNat_le, UInt8.toNat_ofNat,
      Nat.reducePow, Nat.reduceMod]
    rintro x (rfl | rfl | rfl) <;> omega

theorem enc4 (b c d e : UInt8)
    (hb : (decide (240 ≤ b) && decide (b ≤ 244)) = true)
    (h : ((if b = 240 then decide (144 ≤ c) && decide (c ≤ 191)
        else if b = 244 then decide (128 ≤ c) && decide (c ≤ 143) else isCont c) && isCont d
          && isCont e) = true) :
    0x80 ≤ (b.toNat - 0xF0) * 262144 + (c.toNat - 0x80) * 4096 + (d.toNat - 0x80) * 64 + (e.toNat - 0x80) ∧
    isScalar ((b.toNat - 0xF0) * 262144 + (c.toNat - 0x80) * 4096 + (d.toNat - 0x80) * 64 + (e.toNat - 0x80)) = true ∧
    utf8Enc ((b.toNat - 0xF0) * 262144 + (c.toNat - 0x80) * 4096 + (d.toNat - 0x80) * 64 + (e.toNat - 0x80))
      = [b, c, d, e] ∧
    ∀ x ∈ [b, c, d, e], 0x80 ≤ x := by
  rw [Bool.and_eq_true, Bool.and_eq_true] at h
  have hc := second_nat b c 240 244 144 143 h.1.1 (by decide) (by decide) (by decide)
  simp only [UInt8.toNat_ofNat, Nat.reducePow, Nat.reduceMod] at hc
  have hd := isCont_nat h.1.2
  have he := isCont_nat h.2
  clear h
  simp only [Bool.and_eq_true, decide_eq_true_eq, UInt8.le_iff_toNat_le, UInt8.toNat_ofNat,
    Nat.reducePow, Nat.reduceMod] at hb
  refine ⟨by omega, ?_, ?_, ?_⟩
  · simp only [isScalar, Bool.or_eq_true, Bool.and_eq_true, decide_eq_true_eq]; omega
  · simp only [utf8Enc]
    rw [if_neg (by omega), if_neg (by omega), if_neg (by omega),
      toUInt8_eq _ b (by omega), toUInt8_eq _ c (by omega), toUInt8_eq _ d (by omega),
      toUInt8_eq _ e (by omega)]
  · simp only [List.mem_cons, List.not_mem_nil, or_false, UInt8.le_iff_toNat_le, UInt8.toNat_ofNat,
      Nat.reducePow, Nat.reduceMod]
    rintro x (rfl | rfl | rfl | rfl) <;> omega

/-! ## Strings: the `{:?}` body decodes to the string -/

theorem scalars_1 (b : UInt8) (r : Bytes) (h : b < 0x80) :
    scalars (b :: r) = (b.toNat, [b]) :: scalars r := by
  conv => lhs; unfold scalars
  simp only [if_pos h]

theorem scalars_2 (b c : UInt8) (r : Bytes) (h1 : ¬ b < 0x80) (h2 : b < 0xE0) :
    scalars (b :: c :: r) = ((b.toNat - 0xC0) * 64 + (c.toNat - 0x80), [b, c]) :: scalars r := by
  conv => lhs; unfold scalars
  simp only [if_neg h1, if_pos h2]

theorem scalars_3 (b c d : UInt8) (r : Bytes) (h1 : ¬ b < 0x80) (h2 : ¬ b < 0xE0) (h3 : b < 0xF0) :
    scalars (b :: c :: d :: r) =
      ((b.toNat - 0xE0) * 4096 + (c.toNat - 0x80) * 64 + (d.toNat - 0x80), [b, c, d]) :: scalars r := by
  conv => lhs; unfold scalars
  simp only [if_neg h1, if_neg h2, if_pos h3]

theorem scalars_4 (b c d e : UInt8) (r : Bytes) (h1 : ¬ b < 0x80) (h2 : ¬ b < 0xE0) (h3 : ¬ b < 0xF0) :
    scalars (b :: c :: d :: e :: r) =
      ((b.toNat - 0xF0) * 262144 + (c.toNat - 0x80) * 4096 + (d.toNat - 0x80) * 64 + (e.toNat - 0x80),
        [b, c, d, e]) :: scalars r := by
  conv => lhs; unfold scalars
  simp only [if_neg h1, if_neg h2, if_neg h3]

theorem strDebugBody_run (ue : Nat → Bool) (s : Bytes) (h : validUtf8 s = true) : ∀ o,
    litRun false ⟨.normal, o⟩ (strDebugBody ue s) = some ⟨.normal, s.reverse ++ o⟩ := by
  fun_induction validUtf8 s
  case case1 => intro o; simp [strDebugBody, scalars, litRun]
  case case2 b r hb ih =>
    intro o
    have e : strDebugBody ue (b :: r) = debugEsc ue (b.toNat, [b]) ++ strDebugBody ue r := by
      simp [strDebugBody, scalars_1 b r hb]
    rw [e, litRun_append, debugEsc_ascii_run ue b o hb]
    simp [ih h]
  case case3 b hb1 hb2 c r' ih =>
    intro o
    rw [Bool.and_eq_true] at h
    obtain ⟨h1, h2, h3, h4⟩ := enc2 b c hb2 h.1
    have hlt : b < 0xE0 := by
      simp only [Bool.and_eq_true, decide_eq_true_eq, UInt8.le_iff_toNat_le, UInt8.lt_iff_toNat_lt,
        UInt8.toNat_ofNat, Nat.reducePow, Nat.reduceMod] at hb2 ⊢
      omega
    have e : strDebugBody ue (b :: c :: r') =
        debugEsc ue ((b.toNat - 0xC0) * 64 + (c.toNat - 0x80), [b, c]) ++ strDebugBody ue r' := by
      simp [strDebugBody, scalars_2 b c r' hb1 hlt]
    rw [e, litRun_append, debugEsc_nonascii_run ue _ _ o h1 h2 h3 h4]
    simp [ih h.2]
  case case4 => simp at h
  case case5 b hb1 hb2 hb3 c d r' ih =>
    intro o
    rw [Bool.and_eq_true] at h
    obtain ⟨h1, h2, h3, h4⟩ := enc3 b c d hb3 h.1
    have hge : ¬ b < 0xE0 := by
      simp only [Bool.and_eq_true, decide_eq_true_eq, UInt8.le_iff_toNat_le, UInt8.lt_iff_toNat_lt,
        UInt8.toNat_ofNat, Nat.reducePow, Nat.reduceMod] at hb3 ⊢
      omega
    have hlt : b < 0xF0 := by
      simp only [Bool.and_eq_true, decide_eq_true_eq, UInt8.le_iff_toNat_le, UInt8.lt_iff_toNat_lt,
        UInt8.toNat_ofNat, Nat.reducePow, Nat.reduceMod] at hb3 ⊢
      omega
    have e : strDebugBody ue (b :: c :: d :: r') =
        debugEsc ue ((b.toNat - 0xE0) * 4096 + (c.toNat - 0x80) * 64 + (d.toNat - 0x80), [b, c, d])
          ++ strDebugBody ue r' := by
      simp [strDebugBody, scalars_3 b c d r' hb1 hge hlt]
    rw [e, litRun_append, debugEsc_nonascii_run ue _ _ o h1 h2 h3 h4]
    simp [ih h.2]
  case case6 => simp at h
  case case7 b hb1 hb2 hb3 hb4 c d e' r' ih =>
    intro o
    rw [Bool.and_eq_true] at h
    obtain ⟨h1, h2, h3, h4⟩ := enc4 b c d e' hb4 h.1
    have hge : ¬ b < 0xE0 := by
      simp only [Bool.and_eq_true, decide_eq_true_eq, UInt8.le_iff_toNat_le, UInt8.lt_iff_toNat_lt,
        UInt8.toNat_ofNat, Nat.reducePow, Nat.reduceMod] at hb4 ⊢
      omega
    have hge2 : ¬ b < 0xF0 := by
      simp only [Bool.and_eq_true, decide_eq_true_eq, UInt8.le_iff_toNat_le, UInt8.lt_iff_toNat_lt,
        UInt8.toNat_ofNat, Nat.reducePow, Nat.reduceMod] at hb4 ⊢
      omega
    have e : strDebugBody ue (b :: c :: d :: e' :: r') =
        debugEsc ue ((b.toNat - 0xF0) * 262144 + (c.toNat - 0x80) * 4096 + (d.toNat - 0x80) * 64
          + (e'.toNat - 0x80), [b, c, d, e']) ++ strDebugBody ue r' := by
      simp [strDebugBody, scalars_4 b c d e' r' hb1 hge hge2]
    rw [e, litRun_append, debugEsc_nonascii_run ue _ _ o h1 h2 h3 h4]
    simp [ih h.2]
  case case8 => simp at h
  case case9 => simp at h

theorem decodeStrLit_strDebug (ue : Nat → Bool) (s : Bytes) (h : validUtf8 s = true) :
    decodeStrLit (strDebug ue s) = some s := by
  have hr : litRun false ⟨.start, []⟩ ([34] ++ (strDebugBody ue s ++ [34])) = some ⟨.done, s.reverse⟩ := by
    rw [litRun_append]
    have h1 : litRun false ⟨.start, []⟩ [34] = some ⟨.normal, []⟩ := by decide
    rw [h1]; simp only [Option.bind_some]
    rw [litRun_append, strDebugBody_run ue s h]
    simp [litRun, litStep, stepNormal]
  simp only [decodeStrLit, strDebug, List.append_assoc]
  rw [hr]; simp

end Ructe
