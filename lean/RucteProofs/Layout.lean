import RucteModel.Space
import RucteProofs.SfxOld

/-! Step lemmas for `many0` / `alt` / `spacelike` used by C15. -/
namespace Ructe
open Nom Nom.Old

/-! ## string constants -/

theorem str_atStar : str "@*" = [64, 42] := by decide +kernel
theorem str_star : str "*" = [42] := by decide +kernel
theorem str_at : str "@" = [64] := by decide +kernel
theorem str_starAt : str "*@" = [42, 64] := by decide +kernel

/-! ## `many0Go` step lemmas -/

theorem many0Go_err {α} {p : Parser α} {inp : Bytes} {e : Errs} (h : p inp = .err e) (n : Nat) (acc : List α) :
    many0Go p (n + 1) inp acc = .ok inp acc.reverse := by
  simp [many0Go, h]

theorem many0Go_ok {α} {p : Parser α} {inp r : Bytes} {v : α} (h : p inp = .ok r v)
    (hl : r.length < inp.length) (n : Nat) (acc : List α) :
    many0Go p (n + 1) inp acc = many0Go p n r (v :: acc) := by
  have : r.length ≠ inp.length := by omega
  simp [many0Go, h, this]

/-! ## `span` -/

theorem span_all (p : UInt8 → Bool) (b x : Bytes) (hb : b.all p = true) :
    span p (b ++ x) = (b ++ (span p x).1, (span p x).2) := by
  induction b with
  | nil => simp
  | cons c b ih =>
    simp only [List.all_cons, Bool.and_eq_true] at hb
    simp [span, hb.1, ih hb.2]

theorem span_stop (p : UInt8 → Bool) (x : Bytes) (hx : ∀ b r, x = b :: r → p b = false) :
    span p x = ([], x) := by
  cases x with
  | nil => simp [span]
  | cons b r => simp [span, hx b r rfl]

theorem span_snd_length (p : UInt8 → Bool) (x : Bytes) : (span p x).2.length ≤ x.length := by
  have h := span_append p x
  have := congrArg List.length h
  simp only [List.length_append] at this
  omega

theorem span_cons_true (p : UInt8 → Bool) (b : UInt8) (r : Bytes) (hb : p b = true) :
    span p (b :: r) = (b :: (span p r).1, (span p r).2) := by
  simp [span, hb]

theorem span_cons_false (p : UInt8 → Bool) (b : UInt8) (r : Bytes) (hb : p b = false) :
    span p (b :: r) = ([], b :: r) := by
  simp [span, hb]

/-! ## `take1` / `multispace1` -/

theorem take1_cons_true (p : UInt8 → Bool) (b : UInt8) (r : Bytes) (hb : p b = true) :
    take1 p (b :: r) = .ok (span p r).2 (b :: (span p r).1) := by
  simp [take1, span_cons_true p b r hb]

theorem take1_stop (p : UInt8 → Bool) (x : Bytes) (hx : ∀ b r, x = b :: r → p b = false) :
    take1 p x = .err [] := by
  simp [take1, span_stop p x hx]

theorem isNot_eq_take1 (s : Bytes) : isNot s = take1 (fun b => !s.contains b) := rfl

theorem isNot_cons_true (s : Bytes) (b : UInt8) (r : Bytes) (hb : s.contains b = false) :
    isNot s (b :: r) = .ok (span (fun b => !s.contains b) r).2 (b :: (span (fun b => !s.contains b) r).1) := by
  rw [isNot_eq_take1]
  exact take1_cons_true _ b r (by show (!s.contains b) = true; rw [hb]; rfl)

theorem isNot_cons_false (s : Bytes) (b : UInt8) (r : Bytes) (hb : s.contains b = true) :
    isNot s (b :: r) = .err [] := by
  rw [isNot_eq_take1]
  apply take1_stop
  intro b' r' h
  injection h with h1 h2
  subst h1
  show (!s.contains b) = false
  rw [hb]; rfl

/-! ## progress / safety of parsers

`LGood k p`: `p` never runs out of fuel, never panics, and consumes at least `k` bytes on success. -/

def LGood {α} (k : Nat) (p : Parser α) : Prop :=
  ∀ inp, match p inp with
    | .ok r _ => r.length + k ≤ inp.length
    | .err _ => True
    | .oom => False
    | .panic => False

theorem LGood.mono {α} {p : Parser α} {j k : Nat} (h : LGood k p) (hjk : j ≤ k) : LGood j p := by
  intro inp
  have := h inp
  split <;> simp_all <;> omega

theorem isPrefix_length {t inp r : Bytes} (h : isPrefix t inp = some r) : r.length + t.length = inp.length := by
  have := isPrefix_some h
  subst this
  simp; omega

theorem lgood_tag (t : Bytes) : LGood t.length (tag t) := by
  intro inp
  unfold tag
  cases h : isPrefix t inp with
  | none => simp
  | some r => simp; exact Nat.le_of_eq (isPrefix_length h)

theorem lgood_take1 (p : UInt8 → Bool) : LGood 1 (take1 p) := by
  intro inp
  unfold take1
  have h := congrArg List.length (span_append p inp)
  rcases hs : span p inp with ⟨a, r⟩
  rw [hs] at h
  cases a with
  | nil => simp
  | cons c a => simp at h ⊢; omega

theorem lgood_isNot (s : Bytes) : LGood 1 (isNot s) := by
  rw [isNot_eq_take1]; exact lgood_take1 _

theorem lgood_pmap {α β} {p : Parser α} {k : Nat} (f : α → β) (h : LGood k p) : LGood k (pmap p f) := by
  intro inp
  have := h inp
  unfold pmap
  cases hp : p inp <;> simp_all

theorem lgood_value {α β} {p : Parser α} {k : Nat} (v : β) (h : LGood k p) : LGood k (value v p) :=
  lgood_pmap _ h

theorem lgood_seq {α β} {p : Parser α} {q : Parser β} {j k : Nat} (hp : LGood j p) (hq : LGood k q) :
    LGood (j + k) (seq p q) := by
  intro inp
  have h1 := hp inp
  unfold seq
  cases hp' : p inp with
  | ok r a =>
    have h2 := hq r
    cases hq' : q r <;> simp_all
    omega
  | err e => simp
  | oom => simp_all
  | panic => simp_all

theorem lgood_preceded {α β} {p : Parser α} {q : Parser β} {j k : Nat} (hp : LGood j p) (hq : LGood k q) :
    LGood (j + k) (preceded p q) := lgood_pmap _ (lgood_seq hp hq)

theorem lgood_terminated {α β} {p : Parser α} {q : Parser β} {j k : Nat} (hp : LGood j p) (hq : LGood k q) :
    LGood (j + k) (terminated p q) := lgood_pmap _ (lgood_seq hp hq)

theorem lgood_pnot {α} {p : Parser α} {k : Nat} (hp : LGood k p) : LGood 0 (pnot p) := by
  intro inp
  have h1 := hp inp
  unfold pnot
  cases hp' : p inp <;> simp_all

theorem lgood_orElse {α} {p q : Parser α} {k : Nat} (hp : LGood k p) (hq : LGood k q) : LGood k (orElse p q) := by
  intro inp
  have h1 := hp inp
  have h2 := hq inp
  unfold orElse
  cases hp' : p inp <;> simp_all

/-- with a progressing inner parser and enough fuel, `many0Go` always succeeds -/
theorem many0Go_total {α} {p : Parser α} (hp : LGood 1 p) :
    ∀ n inp acc, inp.length < n → ∃ r vs, many0Go p n inp acc = .ok r vs ∧ r.length ≤ inp.length := by
  intro n
  induction n with
  | zero => intro inp acc h; omega
  | succ n ih =>
    intro inp acc hn
    have h1 := hp inp
    cases hp' : p inp with
    | err e => exact ⟨inp, acc.reverse, many0Go_err hp' n acc, Nat.le_refl _⟩
    | oom => simp [hp'] at h1
    | panic => simp [hp'] at h1
    | ok r v =>
      simp [hp'] at h1
      rw [many0Go_ok hp' (by omega)]
      obtain ⟨r', vs, h, hl⟩ := ih r (v :: acc) (by omega)
      exact ⟨r', vs, h, by omega⟩

theorem many0_total {α} {p : Parser α} (hp : LGood 1 p) (inp : Bytes) :
    ∃ r vs, many0 p inp = .ok r vs ∧ r.length ≤ inp.length :=
  many0Go_total hp _ inp [] (Nat.lt_succ_self _)

theorem lgood_many0 {α} {p : Parser α} (hp : LGood 1 p) : LGood 0 (many0 p) := by
  intro inp
  obtain ⟨r, vs, h, hl⟩ := many0_total hp inp
  simp [h, hl]

/-! ## the grammar of `src/spacelike.rs` with the constants evaluated -/

/-- one iteration of the loop inside a comment -/
def commentStep : Parser Unit :=
  alt [value () (isNot [42]), value () (terminated (tag [42]) (pnot (tag [64])))]

/-- one iteration of the `spacelike` loop -/
def spaceStep : Parser Unit := alt [comment, value () multispace1]

theorem commentTail_eq :
    commentTail = preceded (many0 commentStep) (value () (tag [42, 64])) := by
  simp only [commentTail, commentStep, str_star, str_at, str_starAt]

theorem comment_eq : comment = preceded (tag [64, 42]) commentTail := by
  simp only [comment, str_atStar]

theorem spacelike_eq : spacelike = value () (many0 spaceStep) := rfl

theorem lgood_commentStep : LGood 1 commentStep := by
  unfold commentStep alt alt
  exact lgood_orElse (lgood_value _ (lgood_isNot _))
    (lgood_value _ (lgood_terminated (k := 0) (lgood_tag [42]) (lgood_pnot (lgood_tag [64]))))

theorem lgood_commentTail : LGood 0 commentTail := by
  rw [commentTail_eq]
  exact lgood_preceded (j := 0) (k := 0) (lgood_many0 lgood_commentStep)
    ((lgood_value _ (lgood_tag [42, 64])).mono (Nat.zero_le _))

theorem lgood_comment : LGood 2 comment := by
  rw [comment_eq]
  exact lgood_preceded (j := 2) (k := 0) (lgood_tag [64, 42]) lgood_commentTail

theorem lgood_spaceStep : LGood 1 spaceStep := by
  unfold spaceStep alt alt
  exact lgood_orElse (lgood_comment.mono (by omega)) (lgood_value _ (lgood_take1 _))

/-! ## suffix lemmas missing from `NomSound` -/

theorem sfx_take1 (p : UInt8 → Bool) : Sfx (take1 p) := by
  intro inp r v h
  unfold take1 at h
  have hs := span_append p inp
  split at h
  · simp at h
  · next a r' hne heq =>
    injection h with h1 h2; subst h1
    rw [heq] at hs; exact ⟨a, hs⟩

theorem sfx_pnot {α} (p : Parser α) : Sfx (pnot p) := by
  intro inp r v h
  unfold pnot at h
  split at h <;> try simp at h
  exact ⟨[], by simp [h]⟩

theorem sfx_value {α β} {p : Parser α} (v : β) (hp : Sfx p) : Sfx (value v p) := sfx_pmap _ hp

theorem sfx_preceded {α β} {p : Parser α} {q : Parser β} (hp : Sfx p) (hq : Sfx q) : Sfx (preceded p q) :=
  sfx_pmap _ (sfx_seq hp hq)

theorem sfx_terminated {α β} {p : Parser α} {q : Parser β} (hp : Sfx p) (hq : Sfx q) : Sfx (terminated p q) :=
  sfx_pmap _ (sfx_seq hp hq)

theorem sfx_commentStep : Sfx commentStep := by
  unfold commentStep alt alt
  exact sfx_orElse (sfx_value _ (sfx_isNot _)) (sfx_value _ (sfx_terminated (sfx_tag _) (sfx_pnot _)))

theorem sfx_commentTail : Sfx commentTail := by
  rw [commentTail_eq]
  exact sfx_preceded (sfx_many0 sfx_commentStep) (sfx_value _ (sfx_tag _))

theorem sfx_comment : Sfx comment := by
  rw [comment_eq]
  exact sfx_preceded (sfx_tag _) sfx_commentTail

theorem sfx_spaceStep : Sfx spaceStep := by
  unfold spaceStep alt alt
  exact sfx_orElse sfx_comment (sfx_value _ (sfx_take1 _))

theorem sfx_spacelike : Sfx spacelike := by
  rw [spacelike_eq]
  exact sfx_value _ (sfx_many0 sfx_spaceStep)

/-! ## the comment loop stops exactly at the first `*@` -/

/-- bytes that `isNot "*"` accepts -/
abbrev notStar : UInt8 → Bool := fun b => ![(42 : UInt8)].contains b

theorem commentStep_star (x : Bytes) (hx : ∀ r, x ≠ 64 :: r) :
    commentStep (42 :: x) = .ok x () := by
  have h1 : isNot [42] (42 :: x) = .err [] := isNot_cons_false _ _ _ (by decide)
  cases x with
  | nil => simp [commentStep, alt, orElse, value, pmap, terminated, seq, pnot, h1, tag, isPrefix]
  | cons c r =>
    have : ¬ (64 : UInt8) = c := fun h => hx r (by rw [h])
    simp [commentStep, alt, orElse, value, pmap, terminated, seq, pnot, h1, tag, isPrefix, this]

theorem commentStep_starAt (rest : Bytes) : commentStep (42 :: 64 :: rest) = .err [] := by
  have h1 : isNot [42] (42 :: 64 :: rest) = .err [] := isNot_cons_false _ _ _ (by decide)
  simp [commentStep, alt, orElse, value, pmap, terminated, seq, pnot, h1, tag, isPrefix]

theorem commentStep_other (c : UInt8) (x : Bytes) (hc : c ≠ 42) :
    commentStep (c :: x) = .ok (span notStar x).2 () := by
  have h1 := isNot_cons_true [42] c x (by simp [hc])
  simp only [commentStep, alt, orElse, value, pmap, h1]

/-- the loop, started anywhere with enough fuel, ends at `T` -/
def CAbsorbs (T t : Bytes) : Prop :=
  ∀ n acc, t.length < n → ∃ vs, many0Go commentStep n t acc = .ok T vs

theorem noStarAt_cons_ne (c : UInt8) (r : Bytes) (hc : c ≠ 42) : noStarAt (c :: r) = noStarAt r :=
  noStarAt.eq_2 c r (fun _ h _ => hc h)

theorem noStarAt_star_ne (r : Bytes) (hr : ∀ t, r ≠ 64 :: t) : noStarAt (42 :: r) = noStarAt r :=
  noStarAt.eq_2 42 r (fun t _ h => hr t h)

theorem comment_loop (rest body : Bytes) (h : noStarAt (body ++ [42]) = true) :
    CAbsorbs (42 :: 64 :: rest) (body ++ 42 :: 64 :: rest) ∧
    CAbsorbs (42 :: 64 :: rest) (span notStar (body ++ 42 :: 64 :: rest)).2 := by
  induction body with
  | nil =>
    have hA : CAbsorbs (42 :: 64 :: rest) (42 :: 64 :: rest) := by
      intro n acc hn
      cases n with
      | zero => omega
      | succ n => exact ⟨_, many0Go_err (commentStep_starAt rest) n acc⟩
    refine ⟨hA, ?_⟩
    rw [List.nil_append, span_cons_false _ _ _ (by decide)]
    exact hA
  | cons c body ih =>
    by_cases hc : c = 42
    · subst hc
      have hne : ∀ t, body ++ [42] ≠ 64 :: t := by
        intro t ht
        simp only [List.cons_append, ht, noStarAt] at h
        exact absurd h (by decide)
      have hne' : ∀ t, body ++ 42 :: 64 :: rest ≠ 64 :: t := by
        intro t ht
        cases body with
        | nil => simp at ht
        | cons d body => simp at ht; exact hne (body ++ [42]) (by simp [ht.1])
      rw [List.cons_append, noStarAt_star_ne _ hne] at h
      obtain ⟨ih1, _⟩ := ih h
      have hA : CAbsorbs (42 :: 64 :: rest) (42 :: (body ++ 42 :: 64 :: rest)) := by
        intro n acc hn
        cases n with
        | zero => omega
        | succ n =>
          rw [many0Go_ok (commentStep_star _ hne') (by simp)]
          exact ih1 n _ (by simpa using hn)
      refine ⟨hA, ?_⟩
      rw [List.cons_append, span_cons_false _ _ _ (by decide)]
      exact hA
    · rw [List.cons_append, noStarAt_cons_ne _ _ hc] at h
      obtain ⟨_, ih2⟩ := ih h
      have hns : notStar c = true := by simp [notStar, hc]
      refine ⟨?_, ?_⟩
      · intro n acc hn
        cases n with
        | zero => omega
        | succ n =>
          have hl := span_snd_length notStar (body ++ 42 :: 64 :: rest)
          rw [List.cons_append, many0Go_ok (commentStep_other c _ hc)
            (by simp only [List.length_cons]; omega)]
          exact ih2 n _ (by simp only [List.cons_append, List.length_cons] at hn; omega)
      · rw [List.cons_append, span_cons_true _ _ _ hns]
        exact ih2

theorem commentTail_complete (body rest : Bytes) (h : noStarAt (body ++ [42]) = true) :
    commentTail (body ++ 42 :: 64 :: rest) = .ok rest () := by
  obtain ⟨vs, hvs⟩ := (comment_loop rest body h).1 _ [] (Nat.lt_succ_self _)
  have : many0 commentStep (body ++ 42 :: 64 :: rest) = .ok (42 :: 64 :: rest) vs := hvs
  simp [commentTail_eq, preceded, pmap, seq, value, this, tag, isPrefix]

theorem comment_complete' (body rest : Bytes) (h : noStarAt (body ++ [42]) = true) :
    comment (64 :: 42 :: (body ++ 42 :: 64 :: rest)) = .ok rest () := by
  have := commentTail_complete body rest h
  simp [comment_eq, preceded, pmap, seq, this, tag, isPrefix]

/-! ## the `spacelike` loop -/

theorem comment_not_at (x : Bytes) (hx : ∀ r, x ≠ 64 :: 42 :: r) : comment x = .err [] := by
  have : tag [64, 42] x = .err [] := by
    unfold tag
    cases h : isPrefix [64, 42] x with
    | none => rfl
    | some r => exact absurd (isPrefix_some h) (hx r)
  simp [comment_eq, preceded, pmap, seq, this]

theorem spaceStep_space (b : UInt8) (x : Bytes) (hb : isSpace b = true) :
    spaceStep (b :: x) = .ok (span isSpace x).2 () := by
  have h1 : comment (b :: x) = .err [] := by
    apply comment_not_at
    intro r hr
    injection hr with hr _
    subst hr
    exact absurd hb (by decide)
  simp [spaceStep, alt, orElse, h1, value, pmap, multispace1, take1_cons_true isSpace b x hb]

theorem spaceStep_comment (body x : Bytes) (h : noStarAt (body ++ [42]) = true) :
    spaceStep (64 :: 42 :: (body ++ 42 :: 64 :: x)) = .ok x () := by
  simp [spaceStep, alt, orElse, comment_complete' body x h]

theorem spaceStep_stop (x : Bytes) (h1 : ∀ b r, x = b :: r → isSpace b = false)
    (h2 : ∀ r, x ≠ 64 :: 42 :: r) : spaceStep x = .err [] := by
  simp [spaceStep, alt, orElse, comment_not_at x h2, value, pmap, multispace1, take1_stop isSpace x h1]

def SAbsorbs (T t : Bytes) : Prop :=
  ∀ n acc, t.length < n → ∃ vs, many0Go spaceStep n t acc = .ok T vs

theorem sabsorbs_stop (x : Bytes) (h1 : ∀ b r, x = b :: r → isSpace b = false)
    (h2 : ∀ r, x ≠ 64 :: 42 :: r) : SAbsorbs x x := by
  intro n acc hn
  cases n with
  | zero => omega
  | succ n => exact ⟨_, many0Go_err (spaceStep_stop x h1 h2) n acc⟩

theorem sabsorbs_comment (T body x : Bytes) (h : noStarAt (body ++ [42]) = true) (hx : SAbsorbs T x) :
    SAbsorbs T (64 :: 42 :: (body ++ 42 :: 64 :: x)) := by
  intro n acc hn
  cases n with
  | zero => omega
  | succ n =>
    rw [many0Go_ok (spaceStep_comment body x h) (by simp; omega)]
    exact hx n _ (by simp at hn; omega)

theorem sabsorbs_ws (T ws x : Bytes) (hne : ws ≠ []) (hw : ws.all isSpace = true)
    (hx : SAbsorbs T (span isSpace x).2) : SAbsorbs T (ws ++ x) := by
  intro n acc hn
  cases ws with
  | nil => exact absurd rfl hne
  | cons b ws =>
    simp only [List.all_cons, Bool.and_eq_true] at hw
    cases n with
    | zero => omega
    | succ n =>
      have hs : (span isSpace (ws ++ x)).2 = (span isSpace x).2 := by rw [span_all _ _ _ hw.2]
      have hl := span_snd_length isSpace x
      rw [List.cons_append, many0Go_ok (spaceStep_space b _ hw.1) (by rw [hs]; simp; omega), hs]
      exact hx n _ (by simp at hn; omega)

end Ructe
