import RucteModel.Exec
import RucteProofs.Html

/-! The emitted statements against every sink realise the specification rendering. -/
namespace Ructe
open Nom
open Esc (Sink IoRes Resp WSpec Benign)

/-- what `exec` guarantees w.r.t. `render`, for every sink: if the rendering is defined (`some out`)
the run is a `WSpec` for `out` (a prefix always, all of it iff `Ok`, `Ok` on benign schedules);
if the fuel ran out, the run reports an error. -/
def Realises (s : Sink) (r : Sink × IoRes) : Option Bytes → Prop
  | some out => WSpec s r out
  | none => r.2 = .err

/-- doing nothing successfully writes the empty output -/
theorem WSpec.nil (s : Sink) : WSpec s (s, .ok) [] :=
  ⟨⟨0, by simp⟩, fun _ => by simp, ⟨[], by simp⟩, fun _ => rfl⟩

theorem htmlBytes_spec (sem : Sem) (e : Bytes) (env : Env) (s : Sink) :
    WSpec s (match sem.html e env with
             | .esc ps => Esc.toHtmlDisplay ps s
             | .raw ps => Esc.toHtmlRaw ps s) (htmlBytes (sem.html e env)) := by
  cases sem.html e env with
  | esc ps => exact Esc.toHtmlDisplay_spec ps s
  | raw ps => exact Esc.toHtmlRaw_spec ps s

/-- the `?`-sequencing step shared by statement lists and loops: a first operation `r1` realising
`o1`, then (only when it returned `Ok`) a second one realising `o2` -/
theorem Realises.seq {s : Sink} {k : Sink → Sink × IoRes} :
    ∀ {r1 : Sink × IoRes} {o1 o2 : Option Bytes},
    Realises s r1 o1 → (∀ s', Realises s' (k s') o2) →
    Realises s (match r1 with
                | (s', .ok) => k s'
                | (s', .err) => (s', .err))
      (match o1 with
       | some a => match o2 with
         | some b => some (a ++ b)
         | none => none
       | none => none) := by
  intro r1 o1 o2 h1 h2
  obtain ⟨s1, res⟩ := r1
  cases o1 with
  | none =>
    have : res = .err := h1
    subst this
    rfl
  | some a =>
    have h1 : WSpec s (s1, res) a := h1
    cases res with
    | err =>
      cases o2 with
      | none => rfl
      | some b => exact WSpec.fail_extend b h1 rfl
    | ok =>
      have h2' := h2 s1
      cases o2 with
      | none => exact h2'
      | some b => exact WSpec.seq h1 rfl h2'

theorem exec_realises (sem : Sem) (prog : Prog) :
    ∀ n, (∀ st env s, Realises s (execS sem prog n st env s) (renderS sem prog n st env)) ∧
         (∀ body env s, Realises s (execL sem prog n body env s) (renderL sem prog n body env)) ∧
         (∀ body envs s, Realises s (execIter sem prog n body envs s) (renderIter sem prog n body envs)) := by
  intro n
  induction n with
  | zero =>
    refine ⟨?_, ?_, ?_⟩ <;> intros <;> simp [execS, renderS, execL, renderL, execIter, renderIter, Realises]
  | succ n ih =>
    obtain ⟨ihS, ihL, ihI⟩ := ih
    refine ⟨?_, ?_, ?_⟩
    · intro st env s
      cases st with
      | writeAll t =>
        simp only [execS, renderS]
        exact Esc.writeAllSink_wspec s t
      | toHtml e =>
        simp only [execS, renderS]
        exact htmlBytes_spec sem e env s
      | forIn pat it body =>
        simp only [execS, renderS]
        exact ihI _ _ _
      | ifElse c thn els =>
        simp only [execS, renderS]
        cases sem.cond c env with
        | some env' => exact ihL _ _ _
        | none =>
          cases els with
          | none => exact WSpec.nil s
          | elseIf st => exact ihS _ _ _
          | elseBlock b => exact ihL _ _ _
      | matchOn e arms =>
        simp only [execS, renderS]
        cases sem.arm e (arms.map (·.1)) env with
        | none => exact WSpec.nil s
        | some p =>
          obtain ⟨i, env'⟩ := p
          exact ihL _ _ _
      | call f args =>
        simp only [execS, renderS]
        split
        · exact ihL _ _ _
        · exact WSpec.nil s
        · cases prog.get f with
          | some fn => exact ihL _ _ _
          | none => exact WSpec.nil s
    · intro body env s
      cases body with
      | nil => simp only [execL, renderL]; exact WSpec.nil s
      | cons st rest =>
        simp only [execL, renderL]
        exact Realises.seq (ihS st env s) (fun s' => ihL rest env s')
    · intro body envs s
      cases envs with
      | nil => simp only [execIter, renderIter]; exact WSpec.nil s
      | cons e es =>
        simp only [execIter, renderIter]
        exact Realises.seq (ihL body e s) (fun s' => ihI body es s')

end Ructe
